import Harper.Model.LintGroup
/-! Helper lemmas and spec-side definitions for C11 / C05 (`Harper/Model/LintGroup.lean`). -/
namespace Harper.LG
set_option linter.unusedSectionVars false

theorem flatMap_congr' {α β : Type} {l : List α} {f g : α → List β} (h : ∀ a ∈ l, f a = g a) :
    l.flatMap f = l.flatMap g := by
  induction l with
  | nil => rfl
  | cons a t ih =>
    simp only [List.flatMap_cons]
    rw [h a List.mem_cons_self, ih (fun b hb => h b (List.mem_cons_of_mem _ hb))]

theorem filterNe_cons_eq {A B : Type} [DecidableEq A] (k : A) (v : B) (r : List (A × B)) :
    List.filter (fun p : A × B => !decide (p.1 = k)) ((k, v) :: r) =
      List.filter (fun p : A × B => !decide (p.1 = k)) r := by
  simp

theorem filterNe_cons_ne {A B : Type} [DecidableEq A] {k₀ k : A} (h : ¬ k₀ = k) (v : B)
    (r : List (A × B)) :
    List.filter (fun p : A × B => !decide (p.1 = k)) ((k₀, v) :: r) =
      (k₀, v) :: List.filter (fun p : A × B => !decide (p.1 = k)) r := by
  simp [h]

/-! ## Configuration algebra -/
section Config
variable {κ : Type} [DecidableEq κ]

@[simp] theorem get_nil (k : κ) : get k ([] : Cfg κ) = none := rfl

theorem get_cons (k k' : κ) (v : Option Bool) (r : Cfg κ) :
    get k ((k', v) :: r) = if k = k' then some v else get k r := rfl

theorem get_eq_none_of_not_mem {k : κ} {c : Cfg κ} (h : k ∉ keys c) : get k c = none := by
  induction c with
  | nil => rfl
  | cons p r ih =>
    obtain ⟨k', v⟩ := p
    simp only [keys, List.map_cons, List.mem_cons, not_or] at h
    rw [get_cons, if_neg h.1]
    exact ih h.2

theorem mem_keys_of_get {k : κ} {c : Cfg κ} {v : Option Bool} (h : get k c = some v) :
    k ∈ keys c := by
  apply Classical.byContradiction
  intro hn
  rw [get_eq_none_of_not_mem hn] at h
  cases h

theorem get_isSome_of_mem_keys {k : κ} {c : Cfg κ} (h : k ∈ keys c) : ∃ v, get k c = some v := by
  induction c with
  | nil => simp [keys] at h
  | cons p r ih =>
    obtain ⟨k', v⟩ := p
    rw [get_cons]
    by_cases hk : k = k'
    · exact ⟨v, by simp [hk]⟩
    · simp only [keys, List.map_cons, List.mem_cons] at h
      rcases h with h | h
      · exact absurd h hk
      · simpa [hk] using ih h

theorem get_ins (k k' : κ) (v : Option Bool) (c : Cfg κ) :
    get k' (ins k v c) = if k' = k then some v else get k' c := by
  induction c with
  | nil => simp [ins, get_cons]
  | cons p r ih =>
    obtain ⟨k₀, v₀⟩ := p
    unfold ins
    by_cases h : k = k₀
    · subst h
      simp only [if_true, get_cons]
      by_cases h' : k' = k <;> simp [h']
    · simp only [h, if_false, get_cons, ih]
      by_cases h' : k' = k
      · subst h'; simp [h]
      · simp [h']

theorem keys_ins (k : κ) (v : Option Bool) (c : Cfg κ) :
    keys (ins k v c) = if k ∈ keys c then keys c else keys c ++ [k] := by
  induction c with
  | nil => simp [ins, keys]
  | cons p r ih =>
    obtain ⟨k₀, v₀⟩ := p
    unfold ins
    by_cases h : k = k₀
    · subst h; simp [keys]
    · have ih' : List.map (·.1) (ins k v r) =
          if k ∈ List.map (·.1) r then List.map (·.1) r else List.map (·.1) r ++ [k] := ih
      simp only [h, if_false, keys, List.map_cons, List.mem_cons, false_or, ih']
      split <;> simp

theorem wf_ins {k : κ} {v : Option Bool} {c : Cfg κ} (h : Cfg.WF c) : Cfg.WF (ins k v c) := by
  unfold Cfg.WF at *
  rw [keys_ins]
  split
  · exact h
  · rename_i hn
    rw [List.nodup_append]
    refine ⟨h, by simp, ?_⟩
    intro a ha b hb
    simp only [List.mem_singleton] at hb
    subst hb
    intro hab; subst hab; exact hn ha

theorem get_unset (k k' : κ) (c : Cfg κ) :
    get k' (unset k c) = if k' = k then none else get k' c := by
  induction c with
  | nil => simp [unset]
  | cons p r ih =>
    obtain ⟨k₀, v₀⟩ := p
    unfold unset at *
    by_cases h : k₀ = k
    · subst h
      rw [filterNe_cons_eq, ih, get_cons]
      by_cases h' : k' = k₀ <;> simp [h']
    · rw [filterNe_cons_ne h, get_cons, get_cons, ih]
      by_cases h' : k' = k
      · subst h'
        have : ¬ k' = k₀ := fun e => h e.symm
        simp [this]
      · simp [h']

theorem wf_unset {k : κ} {c : Cfg κ} (h : Cfg.WF c) : Cfg.WF (unset k c) := by
  unfold Cfg.WF keys unset at *
  exact (List.filter_sublist.map _).nodup h

@[simp] theorem keys_clear (c : Cfg κ) : keys (clear c) = keys c := by
  simp [keys, clear, List.map_map, Function.comp_def]

theorem wf_clear {c : Cfg κ} (h : Cfg.WF c) : Cfg.WF (clear c) := by
  unfold Cfg.WF at *; rw [keys_clear]; exact h

theorem get_clear (k : κ) (c : Cfg κ) : get k (clear c) = (get k c).map (fun _ => none) := by
  induction c with
  | nil => rfl
  | cons p r ih =>
    obtain ⟨k₀, v₀⟩ := p
    have : clear ((k₀, v₀) :: r) = (k₀, none) :: clear r := rfl
    rw [this, get_cons, get_cons, ih]
    split <;> rfl

/-- the three-way result of looking a key up in the merged-in configuration -/
def override (o s : Option (Option Bool)) : Option (Option Bool) :=
  match o with
  | some (some b) => some (some b)
  | _ => s

theorem get_mergeInto (k : κ) (self other : Cfg κ) (hw : Cfg.WF other) :
    get k (mergeInto self other) = override (get k other) (get k self) := by
  induction other generalizing self with
  | nil => rfl
  | cons p r ih =>
    obtain ⟨k₀, v₀⟩ := p
    have hw' : Cfg.WF r := (List.nodup_cons.mp hw).2
    have hk₀ : k₀ ∉ keys r := (List.nodup_cons.mp hw).1
    cases v₀ with
    | none =>
      show get k (mergeInto self r) = _
      rw [ih self hw', get_cons]
      by_cases h : k = k₀
      · subst h; simp [get_eq_none_of_not_mem hk₀, override]
      · simp [h]
    | some b =>
      show get k (mergeInto (ins k₀ (some b) self) r) = _
      rw [ih _ hw', get_cons, get_ins]
      by_cases h : k = k₀
      · subst h; simp [get_eq_none_of_not_mem hk₀, override]
      · simp [h]

theorem wf_mergeInto {self other : Cfg κ} (h : Cfg.WF self) : Cfg.WF (mergeInto self other) := by
  induction other generalizing self with
  | nil => exact h
  | cons p r ih =>
    obtain ⟨k₀, v₀⟩ := p
    cases v₀ with
    | none => exact ih h
    | some b => exact ih (wf_ins h)

theorem isEnabled_eq_of_get {c₁ c₂ : Cfg κ} {k : κ} (h : get k c₁ = get k c₂) :
    isEnabled c₁ k = isEnabled c₂ k := by
  unfold isEnabled; rw [h]

/-- the configuration that enables exactly `r` -/
def only (r : κ) : Cfg κ := [(r, some true)]

theorem isEnabled_only (r k : κ) : isEnabled (only r) k = decide (k = r) := by
  unfold isEnabled only
  rw [get_cons]
  by_cases h : k = r <;> simp [h]

end Config

/-! ## LRU memoisation -/
section Lru
variable {K V : Type} [DecidableEq K]

/-- every cached value is what the memoised function computes for its key -/
def Lru.Inv (f : K → V) (l : Lru K V) : Prop := ∀ e ∈ l, e.2 = f e.1

theorem Lru.inv_nil (f : K → V) : Lru.Inv f [] := by intro e he; cases he

theorem Lru.inv_of_sublist {f : K → V} {l l' : Lru K V} (hs : l'.Sublist l) (h : Lru.Inv f l) :
    Lru.Inv f l' := fun e he => h e (hs.subset he)

theorem Lru.find_of_inv {f : K → V} {l : Lru K V} (h : Lru.Inv f l) {k : K} {v : V}
    (hf : Lru.find k l = some v) : v = f k := by
  induction l with
  | nil => cases hf
  | cons p r ih =>
    obtain ⟨k', v'⟩ := p
    unfold Lru.find at hf
    by_cases hk : k = k'
    · subst hk
      simp only [if_true, Option.some.injEq] at hf
      subst hf
      exact h (k, v') List.mem_cons_self
    · simp only [hk, if_false] at hf
      exact ih (fun e he => h e (List.mem_cons_of_mem _ he)) hf

theorem Lru.inv_erase {f : K → V} {l : Lru K V} (k : K) (h : Lru.Inv f l) :
    Lru.Inv f (Lru.erase k l) := Lru.inv_of_sublist List.filter_sublist h

theorem Lru.inv_put {f : K → V} {l : Lru K V} (cap : Nat) (k : K) (h : Lru.Inv f l) :
    Lru.Inv f (Lru.put cap k (f k) l) := by
  intro e he
  rcases List.mem_cons.mp he with rfl | he
  · rfl
  · exact Lru.inv_of_sublist ((List.take_sublist _ _).trans List.filter_sublist) h e he

/-- the memoised call returns the function's value and keeps the invariant -/
theorem Lru.memo_correct (f : K → V) (cap : Nat) (k : K) {l : Lru K V} (h : Lru.Inv f l) :
    (Lru.memo f cap k l).1 = f k ∧ Lru.Inv f (Lru.memo f cap k l).2 := by
  unfold Lru.memo Lru.get
  cases hf : Lru.find k l with
  | none => exact ⟨rfl, Lru.inv_put cap k h⟩
  | some v =>
    have hv : v = f k := Lru.find_of_inv h hf
    refine ⟨hv, ?_⟩
    intro e he
    rcases List.mem_cons.mp he with rfl | he
    · exact hv
    · exact Lru.inv_erase k h e he

theorem Lru.erase_length_le (k : K) (l : Lru K V) : (Lru.erase k l).length ≤ l.length :=
  List.length_filter_le _ _

theorem Lru.find_erase_lt {k : K} {l : Lru K V} {v : V} (hf : Lru.find k l = some v) :
    (Lru.erase k l).length < l.length := by
  induction l with
  | nil => cases hf
  | cons p r ih =>
    obtain ⟨k', v'⟩ := p
    unfold Lru.find at hf
    unfold Lru.erase at *
    by_cases hk : k = k'
    · subst hk
      rw [filterNe_cons_eq, List.length_cons]
      have := List.length_filter_le (fun e : K × V => !decide (e.1 = k)) r
      omega
    · have hk' : ¬ k' = k := fun e => hk e.symm
      simp only [hk, if_false] at hf
      rw [filterNe_cons_ne hk', List.length_cons, List.length_cons]
      have := ih hf
      omega

/-- the cache never holds more than `max cap 1` entries -/
theorem Lru.memo_length (f : K → V) (cap : Nat) (k : K) {l : Lru K V}
    (h : l.length ≤ max cap 1) : (Lru.memo f cap k l).2.length ≤ max cap 1 := by
  unfold Lru.memo Lru.get
  cases hf : Lru.find k l with
  | none =>
    simp only [Lru.put, List.length_cons, List.length_take]
    omega
  | some v =>
    simp only [List.length_cons]
    have := Lru.find_erase_lt hf
    omega

end Lru

/-! ## The group -/
section Lint
variable {κ δ γ : Type} [DecidableEq κ] [DecidableEq γ]

theorem runEnabled_cons {α : Type} (c : Cfg κ) (x : α) (k : κ) (f : α → List PLint)
    (r : List (κ × (α → List PLint))) :
    runEnabled c x ((k, f) :: r) =
      if isEnabled c k then f x ++ runEnabled c x r else runEnabled c x r := rfl

theorem runEnabled_congr {α : Type} {c₁ c₂ : Cfg κ} (x : α) (rs : List (κ × (α → List PLint)))
    (h : ∀ r ∈ rs, isEnabled c₁ r.1 = isEnabled c₂ r.1) :
    runEnabled c₁ x rs = runEnabled c₂ x rs := by
  induction rs with
  | nil => rfl
  | cons p r ih =>
    obtain ⟨k, f⟩ := p
    have hk := h (k, f) List.mem_cons_self
    have ih' := ih (fun q hq => h q (List.mem_cons_of_mem _ hq))
    simp only [runEnabled, hk, ih'] at *

theorem runEnabled_eq_flatMap {α : Type} (c : Cfg κ) (x : α) (rs : List (κ × (α → List PLint))) :
    runEnabled c x rs = (rs.filter (fun r => isEnabled c r.1)).flatMap (fun r => r.2 x) := by
  induction rs with
  | nil => rfl
  | cons p r ih =>
    obtain ⟨k, f⟩ := p
    unfold runEnabled
    by_cases h : isEnabled c k = true
    · simp [h, ih]
    · simp [h, ih]

theorem runEnabled_only_not_mem {α : Type} (r : κ) (x : α) (rs : List (κ × (α → List PLint)))
    (h : r ∉ rs.map (·.1)) : runEnabled (only r) x rs = [] := by
  induction rs with
  | nil => rfl
  | cons p t ih =>
    obtain ⟨k, f⟩ := p
    simp only [List.map_cons, List.mem_cons, not_or] at h
    have hk : ¬ k = r := fun e => h.1 e.symm
    simp [runEnabled, isEnabled_only, hk, ih h.2]

theorem runEnabled_only_mem {α : Type} (r : κ) (f : α → List PLint) (x : α)
    (rs : List (κ × (α → List PLint))) (hn : (rs.map (·.1)).Nodup) (hm : (r, f) ∈ rs) :
    runEnabled (only r) x rs = f x := by
  induction rs with
  | nil => cases hm
  | cons p t ih =>
    obtain ⟨k, g⟩ := p
    simp only [List.map_cons, List.nodup_cons] at hn
    by_cases hk : k = r
    · subst hk
      have hfg : g = f := by
        rcases List.mem_cons.mp hm with e | e
        · exact (Prod.mk.inj e).2.symm
        · exact absurd (List.mem_map_of_mem (f := (·.1)) e) hn.1
      simp [runEnabled, isEnabled_only, runEnabled_only_not_mem k x t hn.1, hfg]
    · have hm' : (r, f) ∈ t := by
        rcases List.mem_cons.mp hm with e | e
        · exact absurd (Prod.mk.inj e).1.symm hk
        · exact e
      simp [runEnabled, isEnabled_only, hk, ih hn.2 hm']

/-- the enabled rules' outputs, one after the other, each obtained with only that rule on -/
theorem runEnabled_combination {α : Type} (c : Cfg κ) (x : α) (rs : List (κ × (α → List PLint)))
    (hn : (rs.map (·.1)).Nodup) :
    runEnabled c x rs =
      ((rs.map (·.1)).filter (isEnabled c)).flatMap (fun r => runEnabled (only r) x rs) := by
  rw [runEnabled_eq_flatMap]
  have h1 : (rs.map (·.1)).filter (isEnabled c) = (rs.filter (fun r => isEnabled c r.1)).map (·.1) := by
    rw [List.filter_map]; rfl
  rw [h1, List.flatMap_map]
  apply flatMap_congr'
  intro p hp
  obtain ⟨k, f⟩ := p
  exact (runEnabled_only_mem k f x rs hn (List.mem_filter.mp hp).1).symm

/-- pure reading of `compute` per chunk, rebased -/
def chunkSpec (R : Rules κ δ γ) (c : Cfg κ) (chs : List (Nat × γ)) : List PLint :=
  chs.flatMap (fun ch => (compute R c ch.2).map (PLint.pushBy ch.1))

/-- what `lint` returns, cache-free -/
def lintSpec (R : Rules κ δ γ) (c : Cfg κ) (d : Doc δ γ) : List PLint :=
  runEnabled c d.whole R.doc ++ chunkSpec R c d.chunks

/-- `cache_inv`: every entry `((g, c), v)` satisfies `v = compute R c g` -/
def CacheInv (R : Rules κ δ γ) (st : Cache κ γ) : Prop :=
  Lru.Inv (fun k : γ × Cfg κ => compute R k.2 k.1) st

theorem lintChunks_spec (R : Rules κ δ γ) (cap : Nat) (c : Cfg κ) (chs : List (Nat × γ))
    {st : Cache κ γ} (h : CacheInv R st) :
    (lintChunks R cap c st chs).1 = chunkSpec R c chs ∧ CacheInv R (lintChunks R cap c st chs).2 := by
  induction chs generalizing st with
  | nil => exact ⟨rfl, h⟩
  | cons ch rest ih =>
    obtain ⟨off, g⟩ := ch
    have hm := Lru.memo_correct (fun k : γ × Cfg κ => compute R k.2 k.1) cap (g, c) h
    have ih' := ih hm.2
    unfold lintChunks
    simp only []
    refine ⟨?_, ih'.2⟩
    rw [ih'.1, hm.1]
    simp [chunkSpec]

theorem lintChunks_length (R : Rules κ δ γ) (cap : Nat) (c : Cfg κ) (chs : List (Nat × γ))
    {st : Cache κ γ} (h : st.length ≤ max cap 1) :
    (lintChunks R cap c st chs).2.length ≤ max cap 1 := by
  induction chs generalizing st with
  | nil => exact h
  | cons ch rest ih =>
    obtain ⟨off, g⟩ := ch
    unfold lintChunks
    simp only []
    exact ih (Lru.memo_length _ cap (g, c) h)

theorem lint_spec (R : Rules κ δ γ) (cap : Nat) (c : Cfg κ) (d : Doc δ γ)
    {st : Cache κ γ} (h : CacheInv R st) :
    (lint R cap st c d).1 = lintSpec R c d ∧ CacheInv R (lint R cap st c d).2 := by
  have := lintChunks_spec R cap c d.chunks h
  unfold lint lintSpec
  simp only []
  exact ⟨by rw [this.1], this.2⟩

theorem lintSpec_congr (R : Rules κ δ γ) {c₁ c₂ : Cfg κ} (d : Doc δ γ)
    (h : ∀ r ∈ R.doc.map (·.1) ++ R.pat.map (·.1), isEnabled c₁ r = isEnabled c₂ r) :
    lintSpec R c₁ d = lintSpec R c₂ d := by
  have hd : ∀ r ∈ R.doc, isEnabled c₁ r.1 = isEnabled c₂ r.1 :=
    fun r hr => h r.1 (List.mem_append_left _ (List.mem_map_of_mem hr))
  have hp : ∀ r ∈ R.pat, isEnabled c₁ r.1 = isEnabled c₂ r.1 :=
    fun r hr => h r.1 (List.mem_append_right _ (List.mem_map_of_mem hr))
  unfold lintSpec chunkSpec compute
  rw [runEnabled_congr d.whole R.doc hd]
  congr 1
  apply flatMap_congr'
  intro ch _
  rw [runEnabled_congr ch.2 R.pat hp]

/-- the group with rule `r` removed from both maps -/
def Rules.without (R : Rules κ δ γ) (r : κ) : Rules κ δ γ :=
  ⟨R.doc.filter (fun p => !decide (p.1 = r)), R.pat.filter (fun p => !decide (p.1 = r))⟩

/-- the group restricted to its whole-document rules / to its pattern rules -/
def Rules.docOnly (R : Rules κ δ γ) : Rules κ δ γ := ⟨R.doc, []⟩
def Rules.patOnly (R : Rules κ δ γ) : Rules κ δ γ := ⟨[], R.pat⟩

theorem runEnabled_without {α : Type} (c : Cfg κ) (r : κ) (x : α)
    (rs : List (κ × (α → List PLint))) (h : isEnabled c r = false) :
    runEnabled c x (rs.filter (fun p => !decide (p.1 = r))) = runEnabled c x rs := by
  induction rs with
  | nil => rfl
  | cons p t ih =>
    obtain ⟨k, f⟩ := p
    by_cases hk : k = r
    · subst hk
      rw [filterNe_cons_eq, ih]
      simp [runEnabled, h]
    · rw [filterNe_cons_ne hk]
      simp only [runEnabled, ih]

theorem runEnabled_without_sublist {α : Type} {c c' : Cfg κ} (r : κ) (x : α)
    (rs : List (κ × (α → List PLint))) (h : ∀ k, k ≠ r → isEnabled c k = isEnabled c' k) :
    (runEnabled c x (rs.filter (fun p => !decide (p.1 = r)))).Sublist (runEnabled c' x rs) := by
  induction rs with
  | nil => exact List.Sublist.refl _
  | cons p t ih =>
    obtain ⟨k, f⟩ := p
    by_cases hk : k = r
    · subst hk
      rw [filterNe_cons_eq, runEnabled_cons c']
      split
      · exact List.sublist_append_of_sublist_right ih
      · exact ih
    · rw [filterNe_cons_ne hk, runEnabled_cons c', runEnabled_cons c, h k hk]
      split
      · exact List.Sublist.append (List.Sublist.refl _) ih
      · exact ih

/-! ### Attribution: the same computation with every lint tagged by the rule that produced it -/

def runEnabledT {α : Type} (c : Cfg κ) (x : α) : List (κ × (α → List PLint)) → List (κ × PLint)
  | [] => []
  | (k, f) :: r =>
    if isEnabled c k then (f x).map (fun l => (k, l)) ++ runEnabledT c x r else runEnabledT c x r

/-- `lintSpec` with attribution -/
def lintT (R : Rules κ δ γ) (c : Cfg κ) (d : Doc δ γ) : List (κ × PLint) :=
  runEnabledT c d.whole R.doc ++
    d.chunks.flatMap (fun ch => (runEnabledT c ch.2 R.pat).map (fun p => (p.1, p.2.pushBy ch.1)))

theorem runEnabledT_untag {α : Type} (c : Cfg κ) (x : α) (rs : List (κ × (α → List PLint))) :
    (runEnabledT c x rs).map (·.2) = runEnabled c x rs := by
  induction rs with
  | nil => rfl
  | cons p t ih =>
    obtain ⟨k, f⟩ := p
    unfold runEnabledT runEnabled
    split <;> simp [ih, List.map_map, Function.comp_def]

theorem lintT_untag (R : Rules κ δ γ) (c : Cfg κ) (d : Doc δ γ) :
    (lintT R c d).map (·.2) = lintSpec R c d := by
  unfold lintT lintSpec chunkSpec compute
  rw [List.map_append, runEnabledT_untag, List.map_flatMap]
  congr 1
  apply flatMap_congr'
  intro ch _
  rw [List.map_map, ← runEnabledT_untag c ch.2 R.pat, List.map_map]
  rfl

theorem runEnabledT_filter {α : Type} {c₁ c₂ : Cfg κ} (r' : κ) (x : α)
    (rs : List (κ × (α → List PLint))) (h : isEnabled c₁ r' = isEnabled c₂ r') :
    (runEnabledT c₁ x rs).filter (fun p => p.1 = r') =
      (runEnabledT c₂ x rs).filter (fun p => p.1 = r') := by
  induction rs with
  | nil => rfl
  | cons p t ih =>
    obtain ⟨k, f⟩ := p
    unfold runEnabledT
    by_cases hk : k = r'
    · subst hk
      rw [h]
      split <;> simp [List.filter_append, ih]
    · have hnil : ∀ l : List PLint, (l.map (fun l => (k, l))).filter (fun p => p.1 = r') = [] := by
        intro l
        apply List.filter_eq_nil_iff.mpr
        intro a ha
        obtain ⟨_, _, rfl⟩ := List.mem_map.mp ha
        simp [hk]
      split <;> split <;> simp [List.filter_append, hnil, ih]

end Lint

/-! ## SpellCheck's word cache -/
section Spell
variable {ω σ : Type} [DecidableEq ω]

theorem spellLint_spec (known : ω → Bool) (suggest : ω → σ) (post : ω → σ → PLint) (cap : Nat)
    (ws : List ω) {st : Lru ω σ} (h : Lru.Inv suggest st) :
    (spellLint known suggest post cap st ws).1 =
        (ws.filter (fun w => !known w)).map (fun w => post w (suggest w)) ∧
      Lru.Inv suggest (spellLint known suggest post cap st ws).2 := by
  induction ws generalizing st with
  | nil => exact ⟨rfl, h⟩
  | cons w t ih =>
    unfold spellLint
    by_cases hk : known w = true
    · simp only [hk, if_true]
      have := ih h
      simp [hk, this.1, this.2]
    · have hm := Lru.memo_correct suggest cap w h
      have ih' := ih hm.2
      simp only [hk, Bool.false_eq_true, if_false]
      refine ⟨?_, ih'.2⟩
      simp [hk, ih'.1, hm.1]

end Spell

end Harper.LG
