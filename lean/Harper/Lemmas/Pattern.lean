import Harper.Model.Pattern
/-!
# Lemmas about the pattern framework model (`Harper/Model/Pattern.lean`)

`Contract` is the (unwritten) contract of `Pattern::matches`: the returned length never exceeds
the number of tokens handed in. Combinators preserve it; leaves have to keep it.
-/
namespace Harper.Pat

/-! ### the contract -/

mutual
/-- every arbitrary leaf (`fn f`) inside the pattern returns at most the length of its input -/
def Contract : Pat → Prop
  | .leaf _ => True
  | .fn f => ∀ toks, f toks ≤ toks.length
  | .any => True
  | .whitespace => True
  | .seq ps => ContractL ps
  | .rep p _ => Contract p
  | .either ps => ContractL ps
  | .all ps => ContractL ps
  | .invert p => Contract p
  | .consumes p => Contract p
def ContractL : PatList → Prop
  | .nil => True
  | .cons p ps => Contract p ∧ ContractL ps
end

/-- a matcher that never panics, never hangs and stays inside its slice -/
def Safe (m : List Nat → Except Panic Nat) : Prop :=
  ∀ s, ∃ n, m s = .ok n ∧ n ≤ s.length

/-- a matcher that never runs out of fuel -/
def NoHang (m : List Nat → Except Panic Nat) : Prop :=
  ∀ s, m s ≠ .error .outOfFuel

/-! ### slices, whitespace -/

theorem sliceFrom_ok {toks : List Nat} {c : Nat} (h : c ≤ toks.length) :
    sliceFrom toks c = .ok (toks.drop c) := by
  unfold sliceFrom
  rw [if_neg (by omega)]

theorem sliceFrom_oob {toks : List Nat} {c : Nat} (h : toks.length < c) :
    sliceFrom toks c = .error .sliceOOB := by
  unfold sliceFrom
  rw [if_pos h]

theorem sliceFrom_ne_outOfFuel (toks : List Nat) (c : Nat) :
    sliceFrom toks c ≠ .error .outOfFuel := by
  unfold sliceFrom
  split <;> simp

theorem wsLen_le (toks : List Nat) : wsLen toks ≤ toks.length := by
  induction toks with
  | nil => simp [wsLen]
  | cons t ts ih =>
    unfold wsLen
    split <;> simp <;> omega

/-! ### `RepeatingPattern`'s loop -/

/-- With a safe inner matcher the loop never panics, never runs out of fuel once
`fuel > len - cursor` (every iteration that continues consumes at least one token), and returns
a length inside the slice. -/
theorem repLoop_safe (m : List Nat → Except Panic Nat) (hm : Safe m) (req : Nat)
    (toks : List Nat) :
    ∀ fuel c r, c ≤ toks.length → toks.length - c < fuel →
      ∃ n, repLoop m req toks fuel c r = .ok n ∧ n ≤ toks.length := by
  intro fuel
  induction fuel with
  | zero => intro c r _ h; omega
  | succ fuel ih =>
    intro c r hc hf
    unfold repLoop
    rw [sliceFrom_ok hc]
    obtain ⟨n, hn, hle⟩ := hm (toks.drop c)
    simp only [hn]
    rw [List.length_drop] at hle
    by_cases h0 : n = 0
    · rw [if_pos h0]
      split
      · exact ⟨c, rfl, hc⟩
      · exact ⟨0, rfl, Nat.zero_le _⟩
    · rw [if_neg h0]
      exact ih (c + n) (r + 1) (by omega) (by omega)

/-- Whatever the inner matcher returns (contract or not), the loop does not hang: it returns,
or it runs into the slice panic after at most `len + 2` iterations. -/
theorem repLoop_noHang (m : List Nat → Except Panic Nat) (hm : NoHang m) (req : Nat)
    (toks : List Nat) :
    ∀ fuel c r, 0 < fuel → toks.length + 2 ≤ c + fuel →
      repLoop m req toks fuel c r ≠ .error .outOfFuel := by
  intro fuel
  induction fuel with
  | zero => intro c r h; omega
  | succ fuel ih =>
    intro c r _ hf
    unfold repLoop
    by_cases hc : c ≤ toks.length
    · rw [sliceFrom_ok hc]
      simp only []
      cases hms : m (toks.drop c) with
      | error e =>
        simp only []
        intro h
        injection h with h
        exact hm (toks.drop c) (by rw [hms, h])
      | ok n =>
        simp only []
        by_cases h0 : n = 0
        · rw [if_pos h0]; split <;> simp
        · rw [if_neg h0]
          exact ih (c + n) (r + 1) (by omega) (by omega)
    · rw [sliceFrom_oob (by omega)]
      simp

/-! ### `matches` is safe under the contract (mutual structural induction) -/

mutual
theorem matchLen_safe : (p : Pat) → Contract p → ∀ toks : List Nat,
    ∃ n, matchLen p toks = .ok n ∧ n ≤ toks.length
  | .leaf k, _, toks => by
    cases toks with
    | nil => exact ⟨0, by simp [matchLen], Nat.le_refl _⟩
    | cons t ts =>
      refine ⟨if t = k then 1 else 0, by simp [matchLen], ?_⟩
      split <;> simp
  | .fn f, h, toks => ⟨f toks, by simp [matchLen], h toks⟩
  | .any, _, toks => by
    refine ⟨if toks.isEmpty then 0 else 1, by simp [matchLen], ?_⟩
    cases toks <;> simp
  | .whitespace, _, toks => ⟨wsLen toks, by simp [matchLen], wsLen_le toks⟩
  | .seq ps, h, toks => by
    rw [matchLen]
    exact seqLoop_safe ps (by simpa [Contract] using h) toks 0 (Nat.zero_le _)
  | .rep p n, h, toks => by
    rw [matchLen]
    exact repLoop_safe (matchLen p) (matchLen_safe p (by simpa [Contract] using h)) n toks
      (toks.length + 2) 0 0 (Nat.zero_le _) (by omega)
  | .either ps, h, toks => by
    rw [matchLen]
    exact eitherLoop_safe ps (by simpa [Contract] using h) toks 0 (Nat.zero_le _)
  | .all ps, h, toks => by
    rw [matchLen]
    exact allLoop_safe ps (by simpa [Contract] using h) toks 0 (Nat.zero_le _)
  | .invert p, h, toks => by
    rw [matchLen]
    split
    · exact ⟨0, rfl, Nat.zero_le _⟩
    · rename_i hne
      obtain ⟨n, hn, _⟩ := matchLen_safe p (by simpa [Contract] using h) toks
      rw [hn]
      refine ⟨_, rfl, ?_⟩
      cases toks with
      | nil => simp at hne
      | cons t ts => split <;> simp
  | .consumes p, h, toks => by
    rw [matchLen]
    obtain ⟨n, hn, hle⟩ := matchLen_safe p (by simpa [Contract] using h) toks
    rw [hn]
    refine ⟨_, rfl, ?_⟩
    split <;> omega
theorem seqLoop_safe : (ps : PatList) → ContractL ps → ∀ (toks : List Nat) (c : Nat),
    c ≤ toks.length → ∃ n, seqLoop ps toks c = .ok n ∧ n ≤ toks.length
  | .nil, _, toks, c, hc => ⟨c, by simp [seqLoop], hc⟩
  | .cons p ps, h, toks, c, hc => by
    have h' : Contract p ∧ ContractL ps := by simpa [ContractL] using h
    rw [seqLoop, sliceFrom_ok hc]
    obtain ⟨n, hn, hle⟩ := matchLen_safe p h'.1 (toks.drop c)
    simp only [hn]
    rw [List.length_drop] at hle
    by_cases h0 : n = 0
    · rw [if_pos h0]; exact ⟨0, rfl, Nat.zero_le _⟩
    · rw [if_neg h0]
      exact seqLoop_safe ps h'.2 toks (c + n) (by omega)
theorem eitherLoop_safe : (ps : PatList) → ContractL ps → ∀ (toks : List Nat) (l : Nat),
    l ≤ toks.length → ∃ n, eitherLoop ps toks l = .ok n ∧ n ≤ toks.length
  | .nil, _, toks, l, hl => ⟨l, by simp [eitherLoop], hl⟩
  | .cons p ps, h, toks, l, hl => by
    have h' : Contract p ∧ ContractL ps := by simpa [ContractL] using h
    rw [eitherLoop]
    obtain ⟨n, hn, hle⟩ := matchLen_safe p h'.1 toks
    simp only [hn]
    exact eitherLoop_safe ps h'.2 toks _ (by split <;> omega)
theorem allLoop_safe : (ps : PatList) → ContractL ps → ∀ (toks : List Nat) (mx : Nat),
    mx ≤ toks.length → ∃ n, allLoop ps toks mx = .ok n ∧ n ≤ toks.length
  | .nil, _, toks, mx, hl => ⟨mx, by simp [allLoop], hl⟩
  | .cons p ps, h, toks, mx, hl => by
    have h' : Contract p ∧ ContractL ps := by simpa [ContractL] using h
    rw [allLoop]
    obtain ⟨n, hn, hle⟩ := matchLen_safe p h'.1 toks
    simp only [hn]
    by_cases h0 : n = 0
    · rw [if_pos h0]; exact ⟨0, rfl, Nat.zero_le _⟩
    · rw [if_neg h0]
      exact allLoop_safe ps h'.2 toks _ (by split <;> omega)
end

/-! ### no combinator can hang, contract or not -/

mutual
theorem matchLen_noHang : (p : Pat) → NoHang (matchLen p)
  | .leaf k => by intro toks; cases toks <;> simp [matchLen]
  | .fn f => by intro toks; simp [matchLen]
  | .any => by intro toks; simp [matchLen]
  | .whitespace => by intro toks; simp [matchLen]
  | .seq ps => by intro toks; rw [matchLen]; exact seqLoop_noHang ps toks 0
  | .rep p n => by
    intro toks
    rw [matchLen]
    exact repLoop_noHang (matchLen p) (matchLen_noHang p) n toks _ 0 0 (by omega) (by omega)
  | .either ps => by intro toks; rw [matchLen]; exact eitherLoop_noHang ps toks 0
  | .all ps => by intro toks; rw [matchLen]; exact allLoop_noHang ps toks 0
  | .invert p => by
    intro toks
    rw [matchLen]
    split
    · simp
    · have := matchLen_noHang p toks
      cases hm : matchLen p toks with
      | error e => simp only []; intro h; injection h with h; exact this (by rw [hm, h])
      | ok n => simp
  | .consumes p => by
    intro toks
    rw [matchLen]
    have := matchLen_noHang p toks
    cases hm : matchLen p toks with
    | error e => simp only []; intro h; injection h with h; exact this (by rw [hm, h])
    | ok n => simp
theorem seqLoop_noHang : (ps : PatList) → ∀ (toks : List Nat) (c : Nat),
    seqLoop ps toks c ≠ .error .outOfFuel
  | .nil, toks, c => by simp [seqLoop]
  | .cons p ps, toks, c => by
    rw [seqLoop]
    cases hs : sliceFrom toks c with
    | error e =>
      simp only []; intro h; injection h with h
      exact sliceFrom_ne_outOfFuel toks c (by rw [hs, h])
    | ok s =>
      simp only []
      have := matchLen_noHang p s
      cases hm : matchLen p s with
      | error e => simp only []; intro h; injection h with h; exact this (by rw [hm, h])
      | ok n =>
        simp only []
        split
        · simp
        · exact seqLoop_noHang ps toks (c + n)
theorem eitherLoop_noHang : (ps : PatList) → ∀ (toks : List Nat) (l : Nat),
    eitherLoop ps toks l ≠ .error .outOfFuel
  | .nil, toks, l => by simp [eitherLoop]
  | .cons p ps, toks, l => by
    rw [eitherLoop]
    have := matchLen_noHang p toks
    cases hm : matchLen p toks with
    | error e => simp only []; intro h; injection h with h; exact this (by rw [hm, h])
    | ok n => simp only []; exact eitherLoop_noHang ps toks _
theorem allLoop_noHang : (ps : PatList) → ∀ (toks : List Nat) (mx : Nat),
    allLoop ps toks mx ≠ .error .outOfFuel
  | .nil, toks, mx => by simp [allLoop]
  | .cons p ps, toks, mx => by
    rw [allLoop]
    have := matchLen_noHang p toks
    cases hm : matchLen p toks with
    | error e => simp only []; intro h; injection h with h; exact this (by rw [hm, h])
    | ok n =>
      simp only []
      split
      · simp
      · exact allLoop_noHang ps toks _
end

/-! ### `run_on_chunk` -/

/-- sorted by start and pairwise disjoint: each match ends before the next begins -/
def Disjoint (ms : List (Nat × Nat)) : Prop := ms.Pairwise (fun a b => a.1 + a.2 ≤ b.1)

theorem runLoop_safe (p : Pat) (hp : Contract p) (chunk : List Nat) :
    ∀ fuel c, chunk.length - c ≤ fuel →
      ∃ ms, runLoop p chunk fuel c = .ok ms ∧
        (∀ m ∈ ms, c ≤ m.1 ∧ 1 ≤ m.2 ∧ m.1 + m.2 ≤ chunk.length) ∧ Disjoint ms := by
  intro fuel
  induction fuel with
  | zero =>
    intro c h
    refine ⟨[], ?_, by simp, by simp [Disjoint]⟩
    unfold runLoop
    rw [if_pos (by omega)]
  | succ fuel ih =>
    intro c h
    unfold runLoop
    by_cases hc : c ≥ chunk.length
    · rw [if_pos hc]; exact ⟨[], rfl, by simp, by simp [Disjoint]⟩
    · rw [if_neg hc, sliceFrom_ok (by omega)]
      obtain ⟨n, hn, hle⟩ := matchLen_safe p hp (chunk.drop c)
      simp only [hn]
      rw [List.length_drop] at hle
      by_cases h0 : n = 0
      · rw [if_neg (by simpa using h0)]
        obtain ⟨ms, hms, hb, hd⟩ := ih (c + 1) (by omega)
        refine ⟨ms, hms, ?_, hd⟩
        intro m hm
        have := hb m hm
        omega
      · rw [if_pos h0, if_neg (by omega)]
        obtain ⟨ms, hms, hb, hd⟩ := ih (c + n) (by omega)
        rw [hms]
        refine ⟨(c, n) :: ms, rfl, ?_, ?_⟩
        · intro m hm
          rcases List.mem_cons.mp hm with rfl | hm
          · simp; omega
          · have := hb m hm; omega
        · unfold Disjoint
          rw [List.pairwise_cons]
          refine ⟨?_, hd⟩
          intro m hm
          have := hb m hm
          simp; omega

/-- the loop of `run_on_chunk` cannot spin: every iteration advances the cursor, so
`chunk.length - cursor` iterations are enough — for *any* pattern. -/
theorem runLoop_noHang (p : Pat) (chunk : List Nat) :
    ∀ fuel c, chunk.length - c ≤ fuel → runLoop p chunk fuel c ≠ .error .outOfFuel := by
  intro fuel
  induction fuel with
  | zero =>
    intro c h
    unfold runLoop
    rw [if_pos (by omega)]
    simp
  | succ fuel ih =>
    intro c h
    unfold runLoop
    by_cases hc : c ≥ chunk.length
    · rw [if_pos hc]; simp
    · rw [if_neg hc, sliceFrom_ok (by omega)]
      simp only []
      have := matchLen_noHang p (chunk.drop c)
      cases hm : matchLen p (chunk.drop c) with
      | error e => simp only []; intro h; injection h with h; exact this (by rw [hm, h])
      | ok n =>
        simp only []
        by_cases h0 : n = 0
        · rw [if_neg (by simpa using h0)]
          exact ih (c + 1) (by omega)
        · rw [if_pos h0]
          split
          · simp
          · have := ih (c + n) (by omega)
            cases hr : runLoop p chunk fuel (c + n) with
            | error e => simp only []; intro h; injection h with h; exact this (by rw [hr, h])
            | ok ms => simp

/-! ### `find_all_matches` -/

theorem collectMatches_safe (p : Pat) (hp : Contract p) :
    ∀ (toks : List Nat) (i : Nat),
      ∃ found, collectMatches p i toks = .ok found ∧
        (∀ m ∈ found, i ≤ m.1 ∧ 1 ≤ m.2 ∧ m.1 + m.2 ≤ i + toks.length) ∧
        found.Pairwise (fun a b => a.1 < b.1) ∧ found.length ≤ toks.length := by
  intro toks
  induction toks with
  | nil => intro i; exact ⟨[], by simp [collectMatches], by simp, by simp, by simp⟩
  | cons t ts ih =>
    intro i
    unfold collectMatches
    obtain ⟨n, hn, hle⟩ := matchLen_safe p hp (t :: ts)
    obtain ⟨rest, hr, hb, hs, hl⟩ := ih (i + 1)
    simp only [hn, hr]
    simp only [List.length_cons] at hle ⊢
    by_cases h0 : n > 0
    · rw [if_pos h0]
      refine ⟨_, rfl, ?_, ?_, by simp; omega⟩
      · intro m hm
        rcases List.mem_cons.mp hm with rfl | hm
        · simp; omega
        · have := hb m hm; omega
      · rw [List.pairwise_cons]
        refine ⟨?_, hs⟩
        intro m hm
        have := hb m hm
        simp; omega
    · rw [if_neg h0]
      refine ⟨rest, rfl, ?_, hs, by omega⟩
      intro m hm
      have := hb m hm
      omega

theorem removeIndices_sublist {α} (xs : List α) : ∀ (i : Nat) (q : List Nat),
    (removeIndices i q xs).Sublist xs := by
  induction xs with
  | nil => intro i q; cases q <;> simp [removeIndices]
  | cons x xs ih =>
    intro i q
    cases q with
    | nil => simp only [removeIndices]; exact (ih (i + 1) []).cons_cons x
    | cons r q =>
      simp only [removeIndices]
      split
      · exact (ih (i + 1) q).cons x
      · exact (ih (i + 1) (r :: q)).cons_cons x

/-- when every queued index lies after the running index, the current element is kept -/
theorem removeIndices_keep {α} (x : α) (xs : List α) (i : Nat) (q : List Nat)
    (h : ∀ r ∈ q, i < r) :
    removeIndices i q (x :: xs) = x :: removeIndices (i + 1) q xs := by
  cases q with
  | nil => simp [removeIndices]
  | cons r q =>
    have : i ≠ r := by have := h r List.mem_cons_self; omega
    simp [removeIndices, this]

theorem adjOverlapIdx_gt : ∀ (l : List (Nat × Nat)) (i : Nat), ∀ r ∈ adjOverlapIdx i l, i < r := by
  intro l
  induction l with
  | nil => intro i r h; simp [adjOverlapIdx] at h
  | cons a l ih =>
    intro i r h
    cases l with
    | nil => simp [adjOverlapIdx] at h
    | cons b rest =>
      unfold adjOverlapIdx at h
      split at h
      · rcases List.mem_cons.mp h with rfl | h
        · omega
        · have := ih (i + 1) r h; omega
      · have := ih (i + 1) r h; omega

/-- What the index queue + `remove_indices` of `find_all_matches` compute, as one recursion:
an element is dropped iff it overlaps its **predecessor in the unfiltered list** (`prev` is
updated even when the element is dropped). -/
def dropAdj (prev : Nat × Nat) : List (Nat × Nat) → List (Nat × Nat)
  | [] => []
  | b :: rest => if overlaps prev b then dropAdj b rest else b :: dropAdj b rest

theorem removeIndices_adj : ∀ (rest : List (Nat × Nat)) (a : Nat × Nat) (i : Nat),
    removeIndices (i + 1) (adjOverlapIdx i (a :: rest)) rest = dropAdj a rest := by
  intro rest
  induction rest with
  | nil => intro a i; simp [removeIndices, dropAdj]
  | cons b rest ih =>
    intro a i
    unfold adjOverlapIdx dropAdj
    by_cases ho : overlaps a b = true
    · simp only [ho, if_true, removeIndices]
      exact ih b (i + 1)
    · have ho' : overlaps a b = false := by simpa using ho
      simp only [ho', Bool.false_eq_true, if_false]
      rw [removeIndices_keep b rest (i + 1) _ (adjOverlapIdx_gt (b :: rest) (i + 1))]
      rw [ih b (i + 1)]

/-- `find_all_matches` = collect, then `dropAdj` behind the first match -/
theorem findAllMatches_eq (p : Pat) (toks : List Nat) :
    findAllMatches p toks =
      match collectMatches p 0 toks with
      | .error e => .error e
      | .ok [] => .ok []
      | .ok (a :: rest) => .ok (a :: dropAdj a rest) := by
  unfold findAllMatches
  cases collectMatches p 0 toks with
  | error e => rfl
  | ok found =>
    match found with
    | [] => simp
    | [a] => simp [dropAdj]
    | a :: b :: rest =>
      simp only [List.length_cons]
      rw [if_neg (by omega)]
      rw [removeIndices_keep a (b :: rest) 0 _ (adjOverlapIdx_gt (a :: b :: rest) 0)]
      rw [removeIndices_adj (b :: rest) a 0]

theorem dropAdj_sublist : ∀ (l : List (Nat × Nat)) (a : Nat × Nat), (dropAdj a l).Sublist l := by
  intro l
  induction l with
  | nil => intro a; simp [dropAdj]
  | cons b rest ih =>
    intro a
    unfold dropAdj
    split
    · exact (ih b).cons b
    · exact (ih b).cons_cons b

/-- If match ends are monotone in the unfiltered list (e.g. all matches have one length), every
survivor starts at or after the end of *everything* before it. -/
theorem dropAdj_disjoint : ∀ (l : List (Nat × Nat)) (a : Nat × Nat) (bound : Nat),
    a.1 + a.2 ≤ bound → a.1 + a.2 = bound →
    (a :: l).Pairwise (fun x y => x.1 < y.1) →
    (a :: l).Pairwise (fun x y => x.1 + x.2 ≤ y.1 + y.2) →
    (∀ m ∈ dropAdj a l, bound ≤ m.1) ∧ Disjoint (dropAdj a l) := by
  intro l
  induction l with
  | nil => intro a bound _ _ _ _; simp [dropAdj, Disjoint]
  | cons b rest ih =>
    intro a bound hb heq hs he
    have hs' := List.pairwise_cons.mp hs
    have he' := List.pairwise_cons.mp he
    have hab := hs'.1 b List.mem_cons_self
    have hab' := he'.1 b List.mem_cons_self
    obtain ⟨hm, hd⟩ := ih b (b.1 + b.2) (Nat.le_refl _) rfl hs'.2 he'.2
    unfold dropAdj
    by_cases ho : overlaps a b = true
    · rw [if_pos ho]
      refine ⟨?_, hd⟩
      intro m hmm
      have := hm m hmm
      omega
    · rw [if_neg ho]
      have hno : bound ≤ b.1 := by
        unfold overlaps at ho
        simp at ho
        have := ho (by omega)
        omega
      refine ⟨?_, ?_⟩
      · intro m hmm
        rcases List.mem_cons.mp hmm with rfl | hmm
        · exact hno
        · have := hm m hmm
          have hb2 : b.1 < m.1 := by
            have := (List.pairwise_cons.mp hs'.2).1 m ((dropAdj_sublist rest b).subset hmm)
            exact this
          omega
      · unfold Disjoint
        rw [List.pairwise_cons]
        exact ⟨fun m hmm => hm m hmm, hd⟩

/-! ### chunk iterators -/

theorem chunksTail_flatten (term : Nat → Bool) (toks : List Nat) :
    (chunksTail term toks).flatten = toks := by
  induction toks with
  | nil => simp [chunksTail]
  | cons t ts ih =>
    unfold chunksTail
    split
    · simp [ih]
    · split
      · rename_i h; rw [h] at ih; simp at ih; simp [ih]
      · rename_i c cs h; rw [h] at ih; simp at ih; simp [ih]

theorem chunksTail_ne (term : Nat → Bool) (toks : List Nat) :
    ∀ c ∈ chunksTail term toks, c ≠ [] := by
  induction toks with
  | nil => simp [chunksTail]
  | cons t ts ih =>
    unfold chunksTail
    split
    · intro c hc
      rcases List.mem_cons.mp hc with rfl | hc
      · simp
      · exact ih c hc
    · split
      · simp
      · rename_i c cs h
        rw [h] at ih
        intro c' hc'
        rcases List.mem_cons.mp hc' with rfl | hc'
        · simp
        · exact ih c' (List.mem_cons_of_mem _ hc')

theorem chunksTail_length (term : Nat → Bool) (toks : List Nat) :
    (chunksTail term toks).length ≤ toks.length := by
  induction toks with
  | nil => simp [chunksTail]
  | cons t ts ih =>
    unfold chunksTail
    split
    · simp; omega
    · split
      · simp
      · rename_i c cs h; rw [h] at ih; simp at ih ⊢; omega

/-- a terminator can only be the last token of a chunk -/
theorem chunksTail_inner (term : Nat → Bool) (toks : List Nat) :
    ∀ c ∈ chunksTail term toks, c.dropLast.any term = false := by
  induction toks with
  | nil => simp [chunksTail]
  | cons t ts ih =>
    unfold chunksTail
    split
    · intro c hc
      rcases List.mem_cons.mp hc with rfl | hc
      · simp
      · exact ih c hc
    · rename_i ht
      split
      · simp
      · rename_i c cs h
        have hne := chunksTail_ne term ts
        rw [h] at ih hne
        intro c' hc'
        rcases List.mem_cons.mp hc' with rfl | hc'
        · have hc0 : c ≠ [] := hne c List.mem_cons_self
          have := ih c List.mem_cons_self
          cases c with
          | nil => exact absurd rfl hc0
          | cons x xs =>
            simp only [List.dropLast_cons_cons, List.any_cons, this, Bool.or_false]
            simpa using ht
        · exact ih c' (List.mem_cons_of_mem _ hc')

/-- every chunk but the last ends in a terminator -/
theorem chunksTail_ends (term : Nat → Bool) (toks : List Nat) :
    ∀ pre c post, chunksTail term toks = pre ++ c :: post → post ≠ [] →
      ∃ t, c.getLast? = some t ∧ term t = true := by
  induction toks with
  | nil => intro pre c post h; simp [chunksTail] at h
  | cons t ts ih =>
    intro pre c post h hpost
    unfold chunksTail at h
    split at h
    · rename_i ht
      cases pre with
      | nil =>
        simp at h
        exact ⟨t, by rw [← h.1]; rfl, ht⟩
      | cons p pre =>
        simp at h
        exact ih pre c post h.2 hpost
    · split at h
      · cases pre with
        | nil => simp at h; exact absurd h.2 hpost
        | cons p pre => simp at h
      · rename_i c0 cs h0
        cases pre with
        | nil =>
          simp at h
          obtain ⟨t', ht', htt⟩ := ih [] c0 post (by rw [h0, h.2]; rfl) hpost
          refine ⟨t', ?_, htt⟩
          rw [← h.1]
          cases c0 with
          | nil => simp at ht'
          | cons x xs => rw [List.getLast?_cons_cons]; exact ht'
        | cons p pre =>
          simp at h
          exact ih (c0 :: pre) c post (by rw [h0, h.2]; rfl) hpost

/-! ### the blanket `Linter::lint` of a `PatternLinter` -/

theorem lintChunks_safe (p : Pat) (hp : Contract p) :
    ∀ (cs : List (List Nat)) (off : Nat),
      ∃ ms, lintChunks p off cs = .ok ms ∧
        (∀ m ∈ ms, off ≤ m.1 ∧ 1 ≤ m.2 ∧ m.1 + m.2 ≤ off + cs.flatten.length) ∧ Disjoint ms := by
  intro cs
  induction cs with
  | nil => intro off; exact ⟨[], by simp [lintChunks], by simp, by simp [Disjoint]⟩
  | cons c cs ih =>
    intro off
    unfold lintChunks
    obtain ⟨ms, hms, hb, hd⟩ := runLoop_safe p hp c c.length 0 (by omega)
    obtain ⟨rest, hr, hrb, hrd⟩ := ih (off + c.length)
    unfold runOnChunk
    simp only [hms, hr]
    refine ⟨_, rfl, ?_, ?_⟩
    · intro m hm
      rcases List.mem_append.mp hm with hm | hm
      · obtain ⟨m0, hm0, rfl⟩ := List.mem_map.mp hm
        have := hb m0 hm0
        simp
        omega
      · have := hrb m hm
        simp at this ⊢
        omega
    · unfold Disjoint at *
      rw [List.pairwise_append]
      refine ⟨?_, hrd, ?_⟩
      · rw [List.pairwise_map]
        exact hd.imp (by intro a b h; simp; omega)
      · intro a ha b hb'
        obtain ⟨m0, hm0, rfl⟩ := List.mem_map.mp ha
        have h1 := hb m0 hm0
        have h2 := hrb b hb'
        simp
        omega

end Harper.Pat
