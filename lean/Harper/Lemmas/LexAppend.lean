import Harper.Lemmas.Parse
/-! `lex_append`, part 1: no lexer looks past a newline that ends the first text
(`lex_number` included: its scan to the last ASCII digit of the whole remaining text is harmless
since the fix that made the accepted literal end in a digit). -/
namespace Harper

/-! # The lexers do not look past a newline that ends the first text -/

/-- laws of the Unicode class tables used: a newline is neither a letter nor alphanumeric; a
numeric character is not an ASCII letter or sign (true of Rust's tables, monitored) -/
structure ClsOK (cls : Cls) : Prop where
  nl_lingual : cls.lingual '\n' = false
  nl_alnum : cls.alnum '\n' = false
  numeric_plain : ∀ c, cls.numeric c = true → isAsciiAlpha c = false ∧ c ≠ '+' ∧ c ≠ '-'

theorem cw_stop {α} (q : α → Bool) (s : α) (hs : q s = false) (a D : List α) :
    countWhile q (a ++ s :: D) = countWhile q (a ++ [s]) := by
  induction a with
  | nil => simp [countWhile, hs]
  | cons c a ih => simp only [List.cons_append, countWhile, ih]

theorem cw_tail_zero {α} (q : α → Bool) (a D : List α) (hD : countWhile q D = 0) :
    countWhile q (a ++ D) = countWhile q a := by
  induction a with
  | nil => simpa [countWhile] using hD
  | cons c a ih => simp only [List.cons_append, countWhile, ih]

theorem lexWord_nl (cls : Cls) (hc : ClsOK cls) (a D : List Char) :
    lexWord cls (a ++ '\n' :: D) = lexWord cls (a ++ ['\n']) := by
  unfold lexWord
  rw [cw_stop _ '\n' (by simp [hc.nl_lingual]; decide) a D]

theorem lexTabs_nl (a D : List Char) : lexTabs (a ++ '\n' :: D) = lexTabs (a ++ ['\n']) := by
  unfold lexTabs
  rw [cw_stop _ '\n' (by decide) a D]

theorem lexSpaces_nl (a D : List Char) : lexSpaces (a ++ '\n' :: D) = lexSpaces (a ++ ['\n']) := by
  unfold lexSpaces
  rw [cw_stop _ '\n' (by decide) a D]

theorem lexNewlines_nl (x D : List Char) (hD : D.head? ≠ some '\n') :
    lexNewlines (x ++ D) = lexNewlines x := by
  unfold lexNewlines
  rw [cw_tail_zero _ x D]
  cases D with
  | nil => rfl
  | cons d D' =>
    simp only [List.head?_cons, ne_eq, Option.some.injEq] at hD
    simp [countWhile, hD]

theorem lexPunctuation_nl (a D : List Char) :
    lexPunctuation (a ++ '\n' :: D) = lexPunctuation (a ++ ['\n']) := by
  cases a <;> rfl

theorem pluralTail_nl (i : Nat) (a D : List Char) :
    pluralTail i (a ++ '\n' :: D) = pluralTail i (a ++ ['\n']) := by
  have h1 : isAsciiAlnum '\n' = false := by decide
  rcases a with _ | ⟨c, _ | ⟨y, a'⟩⟩
  · simp [pluralTail]
  · by_cases hc : c = 's'
    · subst hc; simp [pluralTail, h1]
    · simp [pluralTail, hc]
  · by_cases hc : c = 's'
    · subst hc; simp [pluralTail]
    · simp [pluralTail, hc]

theorem lexPluralDigit_nl (a D : List Char) :
    lexPluralDigit (a ++ '\n' :: D) = lexPluralDigit (a ++ ['\n']) := by
  have h1 : isAsciiAlnum '\n' = false := by decide
  rcases a with _ | ⟨c, a'⟩
  · simp [lexPluralDigit, h1]
  · simp only [lexPluralDigit, List.cons_append]
    split
    · rfl
    · rcases a' with _ | ⟨x, a''⟩
      · simp [pluralTail]
      · by_cases hx : x = '\''
        · subst hx
          simp only [List.cons_append]
          exact pluralTail_nl 2 a'' D
        · simp only [List.cons_append]
          have := pluralTail_nl 1 (x :: a'') D
          simp only [List.cons_append] at this
          split
          · rename_i h; injection h with h; exact absurd h hx
          · split
            · rename_i h; injection h with h; exact absurd h hx
            · exact this


theorem lexLongDecade_nl (cls : Cls) (hc : ClsOK cls) (p D : List Char) :
    lexLongDecade cls (p ++ '\n' :: D) = lexLongDecade cls (p ++ ['\n']) := by
  have h1 : isAsciiDigit '\n' = false := by decide
  have h2 : ('\n' == '1') = false := by decide
  have h3 : ('\n' == '2') = false := by decide
  have h4 : ('\n' == '0') = false := by decide
  have h5 : ('\n' == 's') = false := by decide
  rcases p with _ | ⟨a, _ | ⟨b, _ | ⟨c, _ | ⟨d, _ | ⟨e, _ | ⟨f, p'⟩⟩⟩⟩⟩⟩
  · rcases D with _ | ⟨x, _ | ⟨y, _ | ⟨z, _ | ⟨w, D'⟩⟩⟩⟩ <;> simp [lexLongDecade, h2, h3]
  · rcases D with _ | ⟨x, _ | ⟨y, _ | ⟨z, D'⟩⟩⟩ <;> simp [lexLongDecade, h1]
  · rcases D with _ | ⟨x, _ | ⟨y, D'⟩⟩ <;> simp [lexLongDecade, h1]
  · rcases D with _ | ⟨x, D'⟩ <;> simp [lexLongDecade, h4]
  · simp [lexLongDecade, h5]
  · simp [lexLongDecade, hc.nl_alnum]
  · simp [lexLongDecade]

end Harper

namespace Harper

theorem hexScan_nl (cls : Cls) (hc : ClsOK cls) (p D : List Char) :
    hexScan cls (p ++ '\n' :: D) = hexScan cls (p ++ ['\n']) := by
  have h1 : isAsciiHex '\n' = false := by decide
  induction p with
  | nil => simp [hexScan, h1, hc.nl_alnum]
  | cons c p ih => simp only [List.cons_append, hexScan, ih]

theorem take_of_le {α} (x D : List α) (k : Nat) (h : k ≤ x.length) : (x ++ D).take k = x.take k := by
  rw [List.take_append_of_le_length h]

theorem lexHexNumber_nl (cls : Cls) (hc : ClsOK cls) (p D : List Char) :
    lexHexNumber cls (p ++ '\n' :: D) = lexHexNumber cls (p ++ ['\n']) := by
  have h1 : isAsciiHex '\n' = false := by decide
  have h2 : ('\n' == '0') = false := by decide
  have h3 : ('\n' == 'x') = false := by decide
  rcases p with _ | ⟨z, _ | ⟨x, _ | ⟨c, p'⟩⟩⟩
  · rcases D with _ | ⟨x, _ | ⟨y, D'⟩⟩ <;> simp [lexHexNumber, h2]
  · rcases D with _ | ⟨x, D'⟩ <;> simp [lexHexNumber, h3]
  · simp [lexHexNumber, h1]
  · simp only [lexHexNumber, List.cons_append]
    split
    · have hs := hexScan_nl cls hc (c :: p') D
      simp only [List.cons_append] at hs
      rw [hs]
      cases hk : hexScan cls (c :: (p' ++ ['\n'])) with
      | none => rfl
      | some k =>
        simp only
        have hle := hexScan_le cls _ _ hk
        have e1 : (c :: (p' ++ '\n' :: D)).take k = (c :: (p' ++ ['\n'])).take k := by
          have := take_of_le (c :: (p' ++ ['\n'])) D k hle
          simpa using this
        rw [e1]
    · rfl

end Harper

namespace Harper

theorem regexishLoop_nl (cls : Cls) (hc : ClsOK cls) (D : List Char) : ∀ (n : Nat) (q : List Char),
    q.length ≤ n → ∀ (i fuel fuel' : Nat), q.length + 2 ≤ fuel → q.length + 2 ≤ fuel' →
    regexishLoop cls fuel' i (q ++ '\n' :: D) = regexishLoop cls fuel i (q ++ ['\n']) := by
  intro n
  induction n with
  | zero =>
    intro q hq i fuel fuel' hf hf'
    have : q = [] := by cases q <;> simp_all
    subst this
    obtain ⟨f, rfl⟩ : ∃ f, fuel = f + 1 := ⟨fuel - 1, by simp at hf; omega⟩
    obtain ⟨f', rfl⟩ : ∃ f', fuel' = f' + 1 := ⟨fuel' - 1, by simp at hf'; omega⟩
    simp [regexishLoop, hc.nl_alnum]
  | succ n ih =>
    intro q hq i fuel fuel' hf hf'
    obtain ⟨f, rfl⟩ : ∃ f, fuel = f + 1 := ⟨fuel - 1, by omega⟩
    obtain ⟨f', rfl⟩ : ∃ f', fuel' = f' + 1 := ⟨fuel' - 1, by omega⟩
    rcases q with _ | ⟨c, q1⟩
    · simp [regexishLoop, hc.nl_alnum]
    · simp only [List.length_cons] at hq hf hf'
      have ih0 := fun i => ih [] (by simp) i f f' (by simp; omega) (by simp; omega)
      simp only [List.nil_append] at ih0
      cases hca : cls.alnum c with
      | false => simp [regexishLoop, hca]
      | true =>
        rcases q1 with _ | ⟨x, q2⟩
        · simp [regexishLoop, hca, ih0]
        · simp only [List.length_cons] at hq hf hf'
          by_cases hx : x = '-'
          · subst hx
            rcases q2 with _ | ⟨d, q3⟩
            · simp [regexishLoop, hca, hc.nl_alnum]
            · cases hda : cls.alnum d with
              | false => simp [regexishLoop, hca, hda]
              | true =>
                rcases q3 with _ | ⟨y, q4⟩
                · simp [regexishLoop, hca, hda, ih0]
                · by_cases hy : y = ']'
                  · subst hy; simp [regexishLoop, hca, hda]
                  · have := ih (y :: q4) (by simp at hq ⊢; omega) (i + 3) f f' (by simp at hf ⊢; omega)
                      (by simp at hf' ⊢; omega)
                    simp only [List.cons_append] at this
                    simp [regexishLoop, hca, hda, hy, this]
          · by_cases hx2 : x = ']'
            · subst hx2; simp [regexishLoop, hca]
            · have := ih (x :: q2) (by simp at hq ⊢; omega) (i + 1) f f' (by simp at hf ⊢; omega)
                (by simp at hf' ⊢; omega)
              simp only [List.cons_append] at this
              simp [regexishLoop, hca, hx, hx2, this]

theorem lexRegexish_nl (cls : Cls) (hc : ClsOK cls) (p D : List Char) :
    lexRegexish cls (p ++ '\n' :: D) = lexRegexish cls (p ++ ['\n']) := by
  rcases p with _ | ⟨b, rest⟩
  · simp [lexRegexish]
  · by_cases hb : b = '['
    · subst hb
      simp only [lexRegexish, List.cons_append]
      rw [regexishLoop_nl cls hc D rest.length rest (Nat.le_refl _) 1 ((rest ++ ['\n']).length + 1)
        ((rest ++ '\n' :: D).length + 1) (by simp) (by simp)]
    · simp [lexRegexish, hb]

end Harper

namespace Harper

/-! ## `lex_number` does not look past a newline -/

def NumChar (c : Char) : Prop := isAsciiDigit c = true ∨ c = '.' ∨ c = 'e' ∨ c = 'E' ∨ c = '+' ∨ c = '-'

/-- all characters are number characters and the last one is a digit -/
def NumShape (s : List Char) : Prop := (∀ c ∈ s, NumChar c) ∧ ∃ d, s.getLast? = some d ∧ isAsciiDigit d = true

theorem dropDigits_split (s : List Char) :
    ∃ ds, s = ds ++ dropDigits s ∧ (∀ c ∈ ds, isAsciiDigit c = true) := by
  induction s with
  | nil => exact ⟨[], rfl, by simp⟩
  | cons c s ih =>
    simp only [dropDigits]
    split
    · obtain ⟨ds, e, h⟩ := ih
      refine ⟨c :: ds, by rw [List.cons_append, ← e], ?_⟩
      intro x hx
      rcases List.mem_cons.mp hx with rfl | hx
      · assumption
      · exact h x hx
    · exact ⟨[], rfl, by simp⟩

theorem dropDigits_nil (s : List Char) (h : dropDigits s = []) : ∀ c ∈ s, isAsciiDigit c = true := by
  obtain ⟨ds, e, hd⟩ := dropDigits_split s
  rw [h, List.append_nil] at e
  rw [e]; exact hd

theorem getLast?_digits {s : List Char} (hne : s ≠ []) (h : ∀ c ∈ s, isAsciiDigit c = true) :
    ∃ d, s.getLast? = some d ∧ isAsciiDigit d = true := by
  refine ⟨s.getLast hne, List.getLast?_eq_some_getLast hne, h _ (List.getLast_mem hne)⟩

theorem isExp_shape (t : List Char) (h : isExp t = true) : NumShape t := by
  unfold isExp at h
  match t, h with
  | e :: rest, h =>
    simp only at h
    split at h
    · rename_i he
      simp only [Bool.and_eq_true, bne_iff_ne, ne_eq, beq_iff_eq] at h
      have hE : NumChar e := by
        simp only [Bool.or_eq_true, beq_iff_eq] at he
        rcases he with rfl | rfl
        · exact Or.inr (Or.inr (Or.inl rfl))
        · exact Or.inr (Or.inr (Or.inr (Or.inl rfl)))
      -- the digits after the optional sign
      have key : ∀ r : List Char, r ≠ [] → dropDigits r = [] → ∀ pre : List Char, (∀ c ∈ pre, NumChar c) →
          NumShape (pre ++ r) := by
        intro r hne hd pre hpre
        have hdig := dropDigits_nil r hd
        obtain ⟨d, hl, hdd⟩ := getLast?_digits hne hdig
        refine ⟨?_, d, by simp [List.getLast?_append, hl], hdd⟩
        intro c hc
        rcases List.mem_append.mp hc with hc | hc
        · exact hpre c hc
        · exact Or.inl (hdig c hc)
      rcases rest with _ | ⟨c, r⟩
      · simp at h
      · by_cases hp : c = '+'
        · subst hp
          simp only at h
          have := key r h.1 h.2 [e, '+'] (by
            intro c hc; simp at hc; rcases hc with rfl | rfl
            · exact hE
            · exact Or.inr (Or.inr (Or.inr (Or.inr (Or.inl rfl)))))
          simpa using this
        · by_cases hm : c = '-'
          · subst hm
            simp only at h
            have := key r h.1 h.2 [e, '-'] (by
              intro c hc; simp at hc; rcases hc with rfl | rfl
              · exact hE
              · exact Or.inr (Or.inr (Or.inr (Or.inr (Or.inr rfl)))))
            simpa using this
          · have h' : ¬ (c :: r) = [] ∧ dropDigits (c :: r) = [] := by
              simpa [hp, hm] using h
            have := key (c :: r) h'.1 h'.2 [e] (by intro x hx; simp at hx; subst hx; exact hE)
            simpa using this
    · cases h

end Harper

namespace Harper

theorem lowerAscii_nonalpha (c : Char) (h : isAsciiAlpha c = false) : lowerAscii c = c := by
  unfold lowerAscii
  split
  · rename_i hu
    simp only [isAsciiAlpha, Bool.or_eq_false_iff] at h
    rw [hu] at h
    exact absurd h.2 (by simp)
  · rfl

theorem parsesNumber_shape (s : List Char) (hp : parsesNumber s = true) (hl : s.getLast? ≠ some '.') :
    NumShape s := by
  unfold parsesNumber at hp
  obtain ⟨ds, hsplit, hds⟩ := dropDigits_split s
  have hlen : s.length - (dropDigits s).length = ds.length := by
    have := congrArg List.length hsplit
    simp only [List.length_append] at this
    omega
  simp only [hlen] at hp
  have hdsN : ∀ c ∈ ds, NumChar c := fun c hc => Or.inl (hds c hc)
  cases hd : dropDigits s with
  | nil =>
    rw [hd] at hp hsplit
    simp only [decide_eq_true_eq] at hp
    rw [List.append_nil] at hsplit
    rw [hsplit]
    have hne : ds ≠ [] := by intro h; rw [h] at hp; simp at hp
    obtain ⟨d, h1, h2⟩ := getLast?_digits hne hds
    exact ⟨hdsN, d, h1, h2⟩
  | cons c r =>
    rw [hd] at hp hsplit
    simp only at hp
    split at hp
    · rename_i hdot
      simp only [beq_iff_eq] at hdot
      subst hdot
      simp only [Bool.and_eq_true, decide_eq_true_eq, Bool.or_eq_true, beq_iff_eq] at hp
      obtain ⟨fs, hfsplit, hfs⟩ := dropDigits_split r
      rcases hp.2 with hnil | hexp
      · -- digits '.' digits: the literal must not end in '.'
        rw [hnil, List.append_nil] at hfsplit
        have hr : ∀ x ∈ r, isAsciiDigit x = true := by rw [hfsplit]; exact hfs
        rw [hsplit] at hl ⊢
        have hne : r ≠ [] := by
          intro h; subst h
          apply hl
          simp [List.getLast?_append]
        obtain ⟨d, h1, h2⟩ := getLast?_digits hne hr
        refine ⟨?_, d, ?_, h2⟩
        · intro x hx
          simp only [List.mem_append, List.mem_cons] at hx
          rcases hx with hx | rfl | hx
          · exact hdsN x hx
          · exact Or.inr (Or.inl rfl)
          · exact Or.inl (hr x hx)
        · have : (ds ++ '.' :: r) = (ds ++ ['.']) ++ r := by simp
          rw [this, List.getLast?_append, h1]; rfl
      · obtain ⟨hall, d, h1, h2⟩ := isExp_shape _ hexp
        have hne : dropDigits r ≠ [] := by intro h; rw [h] at h1; simp at h1
        rw [hsplit, hfsplit]
        refine ⟨?_, d, ?_, h2⟩
        · intro x hx
          simp only [List.mem_append, List.mem_cons] at hx
          rcases hx with hx | rfl | hx | hx
          · exact hdsN x hx
          · exact Or.inr (Or.inl rfl)
          · exact Or.inl (hfs x hx)
          · exact hall x hx
        · have : (ds ++ '.' :: (fs ++ dropDigits r)) = (ds ++ '.' :: fs) ++ dropDigits r := by simp
          rw [this, List.getLast?_append, h1]; rfl
    · simp only [Bool.and_eq_true, decide_eq_true_eq] at hp
      obtain ⟨hall, d, h1, h2⟩ := isExp_shape _ hp.2
      rw [hsplit]
      refine ⟨?_, d, by rw [List.getLast?_append, h1]; rfl, h2⟩
      intro x hx
      rcases List.mem_append.mp hx with hx | hx
      · exact hdsN x hx
      · exact hall x hx

theorem parsesF64_shape (c : Char) (rest : List Char) (hc1 : isAsciiAlpha c = false) (hc2 : c ≠ '+')
    (hc3 : c ≠ '-') (hp : parsesF64 (c :: rest) = true) (hl : (c :: rest).getLast? ≠ some '.') :
    NumShape (c :: rest) := by
  unfold parsesF64 at hp
  have hstrip : stripSign (c :: rest) = c :: rest := by simp [stripSign, hc2, hc3]
  simp only [hstrip] at hp
  have hi : c ≠ 'i' := by intro h; subst h; simp [isAsciiAlpha] at hc1
  have hn : c ≠ 'n' := by intro h; subst h; simp [isAsciiAlpha] at hc1
  have hlow : isSpecialFloat ((c :: rest).map lowerAscii) = false := by
    simp [isSpecialFloat, lowerAscii_nonalpha c hc1, hi, hn]
  rw [hlow] at hp
  simp only [Bool.false_eq_true, if_false] at hp
  exact parsesNumber_shape _ hp hl

end Harper

namespace Harper

/-- index of the last ASCII digit, structurally -/
def ldi : List Char → Option Nat
  | [] => none
  | c :: cs =>
    match ldi cs with
    | some k => some (k + 1)
    | none => if isAsciiDigit c then some 0 else none

theorem lastDigitIdx_go_eq (cs : List Char) (i : Nat) (best : Option Nat) :
    lastDigitIdx.go i best cs = match ldi cs with
      | some k => some (i + k)
      | none => best := by
  induction cs generalizing i best with
  | nil => rfl
  | cons c cs ih =>
    simp only [lastDigitIdx.go, ih, ldi]
    cases ldi cs with
    | some k => simp; omega
    | none => cases isAsciiDigit c <;> simp

theorem lastDigitIdx_eq (l : List Char) : lastDigitIdx l = ldi l := by
  unfold lastDigitIdx
  rw [lastDigitIdx_go_eq]
  cases ldi l <;> simp

theorem ldi_append (x D : List Char) :
    ldi (x ++ D) = match ldi D with
      | some k => some (x.length + k)
      | none => ldi x := by
  induction x with
  | nil => cases h : ldi D <;> simp [h, ldi]
  | cons c x ih =>
    simp only [List.cons_append, ldi, ih, List.length_cons]
    cases ldi D with
    | some k => simp; omega
    | none => rfl

theorem ldi_none (l : List Char) (h : ldi l = none) : ∀ c ∈ l, isAsciiDigit c = false := by
  induction l with
  | nil => simp
  | cons c cs ih =>
    simp only [ldi] at h
    cases hc : ldi cs with
    | some k => simp [hc] at h
    | none =>
      simp only [hc] at h
      intro x hx
      rcases List.mem_cons.mp hx with rfl | hx
      · cases hd : isAsciiDigit x <;> simp_all
      · exact ih hc x hx

theorem ldi_some (l : List Char) (e : Nat) (h : ldi l = some e) :
    e < l.length ∧ ∀ c ∈ l.drop (e + 1), isAsciiDigit c = false := by
  induction l generalizing e with
  | nil => simp [ldi] at h
  | cons c cs ih =>
    simp only [ldi] at h
    cases hc : ldi cs with
    | some k =>
      simp only [hc, Option.some.injEq] at h
      subst h
      have := ih k hc
      exact ⟨by simp; omega, by simpa using this.2⟩
    | none =>
      simp only [hc] at h
      split at h
      · injection h with h
        subst h
        exact ⟨by simp, by simpa using ldi_none cs hc⟩
      · cases h

/-- a candidate the loop of `lex_number` skips -/
def Skipped (cand : List Char) : Prop := cand.getLast? = some '.' ∨ parsesF64 cand = false

theorem numberLoop_skip (src : List Char) (L : Nat) (h : Skipped (src.take (L + 1))) :
    numberLoop src (L + 1) = numberLoop src L := by
  simp only [numberLoop]
  rcases h with h | h
  · rw [if_pos (by simp [h])]
  · split
    · rfl
    · rw [if_neg (by simp [h])]

theorem numberLoop_skip_range (src : List Char) (L0 k : Nat)
    (h : ∀ l, L0 < l → l ≤ L0 + k → Skipped (src.take l)) :
    numberLoop src (L0 + k) = numberLoop src L0 := by
  induction k with
  | zero => rfl
  | succ k ih =>
    rw [show L0 + (k + 1) = (L0 + k) + 1 by omega, numberLoop_skip _ _ (h _ (by omega) (by omega))]
    exact ih (fun l h1 h2 => h l h1 (by omega))

theorem numberLoop_append (x D : List Char) (L : Nat) (h : L ≤ x.length) :
    numberLoop (x ++ D) L = numberLoop x L := by
  induction L with
  | zero => rfl
  | succ L ih =>
    simp only [numberLoop]
    rw [List.take_append_of_le_length h, ih (by omega)]

theorem nl_not_numChar : ¬ NumChar '\n' := by
  intro h
  rcases h with h | h | h | h | h | h <;> revert h <;> decide

/-- a candidate accepted by the loop starts with the (numeric) first character of the text, so it
has the shape of a plain number: no newline inside, a digit at the end -/
theorem accepted_shape (cls : Cls) (hc : ClsOK cls) (c : Char) (rest : List Char) (hnum : cls.numeric c = true)
    (l : Nat) (hl : 0 < l) (h : ¬ Skipped ((c :: rest).take l)) : NumShape ((c :: rest).take l) := by
  obtain ⟨l', rfl⟩ : ∃ l', l = l' + 1 := ⟨l - 1, by omega⟩
  simp only [List.take_succ_cons] at h ⊢
  have hlaw := hc.numeric_plain c hnum
  simp only [Skipped, not_or, Bool.not_eq_false] at h
  exact parsesF64_shape c _ hlaw.1 hlaw.2.1 hlaw.2.2 h.2 h.1

theorem lexNumber_nl (cls : Cls) (hc : ClsOK cls) (p D : List Char) :
    lexNumber cls (p ++ '\n' :: D) = lexNumber cls (p ++ ['\n']) := by
  have hx : p ++ '\n' :: D = (p ++ ['\n']) ++ D := by simp
  rcases p with _ | ⟨c, p'⟩
  · -- the text starts with the newline: numeric or not, there is no digit before a newline
    simp only [List.nil_append, lexNumber, lastDigitIdx_eq]
    split
    · rfl
    · rename_i hnum
      simp only [Bool.not_eq_true, Bool.not_eq_false'] at hnum
      have h1 : ldi ['\n'] = none := by decide
      rw [h1]
      cases hD : ldi ('\n' :: D) with
      | none => rfl
      | some e =>
        simp only
        have : numberLoop ('\n' :: D) (0 + (e + 1)) = numberLoop ('\n' :: D) 0 := by
          apply numberLoop_skip_range
          intro l h1 h2
          refine Classical.byContradiction fun hns => ?_
          have := accepted_shape cls hc '\n' D (by simpa using hnum) l h1 hns
          obtain ⟨l', rfl⟩ : ∃ l', l = l' + 1 := ⟨l - 1, by omega⟩
          exact nl_not_numChar (this.1 '\n' (by simp))
        rw [Nat.zero_add] at this
        rw [this]; rfl
  · simp only [List.cons_append, lexNumber]
    split
    · rfl
    · rename_i hnum
      simp only [Bool.not_eq_true, Bool.not_eq_false'] at hnum
      have hnum' : cls.numeric c = true := by simpa using hnum
      rw [lastDigitIdx_eq, lastDigitIdx_eq]
      have hxe : c :: (p' ++ '\n' :: D) = (c :: (p' ++ ['\n'])) ++ D := by simp
      rw [hxe, ldi_append]
      have hxl0 : (c :: (p' ++ ['\n'])).length = p'.length + 2 := by simp
      have hxlast0 : (c :: (p' ++ ['\n']))[p'.length + 1]? = some '\n' := by simp
      have hacc : ∀ l, 0 < l → ¬ Skipped (((c :: (p' ++ ['\n'])) ++ D).take l) →
          NumShape (((c :: (p' ++ ['\n'])) ++ D).take l) := by
        intro l hl hns
        have := accepted_shape cls hc c (p' ++ ['\n'] ++ D) hnum' l hl (by simpa using hns)
        simpa using this
      generalize c :: (p' ++ ['\n']) = x at hxl0 hxlast0 hacc ⊢
      -- beyond the last digit of `x`, every candidate of `x ++ D` is skipped
      have hskip : ∀ e0 : Nat, (∀ ch ∈ x.drop e0, isAsciiDigit ch = false) → ∀ l, e0 < l →
          Skipped ((x ++ D).take l) := by
        intro e0 hnd l hl
        refine Classical.byContradiction fun hns => ?_
        have hsh : NumShape ((x ++ D).take l) := hacc l (by omega) hns
        by_cases hle : l ≤ x.length - 1
        · -- the candidate ends inside `p`, on a non-digit
          obtain ⟨d, hd1, hd2⟩ := hsh.2
          have hmem : d ∈ x.drop e0 := by
            have hlx : l ≤ x.length := by omega
            rw [List.take_append_of_le_length hlx] at hd1
            have hl1 : l - 1 < x.length := by omega
            have : (x.take l).getLast? = some x[l - 1] := by
              rw [List.getLast?_eq_getElem?]
              simp [List.length_take, Nat.min_eq_left hlx, List.getElem?_take]
              omega
            rw [this] at hd1
            injection hd1 with hd1
            rw [← hd1]
            have : x[l - 1] = (x.drop e0)[l - 1 - e0]'(by simp; omega) := by
              simp; congr 1; omega
            rw [this]
            exact List.getElem_mem _
          rw [hnd d hmem] at hd2
          cases hd2
        · -- the candidate contains the newline
          apply nl_not_numChar
          apply hsh.1
          have hlen : x.length - 1 < l := by omega
          have : (x ++ D)[x.length - 1]? = some '\n' := by
            rw [List.getElem?_append_left (by omega), hxl0]
            exact hxlast0
          have h2 : ((x ++ D).take l)[x.length - 1]? = some '\n' := by
            rw [List.getElem?_take_of_lt hlen]; exact this
          exact List.mem_of_getElem? h2
      cases hx' : ldi x with
      | none =>
        have hnd := ldi_none x hx'
        cases hD : ldi D with
        | none => simp [hx']
        | some k =>
          simp only
          have := numberLoop_skip_range (x ++ D) 0 (x.length + k + 1)
            (fun l h1 _ => hskip 0 (by simpa using hnd) l h1)
          rw [Nat.zero_add] at this
          rw [this]; rfl
      | some e =>
        obtain ⟨he, hnd⟩ := ldi_some x e hx'
        have main : ∀ e', e ≤ e' → numberLoop (x ++ D) (e' + 1) = numberLoop x (e + 1) := by
          intro e' hee
          have := numberLoop_skip_range (x ++ D) (e + 1) (e' - e)
            (fun l h1 _ => hskip (e + 1) hnd l h1)
          rw [show e + 1 + (e' - e) = e' + 1 by omega] at this
          rw [this, numberLoop_append _ _ _ (by omega)]
        cases hD : ldi D with
        | none => simp only [hx']; rw [main e (Nat.le_refl _)]
        | some k => simp only; rw [main (x.length + k) (by omega)]

end Harper

namespace Harper

/-! ## `lex_token` and the parse loop -/

theorem runLexer_nl (cls : Cls) (hc : ClsOK cls) (ext ext' : Ext) (pos : Nat) (hext : ext' pos = ext pos)
    (p D : List Char) (hD : D.head? ≠ some '\n') (l : LexerName) :
    runLexer cls ext' pos (p ++ '\n' :: D) l = runLexer cls ext pos (p ++ ['\n']) l := by
  cases l <;> simp only [runLexer, hext]
  · exact lexRegexish_nl cls hc p D
  · exact lexPunctuation_nl p D
  · exact lexTabs_nl p D
  · exact lexSpaces_nl p D
  · have : p ++ '\n' :: D = (p ++ ['\n']) ++ D := by simp
    rw [this]; exact lexNewlines_nl _ D hD
  · exact lexPluralDigit_nl p D
  · exact lexHexNumber_nl cls hc p D
  · exact lexLongDecade_nl cls hc p D
  · exact lexNumber_nl cls hc p D
  · exact lexWord_nl cls hc p D
  · rfl

theorem lexToken_nl (cls : Cls) (hc : ClsOK cls) (ext ext' : Ext) (pos : Nat) (hext : ext' pos = ext pos)
    (p D : List Char) (hD : D.head? ≠ some '\n') :
    lexToken cls ext' pos (p ++ '\n' :: D) = lexToken cls ext pos (p ++ ['\n']) := by
  unfold lexToken
  generalize Tables.lexerOrder = ls
  induction ls with
  | nil => rfl
  | cons l ls ih => simp only [firstFound, runLexer_nl cls hc ext ext' pos hext p D hD l, ih]

/-- the result of the parse loop does not depend on the fuel once there is enough of it -/
theorem parseLoop_fuel (cls : Cls) (ext : Ext) (len : Nat) (hext : ExtOK ext len) :
    ∀ (f1 f2 cursor : Nat) (rest : List Char), cursor + rest.length = len → rest.length < f1 →
      rest.length < f2 → parseLoop cls ext f1 cursor rest = parseLoop cls ext f2 cursor rest := by
  intro f1
  induction f1 with
  | zero => intro f2 cursor rest _ h; omega
  | succ f1 ih =>
    intro f2 cursor rest hlen h1 h2
    obtain ⟨f2, rfl⟩ : ∃ g, f2 = g + 1 := ⟨f2 - 1, by omega⟩
    cases rest with
    | nil => rfl
    | cons c cs =>
      obtain ⟨k, n, hl, hn1, hn2⟩ := lexToken_progress cls ext cursor (c :: cs) len hext hlen (by simp)
      simp only [parseLoop, hl]
      have hdl : ((c :: cs).drop n).length = (c :: cs).length - n := List.length_drop
      rw [ih f2 (cursor + n) ((c :: cs).drop n) (by rw [hdl]; simp at hn2 hlen ⊢; omega)
        (by rw [hdl]; simp at h1 hn2 ⊢; omega) (by rw [hdl]; simp at h2 hn2 ⊢; omega)]

/-- a text that is empty or ends in a newline: what remains of the first text at any cursor -/
def EndsNl (x : List Char) : Prop := x = [] ∨ ∃ p, x = p ++ ['\n']

theorem EndsNl.drop {x : List Char} (h : EndsNl x) (n : Nat) : EndsNl (x.drop n) := by
  rcases h with rfl | ⟨p, rfl⟩
  · left; simp
  · by_cases hn : n ≤ p.length
    · right; exact ⟨p.drop n, by rw [List.drop_append_of_le_length hn]⟩
    · left
      apply List.drop_eq_nil_of_le
      simp; omega

theorem parseLoop_append (cls : Cls) (hc : ClsOK cls) (ext ext' : Ext) (N : Nat) (D : List Char)
    (hloc : ∀ pos, pos < N → ext' pos = ext pos) (hok : ExtOK ext N) (hok' : ExtOK ext' (N + D.length))
    (hD : D.head? ≠ some '\n') (tsD : List Tok) (fD : Nat) (hfD : D.length < fD)
    (htsD : parseLoop cls ext' fD N D = .ok tsD) :
    ∀ (fuel fuel' cursor : Nat) (x : List Char), EndsNl x → cursor + x.length = N → x.length < fuel →
      (x ++ D).length < fuel' →
      ∃ ts, parseLoop cls ext fuel cursor x = .ok ts ∧
        parseLoop cls ext' fuel' cursor (x ++ D) = .ok (ts ++ tsD) := by
  intro fuel
  induction fuel with
  | zero => intro fuel' cursor x _ _ h; omega
  | succ fuel ih =>
    intro fuel' cursor x hx hlen hf hf'
    cases x with
    | nil =>
      refine ⟨[], rfl, ?_⟩
      simp only [List.nil_append, List.length_nil, Nat.add_zero] at hlen hf' ⊢
      subst hlen
      rw [parseLoop_fuel cls ext' _ hok' fuel' fD cursor D rfl hf' hfD, htsD]
    | cons c cs =>
      obtain ⟨p, hp⟩ : ∃ p, c :: cs = p ++ ['\n'] := by
        rcases hx with h | h
        · cases h
        · exact h
      obtain ⟨fuel', rfl⟩ : ∃ g, fuel' = g + 1 := ⟨fuel' - 1, by omega⟩
      obtain ⟨k, n, hl, hn1, hn2⟩ := lexToken_progress cls ext cursor (c :: cs) N hok hlen (by simp)
      have hl' : lexToken cls ext' cursor ((c :: cs) ++ D) = some (k, n) := by
        rw [hp, show p ++ ['\n'] ++ D = p ++ '\n' :: D by simp,
          lexToken_nl cls hc ext ext' cursor (hloc cursor (by simp at hlen; omega)) p D hD, ← hp, hl]
      have hdrop : ((c :: cs) ++ D).drop n = (c :: cs).drop n ++ D := List.drop_append_of_le_length hn2
      have hdl : ((c :: cs).drop n).length = (c :: cs).length - n := List.length_drop
      obtain ⟨ts, h1, h2⟩ := ih fuel' (cursor + n) ((c :: cs).drop n) (hx.drop n)
        (by rw [hdl]; simp at hn2 hlen ⊢; omega) (by rw [hdl]; simp at hf hn2 ⊢; omega)
        (by rw [List.length_append, hdl]; simp at hf' hn2 ⊢; omega)
      refine ⟨⟨⟨cursor, cursor + n⟩, k⟩ :: ts, ?_, ?_⟩
      · simp only [parseLoop, hl, h1]
      · have : (c :: cs) ++ D = c :: (cs ++ D) := rfl
        rw [this] at hl' hdrop
        simp only [List.cons_append, parseLoop, hl', hdrop, h2]

/-- move tokens `k` characters to the right -/
def shiftToks (k : Nat) (ts : List Tok) : List Tok := ts.map fun t => ⟨⟨t.span.start + k, t.span.stop + k⟩, t.kind⟩

theorem parseLoop_shift (cls : Cls) (ext : Ext) (N : Nat) :
    ∀ (fuel c : Nat) (rest : List Char),
      parseLoop cls ext fuel (N + c) rest =
        (parseLoop cls (fun i => ext (N + i)) fuel c rest).map (shiftToks N) := by
  intro fuel
  induction fuel with
  | zero => intro c rest; rfl
  | succ fuel ih =>
    intro c rest
    cases rest with
    | nil => rfl
    | cons ch cs =>
      have hlex : lexToken cls ext (N + c) (ch :: cs) = lexToken cls (fun i => ext (N + i)) c (ch :: cs) := by
        unfold lexToken
        generalize Tables.lexerOrder = ls
        induction ls with
        | nil => rfl
        | cons l ls ihl =>
          simp only [firstFound, ihl]
          cases l <;> rfl
      simp only [parseLoop, hlex]
      cases lexToken cls (fun i => ext (N + i)) c (ch :: cs) with
      | none => rfl
      | some kn =>
        obtain ⟨k, n⟩ := kn
        simp only
        rw [show N + c + n = N + (c + n) by omega, ih]
        cases parseLoop cls (fun i => ext (N + i)) fuel (c + n) ((ch :: cs).drop n) with
        | error e => rfl
        | ok ts =>
          simp only [Except.map, shiftToks, List.map_cons]
          congr 3 <;> simp <;> omega

end Harper

namespace Harper

/-- the boundary between the two texts: the first ends in a newline, the second does not start
with one (every text with a paragraph break splits this way: cut after the run of newlines) -/
def BoundaryOK (P D : List Char) : Prop := P.getLast? = some '\n' ∧ D.head? ≠ some '\n'

instance (P D : List Char) : Decidable (BoundaryOK P D) := inferInstanceAs (Decidable (_ ∧ _))

/-- the url / e-mail / hostname lexers see only their own side of the boundary: their table for
`P ++ D` is the table for `P` followed by the table for `D` -/
def ExtLocal (extP extD extPD : Ext) (n : Nat) : Prop :=
  (∀ pos, pos < n → extPD pos = extP pos) ∧ (∀ i, extPD (n + i) = extD i)

theorem endsNl_of_getLast {P : List Char} (h : P.getLast? = some '\n') : EndsNl P := by
  right
  have hne : P ≠ [] := by intro h'; subst h'; simp at h
  refine ⟨P.dropLast, ?_⟩
  have := List.dropLast_concat_getLast hne
  rw [List.getLast?_eq_some_getLast hne] at h
  injection h with h
  rw [h] at this
  exact this.symm

theorem extOK_of_local {extP extD extPD : Ext} {n m : Nat} (h : ExtLocal extP extD extPD n)
    (hP : ExtOK extP n) (hD : ExtOK extD m) : ExtOK extPD (n + m) := by
  intro pos k len hk
  by_cases hp : pos < n
  · rw [h.1 pos hp] at hk
    have := hP pos k len hk
    omega
  · have hpos : pos = n + (pos - n) := by omega
    rw [hpos, h.2] at hk
    have := hD _ k len hk
    omega

theorem lex_append' (cls : Cls) (hc : ClsOK cls) (P D : List Char) (hb : BoundaryOK P D)
    (extP extD extPD : Ext) (hloc : ExtLocal extP extD extPD P.length)
    (hokP : ExtOK extP P.length) (hokD : ExtOK extD D.length) :
    ∃ tp td, parsePlain cls extP P = .ok tp ∧ parsePlain cls extD D = .ok td ∧
      parsePlain cls extPD (P ++ D) = .ok (tp ++ shiftToks P.length td) := by
  have hokPD := extOK_of_local hloc hokP hokD
  obtain ⟨td, htd, _, _⟩ := parseLoop_tiles cls extD D.length hokD (D.length + 1) 0 D (by omega) (by omega)
  have hfun : (fun i => extPD (P.length + i)) = extD := funext hloc.2
  have hD' : parseLoop cls extPD (D.length + 1) P.length D = .ok (shiftToks P.length td) := by
    have := parseLoop_shift cls extPD P.length (D.length + 1) 0 D
    rw [Nat.add_zero, hfun, htd] at this
    exact this
  obtain ⟨tp, h1, h2⟩ := parseLoop_append cls hc extP extPD P.length D hloc.1 hokP hokPD hb.2
    (shiftToks P.length td) (D.length + 1) (by omega) hD' (P.length + 1) ((P ++ D).length + 1) 0 P
    (endsNl_of_getLast hb.1) (by omega) (by omega) (by omega)
  exact ⟨tp, td, h1, htd, h2⟩

end Harper
