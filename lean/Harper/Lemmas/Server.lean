import Harper.Model.Server
/-! # Lemmas for C09: big-step forms of the handlers and the invariant of sequential histories -/
namespace Harper.Server

/-- `update_document(u, t, lang)` + `publish_diagnostics(u)` of a handler running alone -/
def updPub (ck : CfgV) (s : State) (t : Text) (u : Url) (lang : Option Lang) : State :=
  lintSendDoc (replaceDoc { s with config := ck } ck s.userDict (s.fileDict u) t u lang) ck u

/-- `update_document_from_file(u)` + `publish_diagnostics(u)` of a handler running alone -/
def rereadPub (ck : CfgV) (s : State) (u : Url) : State :=
  match s.disk u with
  | none => lintSendDoc s s.config u
  | some t => updPub ck s t u none

@[simp] theorem replaceDoc_config (s : State) (rcfg : CfgV) (du df : List Word) (t : Text) (u : Url)
    (lang : Option Lang) : (replaceDoc s rcfg du df t u lang).config = s.config := by
  unfold replaceDoc
  simp only []
  split
  · rfl
  · split <;> rfl

theorem handle_didOpen (ck : CfgV) (s : State) (u : Url) (l : Lang) (t : Text) :
    handle ck s (.didOpen u l t) = updPub ck s t u (some l) := by
  simp [handle, prog, update, publishSegs, runSeq, step, updPub]

theorem handle_didChange (ck : CfgV) (s : State) (u : Url) (t : Text) :
    handle ck s (.didChange u t) = updPub ck s t u none := by
  simp [handle, prog, update, publishSegs, runSeq, step, updPub]

theorem runSeq_reread (ck : CfgV) (s : State) (r : Regs) (u : Url) (rest : List Seg)
    (hr : r.skip = 0) :
    ∃ r', r'.skip = 0 ∧ runSeq ck s r (rereadAndPublish u ++ rest) = runSeq ck (rereadPub ck s u) r' rest := by
  unfold rereadAndPublish update publishSegs rereadPub
  cases h : s.disk u with
  | none =>
    refine ⟨{ r with skip := 0, sev := s.config }, rfl, ?_⟩
    simp [runSeq, step, h, hr]
  | some t =>
    refine ⟨{ r with txt := some t, reply := ck, rcfg := ck, du := s.userDict, df := s.fileDict u, sev := ck }, hr, ?_⟩
    simp [runSeq, step, h, hr, updPub]

theorem runSeq_rereads (ck : CfgV) (order : List Url) : ∀ (s : State) (r : Regs), r.skip = 0 →
    runSeq ck s r (order.flatMap rereadAndPublish) = order.foldl (rereadPub ck) s := by
  induction order with
  | nil => intro s r _; rfl
  | cons u us ih =>
    intro s r hr
    obtain ⟨r', hr', h⟩ := runSeq_reread ck s r u (us.flatMap rereadAndPublish) hr
    rw [List.flatMap_cons, h, ih _ _ hr']
    rfl

theorem handle_didSave (ck : CfgV) (s : State) (u : Url) :
    handle ck s (.didSave u) = rereadPub ck s u := by
  obtain ⟨r', _, h⟩ := runSeq_reread ck s {} u [] rfl
  simpa [handle, prog, runSeq] using h

/-- `did_change_configuration`, first two segments -/
def rebuild (k : CfgV) (s : State) (order : List Url) : State :=
  { s with config := k, docs := fun v => (s.docs v).map fun d => { d with lintCfg := k },
           badOrder := s.badOrder || !validOrder { s with config := k } order }

theorem handle_config (ck k : CfgV) (s : State) (order : List Url) :
    handle ck s (.didChangeConfiguration k order) = order.foldl (rereadPub ck) (rebuild k s order) := by
  simp only [handle, prog, runSeq, step]
  have := runSeq_rereads ck order (rebuild k s order) {} rfl
  simpa [rebuild, runSeq, step] using this

theorem handle_addUser (ck : CfgV) (s : State) (w : Word) (u : Url) :
    handle ck s (.addUser w u) = rereadPub ck { s with userDict := addWord w s.userDict } u := by
  obtain ⟨r', _, h⟩ := runSeq_reread ck { s with userDict := addWord w s.userDict } { du := s.userDict } u [] rfl
  simpa [handle, prog, runSeq, step] using h

theorem handle_addFile (ck : CfgV) (s : State) (w : Word) (u : Url) :
    handle ck s (.addFile w u) =
      rereadPub ck { s with fileDict := setF s.fileDict u (addWord w (s.fileDict u)) } u := by
  obtain ⟨r', _, h⟩ := runSeq_reread ck { s with fileDict := setF s.fileDict u (addWord w (s.fileDict u)) } { df := s.fileDict u } u [] rfl
  simpa [handle, prog, runSeq, step] using h

theorem handle_didClose (ck : CfgV) (s : State) (u : Url) :
    handle ck s (.didClose u) = publish { s with docs := setF s.docs u none } u .empty := by
  simp [handle, prog, runSeq, step]

theorem handle_deleted (ck : CfgV) (s : State) (us : List Url) :
    handle ck s (.deleted us) = deleteDocs s us := by
  simp [handle, prog, runSeq, step]

theorem handle_ignore (ck : CfgV) (s : State) (u : Url) :
    handle ck s (.ignore u) =
      match s.docs u with
      | none => s
      | some d => lintSendDoc { s with docs := setF s.docs u (some { d with ignored := true }) } s.config u := by
  cases h : s.docs u <;> simp [handle, prog, publishSegs, runSeq, step, h]

theorem handle_noop (ck : CfgV) (s : State) : handle ck s .noop = s := rfl


/-! ## effect of one update + publication, field by field -/

/-- the files are untouched -/
def Same (a b : State) : Prop := a.disk = b.disk ∧ a.userDict = b.userDict ∧ a.fileDict = b.fileDict

theorem setF_same {α} (f : Url → α) (u : Url) (a : α) : setF f u a u = a := by simp [setF]
theorem setF_other {α} (f : Url → α) (u v : Url) (a : α) (h : v ≠ u) : setF f u a v = f v := by
  simp [setF, h]

/-- a brand-new `DocumentState` -/
def freshDoc (ck : CfgV) (s : State) (u : Url) (t : Text) (l : Lang) : Doc :=
  { text := t, lang := l, parseCfg := ck, lintCfg := ck, dictUser := s.userDict,
    dictFile := s.fileDict u, dictIdent := none, identDict := 0, ignored := false }

/-- didOpen of a document the server does not hold -/
theorem updPub_open (ck : CfgV) (s : State) (t : Text) (u : Url) (l : Lang)
    (hd : s.docs u = none) (hi : l = .ts → t.idents = 0) :
    let s' := updPub ck s t u (some l)
    s'.config = ck ∧ Same s' s ∧
    s'.docs = setF s.docs u (if l = .unknown then none else some (freshDoc ck s u t l)) ∧
    s'.outbox = setF s.outbox u (if l = .unknown then .empty else .diag (pubOf (freshDoc ck s u t l) ck)) := by
  cases l <;>
    simp_all [updPub, replaceDoc, lintSendDoc, publish, dictDiffers, freshDoc, setF_same, Same]


/-- update of a document the server holds, whose linter was built with `ck` -/
theorem updPub_existing (ck : CfgV) (s : State) (t : Text) (u : Url) (lang : Option Lang) (d : Doc)
    (hd : s.docs u = some d) (h1 : d.dictIdent = none) (h2 : d.identDict = 0) (h3 : d.lintCfg = ck)
    (h4 : d.lang ≠ .unknown) (hi : d.lang = .ts → t.idents = 0) :
    let d' : Doc := { d with text := t, parseCfg := ck, dictUser := s.userDict, dictFile := s.fileDict u }
    let s' := updPub ck s t u lang
    s'.config = ck ∧ Same s' s ∧ s'.docs = setF s.docs u (some d') ∧
    s'.outbox = setF s.outbox u (.diag (pubOf d' ck)) := by
  obtain ⟨text, lang', parseCfg, lintCfg, dictUser, dictFile, dictIdent, identDict, ignored⟩ := d
  simp only at h1 h2 h3 h4 hi
  subst h1 h2 h3
  by_cases hdiff : dictDiffers ⟨text, lang', parseCfg, lintCfg, dictUser, dictFile, none, 0, ignored⟩ s.userDict (s.fileDict u) = true
  · cases lang' <;>
      simp_all [updPub, replaceDoc, lintSendDoc, publish, setF_same, Same]
  · have : dictUser = s.userDict ∧ dictFile = s.fileDict u := by
      simpa [dictDiffers] using hdiff
    obtain ⟨rfl, rfl⟩ := this
    cases lang' <;>
      simp_all [updPub, replaceDoc, lintSendDoc, publish, setF_same, Same]

/-- an update without language id of a document the server does not hold: nothing is kept, and an
empty publication goes out -/
theorem updPub_absent (ck : CfgV) (s : State) (t : Text) (u : Url) (hd : s.docs u = none) :
    let s' := updPub ck s t u none
    s'.config = ck ∧ Same s' s ∧ s'.docs = s.docs ∧ s'.outbox = setF s.outbox u .empty := by
  simp_all [updPub, replaceDoc, lintSendDoc, publish, Same]

theorem lintSendDoc_spec (s : State) (sev : CfgV) (u : Url) :
    let s' := lintSendDoc s sev u
    s'.config = s.config ∧ Same s' s ∧ s'.docs = s.docs ∧
    s'.outbox = setF s.outbox u (match s.docs u with | none => .empty | some d => .diag (pubOf d sev)) := by
  cases h : s.docs u <;> simp [lintSendDoc, publish, Same, h]


/-! ## the invariant of one-handler-at-a-time histories -/

/-- the `DocumentState` a document the client has open ought to have -/
def goodDoc (c : Client) (s : State) (u : Url) (t : Text) (l : Lang) : Doc :=
  { text := t, lang := l, parseCfg := c.ck, lintCfg := c.ck, dictUser := s.userDict,
    dictFile := s.fileDict u, dictIdent := none, identDict := 0, ignored := c.ign u }

def InvAt (c : Client) (s : State) (u : Url) : Prop :=
  match c.buf u with
  | none => s.docs u = none ∧ (s.outbox u = .empty ∨ s.outbox u = .never)
  | some (t, l) =>
    (l = .ts → t.idents = 0) ∧
    if l = .unknown then s.docs u = none ∧ s.outbox u = .empty
    else s.docs u = some (goodDoc c s u t l) ∧ s.outbox u = .diag (pubOf (goodDoc c s u t l) c.ck)

def Inv (c : Client) (s : State) : Prop := s.config = c.ck ∧ ∀ u, InvAt c s u

theorem InvAt_congr {c c' : Client} {s s' : State} {v : Url}
    (hb : c'.buf v = c.buf v) (hk : c'.ck = c.ck) (hi : c'.ign v = c.ign v)
    (hd : s'.docs v = s.docs v) (ho : s'.outbox v = s.outbox v)
    (hu : s'.userDict = s.userDict) (hf : s'.fileDict v = s.fileDict v)
    (h : InvAt c s v) : InvAt c' s' v := by
  unfold InvAt goodDoc at *
  rw [hb, hk, hi, hd, ho, hu, hf]
  exact h

theorem inv_latest {c : Client} {s : State} (h : Inv c s) : Latest c s := by
  intro u
  have hu := h.2 u
  unfold InvAt at hu
  unfold LatestAt truth
  cases hb : c.buf u with
  | none =>
    simp only [hb] at hu
    rcases hu.2 with h1 | h1
    · left; simpa using h1
    · right; exact ⟨rfl, h1⟩
  | some p =>
    obtain ⟨t, l⟩ := p
    simp only [hb] at hu
    left
    by_cases hl : l = .unknown
    · simp_all
    · simp only [hl, if_false] at hu ⊢
      rw [hu.2.2]
      have : freshIdent l t = none := by
        unfold freshIdent
        by_cases hts : l = .ts
        · simp [hu.1 hts]
        · simp [hts]
      simp [pubOf, goodDoc, this]

theorem inv_init : Inv Client.init State.init := by
  refine ⟨rfl, fun u => ?_⟩
  simp [InvAt, Client.init, State.init]


/-- What a re-reading handler needs of the document it is about to refresh: the file holds the
client's text, and the `DocumentState` (whatever its text, parser configuration, dictionaries and
last publication are) has a linter of the current configuration and no identifier dictionary. -/
def HalfAt (c : Client) (s : State) (u : Url) : Prop :=
  match c.buf u with
  | none => s.docs u = none ∧ (s.outbox u = .empty ∨ s.outbox u = .never)
  | some (t, l) =>
    (l = .ts → t.idents = 0) ∧
    if l = .unknown then s.docs u = none ∧ s.outbox u = .empty
    else s.disk u = some t ∧ ∃ d, s.docs u = some d ∧ d.lang = l ∧ d.dictIdent = none ∧
      d.identDict = 0 ∧ d.lintCfg = c.ck ∧ d.ignored = c.ign u

theorem HalfAt_congr {c c' : Client} {s s' : State} {v : Url}
    (hb : c'.buf v = c.buf v) (hk : c'.ck = c.ck) (hi : c'.ign v = c.ign v)
    (hd : s'.docs v = s.docs v) (ho : s'.outbox v = s.outbox v) (hdisk : s'.disk v = s.disk v)
    (h : HalfAt c s v) : HalfAt c' s' v := by
  unfold HalfAt at *
  rw [hb, hk, hi, hd, ho, hdisk]
  exact h

theorem InvAt.half {c : Client} {s : State} {u : Url} (h : InvAt c s u) (hd : DiskIsBuf c s u) :
    HalfAt c s u := by
  unfold InvAt at h
  unfold HalfAt
  cases hb : c.buf u with
  | none => simpa [hb] using h
  | some p =>
    obtain ⟨t, l⟩ := p
    simp only [hb] at h ⊢
    refine ⟨h.1, ?_⟩
    by_cases hl : l = .unknown
    · simpa [hl] using h.2
    · simp only [hl, if_false] at h ⊢
      exact ⟨hd t l hb, _, h.2.1, by simp [goodDoc]⟩

/-- One `update_document_from_file + publish_diagnostics` makes the document right and touches
nothing else. -/
theorem reread_fix {c : Client} {s : State} {u : Url} (hk : s.config = c.ck) (h : HalfAt c s u) :
    let s' := rereadPub c.ck s u
    s'.config = c.ck ∧ Same s' s ∧ (∀ v, v ≠ u → s'.docs v = s.docs v ∧ s'.outbox v = s.outbox v) ∧
    InvAt c s' u := by
  unfold HalfAt at h
  unfold rereadPub InvAt
  cases hb : c.buf u with
  | none =>
    simp only [hb] at h ⊢
    cases hdisk : s.disk u with
    | none =>
      obtain ⟨h1, h2, h3, h4⟩ := lintSendDoc_spec s s.config u
      try simp only [] at h1 h2 h3 h4 ⊢
      refine ⟨by rw [h1, hk], h2, fun v hv => ⟨by rw [h3], by rw [h4, setF_other _ _ _ _ hv]⟩, by rw [h3]; exact h.1, ?_⟩
      rw [h4, setF_same, h.1]; left; rfl
    | some t' =>
      obtain ⟨h1, h2, h3, h4⟩ := updPub_absent c.ck s t' u h.1
      try simp only [] at h1 h2 h3 h4 ⊢
      refine ⟨h1, h2, fun v hv => ⟨by rw [h3], by rw [h4, setF_other _ _ _ _ hv]⟩, by rw [h3]; exact h.1, ?_⟩
      rw [h4, setF_same]; left; rfl
  | some p =>
    obtain ⟨t, l⟩ := p
    simp only [hb] at h ⊢
    by_cases hl : l = .unknown
    · simp only [hl, if_true] at h ⊢
      cases hdisk : s.disk u with
      | none =>
        obtain ⟨h1, h2, h3, h4⟩ := lintSendDoc_spec s s.config u
        try simp only [] at h1 h2 h3 h4 ⊢
        refine ⟨by rw [h1, hk], h2, fun v hv => ⟨by rw [h3], by rw [h4, setF_other _ _ _ _ hv]⟩, h.1, by rw [h3]; exact h.2.1, ?_⟩
        rw [h4, setF_same, h.2.1]
      | some t' =>
        obtain ⟨h1, h2, h3, h4⟩ := updPub_absent c.ck s t' u h.2.1
        try simp only [] at h1 h2 h3 h4 ⊢
        refine ⟨h1, h2, fun v hv => ⟨by rw [h3], by rw [h4, setF_other _ _ _ _ hv]⟩, h.1, by rw [h3]; exact h.2.1, ?_⟩
        rw [h4, setF_same]
    · simp only [hl, if_false] at h ⊢
      obtain ⟨hts, hdisk, d, hd, hlang, hident, hidd, hlint, hign⟩ := h
      simp only [hdisk]
      obtain ⟨h1, h2, h3, h4⟩ := updPub_existing c.ck s t u none d hd hident hidd hlint
        (by rw [hlang]; exact hl) (by rw [hlang]; exact hts)
      try simp only [] at h1 h2 h3 h4 ⊢
      have hgood : ({ d with text := t, parseCfg := c.ck, dictUser := s.userDict, dictFile := s.fileDict u } : Doc)
          = goodDoc c (updPub c.ck s t u none) u t l := by
        obtain ⟨-, hu, hf⟩ := h2
        obtain ⟨text, lang', parseCfg, lintCfg, dictUser, dictFile, dictIdent, identDict, ignored⟩ := d
        simp only at hlang hident hidd hlint hign
        subst hlang hident hidd hlint hign
        simp [goodDoc, hu, hf]
      refine ⟨h1, h2, fun v hv => ⟨by rw [h3, setF_other _ _ _ _ hv], by rw [h4, setF_other _ _ _ _ hv]⟩, hts, ?_, ?_⟩
      · rw [h3, setF_same, hgood]
      · rw [h4, setF_same, hgood]


theorem InvAt_closed_congr {c : Client} {s s' : State} {v : Url} (hn : s.docs v = none)
    (hd : s'.docs v = s.docs v) (ho : s'.outbox v = s.outbox v) (h : InvAt c s v) : InvAt c s' v := by
  unfold InvAt at *
  cases hb : c.buf v with
  | none => simpa [hb, hd, ho] using h
  | some p =>
    obtain ⟨t, l⟩ := p
    simp only [hb] at h ⊢
    by_cases hl : l = .unknown
    · simpa [hl, hd, ho] using h
    · simp only [hl, if_false] at h
      rw [hn] at h
      exact absurd h.2.1 (by simp)

/-- an update (text `t`, no language id) of `u` when the client's buffer for `u` is `t` -/
theorem upd_fix {c : Client} {s : State} {u : Url} {t : Text}
    (h : match c.buf u with
      | none => s.docs u = none
      | some (t', l) => t' = t ∧ (l = .ts → t.idents = 0) ∧
        if l = .unknown then s.docs u = none
        else ∃ d, s.docs u = some d ∧ d.lang = l ∧ d.dictIdent = none ∧ d.identDict = 0 ∧
          d.lintCfg = c.ck ∧ d.ignored = c.ign u) :
    (updPub c.ck s t u none).config = c.ck ∧ Same (updPub c.ck s t u none) s ∧
    (∀ v, v ≠ u → (updPub c.ck s t u none).docs v = s.docs v ∧ (updPub c.ck s t u none).outbox v = s.outbox v) ∧
    InvAt c (updPub c.ck s t u none) u := by
  unfold InvAt
  cases hb : c.buf u with
  | none =>
    simp only [hb] at h ⊢
    obtain ⟨h1, h2, h3, h4⟩ := updPub_absent c.ck s t u h
    try simp only [] at h1 h2 h3 h4 ⊢
    refine ⟨h1, h2, fun v hv => ⟨by rw [h3], by rw [h4, setF_other _ _ _ _ hv]⟩, by rw [h3]; exact h, ?_⟩
    rw [h4, setF_same]; left; rfl
  | some p =>
    obtain ⟨t', l⟩ := p
    simp only [hb] at h ⊢
    obtain ⟨rfl, hts, h⟩ := h
    by_cases hl : l = .unknown
    · simp only [hl, if_true] at h ⊢
      obtain ⟨h1, h2, h3, h4⟩ := updPub_absent c.ck s t' u h
      try simp only [] at h1 h2 h3 h4 ⊢
      refine ⟨h1, h2, fun v hv => ⟨by rw [h3], by rw [h4, setF_other _ _ _ _ hv]⟩, by simp, by rw [h3]; exact h, ?_⟩
      rw [h4, setF_same]
    · simp only [hl, if_false] at h ⊢
      obtain ⟨d, hd, hlang, hident, hidd, hlint, hign⟩ := h
      obtain ⟨h1, h2, h3, h4⟩ := updPub_existing c.ck s t' u none d hd hident hidd hlint
        (by rw [hlang]; exact hl) (by rw [hlang]; exact hts)
      try simp only [] at h1 h2 h3 h4 ⊢
      have hgood : ({ d with text := t', parseCfg := c.ck, dictUser := s.userDict, dictFile := s.fileDict u } : Doc)
          = goodDoc c (updPub c.ck s t' u none) u t' l := by
        obtain ⟨-, hu, hf⟩ := h2
        obtain ⟨text, lang', parseCfg, lintCfg, dictUser, dictFile, dictIdent, identDict, ignored⟩ := d
        simp only at hlang hident hidd hlint hign
        subst hlang hident hidd hlint hign
        simp [goodDoc, hu, hf]
      refine ⟨h1, h2, fun v hv => ⟨by rw [h3, setF_other _ _ _ _ hv], by rw [h4, setF_other _ _ _ _ hv]⟩, hts, ?_, ?_⟩
      · rw [h3, setF_same, hgood]
      · rw [h4, setF_same, hgood]


theorem goodDoc_congr {c : Client} {s s' : State} {u : Url} {t : Text} {l : Lang}
    (hu : s'.userDict = s.userDict) (hf : s'.fileDict u = s.fileDict u) :
    goodDoc c s' u t l = goodDoc c s u t l := by
  unfold goodDoc; rw [hu, hf]

theorem inv_frame {c c' : Client} {s s' : State} {u : Url}
    (hI : Inv c s) (hk : c'.ck = c.ck) (hcfg : s'.config = c'.ck)
    (hb : ∀ v, v ≠ u → c'.buf v = c.buf v) (hi : ∀ v, v ≠ u → c'.ign v = c.ign v)
    (hsame : s'.userDict = s.userDict ∧ ∀ v, v ≠ u → s'.fileDict v = s.fileDict v)
    (hfr : ∀ v, v ≠ u → s'.docs v = s.docs v ∧ s'.outbox v = s.outbox v)
    (hu : InvAt c' s' u) : Inv c' s' := by
  refine ⟨hcfg, fun v => ?_⟩
  by_cases hv : v = u
  · subst hv; exact hu
  · exact InvAt_congr (hb v hv) hk (hi v hv) (hfr v hv).1 (hfr v hv).2 hsame.1 (hsame.2 v hv) (hI.2 v)

theorem inv_disk {c : Client} {s : State} (hI : Inv c s) (u : Url) (t : Option Text) :
    Inv c { s with disk := setF s.disk u t } :=
  ⟨hI.1, fun v => InvAt_congr rfl rfl rfl rfl rfl rfl rfl (hI.2 v)⟩

theorem docs_none_of_closed {c : Client} {s : State} {u : Url} (h : InvAt c s u) (hb : c.buf u = none) :
    s.docs u = none := by
  unfold InvAt at h; simp only [hb] at h; exact h.1

theorem inv_open {c : Client} {s : State} (hI : Inv c s) (u : Url) (l : Lang) (t : Text)
    (hb : c.buf u = none) (hts : l = .ts → t.idents = 0) :
    Inv (clientStep c (.didOpen u l t)) (handle c.ck s (.didOpen u l t)) := by
  rw [handle_didOpen]
  obtain ⟨h1, h2, h3, h4⟩ := updPub_open c.ck s t u l (docs_none_of_closed (hI.2 u) hb) hts
  try simp only [] at h1 h2 h3 h4
  refine inv_frame (u := u) hI rfl h1 (fun v hv => by simp [clientStep, setF_other _ _ _ _ hv])
    (fun v hv => by simp [clientStep, setF_other _ _ _ _ hv]) ⟨h2.2.1, fun v _ => by rw [h2.2.2]⟩
    (fun v hv => ⟨by rw [h3, setF_other _ _ _ _ hv], by rw [h4, setF_other _ _ _ _ hv]⟩) ?_
  unfold InvAt
  simp only [clientStep, setF_same]
  refine ⟨hts, ?_⟩
  by_cases hl : l = .unknown
  · subst hl
    simp [h3, h4, setF_same]
  · simp only [hl, if_false, h3, h4, setF_same]
    have : goodDoc (clientStep c (.didOpen u l t)) (updPub c.ck s t u (some l)) u t l = freshDoc c.ck s u t l := by
      simp [goodDoc, freshDoc, clientStep, setF_same, h2.2.1, h2.2.2]
    simp [clientStep] at this
    simp [this]


theorem inv_change {c : Client} {s : State} (hI : Inv c s) (u : Url) (t : Text)
    (hts : ∀ t0, c.buf u = some (t0, .ts) → t.idents = 0) :
    Inv (clientStep c (.didChange u t)) (handle c.ck s (.didChange u t)) := by
  rw [handle_didChange]
  have hu := hI.2 u
  unfold InvAt at hu
  cases hb : c.buf u with
  | none =>
    simp only [hb] at hu
    have hc : clientStep c (.didChange u t) = c := by simp [clientStep, hb]
    rw [hc]
    obtain ⟨h1, h2, h3, h4⟩ := upd_fix (c := c) (s := s) (u := u) (t := t) (by simp [hb, hu.1])
    exact inv_frame (u := u) hI rfl h1 (fun _ _ => rfl) (fun _ _ => rfl)
      ⟨h2.2.1, fun v _ => by rw [h2.2.2]⟩ h3 h4
  | some p =>
    obtain ⟨t0, l⟩ := p
    simp only [hb] at hu
    have hc : clientStep c (.didChange u t) = { c with buf := setF c.buf u (some (t, l)) } := by
      simp [clientStep, hb]
    rw [hc]
    have hpre : match ({ c with buf := setF c.buf u (some (t, l)) } : Client).buf u with
      | none => s.docs u = none
      | some (t', l) => t' = t ∧ (l = .ts → t.idents = 0) ∧
        if l = .unknown then s.docs u = none
        else ∃ d, s.docs u = some d ∧ d.lang = l ∧ d.dictIdent = none ∧ d.identDict = 0 ∧
          d.lintCfg = c.ck ∧ d.ignored = c.ign u := by
      simp only [setF_same]
      refine ⟨trivial, fun hl => hts t0 (by rw [hb, hl]), ?_⟩
      by_cases hl : l = .unknown
      · simp only [hl, if_true] at hu ⊢; exact hu.2.1
      · simp only [hl, if_false] at hu ⊢
        exact ⟨_, hu.2.1, by simp [goodDoc]⟩
    obtain ⟨h1, h2, h3, h4⟩ := upd_fix (c := { c with buf := setF c.buf u (some (t, l)) }) (s := s) (u := u) (t := t) hpre
    exact inv_frame (u := u) hI rfl h1 (fun v hv => by simp [setF_other _ _ _ _ hv]) (fun _ _ => rfl)
      ⟨h2.2.1, fun v _ => by rw [h2.2.2]⟩ h3 h4

theorem inv_reread {c : Client} {s : State} (hI : Inv c s) (u : Url) (hd : DiskIsBuf c s u) :
    Inv c (rereadPub c.ck s u) := by
  obtain ⟨h1, h2, h3, h4⟩ := reread_fix hI.1 ((hI.2 u).half hd)
  exact inv_frame (u := u) hI rfl h1 (fun _ _ => rfl) (fun _ _ => rfl)
    ⟨h2.2.1, fun v _ => by rw [h2.2.2]⟩ h3 h4

theorem inv_close {c : Client} {s : State} (hI : Inv c s) (u : Url) :
    Inv (clientStep c (.didClose u)) (handle c.ck s (.didClose u)) := by
  rw [handle_didClose]
  refine inv_frame (u := u) hI rfl hI.1 (fun v hv => by simp [clientStep, setF_other _ _ _ _ hv])
    (fun v hv => by simp [clientStep, setF_other _ _ _ _ hv]) ⟨rfl, fun _ _ => rfl⟩
    (fun v hv => by simp [publish, setF_other _ _ _ _ hv]) ?_
  simp [InvAt, clientStep, publish, setF_same]

theorem inv_ignore {c : Client} {s : State} (hI : Inv c s) (u : Url) :
    Inv (clientStep c (.ignore u)) (handle c.ck s (.ignore u)) := by
  rw [handle_ignore]
  have hu := hI.2 u
  unfold InvAt at hu
  cases hb : c.buf u with
  | none =>
    simp only [hb] at hu
    simp only [clientStep, hb, hu.1]
    exact hI
  | some p =>
    obtain ⟨t, l⟩ := p
    simp only [hb] at hu
    by_cases hl : l = .unknown
    · simp only [hl, if_true] at hu
      simp only [clientStep, hb, hl, if_true, hu.2.1]
      exact hI
    · simp only [hl, if_false] at hu
      simp only [clientStep, hb, hl, if_false, hu.2.1]
      have hg : ({ goodDoc c s u t l with ignored := true } : Doc)
          = goodDoc { c with ign := setF c.ign u true } s u t l := by
        simp [goodDoc, setF_same]
      rw [hg]
      generalize hc' : ({ c with ign := setF c.ign u true } : Client) = c'
      have hck : c'.ck = c.ck := by subst hc'; rfl
      have hbuf : c'.buf = c.buf := by subst hc'; rfl
      have hign : ∀ v, v ≠ u → c'.ign v = c.ign v := by
        subst hc'; intro v hv; simp [setF_other _ _ _ _ hv]
      obtain ⟨h1, h2, h3, h4⟩ := lintSendDoc_spec
        { s with docs := setF s.docs u (some (goodDoc c' s u t l)) } s.config u
      try simp only [] at h1 h2 h3 h4
      simp only [setF_same] at h4
      refine inv_frame (u := u) hI hck (by rw [h1, hck]; exact hI.1) (fun v _ => by rw [hbuf])
        hign ⟨h2.2.1, fun v _ => by rw [h2.2.2]⟩
        (fun v hv => ⟨by rw [h3]; simp [setF_other _ _ _ _ hv], by rw [h4]; simp [setF_other _ _ _ _ hv]⟩) ?_
      unfold InvAt
      rw [hbuf]
      simp only [hb, hl, if_false]
      have hgg : goodDoc c' (lintSendDoc { s with docs := setF s.docs u (some (goodDoc c' s u t l)) } s.config u) u t l
          = goodDoc c' s u t l :=
        goodDoc_congr h2.2.1 (by rw [h2.2.2])
      refine ⟨hu.1, ?_, ?_⟩
      · rw [h3, hgg]; simp [setF_same]
      · rw [h4, hgg, hck, hI.1]; simp [setF_same]


theorem deleteDocs_spec (us : List Url) : ∀ (s : State),
    (deleteDocs s us).config = s.config ∧ Same (deleteDocs s us) s ∧
    ∀ v, (deleteDocs s us).docs v = (if v ∈ us then none else s.docs v) ∧
         (deleteDocs s us).outbox v = (if v ∈ us ∧ (s.docs v).isSome then .empty else s.outbox v) := by
  induction us with
  | nil => intro s; simp [deleteDocs, Same]
  | cons u us ih =>
    intro s
    unfold deleteDocs
    cases hd : s.docs u with
    | none =>
      simp only []
      obtain ⟨h1, h2, h3⟩ := ih s
      refine ⟨h1, h2, fun v => ?_⟩
      obtain ⟨h3a, h3b⟩ := h3 v
      by_cases hv : v = u
      · subst hv; simp [h3a, h3b, hd]
      · simp [h3a, h3b, hv]
    | some d =>
      simp only []
      obtain ⟨h1, h2, h3⟩ := ih (publish { s with docs := setF s.docs u none } u .empty)
      refine ⟨by rw [h1]; rfl, ⟨by rw [h2.1]; rfl, by rw [h2.2.1]; rfl, by rw [h2.2.2]; rfl⟩, fun v => ?_⟩
      obtain ⟨h3a, h3b⟩ := h3 v
      rw [h3a, h3b]
      by_cases hv : v = u
      · subst hv
        simp [hd, publish, setF_same]
      · simp [hv, publish, setF_other _ _ _ _ hv]

theorem inv_deleted {c : Client} {s : State} (hI : Inv c s) (us : List Url) :
    Inv (clientStep c (.deleted us)) (handle c.ck s (.deleted us)) := by
  rw [handle_deleted]
  obtain ⟨h1, h2, h3⟩ := deleteDocs_spec us s
  refine ⟨by rw [h1]; exact hI.1, fun v => ?_⟩
  obtain ⟨h3a, h3b⟩ := h3 v
  have hv := hI.2 v
  by_cases hmem : v ∈ us
  · unfold InvAt at hv ⊢
    simp only [clientStep, hmem, if_true, h3a, h3b, true_and]
    cases hd : s.docs v with
    | some d => simp
    | none =>
      simp only [Option.isSome_none, Bool.false_eq_true, if_false]
      cases hb : c.buf v with
      | none => simp only [hb] at hv; exact hv.2
      | some p =>
        obtain ⟨t, l⟩ := p
        simp only [hb] at hv
        by_cases hl : l = .unknown
        · simp only [hl, if_true] at hv; left; exact hv.2.2
        · simp only [hl, if_false] at hv; rw [hd] at hv; exact absurd hv.2.1 (by simp)
  · refine InvAt_congr (c := c) (s := s) ?_ rfl ?_ ?_ ?_ h2.2.1 (by rw [h2.2.2]) hv
    · simp [clientStep, hmem]
    · simp [clientStep, hmem]
    · simp [h3a, hmem]
    · simp [h3b, hmem]

theorem inv_addFile {c : Client} {s : State} (hI : Inv c s) (w : Word) (u : Url) (hd : DiskIsBuf c s u) :
    Inv c (handle c.ck s (.addFile w u)) := by
  rw [handle_addFile]
  generalize hs1 : ({ s with fileDict := setF s.fileDict u (addWord w (s.fileDict u)) } : State) = s1
  have e1 : s1.config = s.config := by subst hs1; rfl
  have e2 : s1.docs = s.docs := by subst hs1; rfl
  have e3 : s1.outbox = s.outbox := by subst hs1; rfl
  have e4 : s1.disk = s.disk := by subst hs1; rfl
  have e5 : s1.userDict = s.userDict := by subst hs1; rfl
  have e6 : ∀ v, v ≠ u → s1.fileDict v = s.fileDict v := by
    subst hs1; intro v hv; simp [setF_other _ _ _ _ hv]
  have hhalf : HalfAt c s1 u :=
    HalfAt_congr rfl rfl rfl (by rw [e2]) (by rw [e3]) (by rw [e4]) ((hI.2 u).half hd)
  obtain ⟨h1, h2, h3, h4⟩ := reread_fix (by rw [e1]; exact hI.1) hhalf
  refine inv_frame (u := u) hI rfl h1 (fun _ _ => rfl) (fun _ _ => rfl)
    ⟨by rw [h2.2.1, e5], fun v hv => by rw [h2.2.2, e6 v hv]⟩
    (fun v hv => ⟨by rw [(h3 v hv).1, e2], by rw [(h3 v hv).2, e3]⟩) h4

theorem inv_addUser {c : Client} {s : State} (hI : Inv c s) (w : Word) (u : Url) (hd : DiskIsBuf c s u)
    (hw : w ∈ s.userDict ∨ ∀ v, v ≠ u → s.docs v = none) :
    Inv c (handle c.ck s (.addUser w u)) := by
  rw [handle_addUser]
  rcases hw with hw | hw
  · have : addWord w s.userDict = s.userDict := by simp [addWord, hw]
    rw [this]
    exact inv_reread hI u hd
  · generalize hs1 : ({ s with userDict := addWord w s.userDict } : State) = s1
    have e1 : s1.config = s.config := by subst hs1; rfl
    have e2 : s1.docs = s.docs := by subst hs1; rfl
    have e3 : s1.outbox = s.outbox := by subst hs1; rfl
    have e4 : s1.disk = s.disk := by subst hs1; rfl
    have hhalf : HalfAt c s1 u :=
      HalfAt_congr rfl rfl rfl (by rw [e2]) (by rw [e3]) (by rw [e4]) ((hI.2 u).half hd)
    obtain ⟨h1, h2, h3, h4⟩ := reread_fix (by rw [e1]; exact hI.1) hhalf
    refine ⟨h1, fun v => ?_⟩
    by_cases hv : v = u
    · subst hv; exact h4
    · exact InvAt_closed_congr (hw v hv) (by rw [(h3 v hv).1, e2]) (by rw [(h3 v hv).2, e3]) (hI.2 v)


theorem HalfAt.inv_of_closed {c : Client} {s : State} {v : Url} (h : HalfAt c s v)
    (hn : s.docs v = none) : InvAt c s v := by
  unfold HalfAt at h
  unfold InvAt
  cases hb : c.buf v with
  | none => simpa [hb] using h
  | some p =>
    obtain ⟨t, l⟩ := p
    simp only [hb] at h ⊢
    by_cases hl : l = .unknown
    · simpa [hl] using h
    · simp only [hl, if_false] at h
      obtain ⟨_, _, d, hd, _⟩ := h
      rw [hn] at hd
      exact absurd hd (by simp)

/-- loop invariant of the `for url in urls` loop of `did_change_configuration` -/
def LoopInv (c : Client) (s : State) : Prop :=
  s.config = c.ck ∧ (∀ v, DiskIsBuf c s v) ∧ ∀ v, InvAt c s v ∨ HalfAt c s v

theorem loop_step {c : Client} {s : State} (hL : LoopInv c s) (u : Url) :
    LoopInv c (rereadPub c.ck s u) ∧ InvAt c (rereadPub c.ck s u) u ∧
    (∀ v, v ≠ u → (rereadPub c.ck s u).docs v = s.docs v) ∧
    (∀ v, InvAt c s v → InvAt c (rereadPub c.ck s u) v) := by
  have hhalf : HalfAt c s u := by
    rcases hL.2.2 u with h | h
    · exact h.half (hL.2.1 u)
    · exact h
  obtain ⟨h1, h2, h3, h4⟩ := reread_fix hL.1 hhalf
  have keepI : ∀ v, InvAt c s v → InvAt c (rereadPub c.ck s u) v := by
    intro v hv
    by_cases hvu : v = u
    · subst hvu; exact h4
    · exact InvAt_congr rfl rfl rfl (h3 v hvu).1 (h3 v hvu).2 h2.2.1 (by rw [h2.2.2]) hv
  refine ⟨⟨h1, ?_, ?_⟩, h4, fun v hv => (h3 v hv).1, keepI⟩
  · intro v t l hb
    rw [h2.1]; exact hL.2.1 v t l hb
  · intro v
    by_cases hvu : v = u
    · subst hvu; exact Or.inl h4
    · rcases hL.2.2 v with h | h
      · exact Or.inl (keepI v h)
      · exact Or.inr (HalfAt_congr rfl rfl rfl (h3 v hvu).1 (h3 v hvu).2 (by rw [h2.1]) h)

theorem loop_all {c : Client} (order : List Url) : ∀ (s : State), LoopInv c s →
    LoopInv c (order.foldl (rereadPub c.ck) s) ∧
    (∀ v, v ∈ order → InvAt c (order.foldl (rereadPub c.ck) s) v) ∧
    (∀ v, v ∉ order → (order.foldl (rereadPub c.ck) s).docs v = s.docs v) ∧
    (∀ v, InvAt c s v → InvAt c (order.foldl (rereadPub c.ck) s) v) := by
  induction order with
  | nil => intro s hL; exact ⟨hL, by simp, fun _ _ => rfl, fun _ h => h⟩
  | cons u us ih =>
    intro s hL
    obtain ⟨hL1, hu1, hd1, hk1⟩ := loop_step hL u
    obtain ⟨hL2, hin2, hd2, hk2⟩ := ih _ hL1
    simp only [List.foldl_cons]
    refine ⟨hL2, ?_, ?_, fun v hv => hk2 v (hk1 v hv)⟩
    · intro v hv
      rcases List.mem_cons.mp hv with rfl | hv
      · exact hk2 _ hu1
      · exact hin2 v hv
    · intro v hv
      have hvu : v ≠ u := fun h => hv (h ▸ List.mem_cons_self)
      have hvus : v ∉ us := fun h => hv (List.mem_cons_of_mem _ h)
      rw [hd2 v hvus, hd1 v hvu]

theorem inv_config {c : Client} {s : State} (hI : Inv c s) (k : CfgV) (order : List Url)
    (hd : ∀ u, DiskIsBuf c s u) (ho : ∀ u, u ∈ order ↔ (s.docs u).isSome = true) :
    Inv (clientStep c (.didChangeConfiguration k order)) (handle k s (.didChangeConfiguration k order)) := by
  rw [handle_config]
  generalize hc' : clientStep c (.didChangeConfiguration k order) = c'
  have hck : c'.ck = k := by subst hc'; rfl
  have hbuf : c'.buf = c.buf := by subst hc'; rfl
  have hign : c'.ign = c.ign := by subst hc'; rfl
  have hL : LoopInv c' (rebuild k s order) := by
    refine ⟨by rw [hck]; rfl, ?_, fun v => Or.inr ?_⟩
    · intro v t l hb; rw [hbuf] at hb; exact hd v t l hb
    · have hv := hI.2 v
      unfold InvAt at hv
      unfold HalfAt
      rw [hbuf, hign, hck]
      cases hb : c.buf v with
      | none => simp only [hb] at hv ⊢; simpa [rebuild, hv.1] using hv.2
      | some p =>
        obtain ⟨t, l⟩ := p
        simp only [hb] at hv ⊢
        refine ⟨hv.1, ?_⟩
        by_cases hl : l = .unknown
        · simp only [hl, if_true] at hv ⊢; simpa [rebuild, hv.2.1] using hv.2.2
        · simp only [hl, if_false] at hv ⊢
          refine ⟨hd v t l hb, ?_⟩
          simp [rebuild, hv.2.1, goodDoc]
  have := loop_all (c := c') order _ (hck ▸ hL)
  rw [hck] at this
  obtain ⟨hL2, hin, hout, _⟩ := this
  refine ⟨hL2.1, fun v => ?_⟩
  by_cases hv : v ∈ order
  · exact hin v hv
  · have hnone : s.docs v = none := by
      cases h : s.docs v with
      | none => rfl
      | some d => exact absurd ((ho v).mpr (by simp [h])) hv
    have hn : (order.foldl (rereadPub k) (rebuild k s order)).docs v = none := by
      rw [hout v hv]; simp [rebuild, hnone]
    rcases hL2.2.2 v with h | h
    · exact h
    · exact h.inv_of_closed hn


/-- **After a `didChangeConfiguration` everything is current** — from any structurally sound state,
however stale its configuration facets are. -/
theorem config_repairs {c : Client} {s : State} (hW : ∀ v, WeakAt c s v) (k : CfgV) (order : List Url)
    (hd : ∀ u, DiskIsBuf c s u) (ho : ∀ u, u ∈ order ↔ (s.docs u).isSome = true) :
    Inv { c with ck := k } (handle k s (.didChangeConfiguration k order)) := by
  rw [handle_config]
  generalize hc' : ({ c with ck := k } : Client) = c'
  have hck : c'.ck = k := by subst hc'; rfl
  have hbuf : c'.buf = c.buf := by subst hc'; rfl
  have hign : c'.ign = c.ign := by subst hc'; rfl
  have hL : LoopInv c' (rebuild k s order) := by
    refine ⟨by rw [hck]; rfl, ?_, fun v => Or.inr ?_⟩
    · intro v t l hb; rw [hbuf] at hb; exact hd v t l hb
    · have hv := hW v
      unfold WeakAt at hv
      unfold HalfAt
      rw [hbuf, hign, hck]
      cases hb : c.buf v with
      | none => simp only [hb] at hv ⊢; simpa [rebuild, hv.1] using hv.2
      | some p =>
        obtain ⟨t, l⟩ := p
        simp only [hb] at hv ⊢
        refine ⟨hv.1, ?_⟩
        by_cases hl : l = .unknown
        · simp only [hl, if_true] at hv ⊢; simpa [rebuild, hv.2.1] using hv.2.2
        · simp only [hl, if_false] at hv ⊢
          obtain ⟨d, hd1, hd2, hd3, hd4, hd5⟩ := hv.2
          refine ⟨hd v t l hb, ?_⟩
          simp [rebuild, hd1, hd2, hd3, hd4, hd5]
  have := loop_all (c := c') order _ (hck ▸ hL)
  rw [hck] at this
  obtain ⟨hL2, hin, hout, _⟩ := this
  refine ⟨hL2.1, fun v => ?_⟩
  by_cases hv : v ∈ order
  · exact hin v hv
  · have hnone : s.docs v = none := by
      cases h : s.docs v with
      | none => rfl
      | some d => exact absurd ((ho v).mpr (by simp [h])) hv
    have hn : (order.foldl (rereadPub k) (rebuild k s order)).docs v = none := by
      rw [hout v hv]; simp [rebuild, hnone]
    rcases hL2.2.2 v with h | h
    · exact h
    · exact h.inv_of_closed hn

/-- a state that satisfies the invariant is structurally sound for ANY client configuration -/
theorem Inv.weak {c : Client} {s : State} (hI : Inv c s) (k : CfgV) :
    ∀ v, WeakAt { c with ck := k } s v := by
  intro v
  have hv := hI.2 v
  unfold InvAt at hv
  unfold WeakAt
  cases hb : c.buf v with
  | none => simpa [hb] using hv
  | some p =>
    obtain ⟨t, l⟩ := p
    simp only [hb] at hv ⊢
    refine ⟨hv.1, ?_⟩
    by_cases hl : l = .unknown
    · simpa [hl] using hv.2
    · simp only [hl, if_false] at hv ⊢
      exact ⟨_, hv.2.1, by simp [goodDoc]⟩

theorem inv_step {c : Client} {s : State} (hI : Inv c s) (op : Op) (hok : OpOk c s op) :
    Inv (seqStep (c, s) op).1 (seqStep (c, s) op).2 := by
  cases op with
  | disk u t => exact inv_disk hI u t
  | msg m =>
    cases m with
    | didOpen u l t => exact inv_open hI u l t hok.1 hok.2
    | didChange u t =>
      have hck : (clientStep c (.didChange u t)).ck = c.ck := by
        simp only [clientStep]; split <;> rfl
      show Inv (clientStep c (.didChange u t)) (handle (clientStep c (.didChange u t)).ck s (.didChange u t))
      rw [hck]; exact inv_change hI u t hok
    | didSave u =>
      show Inv c (handle c.ck s (.didSave u))
      rw [handle_didSave]; exact inv_reread hI u hok
    | didClose u => exact inv_close hI u
    | deleted us => exact inv_deleted hI us
    | didChangeConfiguration k order => exact inv_config hI k order hok.1 hok.2
    | addUser w u => exact inv_addUser hI w u hok.1 hok.2
    | addFile w u => exact inv_addFile hI w u hok
    | ignore u =>
      have hck : (clientStep c (.ignore u)).ck = c.ck := by
        simp only [clientStep]; split
        · split <;> rfl
        · rfl
      show Inv (clientStep c (.ignore u)) (handle (clientStep c (.ignore u)).ck s (.ignore u))
      rw [hck]; exact inv_ignore hI u
    | noop => exact hI

theorem seq_inv (ops : List Op) : ∀ (w : Client × State), Inv w.1 w.2 → HistOk w ops →
    Inv (seqRun w ops).1 (seqRun w ops).2 := by
  induction ops with
  | nil => intro w h _; exact h
  | cons op ops ih =>
    intro w h hok
    obtain ⟨c, s⟩ := w
    exact ih _ (inv_step h op hok.1) hok.2

/-! ## the bridge: `runMacro` on the sequential schedule is `seqRun` -/

/-- nothing in flight, nothing queued, no configuration request outstanding -/
def Idle (y : Sys) : Prop := y.run = [] ∧ y.queue = [] ∧ y.pend = []

/-- the idle system -/
def idleSys (s : State) (nid : Nat) : Sys := { st := s, run := [], queue := [], pend := [], nextId := nid }

/-- one handler in flight, not waiting -/
def solo (s : State) (id : Nat) (segs : List Seg) (r : Regs) (nid : Nat) : Sys :=
  { st := s, run := [{ id := id, segs := segs, regs := r, waiting := false }], queue := [], pend := [],
    nextId := nid }

/-- the number of configuration requests a handler running alone really sends (`runSeq`'s recursion,
counting) -/
def pullsRun (ck : CfgV) : State → Regs → List Seg → Nat
  | _, _, [] => 0
  | s, r, seg :: rest =>
    if r.skip > 0 then pullsRun ck s { r with skip := r.skip - 1 } rest
    else match seg with
      | .pull => pullsRun ck s { r with reply := ck } rest + 1
      | seg => pullsRun ck (step s r seg).1 (step s r seg).2 rest

theorem pullsRun_le (ck : CfgV) : ∀ (segs : List Seg) (s : State) (r : Regs),
    pullsRun ck s r segs ≤ pullCount segs := by
  intro segs
  induction segs with
  | nil => intro s r; simp [pullsRun, pullCount]
  | cons seg rest ih =>
    intro s r
    unfold pullsRun
    by_cases hs : r.skip > 0
    · simp only [hs, if_true]
      have := ih s { r with skip := r.skip - 1 }
      cases seg <;> simp only [pullCount] <;> omega
    · simp only [hs, if_false]
      cases seg <;> simp only [pullCount] <;> first | exact ih _ _ | (have := ih s { r with reply := ck }; omega)

theorem Idle.eq {y : Sys} (h : Idle y) : y = idleSys y.st y.nextId := by
  obtain ⟨st, run, queue, pend, nid⟩ := y
  obtain ⟨h1, h2, h3⟩ := h
  simp only at h1 h2 h3
  subst h1 h2 h3
  rfl

theorem idleSys_idle (s : State) (nid : Nat) : Idle (idleSys s nid) := ⟨rfl, rfl, rfl⟩

theorem settle_idle (fuel : Nat) (s : State) (nid : Nat) : settle fuel (idleSys s nid) = idleSys s nid := by
  cases fuel <;> simp [settle, idleSys, runnable]

/-- answers nobody waits for change nothing -/
theorem replies_idle (s : State) (nid : Nat) (ck : CfgV) (n : Nat) :
    runMacro (idleSys s nid) (List.replicate n (.reply 0 ck)) = idleSys s nid := by
  induction n with
  | zero => rfl
  | succ n ih =>
    have h1 : macroStep (idleSys s nid) (.reply 0 ck) = idleSys s nid := by
      simp only [macroStep, micro]
      have : reply (idleSys s nid) 0 ck = idleSys s nid := by simp [reply, idleSys]
      rw [this, settle_idle]
    simp only [runMacro, List.replicate_succ, List.foldl_cons, h1]
    exact ih

theorem stepHandler_solo_nil (s : State) (id : Nat) (r : Regs) (nid : Nat) :
    stepHandler (solo s id [] r nid) id = idleSys s nid := by
  simp [stepHandler, solo, findHandler, dropHandler, idleSys]

theorem stepHandler_solo_skip (s : State) (id : Nat) (seg : Seg) (rest : List Seg) (r : Regs) (nid : Nat)
    (hs : r.skip > 0) :
    stepHandler (solo s id (seg :: rest) r nid) id = solo s id rest { r with skip := r.skip - 1 } nid := by
  simp [stepHandler, solo, findHandler, setHandler, hs]

theorem stepHandler_solo_step (s : State) (id : Nat) (seg : Seg) (rest : List Seg) (r : Regs) (nid : Nat)
    (hs : ¬ r.skip > 0) (hp : seg ≠ .pull) :
    stepHandler (solo s id (seg :: rest) r nid) id
      = solo (step s r seg).1 id rest (step s r seg).2 nid := by
  cases seg <;> first | exact absurd rfl hp | simp [stepHandler, solo, findHandler, setHandler, hs]

theorem settle_waiting (fuel : Nat) (s : State) (id : Nat) (segs : List Seg) (r : Regs) (nid : Nat) :
    settle fuel { st := s, run := [{ id := id, segs := segs, regs := r, waiting := true }], queue := [],
                  pend := [id], nextId := nid }
      = { st := s, run := [{ id := id, segs := segs, regs := r, waiting := true }], queue := [],
          pend := [id], nextId := nid } := by
  cases fuel <;> simp [settle, runnable]

theorem stepHandler_solo_pull (s : State) (id : Nat) (rest : List Seg) (r : Regs) (nid : Nat)
    (hs : ¬ r.skip > 0) :
    stepHandler (solo s id (.pull :: rest) r nid) id
      = { st := s, run := [{ id := id, segs := .pull :: rest, regs := r, waiting := true }], queue := [],
          pend := [id], nextId := nid } := by
  simp [stepHandler, solo, findHandler, setHandler, hs]

theorem reply_waiting (s : State) (id : Nat) (rest : List Seg) (r : Regs) (nid : Nat) (ck : CfgV) :
    reply { st := s, run := [{ id := id, segs := .pull :: rest, regs := r, waiting := true }], queue := [],
            pend := [id], nextId := nid } 0 ck
      = solo s id rest { r with reply := ck } nid := by
  simp [reply, solo, findHandler, setHandler, removeNth]

theorem settle_solo_succ (fuel : Nat) (s : State) (id : Nat) (segs : List Seg) (r : Regs) (nid : Nat) :
    settle (fuel + 1) (solo s id segs r nid) = settle fuel (stepHandler (solo s id segs r nid) id) := by
  simp [settle, solo, runnable]

/-- **One handler alone under the scheduler.** A handler that is the only one in flight, given at
least as many answers as it sends configuration requests, runs to completion and leaves the idle
system in the state `runSeq` computes. `fuel` is what is left of the current `settle`; every later
`settle` starts with `settleFuel`, hence the two bounds. -/
theorem solo_run (ck : CfgV) (id nid : Nat) : ∀ (segs : List Seg) (fuel : Nat) (s : State) (r : Regs) (n : Nat),
    segs.length < fuel → segs.length < settleFuel → pullsRun ck s r segs ≤ n →
    runMacro (settle fuel (solo s id segs r nid)) (List.replicate n (.reply 0 ck))
      = idleSys (runSeq ck s r segs) nid := by
  intro segs
  induction segs with
  | nil =>
    intro fuel s r n hf _ _
    obtain ⟨f, rfl⟩ : ∃ f, fuel = f + 1 := ⟨fuel - 1, by simp at hf; omega⟩
    rw [settle_solo_succ, stepHandler_solo_nil, settle_idle, replies_idle]
    rfl
  | cons seg rest ih =>
    intro fuel s r n hf hF hn
    obtain ⟨f, rfl⟩ : ∃ f, fuel = f + 1 := ⟨fuel - 1, by simp at hf; omega⟩
    have hf' : rest.length < f := by simp at hf; omega
    have hF' : rest.length < settleFuel := by simp at hF; omega
    rw [settle_solo_succ]
    by_cases hs : r.skip > 0
    · rw [stepHandler_solo_skip _ _ _ _ _ _ hs]
      have e1 : runSeq ck s r (seg :: rest) = runSeq ck s { r with skip := r.skip - 1 } rest := by
        simp [runSeq, hs]
      have e2 : pullsRun ck s r (seg :: rest) = pullsRun ck s { r with skip := r.skip - 1 } rest := by
        simp [pullsRun, hs]
      rw [e1]
      exact ih f s _ n hf' hF' (e2 ▸ hn)
    · by_cases hp : seg = .pull
      · subst hp
        rw [stepHandler_solo_pull _ _ _ _ _ hs, settle_waiting]
        have e1 : runSeq ck s r (.pull :: rest) = runSeq ck s { r with reply := ck } rest := by
          simp [runSeq, hs]
        have e2 : pullsRun ck s r (.pull :: rest) = pullsRun ck s { r with reply := ck } rest + 1 := by
          simp [pullsRun, hs]
        obtain ⟨n', rfl⟩ : ∃ n', n = n' + 1 := ⟨n - 1, by omega⟩
        rw [e1]
        simp only [runMacro, List.replicate_succ, List.foldl_cons, macroStep, micro, reply_waiting]
        exact ih settleFuel s _ n' hF' hF' (by omega)
      · rw [stepHandler_solo_step _ _ _ _ _ _ hs hp]
        have e1 : runSeq ck s r (seg :: rest) = runSeq ck (step s r seg).1 (step s r seg).2 rest := by
          cases seg <;> first | exact absurd rfl hp | simp [runSeq, hs]
        have e2 : pullsRun ck s r (seg :: rest) = pullsRun ck (step s r seg).1 (step s r seg).2 rest := by
          cases seg <;> first | exact absurd rfl hp | simp [pullsRun, hs]
        rw [e1]
        exact ih f _ _ n hf' hF' (e2 ▸ hn)

/-- **A message to an idle server, then its answers** (`n` of them, at least as many as the handler
sends requests; the program shorter than the scheduler's fuel): the server is idle again, in the
state `handle` computes, one handler id consumed. -/
theorem macro_handle (ck : CfgV) (s : State) (nid : Nat) (m : Msg) (n : Nat)
    (hF : (prog m).1.length < settleFuel) (hn : pullsRun ck s (prog m).2 (prog m).1 ≤ n) :
    runMacro (idleSys s nid) (.recv m :: List.replicate n (.reply 0 ck)) = idleSys (handle ck s m) (nid + 1) := by
  have h0 : micro (idleSys s nid) (.recv m) = solo s nid (prog m).1 (prog m).2 (nid + 1) := by
    simp [micro, startOrQueue, idleSys, solo, maxConcurrency]
  simp only [runMacro, List.foldl_cons, macroStep, h0]
  exact solo_run ck nid (nid + 1) _ settleFuel s _ n hF hF hn

theorem runMacro_append (y : Sys) (as bs : List Act) :
    runMacro y (as ++ bs) = runMacro (runMacro y as) bs := by
  simp [runMacro, List.foldl_append]

theorem macro_disk (s : State) (nid : Nat) (u : Url) (t : Option Text) :
    runMacro (idleSys s nid) [.disk u t] = idleSys { s with disk := setF s.disk u t } nid := by
  simp only [runMacro, List.foldl_cons, List.foldl_nil, macroStep, micro]
  exact settle_idle _ _ _

/-- the messages of a history -/
def msgCount : List Op → Nat
  | [] => 0
  | .msg _ :: ops => msgCount ops + 1
  | .disk _ _ :: ops => msgCount ops

/-- `actsOfOp` with a free number of answers -/
def actsOfOpN (c : Client) (n : Nat) : Op → List Act
  | .disk u t => [.disk u t]
  | .msg m => .recv m :: List.replicate n (.reply 0 (clientStep c m).ck)

/-- `seqActs` with a free number of answers after every message: the schedules "each handler runs
alone" (`seqActs c ops` is the one with `pullCount` answers, `seqActs_eq_N`) -/
def seqActsN : Client → List (Op × Nat) → List Act
  | _, [] => []
  | c, (op, n) :: ops => actsOfOpN c n op ++ seqActsN (clientOfOp c op) ops

/-- every message is followed by at least as many answers as its handler — running alone from the
state the history has reached — sends requests, and no program exhausts the scheduler's fuel -/
def Answered : Client × State → List (Op × Nat) → Prop
  | _, [] => True
  | w, (op, n) :: ops =>
    (match op with
      | .disk _ _ => True
      | .msg m => (prog m).1.length < settleFuel ∧
          pullsRun (clientStep w.1 m).ck w.2 (prog m).2 (prog m).1 ≤ n) ∧
    Answered (seqStep w op) ops

theorem clientOfAct_replies (c : Client) (n : Nat) (k : CfgV) :
    (List.replicate n (Act.reply 0 k)).foldl clientOfAct c = c := by
  induction n with
  | zero => rfl
  | succ n ih => simpa [List.replicate_succ, clientOfAct] using ih

theorem client_actsOfOpN (c : Client) (n : Nat) (op : Op) :
    (actsOfOpN c n op).foldl clientOfAct c = clientOfOp c op := by
  cases op with
  | disk u t => rfl
  | msg m => simp [actsOfOpN, clientOfOp, clientOfAct, clientOfAct_replies]

theorem seqStep_client (w : Client × State) (op : Op) : (seqStep w op).1 = clientOfOp w.1 op := by
  cases op <;> rfl

/-- **`runMacro` on a one-handler-at-a-time schedule is `seqRun`.** From an idle server, a history
whose every message is followed at once by enough answers (`Answered`) leaves the server idle, in
exactly the state `seqRun` computes (so with the same publication log, dictionaries, documents and
configuration), and the client the schedule implies is `seqRun`'s client. -/
theorem macro_is_seq_N : ∀ (ops : List (Op × Nat)) (c : Client) (s : State) (nid : Nat),
    Answered (c, s) ops →
    runMacro (idleSys s nid) (seqActsN c ops)
      = idleSys (seqRun (c, s) (ops.map (·.1))).2 (nid + msgCount (ops.map (·.1))) ∧
    (seqActsN c ops).foldl clientOfAct c = (seqRun (c, s) (ops.map (·.1))).1 := by
  intro ops
  induction ops with
  | nil => intro c s nid _; exact ⟨rfl, rfl⟩
  | cons opn ops ih =>
    intro c s nid h
    obtain ⟨op, n⟩ := opn
    obtain ⟨h1, h2⟩ := h
    simp only [seqActsN, runMacro_append, List.foldl_append, client_actsOfOpN, List.map_cons, seqRun,
      List.foldl_cons]
    cases op with
    | disk u t =>
      have := ih c { s with disk := setF s.disk u t } nid h2
      simp only [actsOfOpN, macro_disk, clientOfOp, msgCount]
      exact this
    | msg m =>
      have := ih (clientStep c m) (handle (clientStep c m).ck s m) (nid + 1) h2
      simp only [actsOfOpN, clientOfOp, msgCount, macro_handle _ _ _ _ _ h1.1 h1.2]
      rw [show nid + (msgCount (ops.map (·.1)) + 1) = nid + 1 + msgCount (ops.map (·.1)) by omega]
      exact this

/-- every handler's program is shorter than the scheduler's fuel (`settleFuel` = 4096 segments) -/
def Fits (ops : List Op) : Prop := ∀ m, Op.msg m ∈ ops → (prog m).1.length < settleFuel

/-- the annotation that makes `seqActsN` the canonical schedule -/
def withPulls (ops : List Op) : List (Op × Nat) :=
  ops.map fun op => (op, match op with | .disk _ _ => 0 | .msg m => pullCount (prog m).1)

theorem seqActs_eq_N : ∀ (ops : List Op) (c : Client), seqActs c ops = seqActsN c (withPulls ops) := by
  intro ops
  induction ops with
  | nil => intro c; rfl
  | cons op ops ih =>
    intro c
    cases op with
    | disk u t => simp only [seqActs, withPulls, List.map_cons, seqActsN, actsOfOp, actsOfOpN]; rw [← withPulls, ← ih]
    | msg m => simp only [seqActs, withPulls, List.map_cons, seqActsN, actsOfOp, actsOfOpN]; rw [← withPulls, ← ih]

theorem withPulls_fst (ops : List Op) : (withPulls ops).map (·.1) = ops := by
  simp [withPulls, List.map_map, Function.comp_def]

theorem answered_withPulls : ∀ (ops : List Op) (w : Client × State), Fits ops → Answered w (withPulls ops) := by
  intro ops
  induction ops with
  | nil => intro w _; trivial
  | cons op ops ih =>
    intro w hF
    have hF' : Fits ops := fun m hm => hF m (List.mem_cons_of_mem _ hm)
    refine ⟨?_, ih _ hF'⟩
    cases op with
    | disk u t => trivial
    | msg m => exact ⟨hF m List.mem_cons_self, pullsRun_le _ _ _ _⟩

/-- **The bridge.** The canonical sequential schedule `seqActs c ops` (what the driver op `srvseq`
hands to `runMacro`) run from an idle server ends idle in the state `seqRun` computes. -/
theorem macro_is_seq (ops : List Op) (c : Client) (s : State) (nid : Nat) (hF : Fits ops) :
    runMacro (idleSys s nid) (seqActs c ops) = idleSys (seqRun (c, s) ops).2 (nid + msgCount ops) ∧
    (seqActs c ops).foldl clientOfAct c = (seqRun (c, s) ops).1 := by
  have := macro_is_seq_N (withPulls ops) c s nid (answered_withPulls ops (c, s) hF)
  rw [withPulls_fst, ← seqActs_eq_N] at this
  exact this

/-! ### which programs fit -/

theorem reread_length (u : Url) : (rereadAndPublish u).length = 9 := rfl

theorem flatMap_reread_length (order : List Url) :
    (order.flatMap rereadAndPublish).length = 9 * order.length := by
  induction order with
  | nil => rfl
  | cons u us ih => simp only [List.flatMap_cons, List.length_append, reread_length, ih, List.length_cons]; omega

/-- only `didChangeConfiguration` has a program of unbounded length: 2 + 9 segments per key -/
theorem prog_length (m : Msg) :
    (prog m).1.length = match m with
      | .didChangeConfiguration _ order => 2 + 9 * order.length
      | .didOpen .. | .didChange .. => 8
      | .didSave _ => 9
      | .addUser .. | .addFile .. => 11
      | .ignore _ => 3
      | .didClose _ | .deleted _ => 1
      | .noop => 0 := by
  cases m with
  | didChangeConfiguration k order =>
    simp only [prog, List.length_cons, flatMap_reread_length]; omega
  | _ => rfl

/-- a history fits when no configuration handler iterates over more than 454 keys -/
theorem fits_of_orders (ops : List Op)
    (h : ∀ k order, Op.msg (.didChangeConfiguration k order) ∈ ops → order.length ≤ 454) : Fits ops := by
  intro m hm
  rw [prog_length]
  cases m <;> simp only [settleFuel] <;> try omega
  next k order => have := h k order hm; omega

/-! ### how many configuration requests a program holds -/

theorem pullCount_append (a b : List Seg) : pullCount (a ++ b) = pullCount a + pullCount b := by
  induction a with
  | nil => simp [pullCount]
  | cons seg a ih => cases seg <;> simp only [List.cons_append, pullCount, ih] <;> omega

theorem pullCount_rereads (order : List Url) : pullCount (order.flatMap rereadAndPublish) = order.length := by
  induction order with
  | nil => rfl
  | cons u us ih =>
    rw [List.flatMap_cons, pullCount_append, ih]
    simp [rereadAndPublish, update, publishSegs, pullCount]
    omega

/-- one request per document update: one for `didOpen` / `didChange` / `didSave` / the two
add-to-dictionary commands, one per key for `didChangeConfiguration`, none otherwise -/
theorem pullCount_prog (m : Msg) :
    pullCount (prog m).1 = match m with
      | .didChangeConfiguration _ order => order.length
      | .didOpen .. | .didChange .. | .didSave _ | .addUser .. | .addFile .. => 1
      | _ => 0 := by
  cases m with
  | didChangeConfiguration k order => simp only [prog, pullCount, pullCount_rereads]
  | _ => rfl

end Harper.Server
