import Harper.Model.Rules
import Harper.Lemmas.Chunks
import Harper.Lemmas.Overlaps
import Harper.Lemmas.DocAppend
/-!
Locality and well-formedness lemmas for the concrete rules of `Model/Rules.lean`.
-/
namespace Harper.Rules
open Harper Harper.Chunks

deriving instance DecidableEq for Except

/-! ## moving lints and tokens -/

def shiftSpan (k : Nat) (s : Span) : Span := ⟨s.start + k, s.stop + k⟩
def shiftRL (k : Nat) (l : RuleLint) : RuleLint := { l with span := shiftSpan k l.span }
def shiftRLs (k : Nat) (ls : List RuleLint) : List RuleLint := ls.map (shiftRL k)

/-- one token of `shiftDoc k j` -/
def shTok (k j : Nat) (t : Tok) : Tok := ⟨⟨t.span.start + k, t.span.stop + k⟩, shiftTwin j t.kind⟩

theorem shiftDoc_eq_map (k j : Nat) (toks : List Tok) : shiftDoc k j toks = toks.map (shTok k j) := rfl

@[simp] theorem shTok_span (k j : Nat) (t : Tok) : (shTok k j t).span = shiftSpan k t.span := rfl
@[simp] theorem shTok_kind (k j : Nat) (t : Tok) : (shTok k j t).kind = shiftTwin j t.kind := rfl
@[simp] theorem shiftSpan_start (k : Nat) (s : Span) : (shiftSpan k s).start = s.start + k := rfl
@[simp] theorem shiftSpan_stop (k : Nat) (s : Span) : (shiftSpan k s).stop = s.stop + k := rfl

@[simp] theorem shiftRLs_nil (k : Nat) : shiftRLs k [] = [] := rfl
theorem shiftRLs_append (k : Nat) (a b : List RuleLint) : shiftRLs k (a ++ b) = shiftRLs k a ++ shiftRLs k b := by
  simp [shiftRLs]

/-- the lints of the whole from the lints of the two parts (a panic in either part is a panic of
the whole, the first part first) -/
def joinE (k : Nat) (a b : Except Panic (List RuleLint)) : Except Panic (List RuleLint) :=
  match a with
  | .error e => .error e
  | .ok x =>
    match b with
    | .error e => .error e
    | .ok y => .ok (x ++ shiftRLs k y)

/-- what every token of a plain-English document satisfies (`document_tokOK`): it covers at least
one character, and a `Number` token with a suffix at least the two characters of the suffix -/
def tokOK (t : Tok) : Bool :=
  decide (t.span.start < t.span.stop) &&
    (match numSuffix t.kind with
     | some (some _) => decide (t.span.start + 2 ≤ t.span.stop)
     | _ => true)

/-! ## kinds under `shiftTwin` -/

section kinds
variable (j : Nat) (k : Kind)
@[simp] theorem isWord_shiftTwin : (shiftTwin j k).isWord = k.isWord := by
  cases k <;> try rfl
  rename_i t; cases t <;> rfl
@[simp] theorem isSpace_shiftTwin : (shiftTwin j k).isSpace = k.isSpace := by
  cases k <;> try rfl
  rename_i t; cases t <;> rfl
@[simp] theorem isWhitespace_shiftTwin : (shiftTwin j k).isWhitespace = k.isWhitespace := by
  cases k <;> try rfl
  rename_i t; cases t <;> rfl
@[simp] theorem isPunctuation_shiftTwin : (shiftTwin j k).isPunctuation = k.isPunctuation := by
  cases k <;> try rfl
  rename_i t; cases t <;> rfl
@[simp] theorem isNumber_shiftTwin : (shiftTwin j k).isNumber = k.isNumber := by
  cases k <;> try rfl
  rename_i t; cases t <;> rfl
@[simp] theorem isCurrency_shiftTwin : isCurrency (shiftTwin j k) = isCurrency k := by
  cases k <;> try rfl
  rename_i t; cases t <;> rfl
@[simp] theorem isEllipsis_shiftTwin : isEllipsis (shiftTwin j k) = isEllipsis k := by
  cases k <;> try rfl
  rename_i t; cases t <;> rfl
@[simp] theorem spaceCount_shiftTwin : spaceCount (shiftTwin j k) = spaceCount k := by
  cases k <;> try rfl
  rename_i t; cases t <;> rfl
@[simp] theorem numSuffix_shiftTwin : numSuffix (shiftTwin j k) = numSuffix k := by
  cases k <;> try rfl
  rename_i t; cases t <;> rfl
@[simp] theorem isOpenQuote_shiftTwin : isOpenQuote (shiftTwin j k) = isOpenQuote k := by
  cases k <;> try rfl
  rename_i t; cases t <;> rfl
end kinds

@[simp] theorem tokOK_shTok (k j : Nat) (t : Tok) : tokOK (shTok k j t) = tokOK t := by
  have h1 : (t.span.start + k < t.span.stop + k) = (t.span.start < t.span.stop) := by
    apply propext; omega
  have h2 : (t.span.start + k + 2 ≤ t.span.stop + k) = (t.span.start + 2 ≤ t.span.stop) := by
    apply propext; omega
  simp only [tokOK, shTok_span, shiftSpan_start, shiftSpan_stop, shTok_kind, numSuffix_shiftTwin, h1, h2]

/-! ## source text under a span -/

theorem drop_shift {α} (P D : List α) (n : Nat) : (P ++ D).drop (n + P.length) = D.drop n := by
  rw [show n + P.length = P.length + n by omega]
  induction P with
  | nil => simp
  | cons p P ih => simp [Nat.succ_add] at ih ⊢

theorem textOf_shift (P D : List Char) (s : Span) : textOf (P ++ D) (shiftSpan P.length s) = textOf D s := by
  simp only [textOf, shiftSpan_start, shiftSpan_stop, drop_shift]
  rw [show s.stop + P.length - (s.start + P.length) = s.stop - s.start by omega]

theorem textOf_left (P D : List Char) (s : Span) (h : s.stop ≤ P.length) : textOf (P ++ D) s = textOf P s := by
  simp only [textOf]
  by_cases hs : s.start ≤ s.stop
  · rw [List.drop_append_of_le_length (by omega), List.take_append_of_le_length (by simp; omega)]
  · rw [show s.stop - s.start = 0 by omega]; simp

theorem getContent_shift' (P D : List Char) (s : Span) :
    (shiftSpan P.length s).getContent (P ++ D) = s.getContent D := getContent_shift P D s

theorem getContent_left' (P D : List Char) (s : Span) (h : s.stop ≤ P.length) :
    s.getContent (P ++ D) = s.getContent P := by
  unfold Span.getContent
  by_cases h1 : s.start > s.stop
  · rw [if_pos h1, if_pos h1]
  · rw [if_neg h1, if_neg h1]
    by_cases h2 : s.start ≥ P.length ∨ s.stop > P.length
    · have h3 : s.start = s.stop := by omega
      rw [if_pos h2]
      simp only [h3, beq_self_eq_true, if_true, Nat.sub_self, List.take_zero]
      split <;> rfl
    · rw [if_neg h2, if_neg (by simp only [List.length_append]; omega)]
      rw [List.drop_append_of_le_length (by omega), List.take_append_of_le_length (by simp; omega)]

theorem spanNew_shift (k s e : Nat) : Span.new (s + k) (e + k) = (Span.new s e).map (shiftSpan k) := by
  unfold Span.new
  by_cases h : s > e
  · rw [if_pos h, if_pos (by omega)]; rfl
  · rw [if_neg h, if_neg (by omega)]; rfl

theorem hasFlag_shift (env : Env) (P D : List Char) (t : Tok) (j bit : Nat) :
    hasFlag env (P ++ D) (shTok P.length j t) bit = hasFlag env D t bit := by
  simp only [hasFlag, shTok_kind, isWord_shiftTwin, shTok_span, textOf_shift]

theorem hasFlag_left (env : Env) (P D : List Char) (t : Tok) (bit : Nat) (h : t.span.stop ≤ P.length) :
    hasFlag env (P ++ D) t bit = hasFlag env P t bit := by
  simp only [hasFlag, textOf_left P D t.span h]

/-! ## `collectE` -/

theorem collectE_append {α} (f : α → Except Panic (List RuleLint)) (xs ys : List α) :
    collectE f (xs ++ ys) =
      (match collectE f xs with
       | .error e => .error e
       | .ok a =>
         match collectE f ys with
         | .error e => .error e
         | .ok b => .ok (a ++ b)) := by
  induction xs with
  | nil =>
    simp only [List.nil_append, collectE]
    cases collectE f ys <;> simp
  | cons x xs ih =>
    simp only [List.cons_append, collectE, ih]
    cases f x with
    | error e => rfl
    | ok a =>
      cases collectE f xs with
      | error e => rfl
      | ok b =>
        cases collectE f ys with
        | error e => rfl
        | ok c => simp

theorem collectE_congr {α} (f g : α → Except Panic (List RuleLint)) (xs : List α) (h : ∀ x ∈ xs, f x = g x) :
    collectE f xs = collectE g xs := by
  induction xs with
  | nil => rfl
  | cons x xs ih =>
    simp only [collectE]
    rw [h x (by simp), ih (fun y hy => h y (List.mem_cons_of_mem _ hy))]

theorem collectE_map {α β} (f : α → Except Panic (List RuleLint)) (g : β → α) (xs : List β) :
    collectE f (xs.map g) = collectE (fun x => f (g x)) xs := by
  induction xs with
  | nil => rfl
  | cons x xs ih => simp only [List.map_cons, collectE, ih]

/-- results moved: `f' x = (f x).map (shiftRLs k)` elementwise -/
theorem collectE_shift {α} (k : Nat) (f f' : α → Except Panic (List RuleLint)) (xs : List α)
    (h : ∀ x ∈ xs, f' x = (f x).map (shiftRLs k)) :
    collectE f' xs = (collectE f xs).map (shiftRLs k) := by
  induction xs with
  | nil => rfl
  | cons x xs ih =>
    simp only [collectE]
    rw [h x (by simp), ih (fun y hy => h y (List.mem_cons_of_mem _ hy))]
    cases f x with
    | error e => rfl
    | ok a =>
      cases collectE f xs with
      | error e => rfl
      | ok b => simp [Except.map, shiftRLs_append]

/-- every element fine, every lint good -/
theorem collectE_ok {α} (Q : RuleLint → Prop) (f : α → Except Panic (List RuleLint)) (xs : List α)
    (h : ∀ x ∈ xs, ∃ ls, f x = .ok ls ∧ ∀ l ∈ ls, Q l) :
    ∃ ls, collectE f xs = .ok ls ∧ ∀ l ∈ ls, Q l := by
  induction xs with
  | nil => exact ⟨[], rfl, by simp⟩
  | cons x xs ih =>
    obtain ⟨a, ea, ha⟩ := h x (by simp)
    obtain ⟨b, eb, hb⟩ := ih (fun y hy => h y (List.mem_cons_of_mem _ hy))
    refine ⟨a ++ b, by simp only [collectE, ea, eb], ?_⟩
    intro l hl
    rcases List.mem_append.mp hl with hl | hl
    · exact ha l hl
    · exact hb l hl

/-- where the lints of a successful run come from -/
theorem collectE_mem {α} (f : α → Except Panic (List RuleLint)) (xs : List α) (ls : List RuleLint)
    (h : collectE f xs = .ok ls) (l : RuleLint) (hl : l ∈ ls) : ∃ x ∈ xs, ∃ a, f x = .ok a ∧ l ∈ a := by
  induction xs generalizing ls with
  | nil => simp only [collectE] at h; cases h; cases hl
  | cons x xs ih =>
    simp only [collectE] at h
    cases ea : f x with
    | error e => rw [ea] at h; cases h
    | ok a =>
      rw [ea] at h
      cases eb : collectE f xs with
      | error e => rw [eb] at h; cases h
      | ok b =>
        rw [eb] at h
        cases h
        rcases List.mem_append.mp hl with hl | hl
        · exact ⟨x, by simp, a, ea, hl⟩
        · obtain ⟨y, hy, c, ec, hc⟩ := ih b eb hl
          exact ⟨y, List.mem_cons_of_mem _ hy, c, ec, hc⟩

/-! ## locality of piece rules -/

/-- A piece rule is local to its piece and translation invariant (the `Except`-valued analogue of
`Harper.Chunks.XLocal`): nothing on the empty piece; text after the paragraph does not matter;
moving the piece together with its text moves the lints, panics included. The pieces are made of
`tokOK` tokens (every token of a plain-English document is). -/
structure XLocalE (r : PieceRule) : Prop where
  nil : ∀ src, r src [] = .ok []
  left : ∀ (P D : List Char) (piece : List Tok), (∀ t ∈ piece, tokOK t = true ∧ t.span.stop ≤ P.length) →
    r (P ++ D) piece = r P piece
  right : ∀ (P D : List Char) (piece : List Tok) (j : Nat), (∀ t ∈ piece, tokOK t = true) →
    r (P ++ D) (shiftDoc P.length j piece) = (r D piece).map (shiftRLs P.length)

/-- the same for a function of one token -/
structure TokLocal (f : List Char → Tok → Except Panic (List RuleLint)) : Prop where
  left : ∀ (P D : List Char) (t : Tok), tokOK t = true → t.span.stop ≤ P.length → f (P ++ D) t = f P t
  right : ∀ (P D : List Char) (t : Tok) (j : Nat), tokOK t = true →
    f (P ++ D) (shTok P.length j t) = (f D t).map (shiftRLs P.length)

theorem perTok_xlocal {f : List Char → Tok → Except Panic (List RuleLint)} (h : TokLocal f) : XLocalE (perTok f) where
  nil := fun _ => rfl
  left := by
    intro P D piece hp
    exact collectE_congr _ _ _ (fun t ht => h.left P D t (hp t ht).1 (hp t ht).2)
  right := by
    intro P D piece j hp
    simp only [perTok, shiftDoc_eq_map, collectE_map]
    exact collectE_shift _ _ _ _ (fun t ht => h.right P D t j (hp t ht))

/-- **the `Except`-valued `lintBy_append`**: one local rule over the pieces of two documents joined
at a terminator -/
theorem overPieces_append (term : Kind → Bool) (hterm : ∀ j k, term (shiftTwin j k) = term k)
    (r : PieceRule) (hr : XLocalE r) (P D : List Char) (A0 : List Tok) (brk : Tok) (hb : term brk.kind = true)
    (td : List Tok) (hin : ∀ t ∈ A0 ++ [brk], tokOK t = true ∧ t.span.stop ≤ P.length)
    (hd : ∀ t ∈ td, tokOK t = true) :
    overPieces (split term) r (P ++ D) ((A0 ++ [brk]) ++ shiftDoc P.length (A0 ++ [brk]).length td) =
      joinE P.length (overPieces (split term) r P (A0 ++ [brk])) (overPieces (split term) r D td) := by
  unfold overPieces
  rw [split_append term brk hb, collectE_append]
  have hl : collectE (r (P ++ D)) (split term (A0 ++ [brk])) = collectE (r P) (split term (A0 ++ [brk])) :=
    collectE_congr _ _ _ (fun piece hp => hr.left P D piece (fun t ht => hin t (split_mem term _ piece hp t ht)))
  rw [hl]
  cases collectE (r P) (split term (A0 ++ [brk])) with
  | error e => rfl
  | ok a =>
    simp only [joinE]
    cases td with
    | nil =>
      simp only [shiftDoc, List.map_nil, List.isEmpty_nil, if_true, collectE, split, hr.nil]
      simp
    | cons t ts =>
      rw [if_neg (by simp [shiftDoc])]
      have hm : split term (shiftDoc P.length (A0 ++ [brk]).length (t :: ts)) =
          (split term (t :: ts)).map (List.map (shTok P.length (A0 ++ [brk]).length)) :=
        split_map term _ (fun t => hterm _ _) _
      rw [hm, collectE_map]
      have hs := collectE_shift P.length (r D) (fun piece => r (P ++ D) (piece.map (shTok P.length (A0 ++ [brk]).length)))
        (split term (t :: ts))
        (fun piece hp => hr.right P D piece _ (fun u hu => hd u (split_mem term _ piece hp u hu)))
      rw [hs]
      cases collectE (r D) (split term (t :: ts)) with
      | error e => rfl
      | ok b => rfl

/-- a per-token rule needs no terminator at all -/
theorem perTok_append {f : List Char → Tok → Except Panic (List RuleLint)} (h : TokLocal f) (P D : List Char)
    (tp td : List Tok) (j : Nat) (hin : ∀ t ∈ tp, tokOK t = true ∧ t.span.stop ≤ P.length)
    (hd : ∀ t ∈ td, tokOK t = true) :
    perTok f (P ++ D) (tp ++ shiftDoc P.length j td) = joinE P.length (perTok f P tp) (perTok f D td) := by
  unfold perTok
  rw [collectE_append, collectE_congr _ (f P) tp (fun t ht => h.left P D t (hin t ht).1 (hin t ht).2)]
  cases collectE (f P) tp with
  | error e => rfl
  | ok a =>
    simp only [joinE, shiftDoc_eq_map, collectE_map]
    rw [collectE_shift P.length (f D) _ td (fun t ht => h.right P D t j (hd t ht))]
    cases collectE (f D) td with
    | error e => rfl
    | ok b => rfl

/-! ## the per-token rules -/

theorem unclosedQuote_tokLocal : TokLocal unclosedQuoteTok where
  left := fun _ _ _ _ _ => rfl
  right := by
    intro P D t j _
    simp only [unclosedQuoteTok, shTok_kind, isOpenQuote_shiftTwin, shTok_span]
    split <;> rfl

theorem ellipsis_tokLocal : TokLocal ellipsisTok where
  left := by
    intro P D t _ h
    simp only [ellipsisTok, getContent_left' P D t.span h]
  right := by
    intro P D t j _
    simp only [ellipsisTok, shTok_kind, isEllipsis_shiftTwin, shTok_span, getContent_shift']
    split
    · rfl
    · cases t.span.getContent D with
      | error e => rfl
      | ok cs =>
        simp only []
        split
        · rfl
        · split <;> rfl

theorem suffixSpan_eq (sp : Span) (h : 2 ≤ sp.stop) : suffixSpan sp = some ⟨sp.stop - 2, sp.stop⟩ := by
  unfold suffixSpan Span.withLen Span.pulledBy
  split
  · rename_i h'; simp only [] at h'; omega
  · simp

theorem suffixSpan_none (sp : Span) (h : sp.stop < 2) : suffixSpan sp = none := by
  unfold suffixSpan Span.withLen Span.pulledBy
  split
  · rfl
  · rename_i h'; simp only [] at h'; omega

theorem tokOK_suffix {t : Tok} (h : tokOK t = true) {s : Suffix} (hs : numSuffix t.kind = some (some s)) :
    2 ≤ t.span.stop := by
  simp only [tokOK, hs, Bool.and_eq_true, decide_eq_true_eq] at h
  omega

theorem tokOK_nonempty {t : Tok} (h : tokOK t = true) : t.span.start < t.span.stop := by
  simp only [tokOK, Bool.and_eq_true, decide_eq_true_eq] at h
  exact h.1

theorem numberSuffixCap_tokLocal (env : Env) : TokLocal (numberSuffixCapTok env) where
  left := by
    intro P D t hok h
    simp only [numberSuffixCapTok]
    cases hs : numSuffix t.kind with
    | none => rfl
    | some o =>
      cases o with
      | none => rfl
      | some s =>
        have h2 := tokOK_suffix hok hs
        simp only [suffixSpan_eq _ h2]
        rw [getContent_left' P D ⟨t.span.stop - 2, t.span.stop⟩ h]
  right := by
    intro P D t j hok
    simp only [numberSuffixCapTok, shTok_kind, numSuffix_shiftTwin, shTok_span]
    cases hs : numSuffix t.kind with
    | none => rfl
    | some o =>
      cases o with
      | none => rfl
      | some s =>
        have h2 := tokOK_suffix hok hs
        simp only [suffixSpan_eq _ h2, suffixSpan_eq (shiftSpan P.length t.span) (by simp; omega), shiftSpan_stop]
        have e : (⟨t.span.stop + P.length - 2, t.span.stop + P.length⟩ : Span) =
            shiftSpan P.length ⟨t.span.stop - 2, t.span.stop⟩ := by
          simp only [shiftSpan, Span.mk.injEq, and_true]; omega
        rw [e, getContent_shift']
        cases (⟨t.span.stop - 2, t.span.stop⟩ : Span).getContent D with
        | error e => rfl
        | ok cs => simp only []; split <;> rfl

theorem lintNumber_shift (v : NumVal) (sfx : Option Suffix) (sp : Span) (k : Nat)
    (h : ∀ s, sfx = some s → 2 ≤ sp.stop) :
    lintNumber ⟨v, sfx, shiftSpan k sp⟩ =
      (lintNumber ⟨v, sfx, sp⟩).map fun l => ⟨shiftSpan k l.span, l.replacement⟩ := by
  cases sfx with
  | none =>
    simp only [lintNumber]
    cases suffixSpan (shiftSpan k sp) <;> cases suffixSpan sp <;> rfl
  | some s =>
    have h2 := h s rfl
    simp only [lintNumber, suffixSpan_eq _ h2, suffixSpan_eq (shiftSpan k sp) (by simp; omega), shiftSpan_stop]
    cases correctSuffixForVal v with
    | none => rfl
    | some c =>
      simp only []
      split
      · simp only [Option.map_some, shiftSpan, Option.some.injEq, SuffixLint.mk.injEq, Span.mk.injEq, and_true]
        omega
      · rfl

theorem correctNumberSuffix_tokLocal (env : Env) : TokLocal (correctNumberSuffixTok env) where
  left := by
    intro P D t _ h
    simp only [correctNumberSuffixTok, textOf_left P D t.span h]
  right := by
    intro P D t j hok
    simp only [correctNumberSuffixTok, shTok_kind, numSuffix_shiftTwin, shTok_span, textOf_shift]
    cases hs : numSuffix t.kind with
    | none => rfl
    | some sfx =>
      simp only []
      rw [lintNumber_shift _ _ _ _ (fun s hs' => tokOK_suffix hok (by rw [hs, hs']))]
      cases lintNumber ⟨env.numVal (textOf D t.span), sfx, t.span⟩ <;> rfl

/-! ## Spaces -/

theorem spacesMulti_shift (k j : Nat) (t : Tok) : spacesMulti (shTok k j t) = shiftRLs k (spacesMulti t) := by
  simp only [spacesMulti, shTok_kind, spaceCount_shiftTwin, shTok_span]
  cases spaceCount t.kind with
  | none => rfl
  | some n => simp only []; split <;> rfl

theorem flatMap_spacesMulti_shift (k j : Nat) (ts : List Tok) :
    (ts.map (shTok k j)).flatMap spacesMulti = shiftRLs k (ts.flatMap spacesMulti) := by
  induction ts with
  | nil => rfl
  | cons t ts ih => simp only [List.map_cons, List.flatMap_cons, spacesMulti_shift, ih, shiftRLs_append]

theorem spanOf_single (s : Tok) : spanOf [s] = some ⟨min s.span.start s.span.stop, max s.span.start s.span.stop⟩ := rfl

theorem spacesTrailing_shift (k j : Nat) (ts : List Tok) :
    spacesTrailing (ts.map (shTok k j)) = (spacesTrailing ts).map (shiftRLs k) := by
  simp only [spacesTrailing, ← List.map_reverse]
  cases ts.reverse with
  | nil => rfl
  | cons p r =>
    cases r with
    | nil => rfl
    | cons s r =>
      cases r with
      | nil => rfl
      | cons w r =>
        simp only [List.map_cons, shTok_kind, isWord_shiftTwin, isSpace_shiftTwin, isPunctuation_shiftTwin]
        split
        · simp only [spanOf_single, shTok_span, shiftSpan_start, shiftSpan_stop, Except.map, shiftRLs, List.map_cons,
            List.map_nil, shiftRL, shiftSpan]
          rw [show min (s.span.start + k) (s.span.stop + k) = min s.span.start s.span.stop + k by omega,
            show max (s.span.start + k) (s.span.stop + k) = max s.span.start s.span.stop + k by omega]
        · rfl

theorem spaces_xlocal : XLocalE spacesPiece where
  nil := fun _ => rfl
  left := fun _ _ _ _ => rfl
  right := by
    intro P D piece j _
    simp only [spacesPiece, shiftDoc_eq_map, spacesTrailing_shift, flatMap_spacesMulti_shift]
    cases spacesTrailing piece with
    | error e => rfl
    | ok tr => simp [Except.map, shiftRLs_append]

/-! ## LongSentences -/

theorem wordCount_shift (k j : Nat) (ts : List Tok) : wordCount (ts.map (shTok k j)) = wordCount ts := by
  simp only [wordCount, List.filter_map, List.length_map]
  congr 1
  apply List.filter_congr
  intro t _
  simp

theorem coveringE_shift (k j : Nat) (ts : List Tok) :
    coveringE (ts.map (shTok k j)) = (coveringE ts).map (List.map (shTok k j)) := by
  induction ts with
  | nil => rfl
  | cons t ts ih =>
    have e : (shTok k j t).span.stop - (shTok k j t).span.start = t.span.stop - t.span.start := by
      simp only [shTok_span, shiftSpan_start, shiftSpan_stop]; omega
    have g : ((shTok k j t).span.start > (shTok k j t).span.stop) = (t.span.start > t.span.stop) := by
      simp only [shTok_span, shiftSpan_start, shiftSpan_stop]; apply propext; omega
    simp only [List.map_cons, coveringE, ih, e, g]
    split
    · rfl
    · cases coveringE ts with
      | error e => rfl
      | ok r =>
        simp only [Except.map]
        split <;> rfl

theorem minStart_shift (k j : Nat) (ts : List Tok) : minStart (ts.map (shTok k j)) = (minStart ts).map (· + k) := by
  induction ts with
  | nil => rfl
  | cons t ts ih =>
    simp only [List.map_cons, minStart, ih, shTok_span, shiftSpan_start]
    cases minStart ts with
    | none => rfl
    | some m => simp only [Option.map_some, Option.some.injEq]; omega

theorem maxStop_shift (k j : Nat) (ts : List Tok) : maxStop (ts.map (shTok k j)) = (maxStop ts).map (· + k) := by
  induction ts with
  | nil => rfl
  | cons t ts ih =>
    simp only [List.map_cons, maxStop, ih, shTok_span, shiftSpan_stop]
    cases maxStop ts with
    | none => rfl
    | some m => simp only [Option.map_some, Option.some.injEq]; omega

theorem longSentences_xlocal : XLocalE longSentencesPiece where
  nil := fun _ => rfl
  left := fun _ _ _ _ => rfl
  right := by
    intro P D piece j _
    simp only [longSentencesPiece, shiftDoc_eq_map, wordCount_shift, coveringE_shift]
    split
    · cases coveringE piece with
      | error e => rfl
      | ok cov =>
        simp only [Except.map, minStart_shift, maxStop_shift]
        cases minStart cov with
        | none => rfl
        | some s =>
          cases maxStop cov with
          | none => rfl
          | some e =>
            simp only [Option.map_some, spanNew_shift]
            cases Span.new s e <;> rfl
    · rfl

/-! ## RepeatedWords -/

theorem repeatCandidate_shift (env : Env) (P D : List Char) (a : Tok) (j : Nat) (wa : List Char) :
    repeatCandidate env (P ++ D) (shTok P.length j a) wa = repeatCandidate env D a wa := by
  simp only [repeatCandidate, hasFlag_shift]

theorem repeatCandidate_left (env : Env) (P D : List Char) (a : Tok) (wa : List Char) (h : a.span.stop ≤ P.length) :
    repeatCandidate env (P ++ D) a wa = repeatCandidate env P a wa := by
  simp only [repeatCandidate, hasFlag_left env P D a _ h]

theorem repeatedPair_shift (env : Env) (P D : List Char) (a t : Tok) (ok : Bool) (j : Nat) :
    repeatedPair env (P ++ D) (shTok P.length j a) ok (shTok P.length j t) =
      (repeatedPair env D a ok t).map (shiftRLs P.length) := by
  simp only [repeatedPair, shTok_span, getContent_shift', repeatCandidate_shift, shiftSpan_start, shiftSpan_stop,
    spanNew_shift]
  cases a.span.getContent D with
  | error e => rfl
  | ok wa =>
    cases t.span.getContent D with
    | error e => rfl
    | ok wb =>
      simp only []
      split
      · split
        · rfl
        · cases Span.new a.span.start t.span.stop <;> rfl
      · rfl

theorem repeatedPair_left (env : Env) (P D : List Char) (a t : Tok) (ok : Bool)
    (ha : a.span.stop ≤ P.length) (ht : t.span.stop ≤ P.length) :
    repeatedPair env (P ++ D) a ok t = repeatedPair env P a ok t := by
  simp only [repeatedPair, getContent_left' P D _ ha, getContent_left' P D _ ht]
  cases a.span.getContent P with
  | error e => rfl
  | ok wa => simp only [repeatCandidate_left env P D a wa ha]

theorem repeatedGo_shift (env : Env) (P D : List Char) (j : Nat) (ts : List Tok) (prev : Option (Tok × Bool)) :
    repeatedGo env (P ++ D) (prev.map fun p => (shTok P.length j p.1, p.2)) (ts.map (shTok P.length j)) =
      (repeatedGo env D prev ts).map (shiftRLs P.length) := by
  induction ts generalizing prev with
  | nil => cases prev <;> rfl
  | cons t ts ih =>
    simp only [List.map_cons, repeatedGo, shTok_kind, isWord_shiftTwin, isWhitespace_shiftTwin]
    split
    · cases prev with
      | none => exact ih (some (t, true))
      | some p =>
        obtain ⟨a, ok⟩ := p
        have h2 := ih (some (t, true))
        simp only [Option.map_some] at h2 ⊢
        rw [repeatedPair_shift, h2]
        cases repeatedPair env D a ok t with
        | error e => rfl
        | ok l =>
          cases repeatedGo env D (some (t, true)) ts with
          | error e => rfl
          | ok r => simp [Except.map, shiftRLs_append]
    · have h2 := ih (prev.map fun p => (p.1, p.2 && t.kind.isWhitespace))
      rw [← h2]
      cases prev <;> rfl

theorem repeatedGo_left (env : Env) (P D : List Char) (ts : List Tok) (prev : Option (Tok × Bool))
    (hp : ∀ p, prev = some p → p.1.span.stop ≤ P.length) (hts : ∀ t ∈ ts, t.span.stop ≤ P.length) :
    repeatedGo env (P ++ D) prev ts = repeatedGo env P prev ts := by
  induction ts generalizing prev with
  | nil => rfl
  | cons t ts ih =>
    have ht := hts t (by simp)
    have hts' : ∀ u ∈ ts, u.span.stop ≤ P.length := fun u hu => hts u (List.mem_cons_of_mem _ hu)
    simp only [repeatedGo]
    split
    · cases prev with
      | none => exact ih _ (fun p hp' => by cases hp'; exact ht) hts'
      | some p =>
        obtain ⟨a, ok⟩ := p
        simp only []
        rw [repeatedPair_left env P D a t ok (hp (a, ok) rfl) ht, ih _ (fun p hp' => by cases hp'; exact ht) hts']
    · apply ih _ _ hts'
      intro p hp'
      cases prev with
      | none => cases hp'
      | some q => cases hp'; exact hp q rfl

theorem repeatedWords_xlocal (env : Env) : XLocalE (repeatedWordsPiece env) where
  nil := fun _ => rfl
  left := by
    intro P D piece hp
    exact repeatedGo_left env P D piece none (fun _ h => by cases h) (fun t ht => (hp t ht).2)
  right := by
    intro P D piece j _
    exact repeatedGo_shift env P D j piece none

/-! ## CurrencyPlacement: the candidates of one chunk -/

theorem firstOf_shift (p : Kind → Bool) (hp : ∀ j k, p (shiftTwin j k) = p k) (k j : Nat) (a b : Tok) :
    firstOf p (shTok k j a) (shTok k j b) = (firstOf p a b).map (shTok k j) := by
  simp only [firstOf, shTok_kind, hp]
  split
  · rfl
  · split <;> rfl

theorem firstOf_mem (p : Kind → Bool) (a b t : Tok) (h : firstOf p a b = some t) : t = a ∨ t = b := by
  simp only [firstOf] at h
  split at h
  · cases h; exact Or.inl rfl
  · split at h
    · cases h; exact Or.inr rfl
    · cases h

theorem currencyPair_shift (env : Env) (P D : List Char) (a b : Tok) (j : Nat) :
    currencyPair env (P ++ D) (shTok P.length j a) (shTok P.length j b) =
      (currencyPair env D a b).map (shiftRLs P.length) := by
  simp only [currencyPair, firstOf_shift _ isPunctuation_shiftTwin, firstOf_shift _ isNumber_shiftTwin]
  cases firstOf Kind.isPunctuation a b with
  | none => rfl
  | some p =>
    simp only [Option.map_some, shTok_kind, isCurrency_shiftTwin, shTok_span, textOf_shift]
    split
    · rfl
    · cases (textOf D p.span).head? with
      | none => rfl
      | some c =>
        simp only []
        cases currencyOfChar c with
        | none => rfl
        | some cur =>
          simp only []
          cases firstOf Kind.isNumber a b with
          | none => rfl
          | some n =>
            simp only [Option.map_some, shTok_span, textOf_shift, shiftSpan_start, shiftSpan_stop, spanNew_shift]
            cases Span.new a.span.start b.span.stop with
            | error e => rfl
            | ok sp =>
              simp only [Except.map, getContent_shift']
              cases sp.getContent D with
              | error e => rfl
              | ok actual => simp only []; split <;> rfl

theorem currencyPair_left (env : Env) (P D : List Char) (a b : Tok)
    (ha : a.span.stop ≤ P.length) (hb : b.span.stop ≤ P.length) :
    currencyPair env (P ++ D) a b = currencyPair env P a b := by
  simp only [currencyPair]
  cases hp : firstOf Kind.isPunctuation a b with
  | none => rfl
  | some p =>
    have hps : p.span.stop ≤ P.length := by
      rcases firstOf_mem _ _ _ _ hp with rfl | rfl <;> assumption
    simp only [textOf_left P D p.span hps]
    split
    · rfl
    · cases (textOf P p.span).head? with
      | none => rfl
      | some c =>
        simp only []
        cases currencyOfChar c with
        | none => rfl
        | some cur =>
          simp only []
          cases hn : firstOf Kind.isNumber a b with
          | none => rfl
          | some n =>
            have hns : n.span.stop ≤ P.length := by
              rcases firstOf_mem _ _ _ _ hn with rfl | rfl <;> assumption
            simp only [textOf_left P D n.span hns]
            cases hsn : Span.new a.span.start b.span.stop with
            | error e => rfl
            | ok sp =>
              have hsp : sp.stop = b.span.stop := by
                unfold Span.new at hsn
                split at hsn
                · cases hsn
                · cases hsn; rfl
              simp only []
              rw [getContent_left' P D sp (by omega)]

theorem pairs_map {α β} (f : α → β) (l : List α) : pairs (l.map f) = (pairs l).map (fun p => (f p.1, f p.2)) := by
  induction l with
  | nil => rfl
  | cons a l ih =>
    cases l with
    | nil => rfl
    | cons b r =>
      simp only [List.map_cons, pairs, List.cons.injEq, true_and]
      exact ih

theorem quads_map {α β} (f : α → β) (l : List α) :
    quads (l.map f) = (quads l).map (fun q => (f q.1, f q.2.1, f q.2.2.1, f q.2.2.2)) := by
  induction l with
  | nil => rfl
  | cons p l ih =>
    match l with
    | [] => rfl
    | [_] => rfl
    | [_, _] => rfl
    | a :: b :: c :: r =>
      simp only [List.map_cons, quads, List.cons.injEq, true_and]
      exact ih

theorem pairs_mem {α} (l : List α) (p : α × α) (h : p ∈ pairs l) : p.1 ∈ l ∧ p.2 ∈ l := by
  induction l with
  | nil => cases h
  | cons a l ih =>
    cases l with
    | nil => cases h
    | cons b r =>
      simp only [pairs, List.mem_cons] at h
      rcases h with rfl | h
      · simp
      · have := ih h
        exact ⟨List.mem_cons_of_mem _ this.1, List.mem_cons_of_mem _ this.2⟩

theorem quads_mem {α} (l : List α) (q : α × α × α × α) (h : q ∈ quads l) :
    q.1 ∈ l ∧ q.2.1 ∈ l ∧ q.2.2.1 ∈ l ∧ q.2.2.2 ∈ l := by
  induction l with
  | nil => cases h
  | cons p l ih =>
    match l, ih with
    | [], _ => cases h
    | [_], _ => cases h
    | [_, _], _ => cases h
    | a :: b :: c :: r, ih =>
      simp only [quads, List.mem_cons] at h
      rcases h with rfl | h
      · simp
      · have := ih h
        exact ⟨List.mem_cons_of_mem _ this.1, List.mem_cons_of_mem _ this.2.1, List.mem_cons_of_mem _ this.2.2.1,
          List.mem_cons_of_mem _ this.2.2.2⟩

theorem currencyQuad_shift (env : Env) (P D : List Char) (q : Tok × Tok × Tok × Tok) (j : Nat) :
    currencyQuad env (P ++ D) (shTok P.length j q.1, shTok P.length j q.2.1, shTok P.length j q.2.2.1,
        shTok P.length j q.2.2.2) =
      (currencyQuad env D q).map (shiftRLs P.length) := by
  simp only [currencyQuad, shTok_kind, isWhitespace_shiftTwin, isCurrency_shiftTwin, currencyPair_shift]
  split <;> rfl

theorem currencyChunk_xlocal (env : Env) : XLocalE (currencyChunk env) where
  nil := fun _ => rfl
  left := by
    intro P D piece hp
    simp only [currencyChunk]
    rw [collectE_congr _ (fun ab => currencyPair env P ab.1 ab.2) (pairs piece)
      (fun ab hab => currencyPair_left env P D ab.1 ab.2 (hp _ (pairs_mem _ _ hab).1).2 (hp _ (pairs_mem _ _ hab).2).2),
      collectE_congr _ (currencyQuad env P) (quads piece) (fun q hq => by
        simp only [currencyQuad]
        rw [currencyPair_left env P D q.2.1 q.2.2.2 (hp _ (quads_mem _ _ hq).2.1).2 (hp _ (quads_mem _ _ hq).2.2.2).2])]
  right := by
    intro P D piece j _
    simp only [currencyChunk, shiftDoc_eq_map, pairs_map, quads_map, collectE_map]
    rw [collectE_shift P.length (fun ab => currencyPair env D ab.1 ab.2) _ (pairs piece)
        (fun ab _ => currencyPair_shift env P D ab.1 ab.2 j),
      collectE_shift P.length (currencyQuad env D) _ (quads piece) (fun q _ => currencyQuad_shift env P D q j)]
    cases collectE (fun ab => currencyPair env D ab.1 ab.2) (pairs piece) with
    | error e => rfl
    | ok l1 =>
      cases collectE (currencyQuad env D) (quads piece) with
      | error e => rfl
      | ok l2 => simp [Except.map, shiftRLs_append]

/-! ## `remove_overlaps` over two separated groups of lints -/

theorem removeOverlaps_eq_sweep (ls : List Lint) : removeOverlaps ls = (sweep 0 (isort ls)).1 := by
  unfold removeOverlaps
  split
  · rename_i h
    match ls, h with
    | [], _ => rfl
    | [x], _ => simp [isort, insertSorted, sweep]
    | _ :: _ :: _, h => simp at h; omega
  · simp only []
    rw [removeIndices_sweepIdx]

theorem removeOverlaps_mem (ls : List Lint) (l : Lint) (h : l ∈ removeOverlaps ls) : l ∈ ls := by
  rw [removeOverlaps_eq_sweep] at h
  exact (isort_perm ls).mem_iff.mp ((sweep_sublist 0 (isort ls)).subset h)

theorem insertSorted_append (a : Lint) (X Y : List Lint) (h : ∀ y ∈ Y, Lint.le a y = true) :
    insertSorted a (X ++ Y) = insertSorted a X ++ Y := by
  induction X with
  | nil =>
    cases Y with
    | nil => rfl
    | cons y Y => simp [insertSorted, h y (by simp)]
  | cons x X ih =>
    simp only [List.cons_append, insertSorted]
    split
    · rfl
    · rw [ih]; rfl

theorem isort_append (A B : List Lint) (h : ∀ a ∈ A, ∀ b ∈ B, Lint.le a b = true) :
    isort (A ++ B) = isort A ++ isort B := by
  induction A with
  | nil => rfl
  | cons a A ih =>
    simp only [List.cons_append, isort]
    rw [ih (fun x hx => h x (List.mem_cons_of_mem _ hx)),
      insertSorted_append a _ _ (fun y hy => h a (by simp) y ((isort_perm B).mem_iff.mp hy))]

theorem sweep_append_sep (k : Nat) (X Y : List Lint) (hX : ∀ x ∈ X, x.e ≤ k) (hY : ∀ y ∈ Y, k ≤ y.s) :
    ∀ cur, cur ≤ k → (sweep cur (X ++ Y)).1 = (sweep cur X).1 ++ (sweep 0 Y).1 := by
  induction X with
  | nil =>
    intro cur hc
    cases Y with
    | nil => rfl
    | cons y Y =>
      have hy := hY y (by simp)
      simp only [List.nil_append, sweep]
      rw [if_neg (by omega), if_neg (by omega)]
  | cons x X ih =>
    intro cur hc
    have hx := hX x (by simp)
    have ih' := ih (fun z hz => hX z (List.mem_cons_of_mem _ hz))
    simp only [List.cons_append, sweep]
    split
    · exact ih' cur hc
    · simp only [List.cons_append, List.cons.injEq, true_and]
      exact ih' x.e hx

/-- `f` moves a lint by `k` characters (whatever it does to the payload) -/
structure Moves (k : Nat) (f : Lint → Lint) : Prop where
  s : ∀ l, (f l).s = l.s + k
  e : ∀ l, (f l).e = l.e + k

theorem le_moves {k : Nat} {f : Lint → Lint} (hf : Moves k f) (a b : Lint) : Lint.le (f a) (f b) = Lint.le a b := by
  simp only [Lint.le, hf.s, hf.e]
  rw [Bool.eq_iff_iff]
  simp only [Bool.or_eq_true, decide_eq_true_eq, Bool.and_eq_true, beq_iff_eq]
  omega

theorem insertSorted_map {k : Nat} {f : Lint → Lint} (hf : Moves k f) (a : Lint) (ls : List Lint) :
    insertSorted (f a) (ls.map f) = (insertSorted a ls).map f := by
  induction ls with
  | nil => rfl
  | cons y ys ih =>
    simp only [List.map_cons, insertSorted, le_moves hf]
    split
    · rfl
    · simp only [List.map_cons, ih]

theorem isort_map {k : Nat} {f : Lint → Lint} (hf : Moves k f) (ls : List Lint) :
    isort (ls.map f) = (isort ls).map f := by
  induction ls with
  | nil => rfl
  | cons a ls ih => simp only [List.map_cons, isort, ih, insertSorted_map hf]

theorem sweep_map {k : Nat} {f : Lint → Lint} (hf : Moves k f) (ls : List Lint) :
    ∀ cur, (sweep (cur + k) (ls.map f)).1 = (sweep cur ls).1.map f := by
  induction ls with
  | nil => intro _; rfl
  | cons l ls ih =>
    intro cur
    simp only [List.map_cons, sweep, hf.s, hf.e]
    by_cases h : l.s < cur
    · rw [if_pos (by omega), if_pos h]; exact ih cur
    · rw [if_neg (by omega), if_neg h]
      simp only [List.map_cons, List.cons.injEq, true_and]
      exact ih l.e

theorem sweep0_map {k : Nat} {f : Lint → Lint} (hf : Moves k f) (ls : List Lint) :
    (sweep 0 (ls.map f)).1 = (sweep 0 ls).1.map f := by
  have h := sweep_map hf ls 0
  rw [← h]
  cases ls with
  | nil => rfl
  | cons l ls =>
    simp only [List.map_cons, sweep, hf.s]
    rw [if_neg (by omega), if_neg (by omega)]

theorem removeOverlaps_map {k : Nat} {f : Lint → Lint} (hf : Moves k f) (ls : List Lint) :
    removeOverlaps (ls.map f) = (removeOverlaps ls).map f := by
  rw [removeOverlaps_eq_sweep, removeOverlaps_eq_sweep, isort_map hf, sweep0_map hf]

/-- lints of the first group end at or before `k` and start before it; the second group lies at or
after `k`: overlap removal treats the two groups separately -/
theorem removeOverlaps_append_sep (k : Nat) (A B : List Lint) (f : Lint → Lint) (hf : Moves k f)
    (hA : ∀ a ∈ A, a.s < k ∧ a.e ≤ k) :
    removeOverlaps (A ++ B.map f) = removeOverlaps A ++ (removeOverlaps B).map f := by
  rw [removeOverlaps_eq_sweep, removeOverlaps_eq_sweep, removeOverlaps_eq_sweep]
  rw [isort_append A (B.map f) (by
    intro a ha b hb
    obtain ⟨b0, _, rfl⟩ := List.mem_map.mp hb
    simp only [Lint.le, hf.s, Bool.or_eq_true, decide_eq_true_eq]
    left; have := (hA a ha).1; omega)]
  rw [isort_map hf]
  rw [sweep_append_sep k (isort A) ((isort B).map f)
    (fun x hx => (hA x ((isort_perm A).mem_iff.mp hx)).2)
    (by
      intro y hy
      obtain ⟨b0, _, rfl⟩ := List.mem_map.mp hy
      rw [hf.s]; omega) 0 (Nat.zero_le _)]
  rw [sweep0_map hf]

/-! ### tagging -/

theorem filterMap_congr' {α β} (f g : α → Option β) (l : List α) (h : ∀ x ∈ l, f x = g x) :
    l.filterMap f = l.filterMap g := by
  induction l with
  | nil => rfl
  | cons x xs ih =>
    simp only [List.filterMap_cons]
    rw [h x (by simp), ih (fun y hy => h y (List.mem_cons_of_mem _ hy))]

theorem tagLints_append (i : Nat) (A B : List RuleLint) :
    tagLints i (A ++ B) = tagLints i A ++ tagLints (i + A.length) B := by
  induction A generalizing i with
  | nil => rfl
  | cons a A ih =>
    simp only [List.cons_append, tagLints, ih, List.length_cons, List.cons.injEq, true_and]
    rw [show i + 1 + A.length = i + (A.length + 1) by omega]

theorem tagLints_shift (i n k : Nat) (B : List RuleLint) :
    tagLints (i + n) (shiftRLs k B) = (tagLints i B).map (fun l => ⟨l.s + k, l.e + k, l.id + n⟩) := by
  induction B generalizing i with
  | nil => rfl
  | cons b B ih =>
    simp only [shiftRLs, List.map_cons, tagLints, List.cons.injEq]
    refine ⟨rfl, ?_⟩
    have := ih (i + 1)
    simp only [shiftRLs] at this
    rw [show i + n + 1 = i + 1 + n by omega]
    exact this

theorem tagLints_mem (i : Nat) (ls : List RuleLint) (l : Lint) (h : l ∈ tagLints i ls) :
    i ≤ l.id ∧ l.id < i + ls.length ∧ ∃ c, ls[l.id - i]? = some c ∧ c.span.start = l.s ∧ c.span.stop = l.e := by
  induction ls generalizing i with
  | nil => cases h
  | cons c ls ih =>
    simp only [tagLints, List.mem_cons] at h
    rcases h with rfl | h
    · simp
    · obtain ⟨h1, h2, c', h3, h4⟩ := ih (i + 1) h
      refine ⟨by omega, by simp only [List.length_cons]; omega, c', ?_, h4⟩
      rw [show l.id - i = (l.id - (i + 1)) + 1 by omega]
      simpa using h3

/-- `remove_overlaps` on the lints of `P ++ D` = on those of `P`, then on those of `D` -/
theorem removeOverlapsRL_append (k : Nat) (A B : List RuleLint)
    (hA : ∀ a ∈ A, a.span.start < k ∧ a.span.stop ≤ k) :
    removeOverlapsRL (A ++ shiftRLs k B) = removeOverlapsRL A ++ shiftRLs k (removeOverlapsRL B) := by
  unfold removeOverlapsRL
  rw [tagLints_append, tagLints_shift 0 A.length k B]
  have hf : Moves k (fun l : Lint => ⟨l.s + k, l.e + k, l.id + A.length⟩) := ⟨fun _ => rfl, fun _ => rfl⟩
  rw [removeOverlaps_append_sep k (tagLints 0 A) (tagLints 0 B) _ hf (by
    intro a ha
    obtain ⟨_, _, c, hc, h1, h2⟩ := tagLints_mem 0 A a ha
    have := hA c (List.mem_of_getElem? hc)
    omega)]
  rw [List.filterMap_append]
  congr 1
  · apply filterMap_congr'
    intro l hl
    have := tagLints_mem 0 A l (removeOverlaps_mem _ l hl)
    rw [List.getElem?_append_left (by omega)]
  · rw [List.filterMap_map]
    unfold shiftRLs
    rw [List.map_filterMap]
    apply filterMap_congr'
    intro l _
    simp only [Function.comp]
    rw [List.getElem?_append_right (by omega)]
    simp

/-! ## CurrencyPlacement: candidates, then `remove_overlaps` -/

/-- a candidate reaches from the start of one token to the end of another -/
theorem currencyPair_span (env : Env) (src : List Char) (a b : Tok) (ls : List RuleLint)
    (h : currencyPair env src a b = .ok ls) (l : RuleLint) (hl : l ∈ ls) :
    l.span = ⟨a.span.start, b.span.stop⟩ ∧ a.span.start ≤ b.span.stop := by
  simp only [currencyPair] at h
  split at h
  · cases h; cases hl
  · split at h
    · cases h; cases hl
    · split at h
      · cases h; cases hl
      · split at h
        · cases h; cases hl
        · split at h
          · cases h; cases hl
          · split at h
            · cases h
            · rename_i sp hsp
              have hs : sp = ⟨a.span.start, b.span.stop⟩ ∧ a.span.start ≤ b.span.stop := by
                unfold Span.new at hsp
                split at hsp
                · cases hsp
                · cases hsp; exact ⟨rfl, by omega⟩
              split at h
              · cases h
              · split at h
                · cases h
                  simp only [List.mem_singleton] at hl
                  subst hl
                  exact hs
                · cases h; cases hl

theorem currencyChunk_span (env : Env) (src : List Char) (chunk : List Tok) (ls : List RuleLint)
    (h : currencyChunk env src chunk = .ok ls) (l : RuleLint) (hl : l ∈ ls) :
    ∃ a ∈ chunk, ∃ b ∈ chunk, l.span = ⟨a.span.start, b.span.stop⟩ ∧ a.span.start ≤ b.span.stop := by
  simp only [currencyChunk] at h
  cases e1 : collectE (fun ab => currencyPair env src ab.1 ab.2) (pairs chunk) with
  | error e => rw [e1] at h; cases h
  | ok l1 =>
    rw [e1] at h
    cases e2 : collectE (currencyQuad env src) (quads chunk) with
    | error e => rw [e2] at h; cases h
    | ok l2 =>
      rw [e2] at h
      cases h
      rcases List.mem_append.mp hl with hl | hl
      · obtain ⟨ab, hab, c, hc, hlc⟩ := collectE_mem _ _ _ e1 l hl
        have hm := pairs_mem _ _ hab
        exact ⟨ab.1, hm.1, ab.2, hm.2, currencyPair_span env src _ _ c hc l hlc⟩
      · obtain ⟨q, hq, c, hc, hlc⟩ := collectE_mem _ _ _ e2 l hl
        have hm := quads_mem _ _ hq
        simp only [currencyQuad] at hc
        split at hc
        · cases hc; cases hlc
        · exact ⟨q.2.1, hm.2.1, q.2.2.2, hm.2.2.2, currencyPair_span env src _ _ c hc l hlc⟩

theorem currencyCandidates_span (env : Env) (src : List Char) (toks : List Tok) (ls : List RuleLint)
    (h : currencyCandidates env src toks = .ok ls) (l : RuleLint) (hl : l ∈ ls) :
    ∃ a ∈ toks, ∃ b ∈ toks, l.span = ⟨a.span.start, b.span.stop⟩ ∧ a.span.start ≤ b.span.stop := by
  obtain ⟨chunk, hch, c, hc, hlc⟩ := collectE_mem _ _ _ h l hl
  obtain ⟨a, ha, b, hb, hs⟩ := currencyChunk_span env src chunk c hc l hlc
  exact ⟨a, split_mem _ _ chunk hch a ha, b, split_mem _ _ chunk hch b hb, hs⟩

/-- **CurrencyPlacement on two paragraphs**: candidates chunk by chunk, and `remove_overlaps` cannot
mix lints of the two sides -/
theorem currencyPlacement_append (env : Env) (P D : List Char) (A0 : List Tok) (brk : Tok)
    (hb : brk.kind.isParagraphBreak = true) (td : List Tok)
    (hin : ∀ t ∈ A0 ++ [brk], tokOK t = true ∧ t.span.stop ≤ P.length) (hd : ∀ t ∈ td, tokOK t = true) :
    ruleCurrencyPlacement env (P ++ D) ((A0 ++ [brk]) ++ shiftDoc P.length (A0 ++ [brk]).length td) =
      joinE P.length (ruleCurrencyPlacement env P (A0 ++ [brk])) (ruleCurrencyPlacement env D td) := by
  have hterm : isChunkTerminator brk.kind = true := by
    cases hk : brk.kind <;> simp_all [Kind.isParagraphBreak, isChunkTerminator, isSentenceTerminator]
  have happ := overPieces_append isChunkTerminator (fun j k => isChunkTerminator_shiftTwin j k) (currencyChunk env)
    (currencyChunk_xlocal env) P D A0 brk hterm td hin hd
  simp only [ruleCurrencyPlacement]
  have e : currencyCandidates env (P ++ D) ((A0 ++ [brk]) ++ shiftDoc P.length (A0 ++ [brk]).length td) =
      joinE P.length (currencyCandidates env P (A0 ++ [brk])) (currencyCandidates env D td) := happ
  rw [e]
  cases hA : currencyCandidates env P (A0 ++ [brk]) with
  | error e => rfl
  | ok A =>
    cases currencyCandidates env D td with
    | error e => rfl
    | ok B =>
      simp only [joinE, Except.map]
      rw [removeOverlapsRL_append P.length A B]
      intro l hl
      obtain ⟨a, ha, b, hb', hs, _⟩ := currencyCandidates_span env P _ A hA l hl
      have h1 := hin a ha
      have h2 := hin b hb'
      have := tokOK_nonempty h1.1
      rw [hs]
      exact ⟨by simp only []; omega, h2.2⟩

/-! ## ModalOf::match_to_lint -/

theorem foldl_min_shTok (k j : Nat) (ts : List Tok) (m : Nat) :
    (ts.map (shTok k j)).foldl (fun m x => min (min m x.span.start) x.span.stop) (m + k) =
      ts.foldl (fun m x => min (min m x.span.start) x.span.stop) m + k := by
  induction ts generalizing m with
  | nil => rfl
  | cons t ts ih =>
    simp only [List.map_cons, List.foldl_cons, shTok_span, shiftSpan_start, shiftSpan_stop]
    rw [show min (min (m + k) (t.span.start + k)) (t.span.stop + k) = min (min m t.span.start) t.span.stop + k by omega]
    exact ih _

theorem foldl_max_shTok (k j : Nat) (ts : List Tok) (m : Nat) :
    (ts.map (shTok k j)).foldl (fun m x => max (max m x.span.start) x.span.stop) (m + k) =
      ts.foldl (fun m x => max (max m x.span.start) x.span.stop) m + k := by
  induction ts generalizing m with
  | nil => rfl
  | cons t ts ih =>
    simp only [List.map_cons, List.foldl_cons, shTok_span, shiftSpan_start, shiftSpan_stop]
    rw [show max (max (m + k) (t.span.start + k)) (t.span.stop + k) = max (max m t.span.start) t.span.stop + k by omega]
    exact ih _

theorem spanOf_shTok (k j : Nat) (l : List Tok) : spanOf (l.map (shTok k j)) = (spanOf l).map (shiftSpan k) := by
  cases l with
  | nil => rfl
  | cons t ts =>
    simp only [List.map_cons, spanOf, Option.map_some, shiftSpan, shTok_span, shiftSpan_start, shiftSpan_stop]
    rw [show min (t.span.start + k) (t.span.stop + k) = min t.span.start t.span.stop + k by omega,
      show max (t.span.start + k) (t.span.stop + k) = max t.span.start t.span.stop + k by omega,
      foldl_min_shTok, foldl_max_shTok]

theorem sliceE_map {α β} (f : α → β) (l : List α) (a b : Nat) :
    sliceE (l.map f) a b = (sliceE l a b).map (List.map f) := by
  simp only [sliceE, List.length_map]
  split
  · rfl
  · simp [Except.map, List.map_drop, List.map_take]

theorem modalIndex_shift (env : Env) (P D : List Char) (m : List Tok) (j : Nat) :
    modalIndex env (P ++ D) (m.map (shTok P.length j)) = modalIndex env D m := by
  simp only [modalIndex, List.length_map, List.getLast?_map, List.head?_map]
  split
  · rfl
  · split
    · cases m.getLast? with
      | none => rfl
      | some w3 =>
        cases m.head? with
        | none => rfl
        | some w1 => simp only [Option.map_some, shTok_span, getContent_shift', hasFlag_shift]
    · rfl

theorem modalOfMatch_shift (env : Env) (P D : List Char) (m : List Tok) (j : Nat) :
    modalOfMatch env (P ++ D) (m.map (shTok P.length j)) = (modalOfMatch env D m).map (shiftRLs P.length) := by
  simp only [modalOfMatch, modalIndex_shift, sliceE_map]
  cases modalIndex env D m with
  | error e => rfl
  | ok oi =>
    cases oi with
    | none => rfl
    | some i =>
      simp only []
      cases sliceE m i (i + 3) with
      | error e => rfl
      | ok sub =>
        simp only [Except.map, spanOf_shTok]
        cases spanOf sub with
        | none => rfl
        | some sp =>
          simp only [Option.map_some, List.getElem?_map]
          cases m[i]? with
          | none => rfl
          | some modal =>
            simp only [Option.map_some, shTok_span, getContent_shift']
            cases modal.span.getContent D with
            | error e => rfl
            | ok mc =>
              simp only []
              cases sp.getContent D with
              | error e => rfl
              | ok tpl => rfl

/-! ## well-formed spans and no panics on tokens in text order -/

/-- tokens in text order, each covering at least one character, inside a text of `n` characters -/
def Ord (n : Nat) (toks : List Tok) : Prop :=
  toks.Pairwise (fun a b => a.span.stop ≤ b.span.start) ∧
    ∀ t ∈ toks, t.span.start < t.span.stop ∧ t.span.stop ≤ n

/-- a lint that points into a text of `n` characters -/
def LintOK (n : Nat) (l : RuleLint) : Prop := l.span.start ≤ l.span.stop ∧ l.span.stop ≤ n

theorem Ord.sublist {n : Nat} {l l' : List Tok} (h : Ord n l) (hs : l'.Sublist l) : Ord n l' :=
  ⟨h.1.sublist hs, fun t ht => h.2 t (hs.subset ht)⟩

theorem Ord.tail {n : Nat} {t : Tok} {l : List Tok} (h : Ord n (t :: l)) : Ord n l :=
  h.sublist (List.sublist_cons_self _ _)

theorem splitGo_sublist (term : Kind → Bool) (toks cur : List Tok) :
    ∀ piece ∈ splitGo term cur toks, piece.Sublist (cur.reverse ++ toks) := by
  induction toks generalizing cur with
  | nil =>
    intro piece hp
    simp only [splitGo] at hp
    split at hp
    · cases hp
    · simp only [List.mem_singleton] at hp; subst hp; simp
  | cons t ts ih =>
    intro piece hp
    simp only [splitGo] at hp
    split at hp
    · rcases List.mem_cons.mp hp with rfl | hp
      · exact List.Sublist.append (List.Sublist.refl _) (by simp)
      · have := ih [] piece hp
        simp only [List.reverse_nil, List.nil_append] at this
        exact this.trans ((List.sublist_cons_self _ _).trans (List.sublist_append_right _ _))
    · have := ih (t :: cur) piece hp
      simpa using this

theorem split_sublist (term : Kind → Bool) (toks : List Tok) : ∀ piece ∈ split term toks, piece.Sublist toks := by
  intro piece hp
  unfold split at hp
  split at hp
  · simp only [List.mem_singleton] at hp; subst hp; exact List.nil_sublist _
  · simpa using splitGo_sublist term toks [] piece hp

theorem getContent_ok' {α} (s : Span) (src : List α) (h1 : s.start ≤ s.stop) (h2 : s.stop ≤ src.length) :
    ∃ cs, s.getContent src = .ok cs := by
  unfold Span.getContent
  rw [if_neg (by omega)]
  split
  · have : s.stop = s.start := by omega
    simp [this]
  · exact ⟨_, rfl⟩

/-- a rule over pieces: fine on every piece of tokens in order ⇒ fine on the document -/
theorem overPieces_ok (term : Kind → Bool) (r : PieceRule) (n : Nat) (src : List Char) (toks : List Tok)
    (ho : Ord n toks) (h : ∀ piece, Ord n piece → ∃ ls, r src piece = .ok ls ∧ ∀ l ∈ ls, LintOK n l) :
    ∃ ls, overPieces (split term) r src toks = .ok ls ∧ ∀ l ∈ ls, LintOK n l :=
  collectE_ok _ _ _ (fun piece hp => h piece (ho.sublist (split_sublist term toks piece hp)))

theorem perTok_ok (f : List Char → Tok → Except Panic (List RuleLint)) (n : Nat) (src : List Char) (toks : List Tok)
    (h : ∀ t ∈ toks, ∃ ls, f src t = .ok ls ∧ ∀ l ∈ ls, LintOK n l) :
    ∃ ls, perTok f src toks = .ok ls ∧ ∀ l ∈ ls, LintOK n l :=
  collectE_ok _ _ _ h

/-! ### the per-token rules -/

theorem unclosedQuote_ok (n : Nat) (src : List Char) (t : Tok) (h : t.span.start < t.span.stop ∧ t.span.stop ≤ n) :
    ∃ ls, unclosedQuoteTok src t = .ok ls ∧ ∀ l ∈ ls, LintOK n l := by
  simp only [unclosedQuoteTok]
  split
  · refine ⟨_, rfl, ?_⟩
    intro l hl
    simp only [List.mem_singleton] at hl
    subst hl
    exact ⟨by simp only []; omega, h.2⟩
  · exact ⟨[], rfl, by simp⟩

theorem ellipsis_ok (src : List Char) (t : Tok) (h : t.span.start < t.span.stop ∧ t.span.stop ≤ src.length) :
    ∃ ls, ellipsisTok src t = .ok ls ∧ ∀ l ∈ ls, LintOK src.length l := by
  simp only [ellipsisTok]
  split
  · exact ⟨[], rfl, by simp⟩
  · rw [getContent_ok _ _ h.1 h.2]
    simp only []
    split
    · exact ⟨[], rfl, by simp⟩
    · split
      · refine ⟨_, rfl, ?_⟩
        intro l hl
        simp only [List.mem_singleton] at hl
        subst hl
        exact ⟨by simp only []; omega, h.2⟩
      · exact ⟨[], rfl, by simp⟩

theorem numberSuffixCap_ok (env : Env) (src : List Char) (t : Tok) (hok : tokOK t = true)
    (h : t.span.stop ≤ src.length) :
    ∃ ls, numberSuffixCapTok env src t = .ok ls ∧ ∀ l ∈ ls, LintOK src.length l := by
  simp only [numberSuffixCapTok]
  cases hs : numSuffix t.kind with
  | none => exact ⟨[], rfl, by simp⟩
  | some o =>
    cases o with
    | none => exact ⟨[], rfl, by simp⟩
    | some s =>
      have h2 := tokOK_suffix hok hs
      simp only [suffixSpan_eq _ h2]
      rw [getContent_ok (⟨t.span.stop - 2, t.span.stop⟩ : Span) src (by simp only []; omega) h]
      simp only []
      split
      · refine ⟨_, rfl, ?_⟩
        intro l hl
        simp only [List.mem_singleton] at hl
        subst hl
        exact ⟨by simp only []; omega, h⟩
      · exact ⟨[], rfl, by simp⟩

theorem lintNumber_span (t : NumTok) (l : SuffixLint) (h : lintNumber t = some l) :
    l.span.start ≤ l.span.stop ∧ l.span.stop = t.span.stop := by
  simp only [lintNumber] at h
  by_cases h2 : 2 ≤ t.span.stop
  · rw [suffixSpan_eq _ h2] at h
    simp only [] at h
    split at h
    · cases h
    · split at h
      · cases h
      · split at h
        · cases h; exact ⟨by simp only []; omega, rfl⟩
        · cases h
  · rw [suffixSpan_none _ (by omega)] at h
    cases h

theorem correctNumberSuffix_ok (env : Env) (n : Nat) (src : List Char) (t : Tok) (h : t.span.stop ≤ n) :
    ∃ ls, correctNumberSuffixTok env src t = .ok ls ∧ ∀ l ∈ ls, LintOK n l := by
  simp only [correctNumberSuffixTok]
  cases numSuffix t.kind with
  | none => exact ⟨[], rfl, by simp⟩
  | some sfx =>
    simp only []
    cases hl : lintNumber ⟨env.numVal (textOf src t.span), sfx, t.span⟩ with
    | none => exact ⟨[], rfl, by simp⟩
    | some l =>
      refine ⟨_, rfl, ?_⟩
      intro l' hl'
      simp only [List.mem_singleton] at hl'
      subst hl'
      have := lintNumber_span _ l hl
      exact ⟨this.1, by simp only []; rw [this.2]; exact h⟩

/-! ### Spaces -/

theorem spacesMulti_ok (n : Nat) (t : Tok) (h : t.span.start < t.span.stop ∧ t.span.stop ≤ n) :
    ∀ l ∈ spacesMulti t, LintOK n l := by
  intro l hl
  simp only [spacesMulti] at hl
  split at hl
  · split at hl
    · simp only [List.mem_singleton] at hl
      subst hl
      exact ⟨by simp only []; omega, h.2⟩
    · cases hl
  · cases hl

theorem spaces_ok (n : Nat) (src : List Char) (sent : List Tok) (ho : Ord n sent) :
    ∃ ls, spacesPiece src sent = .ok ls ∧ ∀ l ∈ ls, LintOK n l := by
  have htr : ∃ tr, spacesTrailing sent = .ok tr ∧ ∀ l ∈ tr, LintOK n l := by
    simp only [spacesTrailing, spanOf_single]
    split
    · rename_i p s w r hrev
      split
      · refine ⟨_, rfl, ?_⟩
        intro l hl
        simp only [List.mem_singleton] at hl
        subst hl
        have hs : s ∈ sent := by
          have : s ∈ sent.reverse := by rw [hrev]; simp
          simpa using this
        have := ho.2 s hs
        exact ⟨by simp only []; omega, by simp only []; omega⟩
      · exact ⟨[], rfl, by simp⟩
    · exact ⟨[], rfl, by simp⟩
  obtain ⟨tr, etr, htr'⟩ := htr
  refine ⟨sent.flatMap spacesMulti ++ tr, by simp only [spacesPiece, etr], ?_⟩
  intro l hl
  rcases List.mem_append.mp hl with hl | hl
  · obtain ⟨t, ht, hlt⟩ := List.mem_flatMap.mp hl
    exact spacesMulti_ok n t (ho.2 t ht) l hlt
  · exact htr' l hl

/-! ### LongSentences: any token order (Markdown's zero-width breaks included) -/

theorem coveringE_eq (sent : List Tok) (h : ∀ t ∈ sent, t.span.start ≤ t.span.stop) :
    coveringE sent = .ok (sent.filter fun t => decide (t.span.start < t.span.stop)) := by
  induction sent with
  | nil => rfl
  | cons t ts ih =>
    have ht := h t (by simp)
    simp only [coveringE]
    rw [if_neg (by omega), ih (fun u hu => h u (List.mem_cons_of_mem _ hu))]
    simp only [List.filter_cons]
    by_cases h0 : t.span.start < t.span.stop
    · have : ¬ (t.span.stop - t.span.start = 0) := by omega
      simp [h0, this]
    · have : t.span.stop - t.span.start = 0 := by omega
      simp [h0, this]

theorem minStart_spec (l : List Tok) (m : Nat) (h : minStart l = some m) : ∃ t ∈ l, t.span.start = m := by
  induction l generalizing m with
  | nil => cases h
  | cons t ts ih =>
    simp only [minStart] at h
    cases hm : minStart ts with
    | none => rw [hm] at h; cases h; exact ⟨t, by simp, rfl⟩
    | some m' =>
      rw [hm] at h
      cases h
      obtain ⟨u, hu, hu'⟩ := ih m' hm
      by_cases hc : t.span.start ≤ m'
      · exact ⟨t, by simp, by omega⟩
      · exact ⟨u, List.mem_cons_of_mem _ hu, by omega⟩

theorem minStart_le (l : List Tok) (m : Nat) (h : minStart l = some m) : ∀ t ∈ l, m ≤ t.span.start := by
  induction l generalizing m with
  | nil => intro t ht; cases ht
  | cons t ts ih =>
    simp only [minStart] at h
    intro u hu
    cases hm : minStart ts with
    | none =>
      rw [hm] at h; cases h
      cases ts with
      | nil => simp only [List.mem_singleton] at hu; subst hu; exact Nat.le_refl _
      | cons a r =>
        simp only [minStart] at hm
        cases h2 : minStart r <;> rw [h2] at hm <;> cases hm
    | some m' =>
      rw [hm] at h; cases h
      rcases List.mem_cons.mp hu with rfl | hu
      · omega
      · have := ih m' hm u hu; omega

theorem maxStop_spec (l : List Tok) (m : Nat) (h : maxStop l = some m) :
    (∃ t ∈ l, t.span.stop = m) ∧ ∀ t ∈ l, t.span.stop ≤ m := by
  induction l generalizing m with
  | nil => cases h
  | cons t ts ih =>
    simp only [maxStop] at h
    cases hm : maxStop ts with
    | none =>
      rw [hm] at h; cases h
      refine ⟨⟨t, by simp, rfl⟩, ?_⟩
      intro u hu
      cases ts with
      | nil => simp only [List.mem_singleton] at hu; subst hu; exact Nat.le_refl _
      | cons a r =>
        simp only [maxStop] at hm
        cases h2 : maxStop r <;> rw [h2] at hm <;> cases hm
    | some m' =>
      rw [hm] at h; cases h
      obtain ⟨⟨u, hu, hu'⟩, hall⟩ := ih m' hm
      refine ⟨?_, ?_⟩
      · by_cases hc : m' ≤ t.span.stop
        · exact ⟨t, by simp, by omega⟩
        · exact ⟨u, List.mem_cons_of_mem _ hu, by omega⟩
      · intro v hv
        rcases List.mem_cons.mp hv with rfl | hv
        · omega
        · have := hall v hv; omega

theorem minStart_some_of_ne (l : List Tok) (h : l ≠ []) : ∃ m, minStart l = some m := by
  cases l with
  | nil => exact absurd rfl h
  | cons t ts => simp only [minStart]; cases minStart ts <;> exact ⟨_, rfl⟩

theorem maxStop_some_of_ne (l : List Tok) (h : l ≠ []) : ∃ m, maxStop l = some m := by
  cases l with
  | nil => exact absurd rfl h
  | cons t ts => simp only [maxStop]; cases maxStop ts <;> exact ⟨_, rfl⟩

/-- `LongSentences` on ANY sentence slice whose tokens are well formed and inside the text and whose
word tokens cover at least one character — no assumption on the order of the tokens -/
theorem longSentences_ok_any_order (n : Nat) (src : List Char) (sent : List Tok)
    (hin : ∀ t ∈ sent, t.span.start ≤ t.span.stop ∧ t.span.stop ≤ n)
    (hw : ∀ t ∈ sent, t.kind.isWord = true → t.span.start < t.span.stop) :
    ∃ ls, longSentencesPiece src sent = .ok ls ∧ ∀ l ∈ ls, LintOK n l := by
  simp only [longSentencesPiece]
  split
  · rename_i hwc
    rw [coveringE_eq sent (fun t ht => (hin t ht).1)]
    simp only []
    -- some word token covers a character
    have hne : (sent.filter fun t => decide (t.span.start < t.span.stop)) ≠ [] := by
      have hpos : 0 < (sent.filter fun t => t.kind.isWord).length := by
        simp only [wordCount, longThreshold] at hwc; omega
      obtain ⟨w, hwm⟩ := List.exists_mem_of_length_pos hpos
      have hw1 := List.mem_filter.mp hwm
      intro he
      have : w ∈ sent.filter fun t => decide (t.span.start < t.span.stop) :=
        List.mem_filter.mpr ⟨hw1.1, by simpa using hw w hw1.1 hw1.2⟩
      rw [he] at this
      cases this
    obtain ⟨s, hs⟩ := minStart_some_of_ne _ hne
    obtain ⟨e, he⟩ := maxStop_some_of_ne _ hne
    rw [hs, he]
    simp only []
    obtain ⟨t, htm, hts⟩ := minStart_spec _ s hs
    obtain ⟨⟨u, hum, hus⟩, hall⟩ := maxStop_spec _ e he
    have ht1 := List.mem_filter.mp htm
    have hu1 := List.mem_filter.mp hum
    have htlt : t.span.start < t.span.stop := by simpa using ht1.2
    have hte := hall t htm
    have hse : s ≤ e := by omega
    unfold Span.new
    rw [if_neg (by omega)]
    refine ⟨_, rfl, ?_⟩
    intro l hl
    simp only [List.mem_singleton] at hl
    subst hl
    exact ⟨hse, by simp only []; rw [← hus]; exact (hin u hu1.1).2⟩
  · exact ⟨[], rfl, by simp⟩

/-! ### RepeatedWords -/

theorem repeatedPair_ok (env : Env) (src : List Char) (a t : Tok) (ok : Bool)
    (ha : a.span.start < a.span.stop ∧ a.span.stop ≤ src.length)
    (ht : t.span.start < t.span.stop ∧ t.span.stop ≤ src.length) (hat : a.span.stop ≤ t.span.start) :
    ∃ ls, repeatedPair env src a ok t = .ok ls ∧ ∀ l ∈ ls, LintOK src.length l := by
  simp only [repeatedPair]
  rw [getContent_ok _ _ ha.1 ha.2, getContent_ok _ _ ht.1 ht.2]
  simp only []
  split
  · split
    · exact ⟨[], rfl, by simp⟩
    · unfold Span.new
      rw [if_neg (by omega)]
      refine ⟨_, rfl, ?_⟩
      intro l hl
      simp only [List.mem_singleton] at hl
      subst hl
      exact ⟨by simp only []; omega, ht.2⟩
  · exact ⟨[], rfl, by simp⟩

theorem repeatedGo_ok (env : Env) (src : List Char) (ts : List Tok) (ho : Ord src.length ts)
    (prev : Option (Tok × Bool))
    (hp : ∀ p, prev = some p → (p.1.span.start < p.1.span.stop ∧ p.1.span.stop ≤ src.length) ∧
      ∀ t ∈ ts, p.1.span.stop ≤ t.span.start) :
    ∃ ls, repeatedGo env src prev ts = .ok ls ∧ ∀ l ∈ ls, LintOK src.length l := by
  induction ts generalizing prev with
  | nil => exact ⟨[], rfl, by simp⟩
  | cons t ts ih =>
    have ht := ho.2 t (by simp)
    have hord := List.pairwise_cons.mp ho.1
    have hnext : ∀ p, some (t, true) = some p → (p.1.span.start < p.1.span.stop ∧ p.1.span.stop ≤ src.length) ∧
        ∀ u ∈ ts, p.1.span.stop ≤ u.span.start := by
      intro p hp'; cases hp'; exact ⟨ht, hord.1⟩
    simp only [repeatedGo]
    split
    · cases prev with
      | none => exact ih ho.tail _ hnext
      | some p =>
        obtain ⟨a, ok⟩ := p
        obtain ⟨ha, hat⟩ := hp (a, ok) rfl
        obtain ⟨l1, e1, h1⟩ := repeatedPair_ok env src a t ok ha ht (hat t (by simp))
        obtain ⟨l2, e2, h2⟩ := ih ho.tail _ hnext
        refine ⟨l1 ++ l2, by simp only [e1, e2], ?_⟩
        intro l hl
        rcases List.mem_append.mp hl with hl | hl
        · exact h1 l hl
        · exact h2 l hl
    · apply ih ho.tail
      intro p hp'
      cases prev with
      | none => cases hp'
      | some q =>
        cases hp'
        obtain ⟨hq, hqt⟩ := hp q rfl
        exact ⟨hq, fun u hu => hqt u (List.mem_cons_of_mem _ hu)⟩

theorem repeatedWords_ok (env : Env) (src : List Char) (chunk : List Tok) (ho : Ord src.length chunk) :
    ∃ ls, repeatedWordsPiece env src chunk = .ok ls ∧ ∀ l ∈ ls, LintOK src.length l :=
  repeatedGo_ok env src chunk ho none (fun _ h => by cases h)

/-! ### CurrencyPlacement -/

theorem pairs_rel {α} (R : α → α → Prop) (l : List α) (h : l.Pairwise R) : ∀ p ∈ pairs l, R p.1 p.2 := by
  induction l with
  | nil => intro p hp; cases hp
  | cons a l ih =>
    cases l with
    | nil => intro p hp; cases hp
    | cons b r =>
      intro p hp
      have hc := List.pairwise_cons.mp h
      simp only [pairs, List.mem_cons] at hp
      rcases hp with rfl | hp
      · exact hc.1 b (by simp)
      · exact ih hc.2 p hp

theorem quads_rel {α} (R : α → α → Prop) (l : List α) (h : l.Pairwise R) : ∀ q ∈ quads l, R q.2.1 q.2.2.2 := by
  induction l with
  | nil => intro q hq; cases hq
  | cons p l ih =>
    match l, ih with
    | [], _ => intro q hq; cases hq
    | [_], _ => intro q hq; cases hq
    | [_, _], _ => intro q hq; cases hq
    | a :: b :: c :: r, ih =>
      intro q hq
      have hc := List.pairwise_cons.mp h
      simp only [quads, List.mem_cons] at hq
      rcases hq with rfl | hq
      · exact (List.pairwise_cons.mp hc.2).1 c (by simp)
      · exact ih hc.2 q hq

theorem currencyPair_ok (env : Env) (src : List Char) (a b : Tok)
    (ha : a.span.start < a.span.stop ∧ a.span.stop ≤ src.length)
    (hb : b.span.start < b.span.stop ∧ b.span.stop ≤ src.length) (hab : a.span.stop ≤ b.span.start) :
    ∃ ls, currencyPair env src a b = .ok ls ∧ ∀ l ∈ ls, LintOK src.length l := by
  simp only [currencyPair]
  split
  · exact ⟨[], rfl, by simp⟩
  · split
    · exact ⟨[], rfl, by simp⟩
    · split
      · exact ⟨[], rfl, by simp⟩
      · split
        · exact ⟨[], rfl, by simp⟩
        · split
          · exact ⟨[], rfl, by simp⟩
          · unfold Span.new
            rw [if_neg (by omega)]
            simp only []
            rw [getContent_ok (⟨a.span.start, b.span.stop⟩ : Span) src (by simp only []; omega) hb.2]
            simp only []
            split
            · refine ⟨_, rfl, ?_⟩
              intro l hl
              simp only [List.mem_singleton] at hl
              subst hl
              exact ⟨by simp only []; omega, hb.2⟩
            · exact ⟨[], rfl, by simp⟩

theorem currencyChunk_ok (env : Env) (src : List Char) (chunk : List Tok) (ho : Ord src.length chunk) :
    ∃ ls, currencyChunk env src chunk = .ok ls ∧ ∀ l ∈ ls, LintOK src.length l := by
  obtain ⟨l1, e1, h1⟩ := collectE_ok (LintOK src.length) (fun ab => currencyPair env src ab.1 ab.2) (pairs chunk)
    (fun ab hab => currencyPair_ok env src ab.1 ab.2 (ho.2 _ (pairs_mem _ _ hab).1) (ho.2 _ (pairs_mem _ _ hab).2)
      (pairs_rel _ _ ho.1 ab hab))
  obtain ⟨l2, e2, h2⟩ := collectE_ok (LintOK src.length) (currencyQuad env src) (quads chunk)
    (fun q hq => by
      simp only [currencyQuad]
      split
      · exact ⟨[], rfl, by simp⟩
      · exact currencyPair_ok env src q.2.1 q.2.2.2 (ho.2 _ (quads_mem _ _ hq).2.1) (ho.2 _ (quads_mem _ _ hq).2.2.2)
          (quads_rel _ _ ho.1 q hq))
  refine ⟨l1 ++ l2, by simp only [currencyChunk, e1, e2], ?_⟩
  intro l hl
  rcases List.mem_append.mp hl with hl | hl
  · exact h1 l hl
  · exact h2 l hl

theorem removeOverlapsRL_mem (ls : List RuleLint) (l : RuleLint) (h : l ∈ removeOverlapsRL ls) : l ∈ ls := by
  simp only [removeOverlapsRL, List.mem_filterMap] at h
  obtain ⟨_, _, h⟩ := h
  exact List.mem_of_getElem? h

/-! ### ModalOf::match_to_lint -/

theorem foldl_min_le (ts : List Tok) (m : Nat) :
    ts.foldl (fun m x => min (min m x.span.start) x.span.stop) m ≤ m := by
  induction ts generalizing m with
  | nil => exact Nat.le_refl _
  | cons t ts ih =>
    simp only [List.foldl_cons]
    exact Nat.le_trans (ih _) (by omega)

theorem foldl_max_ge (ts : List Tok) (m : Nat) :
    m ≤ ts.foldl (fun m x => max (max m x.span.start) x.span.stop) m := by
  induction ts generalizing m with
  | nil => exact Nat.le_refl _
  | cons t ts ih =>
    simp only [List.foldl_cons]
    exact Nat.le_trans (by omega) (ih _)

theorem foldl_max_le (n : Nat) (ts : List Tok) (m : Nat) (hm : m ≤ n)
    (h : ∀ t ∈ ts, t.span.start ≤ n ∧ t.span.stop ≤ n) :
    ts.foldl (fun m x => max (max m x.span.start) x.span.stop) m ≤ n := by
  induction ts generalizing m with
  | nil => exact hm
  | cons t ts ih =>
    have := h t (by simp)
    simp only [List.foldl_cons]
    exact ih _ (by omega) (fun u hu => h u (List.mem_cons_of_mem _ hu))

/-- `TokenStringExt::span` of tokens inside the text is a well-formed span inside the text -/
theorem spanOf_ok (n : Nat) (l : List Tok) (sp : Span) (h : spanOf l = some sp)
    (hin : ∀ t ∈ l, t.span.start ≤ n ∧ t.span.stop ≤ n) : sp.start ≤ sp.stop ∧ sp.stop ≤ n := by
  cases l with
  | nil => cases h
  | cons t ts =>
    simp only [spanOf, Option.some.injEq] at h
    subst h
    have ht := hin t (by simp)
    have h1 := foldl_min_le ts (min t.span.start t.span.stop)
    have h2 := foldl_max_ge ts (max t.span.start t.span.stop)
    have h3 := foldl_max_le n ts (max t.span.start t.span.stop) (by omega) (fun u hu => hin u (List.mem_cons_of_mem _ hu))
    exact ⟨by simp only []; omega, h3⟩

/-- `match_to_lint` on ANY matched slice (3, 4, 5, 6, 7, … tokens) of tokens in text order -/
theorem modalOfMatch_ok (env : Env) (src : List Char) (m : List Tok) (ho : Ord src.length m) :
    ∃ ls, modalOfMatch env src m = .ok ls ∧ ∀ l ∈ ls, LintOK src.length l := by
  have hidx : ∃ oi, modalIndex env src m = .ok oi ∧ ∀ i, oi = some i → i + 3 ≤ m.length := by
    simp only [modalIndex]
    split
    · exact ⟨_, rfl, fun i hi => by cases hi; omega⟩
    · split
      · rename_i h5
        cases hl : m.getLast? with
        | none =>
          have : m = [] := List.getLast?_eq_none_iff.mp hl
          rw [this] at h5; cases h5
        | some w3 =>
          cases hh : m.head? with
          | none =>
            have : m = [] := List.head?_eq_none_iff.mp hh
            rw [this] at h5; cases h5
          | some w1 =>
            have hw3 := ho.2 w3 (List.mem_of_getLast? hl)
            simp only []
            rw [getContent_ok _ _ hw3.1 hw3.2]
            simp only []
            split
            · exact ⟨_, rfl, fun i hi => by cases hi⟩
            · split
              · exact ⟨_, rfl, fun i hi => by cases hi⟩
              · exact ⟨_, rfl, fun i hi => by cases hi; omega⟩
      · exact ⟨_, rfl, fun i hi => by cases hi⟩
  obtain ⟨oi, eoi, hoi⟩ := hidx
  simp only [modalOfMatch, eoi]
  cases oi with
  | none => exact ⟨[], rfl, by simp⟩
  | some i =>
    have hi := hoi i rfl
    simp only [sliceE]
    rw [if_neg (by omega)]
    simp only []
    have hsub : ∀ t ∈ (m.drop i).take (i + 3 - i), t ∈ m := fun t ht => List.mem_of_mem_drop (List.mem_of_mem_take ht)
    have hne : (m.drop i).take (i + 3 - i) ≠ [] := by
      intro he
      have := congrArg List.length he
      simp only [List.length_take, List.length_drop, List.length_nil] at this
      omega
    cases hsp : spanOf ((m.drop i).take (i + 3 - i)) with
    | none =>
      cases hd : (m.drop i).take (i + 3 - i) with
      | nil => exact absurd hd hne
      | cons a r => rw [hd] at hsp; cases hsp
    | some sp =>
      have hspok := spanOf_ok src.length _ sp hsp (fun t ht => by have := ho.2 t (hsub t ht); omega)
      simp only []
      have hlt : i < m.length := by omega
      rw [List.getElem?_eq_getElem hlt]
      simp only []
      have hmod := ho.2 m[i] (List.getElem_mem hlt)
      rw [getContent_ok _ _ hmod.1 hmod.2]
      simp only []
      obtain ⟨tpl, etpl⟩ := getContent_ok' sp src hspok.1 hspok.2
      rw [etpl]
      refine ⟨_, rfl, ?_⟩
      intro l hl
      simp only [List.mem_singleton] at hl
      subst hl
      exact hspok

/-! ## AnA -/

@[simp] theorem isUnlintable_shiftTwin (j : Nat) (k : Kind) : isUnlintable (shiftTwin j k) = isUnlintable k := by
  cases k <;> try rfl
  rename_i t; cases t <;> rfl
@[simp] theorem isWordLike_shiftTwin (j : Nat) (k : Kind) : isWordLike (shiftTwin j k) = isWordLike k := by
  cases k <;> try rfl
  rename_i t; cases t <;> rfl

theorem anaPair_shift (env : Env) (P D : List Char) (a t : Tok) (j : Nat) :
    anaPair env (P ++ D) (shTok P.length j a) (shTok P.length j t) = (anaPair env D a t).map (shiftRLs P.length) := by
  simp only [anaPair, shTok_span, getContent_shift']
  cases a.span.getContent D with
  | error e => rfl
  | ok cf =>
    cases t.span.getContent D with
    | error e => rfl
    | ok cs =>
      simp only []
      split
      · rfl
      · split <;> rfl

theorem anaPair_left (env : Env) (P D : List Char) (a t : Tok) (ha : a.span.stop ≤ P.length) (ht : t.span.stop ≤ P.length) :
    anaPair env (P ++ D) a t = anaPair env P a t := by
  simp only [anaPair, getContent_left' P D _ ha, getContent_left' P D _ ht]

theorem anaGo_shift (env : Env) (P D : List Char) (j : Nat) (ts : List Tok) (prev : Option (Tok × Bool)) :
    anaGo env (P ++ D) (prev.map fun p => (shTok P.length j p.1, p.2)) (ts.map (shTok P.length j)) =
      (anaGo env D prev ts).map (shiftRLs P.length) := by
  induction ts generalizing prev with
  | nil => cases prev <;> rfl
  | cons t ts ih =>
    simp only [List.map_cons, anaGo, shTok_kind, isWord_shiftTwin, isUnlintable_shiftTwin, isWordLike_shiftTwin]
    split
    · cases prev with
      | none => exact ih (some (t, false))
      | some p =>
        obtain ⟨a, blocked⟩ := p
        have h2 := ih (some (t, false))
        simp only [Option.map_some] at h2 ⊢
        rw [anaPair_shift, h2]
        cases blocked with
        | true =>
          simp only [if_true]
          cases anaGo env D (some (t, false)) ts with
          | error e => rfl
          | ok r => simp [Except.map]
        | false =>
          simp only [Bool.false_eq_true, if_false]
          cases anaPair env D a t with
          | error e => rfl
          | ok l =>
            cases anaGo env D (some (t, false)) ts with
            | error e => rfl
            | ok r => simp [Except.map, shiftRLs_append]
    · have h2 := ih (prev.map fun p => (p.1, p.2 || isUnlintable t.kind || isWordLike t.kind))
      rw [← h2]
      cases prev <;> rfl

theorem anaGo_left (env : Env) (P D : List Char) (ts : List Tok) (prev : Option (Tok × Bool))
    (hp : ∀ p, prev = some p → p.1.span.stop ≤ P.length) (hts : ∀ t ∈ ts, t.span.stop ≤ P.length) :
    anaGo env (P ++ D) prev ts = anaGo env P prev ts := by
  induction ts generalizing prev with
  | nil => rfl
  | cons t ts ih =>
    have ht := hts t (by simp)
    have hts' : ∀ u ∈ ts, u.span.stop ≤ P.length := fun u hu => hts u (List.mem_cons_of_mem _ hu)
    simp only [anaGo]
    split
    · cases prev with
      | none => exact ih _ (fun p hp' => by cases hp'; exact ht) hts'
      | some p =>
        obtain ⟨a, blocked⟩ := p
        simp only []
        rw [anaPair_left env P D a t (hp (a, blocked) rfl) ht, ih _ (fun p hp' => by cases hp'; exact ht) hts']
    · apply ih _ _ hts'
      intro p hp'
      cases prev with
      | none => cases hp'
      | some q => cases hp'; exact hp q rfl

theorem anA_xlocal (env : Env) : XLocalE (anaPiece env) where
  nil := fun _ => rfl
  left := by
    intro P D piece hp
    exact anaGo_left env P D piece none (fun _ h => by cases h) (fun t ht => (hp t ht).2)
  right := by
    intro P D piece j _
    exact anaGo_shift env P D j piece none

theorem anaPair_ok (env : Env) (src : List Char) (a t : Tok)
    (ha : a.span.start < a.span.stop ∧ a.span.stop ≤ src.length)
    (ht : t.span.start < t.span.stop ∧ t.span.stop ≤ src.length) :
    ∃ ls, anaPair env src a t = .ok ls ∧ ∀ l ∈ ls, LintOK src.length l := by
  simp only [anaPair]
  rw [getContent_ok _ _ ha.1 ha.2, getContent_ok _ _ ht.1 ht.2]
  simp only []
  split
  · exact ⟨[], rfl, by simp⟩
  · split
    · refine ⟨_, rfl, ?_⟩
      intro l hl
      simp only [List.mem_singleton] at hl
      subst hl
      exact ⟨by simp only []; omega, ha.2⟩
    · exact ⟨[], rfl, by simp⟩

theorem anaGo_ok (env : Env) (src : List Char) (ts : List Tok)
    (hts : ∀ t ∈ ts, t.span.start < t.span.stop ∧ t.span.stop ≤ src.length) (prev : Option (Tok × Bool))
    (hp : ∀ p, prev = some p → p.1.span.start < p.1.span.stop ∧ p.1.span.stop ≤ src.length) :
    ∃ ls, anaGo env src prev ts = .ok ls ∧ ∀ l ∈ ls, LintOK src.length l := by
  induction ts generalizing prev with
  | nil => exact ⟨[], rfl, by simp⟩
  | cons t ts ih =>
    have ht := hts t (by simp)
    have hts' : ∀ u ∈ ts, u.span.start < u.span.stop ∧ u.span.stop ≤ src.length :=
      fun u hu => hts u (List.mem_cons_of_mem _ hu)
    have hnext : ∀ p, some (t, false) = some p → p.1.span.start < p.1.span.stop ∧ p.1.span.stop ≤ src.length := by
      intro p hp'; cases hp'; exact ht
    simp only [anaGo]
    split
    · cases prev with
      | none => exact ih hts' _ hnext
      | some p =>
        obtain ⟨a, blocked⟩ := p
        have ha := hp (a, blocked) rfl
        obtain ⟨l2, e2, h2⟩ := ih hts' _ hnext
        cases blocked with
        | true => exact ⟨[] ++ l2, by simp only [if_true, e2], by simpa using h2⟩
        | false =>
          obtain ⟨l1, e1, h1⟩ := anaPair_ok env src a t ha ht
          refine ⟨l1 ++ l2, by simp only [Bool.false_eq_true, if_false, e1, e2], ?_⟩
          intro l hl
          rcases List.mem_append.mp hl with hl | hl
          · exact h1 l hl
          · exact h2 l hl
    · apply ih hts'
      intro p hp'
      cases prev with
      | none => cases hp'
      | some q => cases hp'; exact hp q rfl

theorem anA_ok (env : Env) (src : List Char) (chunk : List Tok) (ho : Ord src.length chunk) :
    ∃ ls, anaPiece env src chunk = .ok ls ∧ ∀ l ∈ ls, LintOK src.length l :=
  anaGo_ok env src chunk ho.2 none (fun _ h => by cases h)

/-! ## SentenceCapitalization -/

theorem isFullSentence_shift (env : Env) (P D : List Char) (sent : List Tok) (j : Nat) :
    isFullSentence env (P ++ D) (sent.map (shTok P.length j)) = isFullSentence env D sent := by
  simp only [isFullSentence, List.any_map, Function.comp_def, hasFlag_shift]

theorem any_congr' {α} (l : List α) (p q : α → Bool) (h : ∀ x ∈ l, p x = q x) : l.any p = l.any q := by
  induction l with
  | nil => rfl
  | cons x xs ih => simp only [List.any_cons, h x (by simp), ih (fun y hy => h y (List.mem_cons_of_mem _ hy))]

theorem isFullSentence_left (env : Env) (P D : List Char) (sent : List Tok) (h : ∀ t ∈ sent, t.span.stop ≤ P.length) :
    isFullSentence env (P ++ D) sent = isFullSentence env P sent := by
  simp only [isFullSentence]
  rw [any_congr' sent _ _ (fun t ht => hasFlag_left env P D t 6 (h t ht)),
    any_congr' sent _ _ (fun t ht => hasFlag_left env P D t 7 (h t ht))]

theorem capSkip_shift (env : Env) (P D : List Char) (fw : Tok) (j : Nat) (wc : List Char) :
    capSkip env (P ++ D) (shTok P.length j fw) wc = capSkip env D fw wc := by
  simp only [capSkip, hasFlag_shift]

theorem capSkip_left (env : Env) (P D : List Char) (fw : Tok) (wc : List Char) (h : fw.span.stop ≤ P.length) :
    capSkip env (P ++ D) fw wc = capSkip env P fw wc := by
  simp only [capSkip, hasFlag_left env P D fw 5 h]

theorem sentCapSentence_shift (env : Env) (P D : List Char) (sent : List Tok) (j : Nat) :
    sentCapSentence env (P ++ D) (sent.map (shTok P.length j)) = (sentCapSentence env D sent).map (shiftRLs P.length) := by
  simp only [sentCapSentence, isFullSentence_shift, List.find?_map, Function.comp_def, shTok_kind, isWhitespace_shiftTwin]
  split
  · rfl
  · cases sent.find? (fun t => !t.kind.isWhitespace) with
    | none => rfl
    | some fw =>
      simp only [Option.map_some, shTok_kind, isWord_shiftTwin, shTok_span, getContent_shift', capSkip_shift]
      split
      · rfl
      · cases fw.span.getContent D with
        | error e => rfl
        | ok wc =>
          simp only []
          cases wc.head? with
          | none => rfl
          | some c =>
            simp only []
            split
            · simp only [Except.map, shiftRLs, List.map_cons, List.map_nil, shiftRL, Span.withLen, shiftSpan,
                Except.ok.injEq, List.cons.injEq, RuleLint.mk.injEq, Span.mk.injEq, and_true, true_and]
              omega
            · rfl

theorem sentCapSentence_left (env : Env) (P D : List Char) (sent : List Tok) (h : ∀ t ∈ sent, t.span.stop ≤ P.length) :
    sentCapSentence env (P ++ D) sent = sentCapSentence env P sent := by
  simp only [sentCapSentence, isFullSentence_left env P D sent h]
  split
  · rfl
  · cases hf : sent.find? (fun t => !t.kind.isWhitespace) with
    | none => rfl
    | some fw =>
      have hfw := h fw (List.mem_of_find?_eq_some hf)
      simp only [getContent_left' P D fw.span hfw]
      split
      · rfl
      · cases fw.span.getContent P with
        | error e => rfl
        | ok wc => simp only [capSkip_left env P D fw wc hfw]

theorem any_chunks_shift (k j : Nat) (sent : List Tok) :
    (iterChunks (sent.map (shTok k j))).any (fun c => decide (wordCount c > 5)) =
      (iterChunks sent).any (fun c => decide (wordCount c > 5)) := by
  have : iterChunks (sent.map (shTok k j)) = (iterChunks sent).map (List.map (shTok k j)) :=
    split_map isChunkTerminator _ (fun t => isChunkTerminator_shiftTwin _ _) _
  rw [this, List.any_map]
  apply any_congr'
  intro c _
  simp only [Function.comp, wordCount_shift]

theorem iterSentences_shift (k j : Nat) (piece : List Tok) :
    iterSentences (piece.map (shTok k j)) = (iterSentences piece).map (List.map (shTok k j)) :=
  split_map isSentenceTerminator _ (fun t => isSentenceTerminator_shiftTwin _ _) _

theorem shortLabel_shift (k j : Nat) (piece : List Tok) : shortLabel (piece.map (shTok k j)) = shortLabel piece := by
  simp only [shortLabel, iterSentences_shift, List.length_map, List.head?_map]
  cases (iterSentences piece).head? with
  | none => rfl
  | some only => simp only [Option.map_some, any_chunks_shift]

theorem sentCap_xlocal (env : Env) : XLocalE (sentCapParagraph env) where
  nil := fun _ => by
    simp only [sentCapParagraph]
    split
    · rfl
    · rfl
  left := by
    intro P D piece hp
    simp only [sentCapParagraph]
    split
    · rfl
    · exact collectE_congr _ _ _ (fun sent hs =>
        sentCapSentence_left env P D sent (fun t ht => (hp t (split_mem _ _ sent hs t ht)).2))
  right := by
    intro P D piece j _
    simp only [sentCapParagraph, shiftDoc_eq_map, shortLabel_shift, iterSentences_shift, collectE_map]
    split
    · rfl
    · exact collectE_shift _ _ _ _ (fun sent _ => sentCapSentence_shift env P D sent j)

theorem sentCapSentence_ok (env : Env) (src : List Char) (sent : List Tok)
    (h : ∀ t ∈ sent, t.span.start < t.span.stop ∧ t.span.stop ≤ src.length) :
    ∃ ls, sentCapSentence env src sent = .ok ls ∧ ∀ l ∈ ls, LintOK src.length l := by
  simp only [sentCapSentence]
  split
  · exact ⟨[], rfl, by simp⟩
  · cases hf : sent.find? (fun t => !t.kind.isWhitespace) with
    | none => exact ⟨[], rfl, by simp⟩
    | some fw =>
      have hfw := h fw (List.mem_of_find?_eq_some hf)
      simp only []
      split
      · exact ⟨[], rfl, by simp⟩
      · rw [getContent_ok _ _ hfw.1 hfw.2]
        simp only []
        cases ((src.drop fw.span.start).take (fw.span.stop - fw.span.start)).head? with
        | none => exact ⟨[], rfl, by simp⟩
        | some c =>
          simp only []
          split
          · refine ⟨_, rfl, ?_⟩
            intro l hl
            simp only [List.mem_singleton] at hl
            subst hl
            exact ⟨by simp only [Span.withLen]; omega, by simp only [Span.withLen]; omega⟩
          · exact ⟨[], rfl, by simp⟩

theorem sentCap_ok (env : Env) (src : List Char) (par : List Tok) (ho : Ord src.length par) :
    ∃ ls, sentCapParagraph env src par = .ok ls ∧ ∀ l ∈ ls, LintOK src.length l := by
  simp only [sentCapParagraph]
  split
  · exact ⟨[], rfl, by simp⟩
  · exact collectE_ok _ _ _ (fun sent hs => sentCapSentence_ok env src sent (fun t ht => ho.2 t (split_mem _ _ sent hs t ht)))

end Harper.Rules
