import Harper.Model.Typst
import Harper.Lemmas.Markdown
import Harper.Lemmas.Condense
/-!
Helper lemmas for `Props/C02e.lean`: the Typst translator over typst-syntax's tree as data.

* A. cursor: `Cursor.pushTo` from a cursor that denotes a position (`Md.CurOK`) to a later character
  boundary succeeds and denotes that position; `defToken` gives the token `[ci s, ci e)`.
* B. `parseExpr_ok` (mutual structural induction over `TNode` / `TNodes` / `TItem` / `TItems`):
  under `treeOK` the translator does not panic and every token of a node lies inside the
  characters of the node's range (of the nearest ranged ancestor's range for a detached node).
* C. `parseExpr_sorted`: under `treeOK` and `inOrder` the tokens lie between the threaded bounds
  and are pairwise ordered and disjoint.
* D. `convFlags` (`convert_parbreaks`) position by position.
* E. (w24) `parseExpr_zw`: if the translator returns, then under `solidN` (`RangesSolid`) every zero-width
  token is a structural break — by inverting the `do` blocks, no cursor invariant, no `TreeOK`.
* F. (w24) `maskLoop_pos` / `htmlParse_pos`: every token of the HTML parser covers a character when
  the inner parser's tokens do.
-/
namespace Harper.Typst
open Harper Harper.Md

/-! ## A. cursor and `def_token!` -/

theorem rangeOK_some {bs : List Nat} {lo hi s e : Nat} (h : rangeOK bs lo hi (some (s, e)) = true) :
    lo ≤ s ∧ s ≤ e ∧ e ≤ hi ∧ e ≤ bs.length ∧ isBoundary bs s = true ∧ isBoundary bs e = true := by
  simp only [rangeOK, Bool.and_eq_true, decide_eq_true_eq] at h
  obtain ⟨⟨⟨⟨⟨h1, h2⟩, h3⟩, h4⟩, h5⟩, h6⟩ := h
  exact ⟨h1, h2, h3, h4, h5, h6⟩

theorem pushTo_ok {bs : List Nat} {c : Cursor} {b : Nat} (hc : CurOK bs c) (h1 : c.byte ≤ b)
    (h2 : b ≤ bs.length) (h3 : isBoundary bs b = true) :
    ∃ c', c.pushTo bs b = .ok c' ∧ CurOK bs c' ∧ c'.byte = b := by
  unfold Cursor.pushTo
  rw [if_neg (by omega)]
  by_cases he : b = c.byte
  · rw [if_pos he]; exact ⟨c, rfl, hc, he.symm⟩
  · rw [if_neg he]
    have hs : sliceCount bs c.byte b = .ok (charCount ((bs.drop c.byte).take (b - c.byte))) := by
      unfold sliceCount
      rw [if_pos ⟨h1, h2, hc.bd, h3⟩]
    rw [hs]
    refine ⟨⟨c.char + charCount ((bs.drop c.byte).take (b - c.byte)), b⟩, rfl, ⟨h2, h3, ?_⟩, rfl⟩
    show c.char + _ = ci bs b
    rw [hc.ch, ci_add bs h1]

theorem pushToSpan_ok {bs : List Nat} {c : Cursor} {lo hi : Nat} {r : BRange} (hc : CurOK bs c)
    (hlo : c.byte ≤ lo) (hr : rangeOK bs lo hi r = true) :
    ∃ c1, pushToSpan bs c r = .ok c1 ∧ CurOK bs c1 ∧ c1.byte ≤ (sub lo hi r).1 ∧
      (∀ s e, r = some (s, e) → c1.byte = s) := by
  cases r with
  | none => exact ⟨c, rfl, hc, hlo, by intro s e h; cases h⟩
  | some p =>
    obtain ⟨s, e⟩ := p
    obtain ⟨h1, h2, _, h4, h5, _⟩ := rangeOK_some hr
    obtain ⟨c1, hp, hc1, hb⟩ := pushTo_ok (b := s) hc (by omega) (by omega) h5
    refine ⟨c1, hp, hc1, ?_, ?_⟩
    · simp only [sub]; omega
    · intro s' e' h; cases h; exact hb

/-- pushing again to the same span is the identity -/
theorem pushToSpan_again {bs : List Nat} {c c1 : Cursor} {r : BRange}
    (h : pushToSpan bs c r = .ok c1) (hb : ∀ s e, r = some (s, e) → c1.byte = s) :
    pushToSpan bs c1 r = .ok c1 := by
  cases r with
  | none => rfl
  | some p =>
    obtain ⟨s, e⟩ := p
    have := hb s e rfl
    simp only [pushToSpan, Cursor.pushTo]
    rw [if_neg (by omega), if_pos this.symm]

/-- every token lies in the characters of the byte range `[a, b]` -/
def Within (bs : List Nat) (a b : Nat) (toks : List Tok) : Prop :=
  ∀ t ∈ toks, ci bs a ≤ t.span.start ∧ t.span.start ≤ t.span.stop ∧ t.span.stop ≤ ci bs b

theorem Within.nil {bs : List Nat} {a b : Nat} : Within bs a b [] := by intro t h; cases h

theorem Within.append {bs : List Nat} {a b : Nat} {l1 l2 : List Tok} (h1 : Within bs a b l1)
    (h2 : Within bs a b l2) : Within bs a b (l1 ++ l2) := by
  intro t ht
  rcases List.mem_append.mp ht with h | h
  · exact h1 t h
  · exact h2 t h

theorem Within.mono {bs : List Nat} {a b a' b' : Nat} {l : List Tok} (h : Within bs a b l)
    (ha : a' ≤ a) (hb : b ≤ b') : Within bs a' b' l := by
  intro t ht
  have := h t ht
  have h1 := ci_mono bs ha
  have h2 := ci_mono bs hb
  omega

/-- from the node's own range to the enclosing one -/
theorem Within.sub {bs : List Nat} {lo hi : Nat} {r : BRange} {l : List Tok}
    (hr : rangeOK bs lo hi r = true) (h : Within bs (sub lo hi r).1 (sub lo hi r).2 l) :
    Within bs lo hi l := by
  cases r with
  | none => exact h
  | some p =>
    obtain ⟨s, e⟩ := p
    obtain ⟨h1, _, h3, _⟩ := rangeOK_some hr
    exact h.mono h1 h3

/-- pairwise ordered and disjoint -/
def Sorted (l : List Tok) : Prop := l.Pairwise (fun x y => x.span.stop ≤ y.span.start)

theorem sorted_le_one {l : List Tok} (h : l.length ≤ 1) : Sorted l := by
  match l, h with
  | [], _ => exact List.Pairwise.nil
  | [_], _ => exact List.pairwise_singleton _ _

/-- what a leaf arm produces: tokens inside the node's range, ordered; nothing for a detached node -/
structure LeafOut (bs : List Nat) (lo hi : Nat) (r : BRange) (l : List Tok) : Prop where
  within : Within bs (sub lo hi r).1 (sub lo hi r).2 l
  sorted : Sorted l
  detached : r = none → l = []

theorem defToken_ok {bs : List Nat} {c : Cursor} {lo hi : Nat} {r : BRange} (k : Kind)
    (hc : CurOK bs c) (hlo : c.byte ≤ lo) (hr : rangeOK bs lo hi r = true) :
    ∃ o, defToken bs r k c = .ok o ∧ Within bs (sub lo hi r).1 (sub lo hi r).2 (o.getD []) ∧
      (r.isSome = true → o.isSome = true) ∧
      (∀ s e, r = some (s, e) → o = some [⟨⟨ci bs s, ci bs e⟩, k⟩]) ∧
      LeafOut bs lo hi r (o.getD []) := by
  cases r with
  | none => exact ⟨none, rfl, Within.nil, by simp, (by intro s e h; cases h),
      ⟨Within.nil, List.Pairwise.nil, fun _ => rfl⟩⟩
  | some p =>
    obtain ⟨s, e⟩ := p
    obtain ⟨h1, h2, _, h4, h5, h6⟩ := rangeOK_some hr
    obtain ⟨c1, hp1, hc1, hb1⟩ := pushTo_ok (b := s) hc (by omega) (by omega) h5
    obtain ⟨c2, hp2, hc2, hb2⟩ := pushTo_ok (b := e) hc1 (by omega) h4 h6
    have hch1 : c1.char = ci bs s := by rw [hc1.ch, hb1]
    have hch2 : c2.char = ci bs e := by rw [hc2.ch, hb2]
    have hwin : Within bs (sub lo hi (some (s, e))).1 (sub lo hi (some (s, e))).2
        ((some [(⟨⟨c1.char, c2.char⟩, k⟩ : Tok)]).getD []) := by
      intro t ht
      simp only [Option.getD, List.mem_singleton] at ht
      subst ht
      simp only [sub, hch1, hch2]
      have := ci_mono bs h2
      omega
    refine ⟨some [⟨⟨c1.char, c2.char⟩, k⟩], ?_, hwin, by simp, ?_,
      ⟨hwin, List.pairwise_singleton _ _, (by intro h; cases h)⟩⟩
    · simp only [defToken, hp1, hp2, bind, Except.bind, pure, Except.pure]
    · intro s' e' h; cases h; rw [hch1, hch2]

theorem parseLeaf_ok {bs : List Nat} {c : Cursor} {lo hi : Nat} {r : BRange} (k : LeafKind)
    (hc : CurOK bs c) (hlo : c.byte ≤ lo) (hr : rangeOK bs lo hi r = true) :
    ∃ o, parseLeaf bs k r c = .ok o ∧ LeafOut bs lo hi r (o.getD []) := by
  obtain ⟨c1, hp, hc1, hb, _⟩ := pushToSpan_ok hc hlo hr
  have hr' : rangeOK bs (sub lo hi r).1 hi r = true := by
    cases r with
    | none => rfl
    | some p =>
      obtain ⟨s, e⟩ := p
      obtain ⟨h1, h2, h3, h4, h5, h6⟩ := rangeOK_some hr
      simp [rangeOK, sub, h2, h3, h4, h5, h6]
  obtain ⟨o, ho, _, _, _, hl⟩ := defToken_ok (leafKind k) hc1 hb hr'
  refine ⟨o, by simp only [parseLeaf, hp, ho, bind, Except.bind], ?_⟩
  cases r with
  | none => exact ⟨hl.within, hl.sorted, hl.detached⟩
  | some p => exact ⟨hl.within, hl.sorted, hl.detached⟩

/-! ## B. no panic, tokens inside their node -/

theorem treeOK_range {bs : List Nat} {lo hi : Nat} {n : TNode} (h : treeOK bs lo hi n = true) :
    rangeOK bs lo hi n.range = true := by
  cases n <;> simp only [treeOK, TNode.range, Bool.and_eq_true] at h ⊢ <;>
    first
      | exact h
      | exact h.1
      | exact h.1.1
      | exact h.1.1.1

theorem itemOK_range {bs : List Nat} {lo hi : Nat} {i : TItem} (h : itemOK bs lo hi i = true) :
    rangeOK bs lo hi i.range = true := by
  cases i with
  | pos n => exact treeOK_range (by simpa [itemOK] using h)
  | named r a t b => simp only [itemOK, Bool.and_eq_true] at h; exact h.1.1
  | dnamed r a b => simp only [itemOK, Bool.and_eq_true] at h; exact h.1.1
  | keyed r a b => simp only [itemOK, Bool.and_eq_true] at h; exact h.1.1
  | spread r es => simp only [itemOK, Bool.and_eq_true] at h; exact h.1

theorem strInner_len {txt content : List Char} (h : strInner txt = .ok content) :
    content.length + 2 = txt.length := by
  cases txt with
  | nil => simp [strInner] at h
  | cons c rest =>
    simp only [strInner] at h
    cases hl : rest.getLast? with
    | none => rw [hl] at h; cases h
    | some l =>
      rw [hl] at h
      simp only [] at h
      by_cases hc : c.toNat < 128 ∧ l.toNat < 128
      · rw [if_pos hc] at h
        cases h
        have hne : rest ≠ [] := by
          intro he; subst he; simp at hl
        have : rest.length ≠ 0 := by
          intro h0; exact hne (List.eq_nil_of_length_eq_zero h0)
        simp only [List.length_dropLast, List.length_cons]
        omega
      · rw [if_neg hc] at h
        cases h

theorem textFits_some {bs : List Nat} {s e n : Nat} (hse : s ≤ e)
    (h : textFits bs (some (s, e)) n = true) : ci bs s + n ≤ ci bs e := by
  simp only [textFits, decide_eq_true_eq] at h
  rw [ci_add bs hse]; omega

/-- the tokens of the inner parser on a text of `n` characters, shifted by `p` -/
theorem inner_shift {inner : List Char → Except Panic (List Tok)} (hin : Md.InnerOK inner)
    (txt : List Char) (p : Nat) :
    ∃ toks, inner txt = .ok toks ∧
      (∀ t ∈ toks.map (·.shift p), p ≤ t.span.start ∧ t.span.start ≤ t.span.stop ∧
        t.span.stop ≤ p + txt.length) ∧
      (toks.map (·.shift p)).Pairwise (fun x y => x.span.stop ≤ y.span.start) := by
  obtain ⟨toks, h, ht⟩ := hin txt
  obtain ⟨hf, hp⟩ := tiles_facts toks 0 txt.length ht
  refine ⟨toks, h, ?_, ?_⟩
  · intro t hm
    obtain ⟨u, hu, rfl⟩ := List.mem_map.mp hm
    have := hf u hu
    simp only [Tok.shift, Span.pushBy]
    omega
  · rw [List.pairwise_map]
    exact hp.imp (by intro a b hab; simp only [Tok.shift, Span.pushBy]; omega)

theorem deadTokens_ok {bs : List Nat} (spec : Bool × List (List Char)) {lo hi : Nat} :
    (is : TItems) → ∀ (c : Cursor), CurOK bs c → c.byte ≤ lo → itemsOK bs lo hi is = true →
      ∃ l, deadTokens bs spec is c = .ok l ∧ Within bs lo hi l
  | .nil, c, _, _, _ => ⟨[], rfl, Within.nil⟩
  | .cons i is, c, hc, hlo, h => by
    simp only [itemsOK, Bool.and_eq_true] at h
    obtain ⟨l, hl, hw⟩ := deadTokens_ok spec is c hc hlo h.2
    by_cases hd : isDead spec i = true
    · obtain ⟨o, ho, hwo, _⟩ := defToken_ok .unlintable hc hlo (itemOK_range h.1)
      refine ⟨o.getD [] ++ l, ?_, (Within.sub (itemOK_range h.1) hwo).append hw⟩
      simp only [deadTokens, hd, if_true, ho, hl, bind, Except.bind, pure, Except.pure]
    · refine ⟨l, ?_, hw⟩
      simp only [deadTokens, hd, hl, bind, Except.bind, pure, Except.pure]
      simp

/-- abbreviations for the goals of the mutual induction -/
def OkR (P : List Tok → Prop) (r : Res) : Prop := ∃ o, r = .ok o ∧ P (o.getD [])
def OkL (P : List Tok → Prop) (r : Except Panic (List Tok)) : Prop := ∃ l, r = .ok l ∧ P l

section
variable (E : Env) (hin : Md.InnerOK E.inner) (hN : charCount E.bs = E.src.length)
include hin hN

theorem getText_ok {s e : Nat} (h1 : s ≤ e) (h2 : e ≤ E.bs.length) (h3 : isBoundary E.bs s = true)
    (h4 : isBoundary E.bs e = true) :
    getText E.bs E.src (some (s, e)) =
      (E.src.drop (ci E.bs s)).take (charCount ((E.bs.drop s).take (e - s))) := by
  have a : sliceCount E.bs 0 s = .ok (ci E.bs s) := by
    unfold sliceCount
    rw [if_pos ⟨Nat.zero_le _, by omega, by simp [isBoundary], h3⟩]
    simp [ci]
  have b : sliceCount E.bs s e = .ok (charCount ((E.bs.drop s).take (e - s))) := by
    unfold sliceCount
    rw [if_pos ⟨h1, h2, h3, h4⟩]
  simp only [getText, a, b]

/-- the arms of `parse_expr` / `parse_pattern` that do not recurse -/
def isLeaf : TNode → Bool
  | .text _ _ => true | .space _ => true | .leaf _ _ => true | .str _ _ => true
  | .patPlaceholder _ => true | _ => false

theorem leaf_out : (n : TNode) → isLeaf n = true → ∀ (c : Cursor) (lo hi : Nat), CurOK E.bs c →
    c.byte ≤ lo → treeOK E.bs lo hi n = true →
    ∃ o, parseExpr E n c = .ok o ∧ LeafOut E.bs lo hi n.range (o.getD [])
  | .text r txt, _, c, lo, hi, hc, hlo, h => by
    simp only [treeOK, Bool.and_eq_true] at h
    obtain ⟨c1, hp, hc1, _, hb⟩ := pushToSpan_ok hc hlo h.1
    have hp2 := pushToSpan_again hp hb
    cases r with
    | none =>
      have hz : txt = [] := by
        have := h.2; simp only [textFits, beq_iff_eq] at this
        exact List.eq_nil_of_length_eq_zero this
      subst hz
      obtain ⟨toks, hi', ht⟩ := hin []
      have : toks = [] := Tiles.eq_nil ht
      subst this
      refine ⟨some [], ?_, ⟨Within.nil, List.Pairwise.nil, fun _ => rfl⟩⟩
      simp only [parseExpr, hp, hp2, parseEnglish, hi', bind, Except.bind, pure, Except.pure, List.map_nil]
    | some p =>
      obtain ⟨s, e⟩ := p
      obtain ⟨_, h2, _, _, _, _⟩ := rangeOK_some h.1
      have hfit := textFits_some h2 h.2
      obtain ⟨toks, hi', hb', hso⟩ := inner_shift hin txt c1.char
      refine ⟨some (toks.map (·.shift c1.char)), ?_, ⟨?_, (by exact hso), (by intro h'; cases h')⟩⟩
      · simp only [parseExpr, hp, hp2, parseEnglish, hi', bind, Except.bind, pure, Except.pure]
      · intro t ht
        have := hb' t ht
        have hch : c1.char = ci E.bs s := by rw [hc1.ch, hb s e rfl]
        simp only [TNode.range, sub]
        omega
  | .space r, _, c, lo, hi, hc, hlo, h => by
    simp only [treeOK, Bool.and_eq_true] at h
    obtain ⟨c1, hp, hc1, hb1, _⟩ := pushToSpan_ok hc hlo h.1
    cases r with
    | none => simp at h
    | some p =>
      obtain ⟨s, e⟩ := p
      obtain ⟨h1, h2, h3, h4, h5, h6⟩ := rangeOK_some h.1
      have hpos : 1 ≤ charCount ((E.bs.drop s).take (e - s)) := by simpa using h.2
      have hr' : rangeOK E.bs s hi (some (s, e)) = true := by
        simp [rangeOK, h2, h3, h4, h5, h6]
      have hsum : ci E.bs s + charCount ((E.bs.drop s).take (e - s)) ≤ E.src.length := by
        rw [← ci_add E.bs h2, ← hN]; exact ci_le E.bs e
      have hne : (E.src.drop (ci E.bs s)).take (charCount ((E.bs.drop s).take (e - s))) ≠ [] := by
        intro he
        have := congrArg List.length he
        simp only [List.length_take, List.length_drop, List.length_nil] at this
        omega
      simp only [parseExpr, parseSpace, hp, getText_ok E hin hN h2 h4 h5 h6, bind, Except.bind]
      cases hx : (E.src.drop (ci E.bs s)).take (charCount ((E.bs.drop s).take (e - s))) with
      | nil => exact absurd hx hne
      | cons ch rest =>
        simp only []
        split
        · obtain ⟨o, ho, _, _, _, hl⟩ := defToken_ok (.newline 1) hc1 hb1 hr'
          exact ⟨o, ho, ⟨hl.within, hl.sorted, (by intro h'; cases h')⟩⟩
        · obtain ⟨o, ho, _, _, _, hl⟩ := defToken_ok (.space (rest.length + 1)) hc1 hb1 hr'
          exact ⟨o, ho, ⟨hl.within, hl.sorted, (by intro h'; cases h')⟩⟩
  | .leaf k r, _, c, lo, hi, hc, hlo, h => by
    simp only [treeOK] at h
    simp only [parseExpr]
    exact parseLeaf_ok k hc hlo h
  | .str r txt, _, c, lo, hi, hc, hlo, h => by
    simp only [treeOK, Bool.and_eq_true] at h
    obtain ⟨c1, hp, hc1, _, hb⟩ := pushToSpan_ok hc hlo h.1.1
    have hp2 := pushToSpan_again hp hb
    have hs : ∃ content, strInner txt = .ok content := by
      have := h.1.2
      simp only [strOK] at this
      cases hx : strInner txt with
      | ok v => exact ⟨v, rfl⟩
      | error e => rw [hx] at this; cases this
    obtain ⟨content, hs⟩ := hs
    have hlen := strInner_len hs
    cases r with
    | none =>
      have := h.2; simp only [textFits, beq_iff_eq] at this
      omega
    | some p =>
      obtain ⟨s, e⟩ := p
      obtain ⟨_, h2, _, _, _, _⟩ := rangeOK_some h.1.1
      have hfit := textFits_some h2 h.2
      obtain ⟨toks, hi', hb', hso⟩ := inner_shift hin content (c1.char + 1)
      refine ⟨some (toks.map (·.shift (c1.char + 1))), ?_, ⟨?_, (by exact hso), (by intro h'; cases h')⟩⟩
      · simp only [parseExpr, hp, hp2, hs, hi', bind, Except.bind, pure, Except.pure]
      · intro t ht
        have := hb' t ht
        have hch : c1.char = ci E.bs s := by rw [hc1.ch, hb s e rfl]
        simp only [TNode.range, sub]
        omega
  | .patPlaceholder r, _, c, lo, hi, hc, hlo, h => by
    simp only [treeOK] at h
    obtain ⟨o, ho, _, _, _, hl⟩ := defToken_ok .unlintable hc hlo h
    exact ⟨o, by simp only [parseExpr, ho], hl⟩

mutual
theorem parseExpr_ok : (n : TNode) → ∀ (c : Cursor) (lo hi : Nat), CurOK E.bs c → c.byte ≤ lo →
    treeOK E.bs lo hi n = true →
    OkR (Within E.bs (sub lo hi n.range).1 (sub lo hi n.range).2) (parseExpr E n c)
  | .text r txt, c, lo, hi, hc, hlo, h => by
    obtain ⟨o, ho, hl⟩ := leaf_out E hin hN (.text r txt) rfl c lo hi hc hlo h
    exact ⟨o, ho, hl.within⟩
  | .space r, c, lo, hi, hc, hlo, h => by
    obtain ⟨o, ho, hl⟩ := leaf_out E hin hN (.space r) rfl c lo hi hc hlo h
    exact ⟨o, ho, hl.within⟩
  | .leaf k r, c, lo, hi, hc, hlo, h => by
    obtain ⟨o, ho, hl⟩ := leaf_out E hin hN (.leaf k r) rfl c lo hi hc hlo h
    exact ⟨o, ho, hl.within⟩
  | .body k r es, c, lo, hi, hc, hlo, h => by
    simp only [treeOK, Bool.and_eq_true] at h
    obtain ⟨c1, hp, hc1, hb1, _⟩ := pushToSpan_ok hc hlo h.1
    obtain ⟨l, hl, hw⟩ := parseSeq_ok es (convertParbreaks es.shapes) c1 _ _ hc1 hb1 h.2
    exact ⟨some l, by simp only [parseExpr, hp, hl, bind, Except.bind, pure, Except.pure], hw⟩
  | .str r txt, c, lo, hi, hc, hlo, h => by
    obtain ⟨o, ho, hl⟩ := leaf_out E hin hN (.str r txt) rfl c lo hi hc hlo h
    exact ⟨o, ho, hl.within⟩
  | .rec1 k r e, c, lo, hi, hc, hlo, h => by
    simp only [treeOK, Bool.and_eq_true] at h
    obtain ⟨c1, hp, hc1, hb1, _⟩ := pushToSpan_ok hc hlo h.1
    obtain ⟨o, ho, hw⟩ := parseExpr_ok e c1 _ _ hc1 hb1 h.2
    exact ⟨o, by simp only [parseExpr, hp, ho, bind, Except.bind], Within.sub (treeOK_range h.2) hw⟩
  | .recN k r es, c, lo, hi, hc, hlo, h => by
    simp only [treeOK, Bool.and_eq_true] at h
    obtain ⟨c1, hp, hc1, hb1, _⟩ := pushToSpan_ok hc hlo h.1
    obtain ⟨l, hl, hw⟩ := parseAll_ok es c1 _ _ hc1 hb1 h.2
    exact ⟨some l, by simp only [parseExpr, hp, hl, bind, Except.bind, pure, Except.pure], hw⟩
  | .array r items, c, lo, hi, hc, hlo, h => by
    simp only [treeOK, Bool.and_eq_true] at h
    obtain ⟨c1, hp, hc1, hb1, _⟩ := pushToSpan_ok hc hlo h.1
    obtain ⟨l, hl, hw⟩ := parseItems_ok (fun _ => true) items c1 _ _ hc1 hb1 h.2
    exact ⟨some l, by simp only [parseExpr, hp, hl, bind, Except.bind, pure, Except.pure], hw⟩
  | .dict r items, c, lo, hi, hc, hlo, h => by
    simp only [treeOK, Bool.and_eq_true] at h
    obtain ⟨c1, hp, hc1, hb1, _⟩ := pushToSpan_ok hc hlo h.1
    obtain ⟨l, hl, hw⟩ := parseItems_ok (fun _ => true) items c1 _ _ hc1 hb1 h.2
    exact ⟨some l, by simp only [parseExpr, hp, hl, bind, Except.bind, pure, Except.pure], hw⟩
  | .fieldAccess r target field, c, lo, hi, hc, hlo, h => by
    simp only [treeOK, Bool.and_eq_true] at h
    obtain ⟨c1, hp, hc1, hb1, _⟩ := pushToSpan_ok hc hlo h.1.1
    obtain ⟨a, ha, hwa⟩ := parseExpr_ok target c1 _ _ hc1 hb1 h.1.2
    obtain ⟨f, hf, hwf, _⟩ := defToken_ok .word hc1 hb1 h.2
    cases f with
    | none =>
      exact ⟨none, by simp only [parseExpr, hp, ha, hf, bind, Except.bind, pure, Except.pure], Within.nil⟩
    | some ft =>
      refine ⟨some (a.getD [] ++ ft), by simp only [parseExpr, hp, ha, hf, bind, Except.bind, pure, Except.pure], ?_⟩
      exact (Within.sub (treeOK_range h.1.2) hwa).append (Within.sub h.2 hwf)
  | .letBinding r kind init, c, lo, hi, hc, hlo, h => by
    simp only [treeOK, Bool.and_eq_true] at h
    obtain ⟨c1, hp, hc1, hb1, _⟩ := pushToSpan_ok hc hlo h.1.1
    obtain ⟨a, ha, hwa⟩ := parseExpr_ok kind c1 _ _ hc1 hb1 h.1.2
    obtain ⟨b, hb, hwb⟩ := parseAll_ok init c1 _ _ hc1 hb1 h.2
    refine ⟨some (a.getD [] ++ b), by simp only [parseExpr, hp, ha, hb, bind, Except.bind, pure, Except.pure], ?_⟩
    exact (Within.sub (treeOK_range h.1.2) hwa).append hwb
  | .letClosure r, c, lo, hi, hc, hlo, h => ⟨none, by simp only [parseExpr, pure, Except.pure], Within.nil⟩
  | .setRule r target cond args, c, lo, hi, hc, hlo, h => by
    simp only [treeOK, Bool.and_eq_true] at h
    obtain ⟨c1, hp, hc1, hb1, _⟩ := pushToSpan_ok hc hlo h.1.1.1
    obtain ⟨a, ha, hwa⟩ := parseExpr_ok target c1 _ _ hc1 hb1 h.1.1.2
    obtain ⟨b, hb, hwb⟩ := parseAll_ok cond c1 _ _ hc1 hb1 h.1.2
    obtain ⟨d, hd, hwd⟩ := parseItems_ok (fun _ => true) args c1 _ _ hc1 hb1 h.2
    refine ⟨some (a.getD [] ++ b ++ d), by simp only [parseExpr, hp, ha, hb, hd, bind, Except.bind, pure, Except.pure], ?_⟩
    exact ((Within.sub (treeOK_range h.1.1.2) hwa).append hwb).append hwd
  | .closure r name params body, c, lo, hi, hc, hlo, h => by
    simp only [treeOK, Bool.and_eq_true] at h
    obtain ⟨c1, hp, hc1, hb1, _⟩ := pushToSpan_ok hc hlo h.1.1.1
    obtain ⟨a, ha, hwa⟩ := parseAll_ok name c1 _ _ hc1 hb1 h.1.1.2
    obtain ⟨p, hpp, hwp⟩ := parseItems_ok (fun _ => true) params c1 _ _ hc1 hb1 h.1.2
    obtain ⟨b, hb, hwb⟩ := parseExpr_ok body c1 _ _ hc1 hb1 h.2
    refine ⟨some (a ++ p ++ b.getD []), by simp only [parseExpr, hp, ha, hpp, hb, bind, Except.bind, pure, Except.pure], ?_⟩
    exact (hwa.append hwp).append (Within.sub (treeOK_range h.2) hwb)
  | .funcCall r callee args, c, lo, hi, hc, hlo, h => by
    simp only [treeOK, Bool.and_eq_true] at h
    obtain ⟨c1, hp, hc1, hb1, _⟩ := pushToSpan_ok hc hlo h.1.1
    obtain ⟨ct, hct, hwc, _, _⟩ := defToken_ok .unlintable hc1 hb1 h.1.2
    have hwc' := Within.sub h.1.2 hwc
    cases ct with
    | none =>
      -- a detached callee: `?` leaves `parse_func_call`, the call yields nothing
      exact ⟨none, by simp only [parseExpr, hp, hct, bind, Except.bind, pure, Except.pure], Within.nil⟩
    | some ctl =>
      simp only [parseExpr, hp, hct, bind, Except.bind]
      cases hspec : ignoreSpec (getText E.bs E.src callee) with
      | none =>
        obtain ⟨a, ha, hwa⟩ := parseItems_ok (fun _ => true) args c1 _ _ hc1 hb1 h.2
        exact ⟨some (ctl ++ a), by simp only [ha, bind, Except.bind, pure, Except.pure], hwc'.append hwa⟩
      | some spec =>
        obtain ⟨al, hal, hwal⟩ := parseItems_ok (fun i => !isDead spec i) args c1 _ _ hc1 hb1 h.2
        obtain ⟨dl, hdl, hwdl⟩ := deadTokens_ok spec args c1 hc1 hb1 h.2
        exact ⟨some (ctl ++ dl ++ al), by simp only [hal, hdl, bind, Except.bind, pure, Except.pure],
          (hwc'.append hwdl).append hwal⟩
  | .patPlaceholder r, c, lo, hi, hc, hlo, h => by
    simp only [treeOK] at h
    obtain ⟨o, ho, hw, _⟩ := defToken_ok .unlintable hc hlo h
    exact ⟨o, by simp only [parseExpr, ho], hw⟩
  | .patParen r e p, c, lo, hi, hc, hlo, h => by
    simp only [treeOK, Bool.and_eq_true] at h
    have hlo2 : c.byte ≤ (sub lo hi r).1 := by
      cases r with
      | none => exact hlo
      | some q => obtain ⟨s, e'⟩ := q; have := (rangeOK_some h.1.1).1; simp only [sub]; omega
    obtain ⟨a, ha, hwa⟩ := parseExpr_ok e c _ _ hc hlo2 h.1.2
    obtain ⟨b, hb, hwb⟩ := parseExpr_ok p c _ _ hc hlo2 h.2
    refine ⟨some (a.getD [] ++ b.getD []), by simp only [parseExpr, ha, hb, bind, Except.bind, pure, Except.pure], ?_⟩
    exact (Within.sub (treeOK_range h.1.2) hwa).append (Within.sub (treeOK_range h.2) hwb)
  | .patDestruct r items, c, lo, hi, hc, hlo, h => by
    simp only [treeOK, Bool.and_eq_true] at h
    have hlo2 : c.byte ≤ (sub lo hi r).1 := by
      cases r with
      | none => exact hlo
      | some q => obtain ⟨s, e'⟩ := q; have := (rangeOK_some h.1).1; simp only [sub]; omega
    obtain ⟨l, hl, hw⟩ := parseItems_ok (fun _ => true) items c _ _ hc hlo2 h.2
    exact ⟨some l, by simp only [parseExpr, hl, bind, Except.bind, pure, Except.pure], hw⟩
theorem parseSeq_ok : (es : TNodes) → ∀ (fl : List Bool) (c : Cursor) (lo hi : Nat), CurOK E.bs c →
    c.byte ≤ lo → treesOK E.bs lo hi es = true → OkL (Within E.bs lo hi) (parseSeq E fl es c)
  | .nil, fl, c, lo, hi, _, _, _ => ⟨[], by simp only [parseSeq, pure, Except.pure], Within.nil⟩
  | .cons e es, fl, c, lo, hi, hc, hlo, h => by
    simp only [treesOK, Bool.and_eq_true] at h
    obtain ⟨b, hb, hwb⟩ := parseSeq_ok es (fl.drop 1) c lo hi hc hlo h.2
    by_cases hf : fl.headD false = true
    · obtain ⟨a, ha, hla⟩ := parseLeaf_ok .parbreak hc hlo (treeOK_range h.1)
      refine ⟨a.getD [] ++ b, ?_, (Within.sub (treeOK_range h.1) hla.within).append hwb⟩
      simp only [parseSeq, hf, if_true, ha, hb, bind, Except.bind, pure, Except.pure]
    · obtain ⟨a, ha, hwa⟩ := parseExpr_ok e c lo hi hc hlo h.1
      refine ⟨a.getD [] ++ b, ?_, (Within.sub (treeOK_range h.1) hwa).append hwb⟩
      simp only [parseSeq, hf, ha, hb, bind, Except.bind, pure, Except.pure]
      simp
theorem parseAll_ok : (es : TNodes) → ∀ (c : Cursor) (lo hi : Nat), CurOK E.bs c →
    c.byte ≤ lo → treesOK E.bs lo hi es = true → OkL (Within E.bs lo hi) (parseAll E es c)
  | .nil, c, lo, hi, _, _, _ => ⟨[], by simp only [parseAll, pure, Except.pure], Within.nil⟩
  | .cons e es, c, lo, hi, hc, hlo, h => by
    simp only [treesOK, Bool.and_eq_true] at h
    obtain ⟨b, hb, hwb⟩ := parseAll_ok es c lo hi hc hlo h.2
    obtain ⟨a, ha, hwa⟩ := parseExpr_ok e c lo hi hc hlo h.1
    refine ⟨a.getD [] ++ b, ?_, (Within.sub (treeOK_range h.1) hwa).append hwb⟩
    simp only [parseAll, ha, hb, bind, Except.bind, pure, Except.pure]
theorem parseItem_ok : (i : TItem) → ∀ (c : Cursor) (lo hi : Nat), CurOK E.bs c → c.byte ≤ lo →
    itemOK E.bs lo hi i = true → OkR (Within E.bs lo hi) (parseItem E i c)
  | .pos n, c, lo, hi, hc, hlo, h => by
    simp only [itemOK] at h
    obtain ⟨o, ho, hw⟩ := parseExpr_ok n c lo hi hc hlo h
    exact ⟨o, by simp only [parseItem, ho], Within.sub (treeOK_range h) hw⟩
  | .named r name t value, c, lo, hi, hc, hlo, h => by
    simp only [itemOK, Bool.and_eq_true] at h
    have hlo2 : c.byte ≤ (sub lo hi r).1 := by
      cases r with
      | none => exact hlo
      | some q => obtain ⟨s, e'⟩ := q; have := (rangeOK_some h.1.1).1; simp only [sub]; omega
    obtain ⟨a, ha, hwa⟩ := parseExpr_ok name c _ _ hc hlo2 h.1.2
    obtain ⟨b, hb, hwb⟩ := parseExpr_ok value c _ _ hc hlo2 h.2
    refine ⟨some (a.getD [] ++ b.getD []), by simp only [parseItem, ha, hb, bind, Except.bind, pure, Except.pure], ?_⟩
    exact Within.sub h.1.1 ((Within.sub (treeOK_range h.1.2) hwa).append (Within.sub (treeOK_range h.2) hwb))
  | .dnamed r name pat, c, lo, hi, hc, hlo, h => by
    simp only [itemOK, Bool.and_eq_true] at h
    have hlo2 : c.byte ≤ (sub lo hi r).1 := by
      cases r with
      | none => exact hlo
      | some q => obtain ⟨s, e'⟩ := q; have := (rangeOK_some h.1.1).1; simp only [sub]; omega
    obtain ⟨a, ha, hwa, _⟩ := defToken_ok .word hc hlo2 h.1.2
    cases a with
    | none => exact ⟨none, by simp only [parseItem, ha, bind, Except.bind, pure, Except.pure], Within.nil⟩
    | some al =>
      obtain ⟨b, hb, hwb⟩ := parseExpr_ok pat c _ _ hc hlo2 h.2
      refine ⟨some (al ++ b.getD []), by simp only [parseItem, ha, hb, bind, Except.bind, pure, Except.pure], ?_⟩
      exact Within.sub h.1.1 ((Within.sub h.1.2 hwa).append (Within.sub (treeOK_range h.2) hwb))
  | .keyed r key value, c, lo, hi, hc, hlo, h => by
    simp only [itemOK, Bool.and_eq_true] at h
    have hlo2 : c.byte ≤ (sub lo hi r).1 := by
      cases r with
      | none => exact hlo
      | some q => obtain ⟨s, e'⟩ := q; have := (rangeOK_some h.1.1).1; simp only [sub]; omega
    obtain ⟨a, ha, hwa⟩ := parseExpr_ok key c _ _ hc hlo2 h.1.2
    obtain ⟨b, hb, hwb⟩ := parseExpr_ok value c _ _ hc hlo2 h.2
    refine ⟨some (a.getD [] ++ b.getD []), by simp only [parseItem, ha, hb, bind, Except.bind, pure, Except.pure], ?_⟩
    exact Within.sub h.1.1 ((Within.sub (treeOK_range h.1.2) hwa).append (Within.sub (treeOK_range h.2) hwb))
  | .spread r es, c, lo, hi, hc, hlo, h => by
    simp only [itemOK, Bool.and_eq_true] at h
    have hlo2 : c.byte ≤ (sub lo hi r).1 := by
      cases r with
      | none => exact hlo
      | some q => obtain ⟨s, e'⟩ := q; have := (rangeOK_some h.1).1; simp only [sub]; omega
    obtain ⟨l, hl, hw⟩ := parseAll_ok es c _ _ hc hlo2 h.2
    exact ⟨some l, by simp only [parseItem, hl, bind, Except.bind, pure, Except.pure], Within.sub h.1 hw⟩
theorem parseItems_ok (keep : TItem → Bool) : (is : TItems) → ∀ (c : Cursor) (lo hi : Nat),
    CurOK E.bs c → c.byte ≤ lo → itemsOK E.bs lo hi is = true →
    OkL (Within E.bs lo hi) (parseItems E keep is c)
  | .nil, c, lo, hi, _, _, _ => ⟨[], by simp only [parseItems, pure, Except.pure], Within.nil⟩
  | .cons i is, c, lo, hi, hc, hlo, h => by
    simp only [itemsOK, Bool.and_eq_true] at h
    obtain ⟨b, hb, hwb⟩ := parseItems_ok keep is c lo hi hc hlo h.2
    by_cases hk : keep i = true
    · obtain ⟨a, ha, hwa⟩ := parseItem_ok i c lo hi hc hlo h.1
      refine ⟨a.getD [] ++ b, ?_, hwa.append hwb⟩
      simp only [parseItems, hk, if_true, ha, hb, bind, Except.bind, pure, Except.pure]
    · refine ⟨b, ?_, hwb⟩
      simp only [parseItems, hk, hb, bind, Except.bind, pure, Except.pure]
      simp
end

/-- `Typst::parse` under `TreeOK`: no panic, every token inside the text -/
theorem typstParse_ok (top : TNodes) (h : TreeOK E.bs top) :
    ∃ toks, typstParse E top = .ok toks ∧
      ∀ t ∈ toks, t.span.start ≤ t.span.stop ∧ t.span.stop ≤ E.src.length := by
  obtain ⟨l, hl, hw⟩ := parseSeq_ok E hin hN top (convertParbreaks top.shapes) ⟨0, 0⟩ 0 E.bs.length
    (curOK_zero E.bs) (Nat.le_refl _) h
  refine ⟨l, hl, ?_⟩
  intro t ht
  have := hw t ht
  have h2 : ci E.bs E.bs.length ≤ E.src.length := by rw [← hN]; exact ci_le E.bs _
  omega

end

/-! ## D. `convert_parbreaks`, position by position -/

/-- only `Space` expressions are converted -/
def flagsOK : List Bool → List Shape → Bool
  | _, [] => true
  | fl, sh :: rest => (!(fl.headD false) || sh == .space) && flagsOK (fl.drop 1) rest

theorem flagsOK_conv : ∀ (l : List Shape) (p : Option Shape), flagsOK (convFlags p l) l = true
  | [], p => by cases p <;> simp [convFlags, flagsOK]
  | [a], p => by cases p <;> simp [convFlags, flagsOK]
  | a :: b :: rest, none => by
    have ih := flagsOK_conv (b :: rest) (some a)
    show flagsOK (false :: convFlags (some a) (b :: rest)) (a :: b :: rest) = true
    rw [flagsOK]
    simp only [List.headD_cons, List.drop_succ_cons, List.drop_zero, ih, Bool.not_false, Bool.true_or,
      Bool.and_self]
  | a :: b :: rest, some q => by
    have ih := flagsOK_conv (b :: rest) (some a)
    show flagsOK (shouldParbreak q a b :: convFlags (some a) (b :: rest)) (a :: b :: rest) = true
    rw [flagsOK]
    simp only [List.headD_cons, List.drop_succ_cons, List.drop_zero, ih, Bool.and_true]
    by_cases h : shouldParbreak q a b = true
    · have h' := h
      simp only [shouldParbreak, Bool.and_eq_true] at h'
      rw [h, h'.1]; rfl
    · have : shouldParbreak q a b = false := by simpa using h
      rw [this]; rfl

theorem convFlags_length : ∀ (l : List Shape) (p : Option Shape), (convFlags p l).length = l.length
  | [], p => by cases p <;> simp [convFlags]
  | [a], p => by cases p <;> simp [convFlags]
  | a :: b :: rest, none => by
    have := convFlags_length (b :: rest) (some a)
    simp only [convFlags, List.length_cons] at this ⊢
    omega
  | a :: b :: rest, some q => by
    have := convFlags_length (b :: rest) (some a)
    simp only [convFlags, List.length_cons] at this ⊢
    omega

/-- the flag at position `i` of the window loop started with `last_element = p` -/
theorem convFlags_get : ∀ (l : List Shape) (p : Option Shape) (i : Nat) (hi : i < l.length),
    (convFlags p l)[i]? = some
      (match (if i = 0 then p else l[i - 1]?), l[i + 1]? with
       | some a, some b => shouldParbreak a l[i] b
       | _, _ => false)
  | [], p, i, hi => by simp at hi
  | [a], p, i, hi => by
    have : i = 0 := by simpa using hi
    subst this
    cases p <;> simp [convFlags]
  | a :: b :: rest, p, 0, _ => by
    cases p <;> simp [convFlags]
  | a :: b :: rest, p, i + 1, hi => by
    have ih := convFlags_get (b :: rest) (some a) i (by simpa using hi)
    have hc : (convFlags p (a :: b :: rest))[i + 1]? = (convFlags (some a) (b :: rest))[i]? := by
      cases p <;> simp [convFlags]
    rw [hc, ih]
    cases i with
    | zero => simp
    | succ j => simp

/-- `convert_parbreaks`: exactly the `Space` expressions that are neither first nor last and have a
`Heading` / `List` item directly before or after them are converted -/
theorem convFlags_true_iff (l : List Shape) (i : Nat) (hi : i < l.length) :
    (convertParbreaks l)[i]? = some true ↔
      0 < i ∧ ∃ a b, l[i - 1]? = some a ∧ l[i + 1]? = some b ∧ l[i] = .space ∧
        (a = .headingOrList ∨ b = .headingOrList) := by
  unfold convertParbreaks
  rw [convFlags_get l none i hi]
  cases i with
  | zero => simp
  | succ j =>
    simp only [Nat.add_one_ne_zero, if_false, Nat.add_sub_cancel, Nat.zero_lt_succ, true_and]
    cases h1 : l[j]? <;> cases h2 : l[j + 1 + 1]? <;> simp [shouldParbreak]

theorem shape_space {n : TNode} (h : n.shape = .space) : ∃ r, n = .space r := by
  cases n with
  | space r => exact ⟨r, rfl⟩
  | body k r es => cases k <;> simp [TNode.shape] at h
  | _ => simp [TNode.shape] at h

/-! ## C. ordered and disjoint under `inOrder` -/

/-- the tokens lie between the characters of bytes `a ≤ b`, pairwise ordered and disjoint -/
structure Chain (bs : List Nat) (a b : Nat) (l : List Tok) : Prop where
  le : a ≤ b
  sorted : Sorted l
  lb : ∀ t ∈ l, ci bs a ≤ t.span.start
  ub : ∀ t ∈ l, t.span.stop ≤ ci bs b
  wf : ∀ t ∈ l, t.span.start ≤ t.span.stop

theorem Chain.nil {bs : List Nat} {a b : Nat} (h : a ≤ b) : Chain bs a b [] :=
  ⟨h, List.Pairwise.nil, (by intro t ht; cases ht), (by intro t ht; cases ht), (by intro t ht; cases ht)⟩

theorem Chain.append {bs : List Nat} {a m b : Nat} {l1 l2 : List Tok} (h1 : Chain bs a m l1)
    (h2 : Chain bs m b l2) : Chain bs a b (l1 ++ l2) := by
  have hle1 := h1.le
  have hle2 := h2.le
  refine ⟨by omega, ?_, ?_, ?_, ?_⟩
  · refine List.pairwise_append.mpr ⟨h1.sorted, h2.sorted, ?_⟩
    intro x hx y hy
    have := h1.ub x hx
    have := h2.lb y hy
    omega
  · intro t ht
    rcases List.mem_append.mp ht with h | h
    · exact h1.lb t h
    · have := h2.lb t h; have := ci_mono bs hle1; omega
  · intro t ht
    rcases List.mem_append.mp ht with h | h
    · have := h1.ub t h; have := ci_mono bs hle2; omega
    · exact h2.ub t h
  · intro t ht
    rcases List.mem_append.mp ht with h | h
    · exact h1.wf t h
    · exact h2.wf t h

theorem chain_leaf {bs : List Nat} {lo hi cur cur' : Nat} {r : BRange} {l : List Tok}
    (hr : rangeOK bs lo hi r = true) (ho : leafOrder cur r = some cur') (hl : LeafOut bs lo hi r l) :
    Chain bs cur cur' l := by
  cases r with
  | none =>
    simp only [leafOrder, Option.some.injEq] at ho
    subst ho
    rw [hl.detached rfl]
    exact Chain.nil (Nat.le_refl _)
  | some p =>
    obtain ⟨s, e⟩ := p
    obtain ⟨_, h2, _⟩ := rangeOK_some hr
    simp only [leafOrder] at ho
    split at ho
    · rename_i hcs
      cases ho
      have hw := hl.within
      simp only [sub] at hw
      refine ⟨by omega, hl.sorted, ?_, ?_, ?_⟩
      · intro t ht; have := hw t ht; have := ci_mono bs hcs; omega
      · intro t ht; exact (hw t ht).2.2
      · intro t ht; exact (hw t ht).2.1
    · cases ho

theorem chain_wrap {bs : List Nat} {lo hi cur c0 c1 : Nat} {r : BRange} {l : List Tok}
    (hr : rangeOK bs lo hi r = true) (h0 : enter cur r = some c0)
    (hw : Within bs (sub lo hi r).1 (sub lo hi r).2 l) (hc : Chain bs c0 c1 l) :
    Chain bs cur (leave c1 r) l := by
  cases r with
  | none =>
    simp only [enter, Option.some.injEq] at h0
    subst h0
    exact hc
  | some p =>
    obtain ⟨s, e⟩ := p
    obtain ⟨_, h2, _⟩ := rangeOK_some hr
    simp only [enter] at h0
    split at h0
    · rename_i hcs
      cases h0
      simp only [sub] at hw
      simp only [leave]
      refine ⟨by omega, hc.sorted, ?_, ?_, hc.wf⟩
      · intro t ht; have := hw t ht; have := ci_mono bs hcs; omega
      · intro t ht; exact (hw t ht).2.2
    · cases h0

/-- `enter` only moves forward, to a point from which the cursor can be pushed -/
theorem enter_le {cur c0 : Nat} {r : BRange} (h : enter cur r = some c0) : cur ≤ c0 := by
  cases r with
  | none => simp only [enter, Option.some.injEq] at h; omega
  | some p =>
    obtain ⟨s, e⟩ := p
    simp only [enter] at h
    split at h
    · cases h; assumption
    · cases h

theorem deadTokens_chain {bs : List Nat} (spec : Bool × List (List Char)) {lo hi : Nat} :
    (is : TItems) → ∀ (c : Cursor) (cur cur' : Nat), CurOK bs c → c.byte ≤ lo →
      itemsOK bs lo hi is = true → deadOrder spec is cur = some cur' →
      ∃ l, deadTokens bs spec is c = .ok l ∧ Chain bs cur cur' l
  | .nil, c, cur, cur', _, _, _, ho => by
    simp only [deadOrder, Option.some.injEq] at ho
    subst ho
    exact ⟨[], rfl, Chain.nil (Nat.le_refl _)⟩
  | .cons i is, c, cur, cur', hc, hlo, h, ho => by
    simp only [itemsOK, Bool.and_eq_true] at h
    by_cases hd : isDead spec i = true
    · simp only [deadOrder, hd, if_true, Option.bind_eq_some_iff] at ho
      obtain ⟨c1, h1, h2⟩ := ho
      obtain ⟨l, hl, hch⟩ := deadTokens_chain spec is c c1 cur' hc hlo h.2 h2
      obtain ⟨o, hto, _, _, _, hlo'⟩ := defToken_ok .unlintable hc hlo (itemOK_range h.1)
      refine ⟨o.getD [] ++ l, ?_, (chain_leaf (itemOK_range h.1) h1 hlo').append hch⟩
      simp only [deadTokens, hd, if_true, hto, hl, bind, Except.bind, pure, Except.pure]
    · have hd' : isDead spec i = false := by simpa using hd
      simp only [deadOrder, hd', Bool.false_eq_true, if_false] at ho
      obtain ⟨l, hl, hch⟩ := deadTokens_chain spec is c cur cur' hc hlo h.2 ho
      refine ⟨l, ?_, hch⟩
      simp only [deadTokens, hd', Bool.false_eq_true, if_false, hl, bind, Except.bind, pure, Except.pure,
        Option.getD_none, List.nil_append]

/-- the flags of a sequence only convert `Space` expressions -/
def FlagsOK (fl : List Bool) (es : TNodes) : Prop := flagsOK fl es.shapes = true

section
variable (E : Env) (hin : Md.InnerOK E.inner) (hN : charCount E.bs = E.src.length)
include hin hN

mutual
theorem parseExpr_chain : (n : TNode) → ∀ (c : Cursor) (lo hi cur cur' : Nat), CurOK E.bs c →
    c.byte ≤ lo → treeOK E.bs lo hi n = true → inOrder E n cur = some cur' →
    ∃ o, parseExpr E n c = .ok o ∧ Chain E.bs cur cur' (o.getD [])
  | .text r txt, c, lo, hi, cur, cur', hc, hlo, h, ho => by
    obtain ⟨o, hpo, hl⟩ := leaf_out E hin hN (.text r txt) rfl c lo hi hc hlo h
    exact ⟨o, hpo, chain_leaf (treeOK_range h) (by simpa [inOrder, TNode.range] using ho) hl⟩
  | .space r, c, lo, hi, cur, cur', hc, hlo, h, ho => by
    obtain ⟨o, hpo, hl⟩ := leaf_out E hin hN (.space r) rfl c lo hi hc hlo h
    exact ⟨o, hpo, chain_leaf (treeOK_range h) (by simpa [inOrder, TNode.range] using ho) hl⟩
  | .leaf k r, c, lo, hi, cur, cur', hc, hlo, h, ho => by
    obtain ⟨o, hpo, hl⟩ := leaf_out E hin hN (.leaf k r) rfl c lo hi hc hlo h
    exact ⟨o, hpo, chain_leaf (treeOK_range h) (by simpa [inOrder, TNode.range] using ho) hl⟩
  | .str r txt, c, lo, hi, cur, cur', hc, hlo, h, ho => by
    obtain ⟨o, hpo, hl⟩ := leaf_out E hin hN (.str r txt) rfl c lo hi hc hlo h
    exact ⟨o, hpo, chain_leaf (treeOK_range h) (by simpa [inOrder, TNode.range] using ho) hl⟩
  | .patPlaceholder r, c, lo, hi, cur, cur', hc, hlo, h, ho => by
    obtain ⟨o, hpo, hl⟩ := leaf_out E hin hN (.patPlaceholder r) rfl c lo hi hc hlo h
    exact ⟨o, hpo, chain_leaf (treeOK_range h) (by simpa [inOrder, TNode.range] using ho) hl⟩
  | .letClosure r, c, lo, hi, cur, cur', hc, hlo, h, ho => by
    simp only [inOrder, Option.some.injEq] at ho
    subst ho
    exact ⟨none, by simp only [parseExpr, pure, Except.pure], Chain.nil (Nat.le_refl _)⟩
  | .body k r es, c, lo, hi, cur, cur', hc, hlo, h, ho => by
    obtain ⟨o, hpo, hw⟩ := parseExpr_ok E hin hN (.body k r es) c lo hi hc hlo h
    simp only [TNode.range] at hw
    simp only [treeOK, Bool.and_eq_true] at h
    simp only [inOrder, bind, Option.bind_eq_some_iff, pure, Option.some.injEq] at ho
    obtain ⟨c0, h0, c1', h1, h2⟩ := ho
    subst h2
    obtain ⟨c1, hp, hc1, hb1, _⟩ := pushToSpan_ok hc hlo h.1
    obtain ⟨l, hl, hch⟩ := parseSeq_chain es (convertParbreaks es.shapes) c1 _ _ c0 c1' hc1 hb1 h.2
      (flagsOK_conv es.shapes none) h1
    simp only [parseExpr, hp, hl, bind, Except.bind, pure, Except.pure] at hpo
    cases hpo
    exact ⟨some l, by simp only [parseExpr, hp, hl, bind, Except.bind, pure, Except.pure],
      chain_wrap h.1 h0 hw hch⟩
  | .rec1 k r e, c, lo, hi, cur, cur', hc, hlo, h, ho => by
    obtain ⟨o, hpo, hw⟩ := parseExpr_ok E hin hN (.rec1 k r e) c lo hi hc hlo h
    simp only [TNode.range] at hw
    simp only [treeOK, Bool.and_eq_true] at h
    simp only [inOrder, bind, Option.bind_eq_some_iff, pure, Option.some.injEq] at ho
    obtain ⟨c0, h0, c1', h1, h2⟩ := ho
    subst h2
    obtain ⟨c1, hp, hc1, hb1, _⟩ := pushToSpan_ok hc hlo h.1
    obtain ⟨a, ha, hch⟩ := parseExpr_chain e c1 _ _ c0 c1' hc1 hb1 h.2 h1
    simp only [parseExpr, hp, ha, bind, Except.bind] at hpo
    cases hpo
    exact ⟨_, by simp only [parseExpr, hp, ha, bind, Except.bind], chain_wrap h.1 h0 hw hch⟩
  | .recN k r es, c, lo, hi, cur, cur', hc, hlo, h, ho => by
    obtain ⟨o, hpo, hw⟩ := parseExpr_ok E hin hN (.recN k r es) c lo hi hc hlo h
    simp only [TNode.range] at hw
    simp only [treeOK, Bool.and_eq_true] at h
    simp only [inOrder, bind, Option.bind_eq_some_iff, pure, Option.some.injEq] at ho
    obtain ⟨c0, h0, c1', h1, h2⟩ := ho
    subst h2
    obtain ⟨c1, hp, hc1, hb1, _⟩ := pushToSpan_ok hc hlo h.1
    obtain ⟨l, hl, hch⟩ := parseAll_chain es c1 _ _ c0 c1' hc1 hb1 h.2 h1
    simp only [parseExpr, hp, hl, bind, Except.bind, pure, Except.pure] at hpo
    cases hpo
    exact ⟨some l, by simp only [parseExpr, hp, hl, bind, Except.bind, pure, Except.pure],
      chain_wrap h.1 h0 hw hch⟩
  | .array r items, c, lo, hi, cur, cur', hc, hlo, h, ho => by
    obtain ⟨o, hpo, hw⟩ := parseExpr_ok E hin hN (.array r items) c lo hi hc hlo h
    simp only [TNode.range] at hw
    simp only [treeOK, Bool.and_eq_true] at h
    simp only [inOrder, bind, Option.bind_eq_some_iff, pure, Option.some.injEq] at ho
    obtain ⟨c0, h0, c1', h1, h2⟩ := ho
    subst h2
    obtain ⟨c1, hp, hc1, hb1, _⟩ := pushToSpan_ok hc hlo h.1
    obtain ⟨l, hl, hch⟩ := parseItems_chain (fun _ => true) items c1 _ _ c0 c1' hc1 hb1 h.2 h1
    simp only [parseExpr, hp, hl, bind, Except.bind, pure, Except.pure] at hpo
    cases hpo
    exact ⟨some l, by simp only [parseExpr, hp, hl, bind, Except.bind, pure, Except.pure],
      chain_wrap h.1 h0 hw hch⟩
  | .dict r items, c, lo, hi, cur, cur', hc, hlo, h, ho => by
    obtain ⟨o, hpo, hw⟩ := parseExpr_ok E hin hN (.dict r items) c lo hi hc hlo h
    simp only [TNode.range] at hw
    simp only [treeOK, Bool.and_eq_true] at h
    simp only [inOrder, bind, Option.bind_eq_some_iff, pure, Option.some.injEq] at ho
    obtain ⟨c0, h0, c1', h1, h2⟩ := ho
    subst h2
    obtain ⟨c1, hp, hc1, hb1, _⟩ := pushToSpan_ok hc hlo h.1
    obtain ⟨l, hl, hch⟩ := parseItems_chain (fun _ => true) items c1 _ _ c0 c1' hc1 hb1 h.2 h1
    simp only [parseExpr, hp, hl, bind, Except.bind, pure, Except.pure] at hpo
    cases hpo
    exact ⟨some l, by simp only [parseExpr, hp, hl, bind, Except.bind, pure, Except.pure],
      chain_wrap h.1 h0 hw hch⟩
  | .fieldAccess r target field, c, lo, hi, cur, cur', hc, hlo, h, ho => by
    obtain ⟨o, hpo, hw⟩ := parseExpr_ok E hin hN (.fieldAccess r target field) c lo hi hc hlo h
    simp only [TNode.range] at hw
    simp only [treeOK, Bool.and_eq_true] at h
    simp only [inOrder, bind, Option.bind_eq_some_iff, pure, Option.some.injEq] at ho
    obtain ⟨c0, h0, c1', h1, c2', h2, h3⟩ := ho
    subst h3
    obtain ⟨c1, hp, hc1, hb1, _⟩ := pushToSpan_ok hc hlo h.1.1
    obtain ⟨a, ha, hcha⟩ := parseExpr_chain target c1 _ _ c0 c1' hc1 hb1 h.1.2 h1
    obtain ⟨f, hf, _, _, _, hlf⟩ := defToken_ok .word hc1 hb1 h.2
    have hchf := chain_leaf h.2 h2 hlf
    cases f with
    | none =>
      exact ⟨none, by simp only [parseExpr, hp, ha, hf, bind, Except.bind, pure, Except.pure],
        Chain.nil (by have := enter_le h0; have := hcha.le; have := hchf.le
                      cases r with
                      | none => simp only [leave]; omega
                      | some p => obtain ⟨s, e⟩ := p
                                  have := (rangeOK_some h.1.1).2.1
                                  simp only [enter] at h0
                                  split at h0
                                  · cases h0; simp only [leave]; omega
                                  · cases h0)⟩
    | some ft =>
      simp only [parseExpr, hp, ha, hf, bind, Except.bind, pure, Except.pure] at hpo
      cases hpo
      exact ⟨some (a.getD [] ++ ft), by simp only [parseExpr, hp, ha, hf, bind, Except.bind, pure, Except.pure],
        chain_wrap h.1.1 h0 hw (hcha.append hchf)⟩
  | .letBinding r kind init, c, lo, hi, cur, cur', hc, hlo, h, ho => by
    obtain ⟨o, hpo, hw⟩ := parseExpr_ok E hin hN (.letBinding r kind init) c lo hi hc hlo h
    simp only [TNode.range] at hw
    simp only [treeOK, Bool.and_eq_true] at h
    simp only [inOrder, bind, Option.bind_eq_some_iff, pure, Option.some.injEq] at ho
    obtain ⟨c0, h0, c1', h1, c2', h2, h3⟩ := ho
    subst h3
    obtain ⟨c1, hp, hc1, hb1, _⟩ := pushToSpan_ok hc hlo h.1.1
    obtain ⟨a, ha, hcha⟩ := parseExpr_chain kind c1 _ _ c0 c1' hc1 hb1 h.1.2 h1
    obtain ⟨b, hb, hchb⟩ := parseAll_chain init c1 _ _ c1' c2' hc1 hb1 h.2 h2
    simp only [parseExpr, hp, ha, hb, bind, Except.bind, pure, Except.pure] at hpo
    cases hpo
    exact ⟨some (a.getD [] ++ b), by simp only [parseExpr, hp, ha, hb, bind, Except.bind, pure, Except.pure],
      chain_wrap h.1.1 h0 hw (hcha.append hchb)⟩
  | .setRule r target cond args, c, lo, hi, cur, cur', hc, hlo, h, ho => by
    obtain ⟨o, hpo, hw⟩ := parseExpr_ok E hin hN (.setRule r target cond args) c lo hi hc hlo h
    simp only [TNode.range] at hw
    simp only [treeOK, Bool.and_eq_true] at h
    simp only [inOrder, bind, Option.bind_eq_some_iff, pure, Option.some.injEq] at ho
    obtain ⟨c0, h0, c1', h1, c2', h2, c3', h3, h4⟩ := ho
    subst h4
    obtain ⟨c1, hp, hc1, hb1, _⟩ := pushToSpan_ok hc hlo h.1.1.1
    obtain ⟨a, ha, hcha⟩ := parseExpr_chain target c1 _ _ c0 c1' hc1 hb1 h.1.1.2 h1
    obtain ⟨b, hb, hchb⟩ := parseAll_chain cond c1 _ _ c1' c2' hc1 hb1 h.1.2 h2
    obtain ⟨d, hd, hchd⟩ := parseItems_chain (fun _ => true) args c1 _ _ c2' c3' hc1 hb1 h.2 h3
    simp only [parseExpr, hp, ha, hb, hd, bind, Except.bind, pure, Except.pure] at hpo
    cases hpo
    exact ⟨some (a.getD [] ++ b ++ d),
      by simp only [parseExpr, hp, ha, hb, hd, bind, Except.bind, pure, Except.pure],
      chain_wrap h.1.1.1 h0 hw ((hcha.append hchb).append hchd)⟩
  | .closure r name params body, c, lo, hi, cur, cur', hc, hlo, h, ho => by
    obtain ⟨o, hpo, hw⟩ := parseExpr_ok E hin hN (.closure r name params body) c lo hi hc hlo h
    simp only [TNode.range] at hw
    simp only [treeOK, Bool.and_eq_true] at h
    simp only [inOrder, bind, Option.bind_eq_some_iff, pure, Option.some.injEq] at ho
    obtain ⟨c0, h0, c1', h1, c2', h2, c3', h3, h4⟩ := ho
    subst h4
    obtain ⟨c1, hp, hc1, hb1, _⟩ := pushToSpan_ok hc hlo h.1.1.1
    obtain ⟨a, ha, hcha⟩ := parseAll_chain name c1 _ _ c0 c1' hc1 hb1 h.1.1.2 h1
    obtain ⟨p, hpp, hchp⟩ := parseItems_chain (fun _ => true) params c1 _ _ c1' c2' hc1 hb1 h.1.2 h2
    obtain ⟨b, hb, hchb⟩ := parseExpr_chain body c1 _ _ c2' c3' hc1 hb1 h.2 h3
    simp only [parseExpr, hp, ha, hpp, hb, bind, Except.bind, pure, Except.pure] at hpo
    cases hpo
    exact ⟨some (a ++ p ++ b.getD []),
      by simp only [parseExpr, hp, ha, hpp, hb, bind, Except.bind, pure, Except.pure],
      chain_wrap h.1.1.1 h0 hw ((hcha.append hchp).append hchb)⟩
  | .funcCall r callee args, c, lo, hi, cur, cur', hc, hlo, h, ho => by
    obtain ⟨o, hpo, hw⟩ := parseExpr_ok E hin hN (.funcCall r callee args) c lo hi hc hlo h
    simp only [TNode.range] at hw
    simp only [treeOK, Bool.and_eq_true] at h
    obtain ⟨c1, hp, hc1, hb1, _⟩ := pushToSpan_ok hc hlo h.1.1
    obtain ⟨ct, hct, _, _, _, hlc⟩ := defToken_ok .unlintable hc1 hb1 h.1.2
    simp only [inOrder, bind, Option.bind_eq_some_iff, pure] at ho
    obtain ⟨c0, h0, c1', h1, h2⟩ := ho
    have hchc := chain_leaf h.1.2 h1 hlc
    cases hspec : ignoreSpec (getText E.bs E.src callee) with
    | none =>
      simp only [hspec, Option.bind_eq_some_iff, Option.some.injEq] at h2
      obtain ⟨c3', h3, h4⟩ := h2
      subst h4
      obtain ⟨a, ha, hcha⟩ := parseItems_chain (fun _ => true) args c1 _ _ c1' c3' hc1 hb1 h.2 h3
      cases ct with
      | none =>
        exact ⟨none, by simp only [parseExpr, hp, hct, bind, Except.bind, pure, Except.pure],
          chain_wrap h.1.1 h0 Within.nil (Chain.nil (by have := hchc.le; have := hcha.le; omega))⟩
      | some ctl =>
        simp only [parseExpr, hp, hct, hspec, ha, bind, Except.bind, pure, Except.pure] at hpo ⊢
        cases hpo
        exact ⟨some (ctl ++ a), rfl, chain_wrap h.1.1 h0 hw (hchc.append hcha)⟩
    | some spec =>
      simp only [hspec, Option.bind_eq_some_iff, Option.some.injEq] at h2
      obtain ⟨c2', hd2, c3', h3, h4⟩ := h2
      subst h4
      obtain ⟨al, hal, hchal⟩ := parseItems_chain (fun i => !isDead spec i) args c1 _ _ c2' c3' hc1 hb1 h.2 h3
      obtain ⟨dl, hdl, hchdl⟩ := deadTokens_chain spec args c1 c1' c2' hc1 hb1 h.2 hd2
      cases ct with
      | none =>
        exact ⟨none, by simp only [parseExpr, hp, hct, bind, Except.bind, pure, Except.pure],
          chain_wrap h.1.1 h0 Within.nil
            (Chain.nil (by have := hchc.le; have := hchdl.le; have := hchal.le; omega))⟩
      | some ctl =>
        simp only [parseExpr, hp, hct, hspec, hal, hdl, bind, Except.bind, pure, Except.pure] at hpo ⊢
        cases hpo
        exact ⟨some (ctl ++ dl ++ al), rfl, chain_wrap h.1.1 h0 hw ((hchc.append hchdl).append hchal)⟩
  | .patParen r e p, c, lo, hi, cur, cur', hc, hlo, h, ho => by
    obtain ⟨o, hpo, hw⟩ := parseExpr_ok E hin hN (.patParen r e p) c lo hi hc hlo h
    simp only [TNode.range] at hw
    simp only [treeOK, Bool.and_eq_true] at h
    simp only [inOrder, bind, Option.bind_eq_some_iff, pure, Option.some.injEq] at ho
    obtain ⟨c0, h0, c1', h1, c2', h2, h3⟩ := ho
    subst h3
    have hlo2 : c.byte ≤ (sub lo hi r).1 := by
      cases r with
      | none => exact hlo
      | some q => obtain ⟨s, e'⟩ := q; have := (rangeOK_some h.1.1).1; simp only [sub]; omega
    obtain ⟨a, ha, hcha⟩ := parseExpr_chain e c _ _ c0 c1' hc hlo2 h.1.2 h1
    obtain ⟨b, hb, hchb⟩ := parseExpr_chain p c _ _ c1' c2' hc hlo2 h.2 h2
    simp only [parseExpr, ha, hb, bind, Except.bind, pure, Except.pure] at hpo
    cases hpo
    exact ⟨some (a.getD [] ++ b.getD []), by simp only [parseExpr, ha, hb, bind, Except.bind, pure, Except.pure],
      chain_wrap h.1.1 h0 hw (hcha.append hchb)⟩
  | .patDestruct r items, c, lo, hi, cur, cur', hc, hlo, h, ho => by
    obtain ⟨o, hpo, hw⟩ := parseExpr_ok E hin hN (.patDestruct r items) c lo hi hc hlo h
    simp only [TNode.range] at hw
    simp only [treeOK, Bool.and_eq_true] at h
    simp only [inOrder, bind, Option.bind_eq_some_iff, pure, Option.some.injEq] at ho
    obtain ⟨c0, h0, c1', h1, h2⟩ := ho
    subst h2
    have hlo2 : c.byte ≤ (sub lo hi r).1 := by
      cases r with
      | none => exact hlo
      | some q => obtain ⟨s, e'⟩ := q; have := (rangeOK_some h.1).1; simp only [sub]; omega
    obtain ⟨l, hl, hch⟩ := parseItems_chain (fun _ => true) items c _ _ c0 c1' hc hlo2 h.2 h1
    simp only [parseExpr, hl, bind, Except.bind, pure, Except.pure] at hpo
    cases hpo
    exact ⟨some l, by simp only [parseExpr, hl, bind, Except.bind, pure, Except.pure],
      chain_wrap h.1 h0 hw hch⟩
theorem parseSeq_chain : (es : TNodes) → ∀ (fl : List Bool) (c : Cursor) (lo hi cur cur' : Nat),
    CurOK E.bs c → c.byte ≤ lo → treesOK E.bs lo hi es = true → FlagsOK fl es →
    inOrderL E es cur = some cur' → ∃ l, parseSeq E fl es c = .ok l ∧ Chain E.bs cur cur' l
  | .nil, fl, c, lo, hi, cur, cur', _, _, _, _, ho => by
    simp only [inOrderL, Option.some.injEq] at ho
    subst ho
    exact ⟨[], by simp only [parseSeq, pure, Except.pure], Chain.nil (Nat.le_refl _)⟩
  | .cons e es, fl, c, lo, hi, cur, cur', hc, hlo, h, hf, ho => by
    simp only [treesOK, Bool.and_eq_true] at h
    simp only [FlagsOK, TNodes.shapes, flagsOK, Bool.and_eq_true, Bool.or_eq_true, Bool.not_eq_true',
      beq_iff_eq] at hf
    simp only [inOrderL, bind, Option.bind_eq_some_iff] at ho
    obtain ⟨c1', h1, h2⟩ := ho
    obtain ⟨b, hb, hchb⟩ := parseSeq_chain es (fl.drop 1) c lo hi c1' cur' hc hlo h.2 hf.2 h2
    by_cases hfl : fl.headD false = true
    · obtain ⟨r, hr⟩ := shape_space (hf.1.resolve_left (by rw [hfl]; simp))
      subst hr
      obtain ⟨a, ha, hla⟩ := parseLeaf_ok .parbreak hc hlo (treeOK_range h.1)
      simp only [TNode.range] at ha hla
      refine ⟨a.getD [] ++ b, ?_, (chain_leaf (treeOK_range h.1) (by simpa [inOrder, TNode.range] using h1) hla).append hchb⟩
      simp only [parseSeq, hfl, if_true, TNode.range, ha, hb, bind, Except.bind, pure, Except.pure]
    · obtain ⟨a, ha, hcha⟩ := parseExpr_chain e c lo hi cur c1' hc hlo h.1 h1
      refine ⟨a.getD [] ++ b, ?_, hcha.append hchb⟩
      simp only [parseSeq, hfl, ha, hb, bind, Except.bind, pure, Except.pure]
      simp
theorem parseAll_chain : (es : TNodes) → ∀ (c : Cursor) (lo hi cur cur' : Nat), CurOK E.bs c →
    c.byte ≤ lo → treesOK E.bs lo hi es = true → inOrderL E es cur = some cur' →
    ∃ l, parseAll E es c = .ok l ∧ Chain E.bs cur cur' l
  | .nil, c, lo, hi, cur, cur', _, _, _, ho => by
    simp only [inOrderL, Option.some.injEq] at ho
    subst ho
    exact ⟨[], by simp only [parseAll, pure, Except.pure], Chain.nil (Nat.le_refl _)⟩
  | .cons e es, c, lo, hi, cur, cur', hc, hlo, h, ho => by
    simp only [treesOK, Bool.and_eq_true] at h
    simp only [inOrderL, bind, Option.bind_eq_some_iff] at ho
    obtain ⟨c1', h1, h2⟩ := ho
    obtain ⟨b, hb, hchb⟩ := parseAll_chain es c lo hi c1' cur' hc hlo h.2 h2
    obtain ⟨a, ha, hcha⟩ := parseExpr_chain e c lo hi cur c1' hc hlo h.1 h1
    refine ⟨a.getD [] ++ b, ?_, hcha.append hchb⟩
    simp only [parseAll, ha, hb, bind, Except.bind, pure, Except.pure]
theorem parseItem_chain : (i : TItem) → ∀ (c : Cursor) (lo hi cur cur' : Nat), CurOK E.bs c →
    c.byte ≤ lo → itemOK E.bs lo hi i = true → inOrderI E i cur = some cur' →
    ∃ o, parseItem E i c = .ok o ∧ Chain E.bs cur cur' (o.getD [])
  | .pos n, c, lo, hi, cur, cur', hc, hlo, h, ho => by
    simp only [itemOK] at h
    simp only [inOrderI] at ho
    obtain ⟨o, hpo, hch⟩ := parseExpr_chain n c lo hi cur cur' hc hlo h ho
    exact ⟨o, by simp only [parseItem, hpo], hch⟩
  | .named r name t value, c, lo, hi, cur, cur', hc, hlo, h, ho => by
    obtain ⟨o, hpo, hw⟩ := parseItem_ok E hin hN (.named r name t value) c lo hi hc hlo h
    simp only [itemOK, Bool.and_eq_true] at h
    simp only [inOrderI, bind, Option.bind_eq_some_iff, pure, Option.some.injEq] at ho
    obtain ⟨c0, h0, c1', h1, c2', h2, h3⟩ := ho
    subst h3
    have hlo2 : c.byte ≤ (sub lo hi r).1 := by
      cases r with
      | none => exact hlo
      | some q => obtain ⟨s, e'⟩ := q; have := (rangeOK_some h.1.1).1; simp only [sub]; omega
    obtain ⟨a, ha, hcha⟩ := parseExpr_chain name c _ _ c0 c1' hc hlo2 h.1.2 h1
    obtain ⟨b, hb, hchb⟩ := parseExpr_chain value c _ _ c1' c2' hc hlo2 h.2 h2
    have hw2 : Within E.bs (sub lo hi r).1 (sub lo hi r).2 (a.getD [] ++ b.getD []) :=
      (Within.sub (treeOK_range h.1.2) (by
        obtain ⟨a', ha', hwa⟩ := parseExpr_ok E hin hN name c _ _ hc hlo2 h.1.2
        rw [ha] at ha'; cases ha'; exact hwa)).append
      (Within.sub (treeOK_range h.2) (by
        obtain ⟨b', hb', hwb⟩ := parseExpr_ok E hin hN value c _ _ hc hlo2 h.2
        rw [hb] at hb'; cases hb'; exact hwb))
    exact ⟨some (a.getD [] ++ b.getD []), by simp only [parseItem, ha, hb, bind, Except.bind, pure, Except.pure],
      chain_wrap h.1.1 h0 hw2 (hcha.append hchb)⟩
  | .dnamed r name pat, c, lo, hi, cur, cur', hc, hlo, h, ho => by
    simp only [itemOK, Bool.and_eq_true] at h
    simp only [inOrderI, bind, Option.bind_eq_some_iff, pure, Option.some.injEq] at ho
    obtain ⟨c0, h0, c1', h1, c2', h2, h3⟩ := ho
    subst h3
    have hlo2 : c.byte ≤ (sub lo hi r).1 := by
      cases r with
      | none => exact hlo
      | some q => obtain ⟨s, e'⟩ := q; have := (rangeOK_some h.1.1).1; simp only [sub]; omega
    obtain ⟨a, ha, hwa, _, _, hla⟩ := defToken_ok .word hc hlo2 h.1.2
    have hcha := chain_leaf h.1.2 h1 hla
    obtain ⟨b, hb, hchb⟩ := parseExpr_chain pat c _ _ c1' c2' hc hlo2 h.2 h2
    have hle : cur ≤ leave c2' r := by
      have := enter_le h0; have := hcha.le; have := hchb.le
      cases r with
      | none => simp only [leave]; omega
      | some p =>
        obtain ⟨s, e⟩ := p
        have := (rangeOK_some h.1.1).2.1
        simp only [enter] at h0
        split at h0
        · cases h0; simp only [leave]; omega
        · cases h0
    cases a with
    | none =>
      exact ⟨none, by simp only [parseItem, ha, bind, Except.bind, pure, Except.pure], Chain.nil hle⟩
    | some al =>
      have hw2 : Within E.bs (sub lo hi r).1 (sub lo hi r).2 (al ++ b.getD []) :=
        (Within.sub h.1.2 hwa).append (Within.sub (treeOK_range h.2) (by
          obtain ⟨b', hb', hwb⟩ := parseExpr_ok E hin hN pat c _ _ hc hlo2 h.2
          rw [hb] at hb'; cases hb'; exact hwb))
      exact ⟨some (al ++ b.getD []), by simp only [parseItem, ha, hb, bind, Except.bind, pure, Except.pure],
        chain_wrap h.1.1 h0 hw2 (hcha.append hchb)⟩
  | .keyed r key value, c, lo, hi, cur, cur', hc, hlo, h, ho => by
    simp only [itemOK, Bool.and_eq_true] at h
    simp only [inOrderI, bind, Option.bind_eq_some_iff, pure, Option.some.injEq] at ho
    obtain ⟨c0, h0, c1', h1, c2', h2, h3⟩ := ho
    subst h3
    have hlo2 : c.byte ≤ (sub lo hi r).1 := by
      cases r with
      | none => exact hlo
      | some q => obtain ⟨s, e'⟩ := q; have := (rangeOK_some h.1.1).1; simp only [sub]; omega
    obtain ⟨a, ha, hcha⟩ := parseExpr_chain key c _ _ c0 c1' hc hlo2 h.1.2 h1
    obtain ⟨b, hb, hchb⟩ := parseExpr_chain value c _ _ c1' c2' hc hlo2 h.2 h2
    have hw2 : Within E.bs (sub lo hi r).1 (sub lo hi r).2 (a.getD [] ++ b.getD []) :=
      (Within.sub (treeOK_range h.1.2) (by
        obtain ⟨a', ha', hwa⟩ := parseExpr_ok E hin hN key c _ _ hc hlo2 h.1.2
        rw [ha] at ha'; cases ha'; exact hwa)).append
      (Within.sub (treeOK_range h.2) (by
        obtain ⟨b', hb', hwb⟩ := parseExpr_ok E hin hN value c _ _ hc hlo2 h.2
        rw [hb] at hb'; cases hb'; exact hwb))
    exact ⟨some (a.getD [] ++ b.getD []), by simp only [parseItem, ha, hb, bind, Except.bind, pure, Except.pure],
      chain_wrap h.1.1 h0 hw2 (hcha.append hchb)⟩
  | .spread r es, c, lo, hi, cur, cur', hc, hlo, h, ho => by
    simp only [itemOK, Bool.and_eq_true] at h
    simp only [inOrderI, bind, Option.bind_eq_some_iff, pure, Option.some.injEq] at ho
    obtain ⟨c0, h0, c1', h1, h2⟩ := ho
    subst h2
    have hlo2 : c.byte ≤ (sub lo hi r).1 := by
      cases r with
      | none => exact hlo
      | some q => obtain ⟨s, e'⟩ := q; have := (rangeOK_some h.1).1; simp only [sub]; omega
    obtain ⟨l, hl, hch⟩ := parseAll_chain es c _ _ c0 c1' hc hlo2 h.2 h1
    have hw2 : Within E.bs (sub lo hi r).1 (sub lo hi r).2 l := by
      obtain ⟨l', hl', hwl⟩ := parseAll_ok E hin hN es c _ _ hc hlo2 h.2
      rw [hl] at hl'; cases hl'; exact hwl
    exact ⟨some l, by simp only [parseItem, hl, bind, Except.bind, pure, Except.pure],
      chain_wrap h.1 h0 hw2 hch⟩
theorem parseItems_chain (keep : TItem → Bool) : (is : TItems) → ∀ (c : Cursor) (lo hi cur cur' : Nat),
    CurOK E.bs c → c.byte ≤ lo → itemsOK E.bs lo hi is = true →
    inOrderIs E keep is cur = some cur' →
    ∃ l, parseItems E keep is c = .ok l ∧ Chain E.bs cur cur' l
  | .nil, c, lo, hi, cur, cur', _, _, _, ho => by
    simp only [inOrderIs, Option.some.injEq] at ho
    subst ho
    exact ⟨[], by simp only [parseItems, pure, Except.pure], Chain.nil (Nat.le_refl _)⟩
  | .cons i is, c, lo, hi, cur, cur', hc, hlo, h, ho => by
    simp only [itemsOK, Bool.and_eq_true] at h
    by_cases hk : keep i = true
    · simp only [inOrderIs, hk, if_true, bind, Option.bind_eq_some_iff] at ho
      obtain ⟨c1', h1, h2⟩ := ho
      obtain ⟨b, hb, hchb⟩ := parseItems_chain keep is c lo hi c1' cur' hc hlo h.2 h2
      obtain ⟨a, ha, hcha⟩ := parseItem_chain i c lo hi cur c1' hc hlo h.1 h1
      refine ⟨a.getD [] ++ b, ?_, hcha.append hchb⟩
      simp only [parseItems, hk, if_true, ha, hb, bind, Except.bind, pure, Except.pure]
    · have hk' : keep i = false := by simpa using hk
      simp only [inOrderIs, hk', Bool.false_eq_true, if_false, bind, pure, Option.bind_some] at ho
      obtain ⟨b, hb, hchb⟩ := parseItems_chain keep is c lo hi cur cur' hc hlo h.2 ho
      refine ⟨b, ?_, hchb⟩
      simp only [parseItems, hk', Bool.false_eq_true, if_false, hb, bind, Except.bind, pure, Except.pure,
        Option.getD_none, List.nil_append]
end

/-- `Typst::parse` under `TreeOK` and `InOrder`: ordered, pairwise disjoint tokens -/
theorem typstParse_chain (top : TNodes) (h : TreeOK E.bs top) (ho : InOrder E top) :
    ∃ toks, typstParse E top = .ok toks ∧ Sorted toks := by
  simp only [InOrder, Option.isSome_iff_exists] at ho
  obtain ⟨cur', ho⟩ := ho
  obtain ⟨l, hl, hch⟩ := parseSeq_chain E hin hN top (convertParbreaks top.shapes) ⟨0, 0⟩ 0 E.bs.length
    0 cur' (curOK_zero E.bs) (Nat.le_refl _) h (flagsOK_conv top.shapes none) ho
  exact ⟨l, hl, hch.sorted⟩

end

/-! ## E. zero-width tokens are structural breaks under `RangesSolid` (w24)

Partial-correctness style: from `… = .ok o` by inverting the `do` blocks; no cursor invariant and no
`TreeOK` is needed — `def_token!` over a range with at least one character is at least one character
wide whatever the cursor was, as long as the two `push_to` did not panic. -/

/-- a zero-width token of the list is a `ParagraphBreak` or a `Newline` -/
def ZW (l : List Tok) : Prop := ∀ t ∈ l, t.span.start = t.span.stop → Structural t

theorem ZW.nil : ZW [] := by intro t h; cases h

theorem ZW.append {l1 l2 : List Tok} (h1 : ZW l1) (h2 : ZW l2) : ZW (l1 ++ l2) := by
  intro t ht
  rcases List.mem_append.mp ht with h | h
  · exact h1 t h
  · exact h2 t h

theorem ZW.of_pos {l : List Tok} (h : ∀ t ∈ l, t.span.start < t.span.stop) : ZW l := by
  intro t ht h0
  have := h t ht
  omega

theorem ZW.of_kind {l : List Tok} (h : ∀ t ∈ l, Structural t) : ZW l := fun t ht _ => h t ht

/-- inversion of one `←` -/
theorem bind_ok {α β : Type} {x : Except Panic α} {f : α → Except Panic β} {b : β}
    (h : (x >>= f) = .ok b) : ∃ a, x = .ok a ∧ f a = .ok b := by
  cases x with
  | error e => cases h
  | ok a => exact ⟨a, rfl, h⟩

theorem pure_ok {α : Type} {a b : α} (h : (pure a : Except Panic α) = .ok b) : a = b := by
  cases h; rfl

theorem pushTo_byte {bs : List Nat} {c c' : Cursor} {b : Nat} (h : c.pushTo bs b = .ok c') :
    c'.byte = b := by
  unfold Cursor.pushTo at h
  split at h
  · cases h
  · split at h
    · rename_i he; cases h; exact he.symm
    · split at h
      · cases h; rfl
      · cases h

theorem pushTo_char {bs : List Nat} {c c' : Cursor} {b : Nat} (h : c.pushTo bs b = .ok c')
    (hlt : c.byte < b) : c'.char = c.char + charCount ((bs.drop c.byte).take (b - c.byte)) := by
  unfold Cursor.pushTo at h
  rw [if_neg (by omega), if_neg (by omega)] at h
  split at h
  · rename_i n hn
    cases h
    unfold sliceCount at hn
    split at hn
    · cases hn; rfl
    · cases hn
  · cases h

theorem solidR_lt {bs : List Nat} {s e : Nat} (h : solidR bs (some (s, e)) = true) :
    1 ≤ charCount ((bs.drop s).take (e - s)) ∧ s < e := by
  have hpos : 1 ≤ charCount ((bs.drop s).take (e - s)) := by simpa [solidR] using h
  refine ⟨hpos, ?_⟩
  apply Classical.byContradiction
  intro hn
  have h0 : e - s = 0 := by omega
  rw [h0] at hpos
  simp [charCount] at hpos

/-- `def_token!` over a range that covers a character: the token is at least one character wide,
from whatever cursor (if the two `push_to` do not panic) -/
theorem defToken_pos {bs : List Nat} {s e : Nat} {k : Kind} {c : Cursor} {o : Option (List Tok)}
    (h : defToken bs (some (s, e)) k c = .ok o) (hs : solidR bs (some (s, e)) = true) :
    ∀ t ∈ o.getD [], t.span.start < t.span.stop := by
  obtain ⟨hpos, hlt⟩ := solidR_lt hs
  simp only [defToken] at h
  obtain ⟨st, h1, h⟩ := bind_ok h
  obtain ⟨sp, h2, h⟩ := bind_ok h
  have := pure_ok h
  subst this
  have hb := pushTo_byte h1
  have hch := pushTo_char h2 (by omega)
  rw [hb] at hch
  intro t ht
  simp only [Option.getD_some, List.mem_singleton] at ht
  subst ht
  simp only
  omega

/-- … and with a structural kind, or over a detached / solid range: `ZW` -/
theorem defToken_zw {bs : List Nat} {r : BRange} {k : Kind} {c : Cursor} {o : Option (List Tok)}
    (h : defToken bs r k c = .ok o)
    (hk : (k = .paragraphBreak ∨ k.isNewline = true) ∨ solidR bs r = true) : ZW (o.getD []) := by
  cases r with
  | none =>
    simp only [defToken] at h
    cases h
    exact ZW.nil
  | some p =>
    obtain ⟨s, e⟩ := p
    rcases hk with hk | hk
    · apply ZW.of_kind
      simp only [defToken] at h
      obtain ⟨st, h1, h⟩ := bind_ok h
      obtain ⟨sp, h2, h⟩ := bind_ok h
      have := pure_ok h
      subst this
      intro t ht
      simp only [Option.getD_some, List.mem_singleton] at ht
      subst ht
      exact hk
    · exact ZW.of_pos (defToken_pos h hk)

theorem parseLeaf_zw {bs : List Nat} {k : LeafKind} {r : BRange} {c : Cursor} {o : Option (List Tok)}
    (h : parseLeaf bs k r c = .ok o) (hk : k.structural = true ∨ solidR bs r = true) :
    ZW (o.getD []) := by
  simp only [parseLeaf] at h
  obtain ⟨c1, _, h⟩ := bind_ok h
  refine defToken_zw h ?_
  rcases hk with hk | hk
  · left
    cases k <;> simp [LeafKind.structural] at hk <;> simp [leafKind, Kind.isNewline]
  · exact Or.inr hk

/-- the inner parser's tokens tile its text: every one of them covers a character, shifted or not -/
theorem inner_pos {inner : List Char → Except Panic (List Tok)} (hin : Md.InnerOK inner)
    {txt : List Char} {toks : List Tok} (h : inner txt = .ok toks) (p : Nat) :
    ∀ t ∈ toks.map (·.shift p), t.span.start < t.span.stop := by
  obtain ⟨toks', h', ht⟩ := hin txt
  rw [h] at h'; cases h'
  obtain ⟨hf, _⟩ := tiles_facts toks 0 txt.length ht
  intro t hm
  obtain ⟨u, hu, rfl⟩ := List.mem_map.mp hm
  have := hf u hu
  simp only [Tok.shift, Span.pushBy]
  omega

theorem solidArgs_items {bs : List Nat} : (is : TItems) → solidArgs bs is = true → solidIs bs is = true
  | .nil, _ => by simp [solidIs]
  | .cons i is, h => by
    simp only [solidArgs, Bool.and_eq_true] at h
    simp only [solidIs, Bool.and_eq_true]
    exact ⟨h.1.2, solidArgs_items is h.2⟩

theorem deadTokens_zw {bs : List Nat} (spec : Bool × List (List Char)) :
    (is : TItems) → ∀ (c : Cursor) (l : List Tok), deadTokens bs spec is c = .ok l →
      solidArgs bs is = true → ZW l
  | .nil, c, l, h, _ => by
    simp only [deadTokens] at h
    cases h
    exact ZW.nil
  | .cons i is, c, l, h, hs => by
    simp only [solidArgs, Bool.and_eq_true] at hs
    simp only [deadTokens] at h
    by_cases hd : isDead spec i = true
    · rw [if_pos hd] at h
      obtain ⟨a, ha, h⟩ := bind_ok h
      obtain ⟨b, hb, h⟩ := bind_ok h
      have := pure_ok h
      subst this
      exact (defToken_zw ha (Or.inr hs.1.1)).append (deadTokens_zw spec is c b hb hs.2)
    · rw [if_neg hd] at h
      obtain ⟨a, ha, h⟩ := bind_ok h
      obtain ⟨b, hb, h⟩ := bind_ok h
      have := pure_ok ha
      subst this
      have := pure_ok h
      subst this
      exact ZW.nil.append (deadTokens_zw spec is c b hb hs.2)

section
variable (E : Env) (hin : Md.InnerOK E.inner)
include hin

mutual
theorem parseExpr_zw : (n : TNode) → ∀ (c : Cursor) (o : Option (List Tok)),
    parseExpr E n c = .ok o → solidN E.bs n = true → ZW (o.getD [])
  | .text r txt, c, o, h, _ => by
    simp only [parseExpr] at h
    obtain ⟨c1, _, h⟩ := bind_ok h
    obtain ⟨c2, _, h⟩ := bind_ok h
    simp only [parseEnglish] at h
    obtain ⟨toks, ht, h⟩ := bind_ok h
    have := pure_ok h
    subst this
    exact ZW.of_pos (inner_pos hin ht _)
  | .space r, c, o, h, _ => by
    simp only [parseExpr, parseSpace] at h
    obtain ⟨c1, _, h⟩ := bind_ok h
    cases r with
    | none => simp [getText] at h
    | some p =>
      obtain ⟨s, e⟩ := p
      -- a non-empty `get_text!` is a slice of `n2 ≥ 1` characters: the range is solid
      have hsol : ∀ ch rest, getText E.bs E.src (some (s, e)) = ch :: rest →
          solidR E.bs (some (s, e)) = true := by
        intro ch rest hg
        simp only [getText] at hg
        split at hg
        · rename_i n1 n2 _ hn2
          unfold sliceCount at hn2
          split at hn2
          · cases hn2
            have := congrArg List.length hg
            simp only [List.length_take, List.length_drop, List.length_cons] at this
            simp only [solidR, decide_eq_true_eq]
            omega
          · cases hn2
        · cases hg
      split at h
      · cases h
      · rename_i ch rest hg
        have hs := hsol ch rest hg
        split at h
        · exact defToken_zw h (Or.inr hs)
        · exact defToken_zw h (Or.inr hs)
  | .leaf k r, c, o, h, hs => by
    simp only [parseExpr] at h
    simp only [solidN, Bool.or_eq_true] at hs
    exact parseLeaf_zw h hs
  | .body k r es, c, o, h, hs => by
    simp only [parseExpr] at h
    obtain ⟨c1, _, h⟩ := bind_ok h
    obtain ⟨ts, h2, h⟩ := bind_ok h
    have := pure_ok h
    subst this
    simp only [solidN] at hs
    exact parseSeq_zw es _ c1 ts h2 hs
  | .str r txt, c, o, h, _ => by
    simp only [parseExpr] at h
    obtain ⟨c1, _, h⟩ := bind_ok h
    obtain ⟨c2, _, h⟩ := bind_ok h
    obtain ⟨content, _, h⟩ := bind_ok h
    obtain ⟨toks, ht, h⟩ := bind_ok h
    have := pure_ok h
    subst this
    exact ZW.of_pos (inner_pos hin ht _)
  | .rec1 k r e, c, o, h, hs => by
    simp only [parseExpr] at h
    obtain ⟨c1, _, h⟩ := bind_ok h
    simp only [solidN] at hs
    exact parseExpr_zw e c1 o h hs
  | .recN k r es, c, o, h, hs => by
    simp only [parseExpr] at h
    obtain ⟨c1, _, h⟩ := bind_ok h
    obtain ⟨ts, h2, h⟩ := bind_ok h
    have := pure_ok h
    subst this
    simp only [solidN] at hs
    exact parseAll_zw es c1 ts h2 hs
  | .array r items, c, o, h, hs => by
    simp only [parseExpr] at h
    obtain ⟨c1, _, h⟩ := bind_ok h
    obtain ⟨ts, h2, h⟩ := bind_ok h
    have := pure_ok h
    subst this
    simp only [solidN] at hs
    exact parseItems_zw _ items c1 ts h2 hs
  | .dict r items, c, o, h, hs => by
    simp only [parseExpr] at h
    obtain ⟨c1, _, h⟩ := bind_ok h
    obtain ⟨ts, h2, h⟩ := bind_ok h
    have := pure_ok h
    subst this
    simp only [solidN] at hs
    exact parseItems_zw _ items c1 ts h2 hs
  | .fieldAccess r target field, c, o, h, hs => by
    simp only [parseExpr] at h
    simp only [solidN, Bool.and_eq_true] at hs
    obtain ⟨c1, _, h⟩ := bind_ok h
    obtain ⟨a, ha, h⟩ := bind_ok h
    obtain ⟨f, hf, h⟩ := bind_ok h
    cases f with
    | none =>
      have := pure_ok h
      subst this
      exact ZW.nil
    | some ft =>
      have := pure_ok h
      subst this
      exact (parseExpr_zw target c1 a ha hs.1).append (defToken_zw hf (Or.inr hs.2))
  | .letBinding r kind init, c, o, h, hs => by
    simp only [parseExpr] at h
    simp only [solidN, Bool.and_eq_true] at hs
    obtain ⟨c1, _, h⟩ := bind_ok h
    obtain ⟨a, ha, h⟩ := bind_ok h
    obtain ⟨b, hb, h⟩ := bind_ok h
    have := pure_ok h
    subst this
    exact (parseExpr_zw kind c1 a ha hs.1).append (parseAll_zw init c1 b hb hs.2)
  | .letClosure r, c, o, h, _ => by
    simp only [parseExpr] at h
    have := pure_ok h
    subst this
    exact ZW.nil
  | .setRule r target cond args, c, o, h, hs => by
    simp only [parseExpr] at h
    simp only [solidN, Bool.and_eq_true] at hs
    obtain ⟨c1, _, h⟩ := bind_ok h
    obtain ⟨a, ha, h⟩ := bind_ok h
    obtain ⟨b, hb, h⟩ := bind_ok h
    obtain ⟨d, hd, h⟩ := bind_ok h
    have := pure_ok h
    subst this
    exact ((parseExpr_zw target c1 a ha hs.1.1).append (parseAll_zw cond c1 b hb hs.1.2)).append
      (parseItems_zw _ args c1 d hd hs.2)
  | .closure r name params body, c, o, h, hs => by
    simp only [parseExpr] at h
    simp only [solidN, Bool.and_eq_true] at hs
    obtain ⟨c1, _, h⟩ := bind_ok h
    obtain ⟨a, ha, h⟩ := bind_ok h
    obtain ⟨p, hp, h⟩ := bind_ok h
    obtain ⟨b, hb, h⟩ := bind_ok h
    have := pure_ok h
    subst this
    exact ((parseAll_zw name c1 a ha hs.1.1).append (parseItems_zw _ params c1 p hp hs.1.2)).append
      (parseExpr_zw body c1 b hb hs.2)
  | .funcCall r callee args, c, o, h, hs => by
    simp only [parseExpr] at h
    simp only [solidN, Bool.and_eq_true] at hs
    obtain ⟨c1, _, h⟩ := bind_ok h
    obtain ⟨ct, hct, h⟩ := bind_ok h
    have hzc := defToken_zw hct (Or.inr hs.1)
    cases ct with
    | none =>
      have := pure_ok h
      subst this
      exact ZW.nil
    | some ctl =>
      simp only at h
      split at h
      · rename_i spec _
        obtain ⟨alive, hal, h⟩ := bind_ok h
        obtain ⟨dead, hdl, h⟩ := bind_ok h
        have := pure_ok h
        subst this
        exact (hzc.append (deadTokens_zw spec args c1 dead hdl hs.2)).append
          (parseItems_zw _ args c1 alive hal (solidArgs_items args hs.2))
      · obtain ⟨a, ha, h⟩ := bind_ok h
        have := pure_ok h
        subst this
        exact hzc.append (parseItems_zw _ args c1 a ha (solidArgs_items args hs.2))
  | .patPlaceholder r, c, o, h, hs => by
    simp only [parseExpr] at h
    simp only [solidN] at hs
    exact defToken_zw h (Or.inr hs)
  | .patParen r e p, c, o, h, hs => by
    simp only [parseExpr] at h
    simp only [solidN, Bool.and_eq_true] at hs
    obtain ⟨a, ha, h⟩ := bind_ok h
    obtain ⟨b, hb, h⟩ := bind_ok h
    have := pure_ok h
    subst this
    exact (parseExpr_zw e c a ha hs.1).append (parseExpr_zw p c b hb hs.2)
  | .patDestruct r items, c, o, h, hs => by
    simp only [parseExpr] at h
    obtain ⟨ts, h2, h⟩ := bind_ok h
    have := pure_ok h
    subst this
    simp only [solidN] at hs
    exact parseItems_zw _ items c ts h2 hs
theorem parseSeq_zw : (es : TNodes) → ∀ (fl : List Bool) (c : Cursor) (l : List Tok),
    parseSeq E fl es c = .ok l → solidL E.bs es = true → ZW l
  | .nil, fl, c, l, h, _ => by
    simp only [parseSeq] at h
    have := pure_ok h
    subst this
    exact ZW.nil
  | .cons e es, fl, c, l, h, hs => by
    simp only [parseSeq] at h
    simp only [solidL, Bool.and_eq_true] at hs
    by_cases hf : fl.headD false = true
    · rw [if_pos hf] at h
      obtain ⟨a, ha, h⟩ := bind_ok h
      obtain ⟨b, hb, h⟩ := bind_ok h
      have := pure_ok h
      subst this
      exact (parseLeaf_zw ha (Or.inl rfl)).append (parseSeq_zw es _ c b hb hs.2)
    · rw [if_neg hf] at h
      obtain ⟨a, ha, h⟩ := bind_ok h
      obtain ⟨b, hb, h⟩ := bind_ok h
      have := pure_ok h
      subst this
      exact (parseExpr_zw e c a ha hs.1).append (parseSeq_zw es _ c b hb hs.2)
theorem parseAll_zw : (es : TNodes) → ∀ (c : Cursor) (l : List Tok),
    parseAll E es c = .ok l → solidL E.bs es = true → ZW l
  | .nil, c, l, h, _ => by
    simp only [parseAll] at h
    have := pure_ok h
    subst this
    exact ZW.nil
  | .cons e es, c, l, h, hs => by
    simp only [parseAll] at h
    simp only [solidL, Bool.and_eq_true] at hs
    obtain ⟨a, ha, h⟩ := bind_ok h
    obtain ⟨b, hb, h⟩ := bind_ok h
    have := pure_ok h
    subst this
    exact (parseExpr_zw e c a ha hs.1).append (parseAll_zw es c b hb hs.2)
theorem parseItem_zw : (i : TItem) → ∀ (c : Cursor) (o : Option (List Tok)),
    parseItem E i c = .ok o → solidI E.bs i = true → ZW (o.getD [])
  | .pos n, c, o, h, hs => by
    simp only [parseItem] at h
    simp only [solidI] at hs
    exact parseExpr_zw n c o h hs
  | .named r name t value, c, o, h, hs => by
    simp only [parseItem] at h
    simp only [solidI, Bool.and_eq_true] at hs
    obtain ⟨a, ha, h⟩ := bind_ok h
    obtain ⟨b, hb, h⟩ := bind_ok h
    have := pure_ok h
    subst this
    exact (parseExpr_zw name c a ha hs.1).append (parseExpr_zw value c b hb hs.2)
  | .dnamed r name pat, c, o, h, hs => by
    simp only [parseItem] at h
    simp only [solidI, Bool.and_eq_true] at hs
    obtain ⟨a, ha, h⟩ := bind_ok h
    have hza := defToken_zw ha (Or.inr hs.1)
    cases a with
    | none =>
      have := pure_ok h
      subst this
      exact ZW.nil
    | some al =>
      simp only at h
      obtain ⟨b, hb, h⟩ := bind_ok h
      have := pure_ok h
      subst this
      exact hza.append (parseExpr_zw pat c b hb hs.2)
  | .keyed r key value, c, o, h, hs => by
    simp only [parseItem] at h
    simp only [solidI, Bool.and_eq_true] at hs
    obtain ⟨a, ha, h⟩ := bind_ok h
    obtain ⟨b, hb, h⟩ := bind_ok h
    have := pure_ok h
    subst this
    exact (parseExpr_zw key c a ha hs.1).append (parseExpr_zw value c b hb hs.2)
  | .spread r es, c, o, h, hs => by
    simp only [parseItem] at h
    obtain ⟨ts, h2, h⟩ := bind_ok h
    have := pure_ok h
    subst this
    simp only [solidI] at hs
    exact parseAll_zw es c ts h2 hs
theorem parseItems_zw (keep : TItem → Bool) : (is : TItems) → ∀ (c : Cursor) (l : List Tok),
    parseItems E keep is c = .ok l → solidIs E.bs is = true → ZW l
  | .nil, c, l, h, _ => by
    simp only [parseItems] at h
    have := pure_ok h
    subst this
    exact ZW.nil
  | .cons i is, c, l, h, hs => by
    simp only [parseItems] at h
    simp only [solidIs, Bool.and_eq_true] at hs
    by_cases hk : keep i = true
    · rw [if_pos hk] at h
      obtain ⟨a, ha, h⟩ := bind_ok h
      obtain ⟨b, hb, h⟩ := bind_ok h
      have := pure_ok h
      subst this
      exact (parseItem_zw i c a ha hs.1).append (parseItems_zw keep is c b hb hs.2)
    · rw [if_neg hk] at h
      obtain ⟨a, ha, h⟩ := bind_ok h
      obtain ⟨b, hb, h⟩ := bind_ok h
      have := pure_ok ha
      subst this
      have := pure_ok h
      subst this
      exact ZW.nil.append (parseItems_zw keep is c b hb hs.2)
end

/-- `Typst::parse`: if it returns, then under `RangesSolid` every zero-width token is a paragraph break
or a newline — no `TreeOK` needed -/
theorem typstParse_zw (top : TNodes) (toks : List Tok) (h : typstParse E top = .ok toks)
    (hs : RangesSolid E.bs top) : ZW toks :=
  parseSeq_zw E hin top _ ⟨0, 0⟩ toks h hs

end

/-! ## F. HTML: every token of the `Mask` parse covers a character (w24) -/

theorem getContent_nonempty {s : Span} {src c : List Char} (h : s.getContent src = .ok c)
    (hc : c ≠ []) : s.start < s.stop := by
  unfold Span.getContent at h
  split at h
  · cases h
  · split at h
    · split at h
      · cases h; exact absurd rfl hc
      · cases h
    · cases h
      apply Classical.byContradiction
      intro hn
      have h0 : s.stop - s.start = 0 := by omega
      rw [h0] at hc
      simp at hc

theorem gapBreak_pos {src : List Char} {last : Option Span} {s : Span} {l : List Tok}
    (h : gapBreak src last s = .ok l) : ∀ t ∈ l, t.span.start < t.span.stop := by
  cases last with
  | none => simp only [gapBreak] at h; cases h; intro t ht; cases ht
  | some lst =>
    simp only [gapBreak] at h
    obtain ⟨iv, _, h⟩ := bind_ok h
    obtain ⟨c, hc, h⟩ := bind_ok h
    have := pure_ok h
    subst this
    intro t ht
    split at ht
    · rename_i hnl
      simp only [List.mem_singleton] at ht
      subst ht
      refine getContent_nonempty hc ?_
      intro he; subst he; simp at hnl
    · cases ht

/-- `parsers::Mask::parse`: if the inner parser's tokens all cover a character (a tiling lexer's do),
so do all tokens of the masked parse — a `ParagraphBreak` is only put over a gap that contains a
line feed. No hypothesis on the mask. -/
theorem maskLoop_pos (src : List Char) (inner : List Char → List Tok)
    (hpos : ∀ c, ∀ t ∈ inner c, t.span.start < t.span.stop) :
    ∀ (mask : List Span) (last : Option Span) (toks : List Tok),
      maskLoop src inner last mask = .ok toks → ∀ t ∈ toks, t.span.start < t.span.stop := by
  intro mask
  induction mask with
  | nil => intro last toks h; simp only [maskLoop] at h; cases h; intro t ht; cases ht
  | cons s rest ih =>
    intro last toks h
    simp only [maskLoop] at h
    obtain ⟨content, _, h⟩ := bind_ok h
    obtain ⟨brk, hb, h⟩ := bind_ok h
    obtain ⟨rest', hr, h⟩ := bind_ok h
    have := pure_ok h
    subst this
    intro t ht
    rcases List.mem_append.mp ht with ht | ht
    · rcases List.mem_append.mp ht with ht | ht
      · exact gapBreak_pos hb t ht
      · obtain ⟨u, hu, rfl⟩ := List.mem_map.mp ht
        have := hpos content u hu
        simp only [Tok.shift, Span.pushBy]
        omega
    · exact ih (some s) rest' hr t ht

theorem clampTok_span (t : Tok) : (clampTok t).span = t.span := by
  unfold clampTok; split <;> rfl

theorem htmlParse_pos (src : List Char) (mask : List Span) (inner : List Char → List Tok)
    (hpos : ∀ c, ∀ t ∈ inner c, t.span.start < t.span.stop) (toks : List Tok)
    (h : htmlParse src mask inner = .ok toks) : ∀ t ∈ toks, t.span.start < t.span.stop := by
  simp only [htmlParse] at h
  obtain ⟨ts, h1, h⟩ := bind_ok h
  have := pure_ok h
  subst this
  intro t ht
  simp only [htmlSpaceClamp, List.mem_map] at ht
  obtain ⟨u, hu, rfl⟩ := ht
  rw [clampTok_span]
  exact maskLoop_pos src inner hpos mask none ts h1 u hu

end Harper.Typst
