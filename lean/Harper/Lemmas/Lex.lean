import Harper.Model.Lex
/-! Bounds for every lexer: a found token consumes at least one and at most the remaining characters. -/
namespace Harper

/-- a lexer result is in bounds for a source of length `len` -/
def FoundOK (f : Found) (len : Nat) : Prop := ∀ k n, f = some (k, n) → 1 ≤ n ∧ n ≤ len

theorem countWhile_le {α} (p : α → Bool) (l : List α) : countWhile p l ≤ l.length := by
  induction l with
  | nil => simp [countWhile]
  | cons x xs ih => simp only [countWhile]; split <;> simp <;> omega

theorem lexWord_ok (cls : Cls) (src : List Char) : FoundOK (lexWord cls src) src.length := by
  intro k n h
  simp only [lexWord] at h
  split at h
  · cases h
  · cases h
    have := countWhile_le (fun c => cls.lingual c || isAsciiDigit c) src
    omega

theorem lexNewlines_ok (src : List Char) : FoundOK (lexNewlines src) src.length := by
  intro k n h
  simp only [lexNewlines] at h
  split at h
  · cases h; have := countWhile_le (· == '\n') src; omega
  · cases h

theorem lexTabs_ok (src : List Char) : FoundOK (lexTabs src) src.length := by
  intro k n h
  simp only [lexTabs] at h
  split at h
  · cases h; have := countWhile_le (· == '\t') src; omega
  · cases h

theorem lexSpaces_ok (src : List Char) : FoundOK (lexSpaces src) src.length := by
  intro k n h
  simp only [lexSpaces] at h
  split at h
  · cases h; have := countWhile_le (· == ' ') src; omega
  · cases h

theorem lexPunctuation_ok (src : List Char) : FoundOK (lexPunctuation src) src.length := by
  intro k n h
  unfold lexPunctuation at h
  cases src with
  | nil => cases h
  | cons c cs =>
    simp only at h
    split at h
    · cases h; simp
    · split at h
      · cases h; simp
      · cases h

theorem lexCatch_ok (src : List Char) (hne : src ≠ []) : FoundOK (lexCatch src) src.length := by
  intro k n h
  cases h
  cases src with
  | nil => exact absurd rfl hne
  | cons _ _ => simp

theorem regexishLoop_bound (cls : Cls) (fuel i : Nat) (rest : List Char) (n : Nat)
    (h : regexishLoop cls fuel i rest = some n) : i + 2 ≤ n ∧ n ≤ i + rest.length := by
  induction fuel generalizing i rest with
  | zero => simp [regexishLoop] at h
  | succ fuel ih =>
    unfold regexishLoop at h
    cases rest with
    | nil => simp at h
    | cons c r1 =>
      simp only at h
      split at h
      · cases h
      · split at h
        · -- '-' :: r2
          rename_i r2
          split at h
          · cases h
          · rename_i d r3
            split at h
            · cases h
            · split at h
              · cases h; simp; omega
              · have := ih _ _ h; simp at this ⊢; omega
        · cases h; simp; omega
        · have := ih _ _ h; simp at this ⊢; omega

theorem lexRegexish_ok (cls : Cls) (src : List Char) : FoundOK (lexRegexish cls src) src.length := by
  intro k n h
  unfold lexRegexish at h
  split at h
  · rename_i rest
    split at h
    · rename_i m hm
      cases h
      have := regexishLoop_bound cls _ _ _ _ hm
      simp; omega
    · cases h
  · cases h

theorem hexScan_le (cls : Cls) (cs : List Char) (k : Nat) (h : hexScan cls cs = some k) :
    k ≤ cs.length := by
  induction cs generalizing k with
  | nil => simp [hexScan] at h; omega
  | cons c cs ih =>
    unfold hexScan at h
    split at h
    · cases hs : hexScan cls cs with
      | none => simp [hs] at h
      | some j => simp [hs] at h; have := ih j hs; simp; omega
    · split at h
      · cases h
      · cases h; simp

theorem lexHexNumber_ok (cls : Cls) (src : List Char) : FoundOK (lexHexNumber cls src) src.length := by
  intro k n h
  unfold lexHexNumber at h
  split at h
  · rename_i z x c rest
    split at h
    · split at h
      · cases h
      · rename_i j hj
        split at h
        · cases h
          have := hexScan_le cls _ _ hj
          simp at this ⊢; omega
        · cases h
    · cases h
  · cases h

theorem lexLongDecade_ok (cls : Cls) (src : List Char) : FoundOK (lexLongDecade cls src) src.length := by
  intro k n h
  unfold lexLongDecade at h
  split at h
  · split at h
    · split at h
      · split at h
        · cases h
        · cases h; simp
      · cases h; simp
    · cases h
  · cases h

theorem pluralTail_ok (i : Nat) (r1 : List Char) (k : Kind) (n : Nat)
    (h : pluralTail i r1 = some (k, n)) : n = i + 1 ∧ 1 ≤ r1.length := by
  unfold pluralTail at h
  split at h
  · split at h
    · cases h; simp
    · split at h
      · cases h; simp
      · cases h
  · cases h

theorem lexPluralDigit_ok (src : List Char) : FoundOK (lexPluralDigit src) src.length := by
  intro k n h
  unfold lexPluralDigit at h
  split at h
  · cases h
  · split at h
    · cases h
    · split at h
      · have := pluralTail_ok _ _ _ _ h; simp; omega
      · have := pluralTail_ok _ _ _ _ h; simp; omega

theorem numberLoop_bound (src : List Char) (L n : Nat) (h : numberLoop src L = some n) :
    1 ≤ n ∧ n ≤ L := by
  induction L with
  | zero => simp [numberLoop] at h
  | succ L ih =>
    unfold numberLoop at h
    simp only at h
    split at h
    · have := ih h; omega
    · split at h
      · cases h; omega
      · have := ih h; omega

theorem lastDigitIdx_go_lt (i : Nat) (best : Option Nat) (cs : List Char) (e : Nat)
    (hb : ∀ b, best = some b → b < i)
    (h : lastDigitIdx.go i best cs = some e) : e < i + cs.length := by
  induction cs generalizing i best with
  | nil => simp [lastDigitIdx.go] at h; have := hb e h; simp; omega
  | cons c cs ih =>
    simp only [lastDigitIdx.go] at h
    have := ih (i + 1) _ (by
      intro b hb'
      split at hb'
      · cases hb'; omega
      · have := hb b hb'; omega) h
    simp; omega

theorem lexNumber_ok (cls : Cls) (src : List Char) : FoundOK (lexNumber cls src) src.length := by
  intro k n h
  unfold lexNumber at h
  cases src with
  | nil => cases h
  | cons c cs =>
    simp only at h
    split at h
    · cases h
    · split at h
      · cases h
      · rename_i e he
        split at h
        · rename_i m hm
          cases h
          have h1 := numberLoop_bound _ _ _ hm
          have h2 := lastDigitIdx_go_lt 0 none (c :: cs) e (by simp) he
          omega
        · cases h

/-- the three external lexers stay inside the text -/
def ExtOK (ext : Ext) (len : Nat) : Prop :=
  ∀ pos k n, ext pos = some (k, n) → 1 ≤ n ∧ pos + n ≤ len

theorem runLexer_ok (cls : Cls) (ext : Ext) (pos : Nat) (src : List Char) (len : Nat)
    (hext : ExtOK ext len) (hlen : pos + src.length = len) (hne : src ≠ []) (l : LexerName) :
    FoundOK (runLexer cls ext pos src l) src.length := by
  cases l <;> simp only [runLexer]
  · exact lexRegexish_ok cls src
  · exact lexPunctuation_ok src
  · exact lexTabs_ok src
  · exact lexSpaces_ok src
  · exact lexNewlines_ok src
  · exact lexPluralDigit_ok src
  · exact lexHexNumber_ok cls src
  · exact lexLongDecade_ok cls src
  · exact lexNumber_ok cls src
  all_goals first
    | exact lexWord_ok cls src
    | exact lexCatch_ok src hne
    | (intro k n h
       split at h
       · cases h
         rename_i m hm
         have := hext pos _ _ hm
         omega
       · cases h)

theorem firstFound_ok (cls : Cls) (ext : Ext) (pos : Nat) (src : List Char) (len : Nat)
    (hext : ExtOK ext len) (hlen : pos + src.length = len) (hne : src ≠ [])
    (ls : List LexerName) : FoundOK (firstFound cls ext pos src ls) src.length := by
  induction ls with
  | nil => intro k n h; cases h
  | cons l ls ih =>
    intro k n h
    unfold firstFound at h
    split at h
    · rename_i f hf
      cases h
      exact runLexer_ok cls ext pos src len hext hlen hne l k n hf
    · exact ih k n h

theorem firstFound_some_of_catch (cls : Cls) (ext : Ext) (pos : Nat) (src : List Char)
    (ls : List LexerName) (h : LexerName.lex_catch ∈ ls) :
    ∃ f, firstFound cls ext pos src ls = some f := by
  induction ls with
  | nil => cases h
  | cons l ls ih =>
    unfold firstFound
    cases hl : runLexer cls ext pos src l with
    | some f => exact ⟨f, rfl⟩
    | none =>
      simp only
      rcases List.mem_cons.mp h with rfl | h'
      · simp [runLexer, lexCatch] at hl
      · exact ih h'

end Harper
