import Harper.Lemmas.Parse
import Harper.Model.LexExt
/-!
Bounds for the url / e-mail / hostname lexers (every index the Rust code uses is in range, every
token consumes between 1 and the remaining characters), hence `ExtOK (extOfSrc src)`; the table
`extOfSrc` makes `lexToken` pick exactly what `lex_token` with the three lexers called directly
picks.
-/
namespace Harper

/-! ## searching -/

theorem position_lt (p : Char → Bool) (l : List Char) (i : Nat) (h : position p l = some i) :
    i < l.length := by
  induction l generalizing i with
  | nil => simp [position] at h
  | cons c cs ih =>
    unfold position at h
    split at h
    · cases h; simp
    · cases hp : position p cs with
      | none => simp [hp] at h
      | some j => simp [hp] at h; have := ih j hp; simp; omega

theorem lastPosition_lt (p : Char → Bool) (l : List Char) (i : Nat)
    (h : lastPosition p l = some i) : i < l.length := by
  induction l generalizing i with
  | nil => simp [lastPosition] at h
  | cons c cs ih =>
    unfold lastPosition at h
    split at h
    · rename_i j hj; cases h; have := ih j hj; simp; omega
    · split at h
      · cases h; simp
      · cases h

/-! ## hostname -/

theorem hostnameLoop_bound (passed : Nat) (cs : List Char) :
    passed ≤ hostnameLoop passed cs ∧ hostnameLoop passed cs ≤ passed + cs.length := by
  induction cs generalizing passed with
  | nil => simp [hostnameLoop]
  | cons c cs ih =>
    unfold hostnameLoop
    have := ih (passed + 1)
    split
    · simp; omega
    · split
      · simp; omega
      · simp

/-- `lex_hostname` returns between 1 and `source.len()` -/
theorem lexHostname_bound (src : List Char) (n : Nat) (h : lexHostname src = some n) :
    1 ≤ n ∧ n ≤ src.length := by
  unfold lexHostname at h
  cases src with
  | nil => cases h
  | cons c cs =>
    simp only at h
    split at h
    · cases h
    · rename_i hc
      cases h
      have hb := hostnameLoop_bound 1 cs
      have hstep : hostnameLoop 0 (c :: cs) = hostnameLoop 1 cs := by
        have hc' : isAsciiAlnum c = true := by simpa using hc
        simp [hostnameLoop, isHostChar, hc']
      rw [hstep]; simp; omega

theorem lexHostnameToken_ok (src : List Char) : FoundOK (lexHostnameToken src) src.length := by
  intro k n h
  unfold lexHostnameToken at h
  split at h
  · cases h
  · rename_i len hl
    have := lexHostname_bound src len hl
    split at h
    · cases h
    · split at h
      · cases h
      · split at h
        · cases h
        · split at h
          · cases h
          · cases h; omega

/-! ## url -/

theorem lexXcharString_le (l : List Char) : lexXcharString l ≤ l.length := by
  fun_induction lexXcharString l <;> simp <;> omega

theorem pathLoop_le (fuel : Nat) (rest : List Char) : pathLoop fuel rest ≤ rest.length := by
  induction fuel generalizing rest with
  | zero => simp [pathLoop]
  | succ fuel ih =>
    unfold pathLoop
    cases rest with
    | nil => simp
    | cons c r =>
      simp only
      split
      · simp
      · have hx := lexXcharString_le r
        split
        · simp
        · have := ih (r.drop (lexXcharString r))
          simp at this ⊢; omega

/-- the fuel of `pathLoop` is never the reason it stops -/
theorem pathLoop_fuel (f1 f2 : Nat) (rest : List Char) (h1 : rest.length < f1)
    (h2 : rest.length < f2) : pathLoop f1 rest = pathLoop f2 rest := by
  induction f1 generalizing f2 rest with
  | zero => omega
  | succ f1 ih =>
    cases f2 with
    | zero => omega
    | succ f2 =>
      unfold pathLoop
      cases rest with
      | nil => rfl
      | cons c r =>
        simp only
        split
        · rfl
        · split
          · rfl
          · have hx := lexXcharString_le r
            rw [ih f2 (r.drop (lexXcharString r)) (by simp at h1 ⊢; omega) (by simp at h2 ⊢; omega)]

theorem lexHostport_le (src : List Char) (n : Nat) (h : lexHostport src = some n) :
    n ≤ src.length := by
  unfold lexHostport at h
  split at h
  · cases h
  · rename_i he hh
    split at h
    · cases h
      cases hp : position (fun c => !isAsciiDigit c) src with
      | none => simp
      | some i => have := position_lt _ _ _ hp; simp; omega
    · cases h; exact (lexHostname_bound _ _ hh).2

theorem loginHostportStart_le (src : List Char) (hs : Nat)
    (h : loginHostportStart src = some hs) : hs ≤ src.length := by
  unfold loginHostportStart at h
  split at h
  · rename_i credEnd hc
    have := position_lt _ _ _ hc
    simp only at h
    split at h
    · cases h
    · split at h
      · cases h
      · cases h; omega
  · cases h; omega

/-- `lex_login(rest) ≤ rest.len()`: the cursor of `lex_ip_schemepart` starts in range -/
theorem lexLogin_le (src : List Char) (n : Nat) (h : lexLogin src = some n) : n ≤ src.length := by
  unfold lexLogin at h
  simp only at h
  split at h
  · cases h
  · rename_i hs hhs
    have hsle := loginHostportStart_le src hs hhs
    split at h
    · cases h
    · rename_i he hhe
      cases h
      have := lexHostport_le _ _ hhe
      simp at this; omega

theorem lexIpSchemepart_bound (src : List Char) (n : Nat) (h : lexIpSchemepart src = some n) :
    2 ≤ n ∧ n ≤ src.length := by
  unfold lexIpSchemepart at h
  split at h
  · rename_i rest
    cases h
    have hl : (lexLogin rest).getD 0 ≤ rest.length := by
      cases hlog : lexLogin rest with
      | none => simp
      | some m => simpa using lexLogin_le rest m hlog
    have hp := pathLoop_le (rest.length + 1) (rest.drop ((lexLogin rest).getD 0))
    simp at hp ⊢; omega
  · cases h

theorem lexUrl_ok (src : List Char) : FoundOK (lexUrl src) src.length := by
  intro k n h
  unfold lexUrl at h
  split at h
  · cases h
  · rename_i sep hsep
    have hs := position_lt _ _ _ hsep
    split at h
    · cases h
    · split at h
      · cases h
      · rename_i e he
        cases h
        have := lexIpSchemepart_bound _ _ he
        simp at this; omega

/-- a URL token has at least 3 characters (`:` `/` `/`) -/
theorem lexUrl_min (src : List Char) (k : Kind) (n : Nat) (h : lexUrl src = some (k, n)) :
    k = .url ∧ 3 ≤ n := by
  unfold lexUrl at h
  split at h
  · cases h
  · split at h
    · cases h
    · split at h
      · cases h
      · rename_i e he
        cases h
        have := lexIpSchemepart_bound _ _ he
        exact ⟨rfl, by omega⟩

/-! ## e-mail -/

theorem lexEmailAddress_ok (src : List Char) : FoundOK (lexEmailAddress src) src.length := by
  intro k n h
  unfold lexEmailAddress at h
  split at h
  · cases h
  · rename_i atLoc hat
    have ha := lastPosition_lt _ _ _ hat
    split at h
    · cases h
    · split at h
      · cases h
      · rename_i d hd
        have := lexHostname_bound _ _ hd
        split at h
        · cases h
        · cases h; simp at this; omega

/-- an e-mail token has at least 3 characters (non-empty local part, `@`, non-empty domain) -/
theorem lexEmailAddress_min (src : List Char) (k : Kind) (n : Nat)
    (h : lexEmailAddress src = some (k, n)) : k = .email ∧ 3 ≤ n := by
  unfold lexEmailAddress at h
  split at h
  · cases h
  · rename_i atLoc hat
    split at h
    · cases h
    · rename_i hv
      split at h
      · cases h
      · rename_i d hd
        have hb := lexHostname_bound _ _ hd
        split at h
        · cases h
        · cases h
          refine ⟨rfl, ?_⟩
          have hat0 : atLoc ≠ 0 := by
            intro h0
            subst h0
            simp [validateLocalPart] at hv
          omega

/-! ## the computed table -/

theorem extOfSrc_ok (src : List Char) : ExtOK (extOfSrc src) src.length := by
  intro pos k n h
  have hlen : (src.drop pos).length = src.length - pos := List.length_drop
  have key : ∀ f : Found, FoundOK f (src.drop pos).length → f = some (k, n) →
      1 ≤ n ∧ pos + n ≤ src.length := by
    intro f hf he
    have := hf k n he
    rw [hlen] at this; omega
  unfold extOfSrc at h
  simp only at h
  split at h
  · exact key _ (lexUrl_ok _) (by rename_i hu; rw [hu, h])
  · split at h
    · exact key _ (lexEmailAddress_ok _) (by rename_i he; rw [he, h])
    · exact key _ (lexHostnameToken_ok _) h

/-! ## `extOfSrc` agrees with calling the three lexers in `lex_token`'s order -/

theorem lexUrl_kind (s : List Char) (k : Kind) (n : Nat) (h : lexUrl s = some (k, n)) :
    k = .url := (lexUrl_min s k n h).1

theorem lexEmailAddress_kind (s : List Char) (k : Kind) (n : Nat)
    (h : lexEmailAddress s = some (k, n)) : k = .email := (lexEmailAddress_min s k n h).1

theorem lexHostnameToken_kind (s : List Char) (k : Kind) (n : Nat)
    (h : lexHostnameToken s = some (k, n)) : k = .hostname := by
  unfold lexHostnameToken at h
  split at h
  · cases h
  · split at h
    · cases h
    · split at h
      · cases h
      · split at h
        · cases h
        · split at h
          · cases h
          · cases h; rfl

/-- In the list of lexers, `lex_email_address` occurs only after `lex_url` has been tried and
`lex_hostname_token` only after both (`u`, `e`: already tried). Decided on the regenerated
`Tables.lexerOrder`. -/
def extOrderOK : Bool → Bool → List LexerName → Bool
  | _, _, [] => true
  | _, e, .lex_url :: ls => extOrderOK true e ls
  | u, _, .lex_email_address :: ls => u && extOrderOK u true ls
  | u, e, .lex_hostname_token :: ls => u && e && extOrderOK u e ls
  | u, e, _ :: ls => extOrderOK u e ls

theorem lexerOrder_extOrderOK : extOrderOK false false Tables.lexerOrder = true := by decide

theorem runLexer_ext_irrelevant (cls : Cls) (ext : Ext) (pos : Nat) (s : List Char)
    (l : LexerName) (h1 : l ≠ .lex_url) (h2 : l ≠ .lex_email_address)
    (h3 : l ≠ .lex_hostname_token) :
    runLexer cls ext pos s l = runLexerFull cls s l := by
  cases l <;> first | rfl | (exfalso; first | exact h1 rfl | exact h2 rfl | exact h3 rfl)

theorem firstFound_extOfSrc (cls : Cls) (src : List Char) (pos : Nat) (ls : List LexerName)
    (u e : Bool) (hok : extOrderOK u e ls = true)
    (hu : u = true → lexUrl (src.drop pos) = none)
    (he : e = true → lexEmailAddress (src.drop pos) = none) :
    firstFound cls (extOfSrc src) pos (src.drop pos) ls = firstFoundFull cls (src.drop pos) ls := by
  induction ls generalizing u e with
  | nil => rfl
  | cons l ls ih =>
    unfold firstFound firstFoundFull
    by_cases h1 : l = .lex_url
    · subst h1
      simp only [extOrderOK] at hok
      cases hurl : lexUrl (src.drop pos) with
      | some f =>
        obtain ⟨k, n⟩ := f
        have hk := lexUrl_kind _ _ _ hurl
        subst hk
        simp [runLexer, runLexerFull, extOfSrc, hurl]
      | none =>
        have : runLexer cls (extOfSrc src) pos (src.drop pos) .lex_url = none := by
          simp only [runLexer, extOfSrc, hurl]
          cases hem : lexEmailAddress (src.drop pos) with
          | some f =>
            obtain ⟨k, n⟩ := f
            have hk := lexEmailAddress_kind _ _ _ hem
            subst hk; rfl
          | none =>
            cases hho : lexHostnameToken (src.drop pos) with
            | some f =>
              obtain ⟨k, n⟩ := f
              have hk := lexHostnameToken_kind _ _ _ hho
              subst hk; rfl
            | none => rfl
        simp only [this, runLexerFull, hurl]
        exact ih true e hok (fun _ => hurl) he
    · by_cases h2 : l = .lex_email_address
      · subst h2
        simp only [extOrderOK, Bool.and_eq_true] at hok
        have hurl := hu hok.1
        cases hem : lexEmailAddress (src.drop pos) with
        | some f =>
          obtain ⟨k, n⟩ := f
          have hk := lexEmailAddress_kind _ _ _ hem
          subst hk
          simp [runLexer, runLexerFull, extOfSrc, hurl, hem]
        | none =>
          have : runLexer cls (extOfSrc src) pos (src.drop pos) .lex_email_address = none := by
            simp only [runLexer, extOfSrc, hurl, hem]
            cases hho : lexHostnameToken (src.drop pos) with
            | some f =>
              obtain ⟨k, n⟩ := f
              have hk := lexHostnameToken_kind _ _ _ hho
              subst hk; rfl
            | none => rfl
          simp only [this, runLexerFull, hem]
          exact ih u true hok.2 hu (fun _ => hem)
      · by_cases h3 : l = .lex_hostname_token
        · subst h3
          simp only [extOrderOK, Bool.and_eq_true] at hok
          have hurl := hu hok.1.1
          have hem := he hok.1.2
          cases hho : lexHostnameToken (src.drop pos) with
          | some f =>
            obtain ⟨k, n⟩ := f
            have hk := lexHostnameToken_kind _ _ _ hho
            subst hk
            simp [runLexer, runLexerFull, extOfSrc, hurl, hem, hho]
          | none =>
            have : runLexer cls (extOfSrc src) pos (src.drop pos) .lex_hostname_token = none := by
              simp [runLexer, extOfSrc, hurl, hem, hho]
            simp only [this, runLexerFull, hho]
            exact ih u e hok.2 hu he
        · rw [runLexer_ext_irrelevant cls _ pos _ l h1 h2 h3]
          have hok' : extOrderOK u e ls = true := by
            cases l <;> first | exact hok | exact absurd rfl h1 | exact absurd rfl h2 | exact absurd rfl h3
          cases runLexerFull cls (src.drop pos) l with
          | some f => rfl
          | none => exact ih u e hok' hu he

/-- with the computed table, `lexToken` at `pos` is `lex_token(&source[pos..])` with the three
lexers called directly, in the real order -/
theorem lexToken_extOfSrc (cls : Cls) (src : List Char) (pos : Nat) :
    lexToken cls (extOfSrc src) pos (src.drop pos) = lexTokenFull cls (src.drop pos) :=
  firstFound_extOfSrc cls src pos _ false false lexerOrder_extOrderOK (by simp) (by simp)

theorem parseLoop_extOfSrc (cls : Cls) (src : List Char) (fuel cursor : Nat) (rest : List Char)
    (hr : rest = src.drop cursor) :
    parseLoop cls (extOfSrc src) fuel cursor rest = parseLoopDirect cls fuel cursor rest := by
  induction fuel generalizing cursor rest with
  | zero => rfl
  | succ fuel ih =>
    unfold parseLoop parseLoopDirect
    cases rest with
    | nil => rfl
    | cons c cs =>
      simp only
      have hl : lexToken cls (extOfSrc src) cursor (c :: cs) = lexTokenFull cls (c :: cs) := by
        rw [hr]; exact lexToken_extOfSrc cls src cursor
      rw [hl]
      cases lexTokenFull cls (c :: cs) with
      | none => rfl
      | some f =>
        obtain ⟨k, n⟩ := f
        simp only
        rw [ih (cursor + n) ((c :: cs).drop n) (by rw [hr, List.drop_drop])]
        cases parseLoopDirect cls fuel (cursor + n) ((c :: cs).drop n) <;> rfl

/-- the computed table is only a device: `parsePlainFull` is the parse loop over `lex_token`
with all fourteen lexers called directly -/
theorem parsePlainFull_eq_direct (cls : Cls) (src : List Char) :
    parsePlainFull cls src = parsePlainDirect cls src := by
  exact parseLoop_extOfSrc cls src (src.length + 1) 0 src (by simp)

end Harper
