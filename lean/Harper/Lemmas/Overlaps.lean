import Harper.Model.Overlaps
/-! Helper lemmas for C13. -/
namespace Harper

/-- list-level view of the sweep: (kept, dropped). -/
def sweep (cur : Nat) : List Lint → List Lint × List Lint
  | [] => ([], [])
  | l :: ls =>
    if l.s < cur then ((sweep cur ls).1, l :: (sweep cur ls).2)
    else (l :: (sweep l.e ls).1, (sweep l.e ls).2)

theorem removeIndices_sweepIdx (cur i : Nat) (ls : List Lint) :
    removeIndices i (sweepIdx cur i ls) ls = (sweep cur ls).1 := by
  induction ls generalizing cur i with
  | nil => simp [removeIndices, sweep]
  | cons l ls ih =>
    unfold sweepIdx sweep
    by_cases h : l.s < cur
    · simp only [h, if_true]
      simp only [removeIndices, if_true]
      exact ih cur (i + 1)
    · simp only [h, if_false]
      -- the next index to remove (if any) is > i
      have hgt : ∀ (c j : Nat) (xs : List Lint), ∀ r ∈ sweepIdx c j xs, j ≤ r := by
        intro c j xs
        induction xs generalizing c j with
        | nil => simp [sweepIdx]
        | cons x xs ihx =>
          unfold sweepIdx
          split
          · intro r hr
            rcases List.mem_cons.mp hr with rfl | hr
            · exact Nat.le_refl _
            · exact Nat.le_trans (Nat.le_succ _) (ihx _ _ r hr)
          · intro r hr
            exact Nat.le_trans (Nat.le_succ _) (ihx _ _ r hr)
      cases hq : sweepIdx l.e (i + 1) ls with
      | nil =>
        have := ih l.e (i + 1)
        rw [hq] at this
        simp [removeIndices, this]
      | cons r q =>
        have hr : i + 1 ≤ r := hgt l.e (i + 1) ls r (by rw [hq]; exact List.mem_cons_self)
        have hne : ¬ i = r := by omega
        have := ih l.e (i + 1)
        rw [hq] at this
        simp [removeIndices, hne, this]

theorem keepIndices_sweepIdx (cur i : Nat) (ls : List Lint) :
    keepIndices i (sweepIdx cur i ls) ls = (sweep cur ls).2 := by
  induction ls generalizing cur i with
  | nil => simp [keepIndices, sweep]
  | cons l ls ih =>
    unfold sweepIdx sweep
    by_cases h : l.s < cur
    · simp only [h, if_true]
      simp only [keepIndices, if_true]
      rw [ih cur (i + 1)]
    · simp only [h, if_false]
      have hgt : ∀ (c j : Nat) (xs : List Lint), ∀ r ∈ sweepIdx c j xs, j ≤ r := by
        intro c j xs
        induction xs generalizing c j with
        | nil => simp [sweepIdx]
        | cons x xs ihx =>
          unfold sweepIdx
          split
          · intro r hr
            rcases List.mem_cons.mp hr with rfl | hr
            · exact Nat.le_refl _
            · exact Nat.le_trans (Nat.le_succ _) (ihx _ _ r hr)
          · intro r hr
            exact Nat.le_trans (Nat.le_succ _) (ihx _ _ r hr)
      cases hq : sweepIdx l.e (i + 1) ls with
      | nil =>
        have := ih l.e (i + 1)
        rw [hq] at this
        cases ls <;> simp_all [keepIndices]
      | cons r q =>
        have hr : i + 1 ≤ r := hgt l.e (i + 1) ls r (by rw [hq]; exact List.mem_cons_self)
        have hne : ¬ i = r := by omega
        have := ih l.e (i + 1)
        rw [hq] at this
        simp [keepIndices, hne, this]

theorem sweep_sublist (cur : Nat) (ls : List Lint) : (sweep cur ls).1.Sublist ls := by
  induction ls generalizing cur with
  | nil => simp [sweep]
  | cons l ls ih =>
    unfold sweep; split
    · exact List.Sublist.cons _ (ih cur)
    · exact List.Sublist.cons_cons _ (ih l.e)

theorem sweep_perm (cur : Nat) (ls : List Lint) :
    ((sweep cur ls).1 ++ (sweep cur ls).2).Perm ls := by
  induction ls generalizing cur with
  | nil => simp [sweep]
  | cons l ls ih =>
    unfold sweep; split
    · exact List.perm_middle.trans (List.Perm.cons _ (ih cur))
    · exact List.Perm.cons _ (ih l.e)

theorem sweep_kept (cur : Nat) (ls : List Lint) (hwf : ∀ l ∈ ls, l.s ≤ l.e) :
    (∀ k ∈ (sweep cur ls).1, cur ≤ k.s) ∧
    (sweep cur ls).1.Pairwise (fun a b => a.e ≤ b.s) := by
  induction ls generalizing cur with
  | nil => simp [sweep]
  | cons l ls ih =>
    have hwf' : ∀ x ∈ ls, x.s ≤ x.e := fun x hx => hwf x (List.mem_cons_of_mem _ hx)
    unfold sweep; split
    · exact ih cur hwf'
    · rename_i h
      have ⟨h1, h2⟩ := ih l.e hwf'
      have hl := hwf l List.mem_cons_self
      constructor
      · intro k hk
        rcases List.mem_cons.mp hk with rfl | hk
        · omega
        · have := h1 k hk; omega
      · exact List.pairwise_cons.mpr ⟨fun b hb => h1 b hb, h2⟩

/-- sorted by start (the part of the sort key the sweep relies on) -/
def StartSorted (ls : List Lint) : Prop := ls.Pairwise (fun a b => a.s ≤ b.s)

/-- every dropped lint starts inside a kept lint, or below the initial `cur` bound given by
a kept lint `k0` that precedes the list. -/
theorem sweep_dropped (cur : Nat) (ls : List Lint) (hs : StartSorted ls)
    (lo : Nat) (hlo : ∀ l ∈ ls, lo ≤ l.s) :
    ∀ d ∈ (sweep cur ls).2,
      (lo ≤ d.s ∧ d.s < cur) ∨ ∃ k ∈ (sweep cur ls).1, k.s ≤ d.s ∧ d.s < k.e := by
  induction ls generalizing cur lo with
  | nil => simp [sweep]
  | cons l ls ih =>
    have hs' : StartSorted ls := (List.pairwise_cons.mp hs).2
    have hle : ∀ x ∈ ls, l.s ≤ x.s := (List.pairwise_cons.mp hs).1
    unfold sweep; split
    · rename_i h
      intro d hd
      rcases List.mem_cons.mp hd with rfl | hd
      · exact Or.inl ⟨hlo _ List.mem_cons_self, h⟩
      · exact ih cur hs' lo (fun x hx => hlo x (List.mem_cons_of_mem _ hx)) d hd
    · intro d hd
      rcases ih l.e hs' l.s hle d hd with ⟨h1, h2⟩ | ⟨k, hk, h⟩
      · exact Or.inr ⟨l, List.mem_cons_self, h1, h2⟩
      · exact Or.inr ⟨k, List.mem_cons_of_mem _ hk, h⟩

theorem insertSorted_perm (x : Lint) (ys : List Lint) : (insertSorted x ys).Perm (x :: ys) := by
  induction ys with
  | nil => simp [insertSorted]
  | cons y ys ih =>
    unfold insertSorted; split
    · exact List.Perm.refl _
    · exact (List.Perm.cons y ih).trans (List.Perm.swap x y ys)

theorem isort_perm (ls : List Lint) : (isort ls).Perm ls := by
  induction ls with
  | nil => simp [isort]
  | cons x xs ih => exact (insertSorted_perm x (isort xs)).trans (List.Perm.cons x ih)

theorem le_total' (a b : Lint) : Lint.le a b = true ∨ Lint.le b a = true := by
  simp only [Lint.le, Bool.or_eq_true, decide_eq_true_eq, Bool.and_eq_true, beq_iff_eq]
  omega

theorem le_start (a b : Lint) (h : Lint.le a b = true) : a.s ≤ b.s := by
  simp only [Lint.le, Bool.or_eq_true, decide_eq_true_eq, Bool.and_eq_true, beq_iff_eq] at h
  omega

theorem insertSorted_sorted (x : Lint) (ys : List Lint) (h : StartSorted ys) :
    StartSorted (insertSorted x ys) := by
  induction ys with
  | nil => simp [insertSorted, StartSorted]
  | cons y ys ih =>
    have ⟨h1, h2⟩ := List.pairwise_cons.mp h
    unfold insertSorted; split
    · rename_i hxy
      have hxy' : x.s ≤ y.s := le_start _ _ hxy
      refine List.pairwise_cons.mpr ⟨?_, h⟩
      intro b hb
      rcases List.mem_cons.mp hb with rfl | hb
      · exact hxy'
      · exact Nat.le_trans hxy' (h1 b hb)
    · rename_i hxy
      have hyx : y.s ≤ x.s := by
        rcases le_total' x y with h | h
        · exact absurd h hxy
        · exact le_start _ _ h
      refine List.pairwise_cons.mpr ⟨?_, ih h2⟩
      intro b hb
      rcases List.mem_cons.mp ((insertSorted_perm x ys).mem_iff.mp hb) with rfl | hb
      · exact hyx
      · exact h1 b hb

theorem isort_sorted (ls : List Lint) : StartSorted (isort ls) := by
  induction ls with
  | nil => simp [isort, StartSorted]
  | cons x xs ih => exact insertSorted_sorted x _ ih

theorem removeIndices_nil {α} (xs : List α) (i : Nat) : removeIndices i [] xs = xs := by
  induction xs generalizing i with
  | nil => simp [removeIndices]
  | cons x xs ih => simp [removeIndices, ih]


end Harper
