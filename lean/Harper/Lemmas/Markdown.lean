import Harper.Model.Markdown
import Harper.Lemmas.Mask
/-!
Lemmas about `Harper.Model.Markdown` (used by `Harper.Props.C02d`). Everything lives in
`namespace Harper.Md` so that no name can clash with the other lemma files a property's audit
imports together.
-/
namespace Harper.Md
open Harper

/-! ## A. `remove_indices` for an ARBITRARY queue -/

/-- the positions the queue-driven `retain` of `Vec::remove_indices` actually removes when it runs
over `n` elements starting at running index `i`: the head of the queue is removed when the running
index reaches it; a head that the running index has already passed (a duplicate, an index out of
order) or that lies beyond the vector blocks the queue for good -/
def reachedIdx (i : Nat) : List Nat → Nat → List Nat
  | _, 0 => []
  | [], _ + 1 => []
  | r :: q, n + 1 => if i = r then i :: reachedIdx (i + 1) q n else reachedIdx (i + 1) (r :: q) n

theorem reachedIdx_bounds : ∀ (n i : Nat) (q : List Nat), ∀ r ∈ reachedIdx i q n, i ≤ r ∧ r < i + n := by
  intro n
  induction n with
  | zero => intro i q r h; cases q <;> simp [reachedIdx] at h
  | succ n ih =>
    intro i q r h
    cases q with
    | nil => simp [reachedIdx] at h
    | cons r0 q =>
      simp only [reachedIdx] at h
      split at h
      · rcases List.mem_cons.mp h with rfl | h
        · omega
        · have := ih (i + 1) q r h; omega
      · have := ih (i + 1) (r0 :: q) r h; omega

theorem reachedIdx_pairwise : ∀ (n i : Nat) (q : List Nat), (reachedIdx i q n).Pairwise (· < ·) := by
  intro n
  induction n with
  | zero => intro i q; cases q <;> simp [reachedIdx]
  | succ n ih =>
    intro i q
    cases q with
    | nil => simp [reachedIdx]
    | cons r0 q =>
      simp only [reachedIdx]
      split
      · refine List.pairwise_cons.mpr ⟨?_, ih (i + 1) q⟩
        intro b hb
        have := reachedIdx_bounds n (i + 1) q b hb
        omega
      · exact ih (i + 1) (r0 :: q)

theorem reachedIdx_sublist : ∀ (n i : Nat) (q : List Nat), (reachedIdx i q n).Sublist q := by
  intro n
  induction n with
  | zero => intro i q; cases q <;> simp [reachedIdx]
  | succ n ih =>
    intro i q
    cases q with
    | nil => simp [reachedIdx]
    | cons r0 q =>
      simp only [reachedIdx]
      split
      · rename_i h; subst h; exact (ih (i + 1) q).cons_cons i
      · exact ih (i + 1) (r0 :: q)

theorem ri_nil {α} (i : Nat) (xs : List α) : removeIndices i [] xs = xs := by
  induction xs generalizing i with
  | nil => rfl
  | cons x xs ih => simp [removeIndices, ih]

theorem ri_keep {α} (x : α) (xs : List α) (i : Nat) (q : List Nat) (h : ∀ r ∈ q, i < r) :
    removeIndices i q (x :: xs) = x :: removeIndices (i + 1) q xs := by
  cases q with
  | nil => simp [removeIndices]
  | cons r q =>
    have : i ≠ r := by have := h r List.mem_cons_self; omega
    simp [removeIndices, this]

/-- the queue can be replaced by the positions it reaches -/
theorem ri_eq_reached {α} (xs : List α) : ∀ (i : Nat) (q : List Nat),
    removeIndices i q xs = removeIndices i (reachedIdx i q xs.length) xs := by
  induction xs with
  | nil => intro i q; cases q <;> simp [removeIndices, reachedIdx]
  | cons x xs ih =>
    intro i q
    cases q with
    | nil => simp [reachedIdx]
    | cons r q =>
      simp only [List.length_cons, reachedIdx]
      by_cases h : i = r
      · subst h
        simp only [if_true, removeIndices]
        exact ih (i + 1) q
      · simp only [h, if_false, removeIndices]
        rw [ri_keep x xs i _ (fun r' hr' => by
          have := reachedIdx_bounds xs.length (i + 1) (r :: q) r' hr'; omega)]
        rw [← ih (i + 1) (r :: q)]

/-- strictly increasing indices at or after the running index: exactly those positions go -/
theorem ri_increasing_spec {α} (xs : List α) (i : Nat) (q : List Nat)
    (hq : q.Pairwise (· < ·)) (hi : ∀ r ∈ q, i ≤ r) :
    removeIndices i q xs = ((xs.zipIdx i).filter (fun p => !q.contains p.2)).map (·.1) := by
  induction xs generalizing i q with
  | nil => simp [removeIndices]
  | cons x xs ih =>
    cases q with
    | nil =>
      have : (xs.zipIdx (i+1)).map (·.1) = xs := by simp [List.zipIdx_map_fst]
      have hf : (xs.zipIdx (i+1)).filter (fun _ => true) = xs.zipIdx (i+1) :=
        List.filter_eq_self.mpr (by simp)
      simp [ri_nil, hf, this]
    | cons r q =>
      have ⟨hr, hq'⟩ := List.pairwise_cons.mp hq
      by_cases h : i = r
      · subst h
        have hi' : ∀ r ∈ q, i + 1 ≤ r := fun r hr' => hr r hr'
        simp only [removeIndices, if_true, List.zipIdx_cons]
        rw [ih (i + 1) q hq' hi']
        simp only [List.filter_cons, List.contains_cons, beq_self_eq_true, Bool.true_or,
          Bool.not_true, Bool.false_eq_true, if_false]
        congr 1
        apply List.filter_congr
        intro p hp
        have : i + 1 ≤ p.2 := List.le_snd_of_mem_zipIdx hp
        have hne : (p.2 == i) = false := by simp; omega
        simp [hne]
      · have hlt : i < r := by have := hi r List.mem_cons_self; omega
        have hi' : ∀ r' ∈ r :: q, i + 1 ≤ r' := by
          intro r' hr'
          rcases List.mem_cons.mp hr' with rfl | h'
          · omega
          · have := hr r' h'; omega
        simp only [removeIndices, h, if_false, List.zipIdx_cons]
        rw [ih (i + 1) (r :: q) hq hi']
        have hni : ¬ i ∈ q := by
          intro hm; have := hr i hm; omega
        simp [h, hni]

/-- WHAT `remove_indices` DOES FOR ANY QUEUE: it removes exactly the reached positions -/
theorem ri_arbitrary_spec {α} (xs : List α) (i : Nat) (q : List Nat) :
    removeIndices i q xs =
      ((xs.zipIdx i).filter (fun p => !(reachedIdx i q xs.length).contains p.2)).map (·.1) := by
  rw [ri_eq_reached xs i q]
  exact ri_increasing_spec xs i _ (reachedIdx_pairwise _ _ _)
    (fun r hr => (reachedIdx_bounds _ _ _ r hr).1)

theorem ri_sublist {α} (xs : List α) : ∀ (i : Nat) (q : List Nat),
    (removeIndices i q xs).Sublist xs := by
  induction xs with
  | nil => intro i q; cases q <;> simp [removeIndices]
  | cons x xs ih =>
    intro i q
    cases q with
    | nil => simp only [removeIndices]; exact (ih (i + 1) []).cons_cons x
    | cons r q =>
      simp only [removeIndices]
      split
      · exact (ih (i + 1) q).cons x
      · exact (ih (i + 1) (r :: q)).cons_cons x

/-- every reached position removes one element, nothing else goes -/
theorem ri_length {α} (xs : List α) : ∀ (i : Nat) (q : List Nat),
    (removeIndices i q xs).length + (reachedIdx i q xs.length).length = xs.length := by
  induction xs with
  | nil => intro i q; cases q <;> simp [removeIndices, reachedIdx]
  | cons x xs ih =>
    intro i q
    cases q with
    | nil => simp [removeIndices, reachedIdx, ri_nil]
    | cons r q =>
      simp only [removeIndices, List.length_cons, reachedIdx]
      split
      · have := ih (i + 1) q; simp only [List.length_cons]; omega
      · have := ih (i + 1) (r :: q); simp only [List.length_cons]; omega

/-- a strictly increasing queue inside the vector is reached completely -/
theorem reachedIdx_of_increasing : ∀ (n i : Nat) (q : List Nat), q.Pairwise (· < ·) →
    (∀ r ∈ q, i ≤ r ∧ r < i + n) → reachedIdx i q n = q := by
  intro n
  induction n with
  | zero =>
    intro i q _ hb
    cases q with
    | nil => rfl
    | cons r q => have := hb r List.mem_cons_self; omega
  | succ n ih =>
    intro i q hq hb
    cases q with
    | nil => rfl
    | cons r q =>
      have ⟨hr, hq'⟩ := List.pairwise_cons.mp hq
      simp only [reachedIdx]
      by_cases h : i = r
      · subst h
        simp only [if_true]
        rw [ih (i + 1) q hq' (fun r' hr' => by
          have := hr r' hr'; have := hb r' (List.mem_cons_of_mem _ hr'); omega)]
      · simp only [h, if_false]
        exact ih (i + 1) (r :: q) hq (fun r' hr' => by
          have h1 := hb r' hr'
          have h2 := hb r List.mem_cons_self
          rcases List.mem_cons.mp hr' with rfl | h'
          · omega
          · have := hr r' h'; omega)

/-- the "simplified" `remove_indices` of the seeded change: `Vec::remove(index)` back to front -/
def removeBackToFront {α} (q : List Nat) (xs : List α) : Except Panic (List α) :=
  q.reverse.foldlM (fun acc i => if i < acc.length then .ok (acc.eraseIdx i) else .error .sliceOOB) xs


/-! ## B. the wikilink clean-up only removes tokens -/

theorem removeHidden_sublist (toks : List Tok) : (removeHiddenWikilinkTokens toks).Sublist toks :=
  ri_sublist toks 0 _

theorem removeBrackets_sublist (toks : List Tok) : (removeWikilinkBrackets toks).Sublist toks :=
  ri_sublist toks 0 _

theorem wikilinkCleanup_sublist (toks : List Tok) : (wikilinkCleanup toks).Sublist toks :=
  (removeBrackets_sublist _).trans (removeHidden_sublist toks)

theorem popTrailingBreak_sublist (src : List Char) (toks : List Tok) :
    (popTrailingBreak src toks).Sublist toks := by
  unfold popTrailingBreak
  split
  · split
    · exact List.dropLast_sublist toks
    · exact List.Sublist.refl _
  · exact List.Sublist.refl _

/-! ## C. the event loop -/

/-- the character index of byte offset `i`: `source_str[..i].chars().count()` -/
def ci (bs : List Nat) (i : Nat) : Nat := charCount (bs.take i)

theorem ci_add (bs : List Nat) {a b : Nat} (h : a ≤ b) :
    ci bs b = ci bs a + charCount ((bs.drop a).take (b - a)) := by
  unfold ci
  have hb : b = a + (b - a) := by omega
  have : bs.take b = bs.take a ++ (bs.drop a).take (b - a) := by
    conv => lhs; rw [hb]
    exact List.take_add
  rw [this, charCount_append]

theorem ci_mono (bs : List Nat) {a b : Nat} (h : a ≤ b) : ci bs a ≤ ci bs b := by
  rw [ci_add bs h]; omega

theorem ci_le (bs : List Nat) (i : Nat) : ci bs i ≤ charCount bs := by
  have : charCount bs = charCount (bs.take i) + charCount (bs.drop i) := by
    rw [← charCount_append, List.take_append_drop]
  unfold ci; omega

/-- the cursor pair denotes one position: `traversed_chars` is the character index of
`traversed_bytes`, which is a character boundary inside the text -/
structure CurOK (bs : List Nat) (c : Cursor) : Prop where
  le : c.byte ≤ bs.length
  bd : isBoundary bs c.byte = true
  ch : c.char = ci bs c.byte

theorem curOK_zero (bs : List Nat) : CurOK bs ⟨0, 0⟩ :=
  ⟨Nat.zero_le _, by simp [isBoundary], by simp [ci, charCount]⟩

theorem mdAdvance_spec (bs : List Nat) (c : Cursor) (rs : Nat) (hc : CurOK bs c)
    (h : rs ≤ c.byte ∨ (rs ≤ bs.length ∧ isBoundary bs rs = true)) :
    ∃ c', mdAdvance bs c rs = .ok c' ∧ CurOK bs c' ∧ c'.byte = max c.byte rs := by
  unfold mdAdvance
  by_cases hgt : rs > c.byte
  · have ⟨h1, h2⟩ : rs ≤ bs.length ∧ isBoundary bs rs = true := by
      rcases h with h | h
      · omega
      · exact h
    have hs : sliceCount bs c.byte rs = .ok (charCount ((bs.drop c.byte).take (rs - c.byte))) := by
      unfold sliceCount
      rw [if_pos ⟨by omega, h1, hc.bd, h2⟩]
    rw [if_pos hgt, hs]
    refine ⟨⟨c.char + charCount ((bs.drop c.byte).take (rs - c.byte)), rs⟩, rfl, ⟨h1, h2, ?_⟩, ?_⟩
    · show c.char + _ = ci bs rs
      rw [hc.ch, ci_add bs (by omega : c.byte ≤ rs)]
    · show rs = max c.byte rs
      omega
  · rw [if_neg hgt]
    exact ⟨c, rfl, hc, by omega⟩

/-- covers at least one character -/
def cov (t : Tok) : Bool := decide (t.span.start < t.span.stop)

/-- inside a text of `n` characters -/
def InB (n : Nat) (t : Tok) : Prop := t.span.start ≤ t.span.stop ∧ t.span.stop ≤ n

/-- a structural break -/
def Structural (t : Tok) : Prop := t.kind = .paragraphBreak ∨ t.kind.isNewline = true

/-- what the theorems need of the inner parser (`PlainEnglish::parse`: `parsePlainFull_tiles`) -/
def InnerOK (inner : List Char → Except Panic (List Tok)) : Prop :=
  ∀ s, ∃ toks, inner s = .ok toks ∧ Tiles toks 0 s.length

theorem tiles_facts (toks : List Tok) (a b : Nat) (h : Tiles toks a b) :
    (∀ t ∈ toks, a ≤ t.span.start ∧ t.span.start < t.span.stop ∧ t.span.stop ≤ b) ∧
    toks.Pairwise (fun x y => x.span.stop ≤ y.span.start) := by
  induction toks generalizing a with
  | nil => simp
  | cons t ts ih =>
    obtain ⟨h1, h2, h3⟩ := h
    obtain ⟨i2, i3⟩ := ih _ h3
    refine ⟨?_, ?_⟩
    · intro x hx
      rcases List.mem_cons.mp hx with rfl | hx
      · refine ⟨by omega, by omega, ?_⟩
        cases ts with
        | nil => simp [Tiles] at h3; omega
        | cons u us => have := i2 u List.mem_cons_self; obtain ⟨h4, _, _⟩ := h3; have := (i2 u List.mem_cons_self).2.2; omega
      · have := i2 x hx; omega
    · refine List.pairwise_cons.mpr ⟨?_, i3⟩
      intro y hy
      exact (i2 y hy).1

theorem eventOK_adv {bs : List Nat} {cur le : Nat} {e : MdEvent} {leaf : Option Nat}
    (h : eventOK bs cur le e leaf = true) :
    e.rs ≤ cur ∨ (e.rs ≤ bs.length ∧ isBoundary bs e.rs = true) := by
  cases leaf with
  | none => simpa [eventOK] using h
  | some n =>
    simp only [eventOK, Bool.and_eq_true, decide_eq_true_eq] at h
    right
    exact ⟨by omega, h.1.1.1.1.2⟩

theorem eventOK_leaf {bs : List Nat} {cur le : Nat} {e : MdEvent} {n : Nat}
    (h : eventOK bs cur le e (some n) = true) :
    e.rs ≤ e.re ∧ e.re ≤ bs.length ∧ cur ≤ e.rs ∧ le ≤ e.rs ∧ ci bs e.rs + n ≤ ci bs e.re := by
  simp only [eventOK, Bool.and_eq_true, decide_eq_true_eq] at h
  obtain ⟨⟨⟨⟨⟨⟨h1, h2⟩, _⟩, _⟩, h5⟩, h6⟩, h7⟩ := h
  refine ⟨h1, h2, h5, h6, ?_⟩
  rw [ci_add bs h1]; omega


/-- what one event pushes, under `eventOK` -/
structure StepOut (bs : List Nat) (n : Nat) (ilt : Bool) (st : List MdTag) (e : MdEvent)
    (c c' : Cursor) (ts : List Tok) : Prop where
  cur : CurOK bs c'
  byte : c'.byte = max c.byte e.rs
  inb : ∀ t ∈ ts, InB n t
  place : match leafLen ilt st e.ev with
    | some _ => ∀ t ∈ ts, ci bs e.rs ≤ t.span.start ∧ t.span.stop ≤ ci bs e.re
    | none => ∀ t ∈ ts, t.span.start = t.span.stop
  sorted : (ts.filter cov).Pairwise (fun a b => a.span.stop ≤ b.span.start)
  zw : solidEv ilt st e.ev = true → ∀ t ∈ ts, t.span.start = t.span.stop → Structural t

theorem single_sorted (t : Tok) :
    ([t].filter cov).Pairwise (fun a b => a.span.stop ≤ b.span.start) := by
  by_cases h : cov t = true <;> simp [List.filter, h]

/-- a leaf event's single token `[tc, tc + n)` with `tc = ci rs` -/
theorem leaf_single {bs : List Nat} {N : Nat} (hN : charCount bs = N) {e : MdEvent} {n : Nat}
    (k : Kind) (hfit : ci bs e.rs + n ≤ ci bs e.re) :
    InB N ⟨spanWithLen (ci bs e.rs) n, k⟩ ∧
      (ci bs e.rs ≤ (spanWithLen (ci bs e.rs) n).start ∧ (spanWithLen (ci bs e.rs) n).stop ≤ ci bs e.re) := by
  have := ci_le bs e.re
  simp only [InB, spanWithLen]
  omega

theorem mdStep_spec (bs : List Nat) (src : List Char) (inner : List Char → Except Panic (List Tok))
    (ilt : Bool) (hN : charCount bs = src.length) (hin : InnerOK inner)
    (c : Cursor) (st : List MdTag) (e : MdEvent) (le : Nat) (hc : CurOK bs c)
    (hok : eventOK bs c.byte le e (leafLen ilt st e.ev) = true) :
    ∃ c' ts, mdStep bs src inner ilt c st e = .ok (c', ts) ∧ StepOut bs src.length ilt st e c c' ts := by
  obtain ⟨c', hadv, hc', hbyte⟩ := mdAdvance_spec bs c e.rs hc (eventOK_adv hok)
  have hchar : c'.char = ci bs c'.byte := hc'.ch
  have hcle : ci bs c'.byte ≤ src.length := by rw [← hN]; exact ci_le bs _
  -- in the leaf cases the cursor is exactly at the event's start
  have hleafpos : ∀ n, leafLen ilt st e.ev = some n → c'.byte = e.rs ∧ ci bs e.rs + n ≤ ci bs e.re := by
    intro n hn
    rw [hn] at hok
    obtain ⟨_, _, h3, _, h5⟩ := eventOK_leaf hok
    exact ⟨by omega, h5⟩
  unfold mdStep
  simp only [hadv, bind, Except.bind]
  cases hev : e.ev with
  | softBreak =>
    obtain ⟨hb, hfit⟩ := hleafpos 1 (by simp [hev, leafLen])
    refine ⟨c', _, rfl, hc', hbyte, ?_, ?_, single_sorted _, ?_⟩
    · intro t ht; simp only [List.mem_singleton] at ht; subst ht
      rw [hchar, hb]; exact (leaf_single hN _ hfit).1
    · simp only [hev, leafLen]
      intro t ht; simp only [List.mem_singleton] at ht; subst ht
      rw [hchar, hb]; exact (leaf_single hN (.newline 1) hfit).2
    · intro _ t ht h0; simp only [List.mem_singleton] at ht; subst ht
      simp [spanWithLen] at h0
  | hardBreak =>
    obtain ⟨hb, hfit⟩ := hleafpos 1 (by simp [hev, leafLen])
    refine ⟨c', _, rfl, hc', hbyte, ?_, ?_, single_sorted _, ?_⟩
    · intro t ht; simp only [List.mem_singleton] at ht; subst ht
      rw [hchar, hb]; exact (leaf_single hN _ hfit).1
    · simp only [hev, leafLen]
      intro t ht; simp only [List.mem_singleton] at ht; subst ht
      rw [hchar, hb]; exact (leaf_single hN (.newline 2) hfit).2
    · intro _ t ht h0; simp only [List.mem_singleton] at ht; subst ht
      simp [spanWithLen] at h0
  | start tag =>
    by_cases hl : tag = .List
    · subst hl
      refine ⟨c', _, rfl, hc', hbyte, ?_, ?_, single_sorted _, ?_⟩
      · intro t ht; simp only [List.mem_singleton] at ht; subst ht
        simp only [InB, spanWithLen]; omega
      · simp only [hev, leafLen]
        intro t ht; simp only [List.mem_singleton] at ht; subst ht
        simp [spanWithLen]
      · intro _ t ht _; simp only [List.mem_singleton] at ht; subst ht
        right; rfl
    · have : (match MdEv.start tag with
          | .start .List => (pure (c', [⟨spanWithLen c'.char 0, .newline 2⟩]) : Except Panic (Cursor × List Tok))
          | .start _ => pure (c', [])
          | _ => pure (c', [])) = pure (c', []) := by
        cases tag <;> first | rfl | exact absurd rfl hl
      refine ⟨c', [], ?_, hc', hbyte, by simp, ?_, by simp, by simp⟩
      · cases tag <;> first | rfl | exact absurd rfl hl
      · simp [hev, leafLen]
  | stop tag =>
    refine ⟨c', _, rfl, hc', hbyte, ?_, ?_, ?_, ?_⟩
    · intro t ht
      split at ht
      · simp only [List.mem_singleton] at ht; subst ht
        simp only [InB, spanWithLen]; omega
      · cases ht
    · simp only [hev, leafLen]
      intro t ht
      split at ht
      · simp only [List.mem_singleton] at ht; subst ht; simp [spanWithLen]
      · cases ht
    · split
      · exact single_sorted _
      · simp
    · intro _ t ht _
      split at ht
      · simp only [List.mem_singleton] at ht; subst ht; left; rfl
      · cases ht
  | code n =>
    obtain ⟨hb, hfit⟩ := hleafpos n (by simp [hev, leafLen])
    refine ⟨c', _, rfl, hc', hbyte, ?_, ?_, single_sorted _, ?_⟩
    · intro t ht; simp only [List.mem_singleton] at ht; subst ht
      rw [hchar, hb]; exact (leaf_single hN _ hfit).1
    · simp only [hev, leafLen]
      intro t ht; simp only [List.mem_singleton] at ht; subst ht
      rw [hchar, hb]; exact (leaf_single hN .unlintable hfit).2
    · intro hs t ht h0; simp only [List.mem_singleton] at ht; subst ht
      simp only [hev, solidEv, decide_eq_true_eq] at hs
      simp [spanWithLen] at h0; omega
  | html n =>
    obtain ⟨hb, hfit⟩ := hleafpos n (by simp [hev, leafLen])
    refine ⟨c', _, rfl, hc', hbyte, ?_, ?_, single_sorted _, ?_⟩
    · intro t ht; simp only [List.mem_singleton] at ht; subst ht
      rw [hchar, hb]; exact (leaf_single hN _ hfit).1
    · simp only [hev, leafLen]
      intro t ht; simp only [List.mem_singleton] at ht; subst ht
      rw [hchar, hb]; exact (leaf_single hN .unlintable hfit).2
    · intro hs t ht h0; simp only [List.mem_singleton] at ht; subst ht
      simp only [hev, solidEv, decide_eq_true_eq] at hs
      simp [spanWithLen] at h0; omega
  | other =>
    refine ⟨c', [], rfl, hc', hbyte, by simp, ?_, by simp, by simp⟩
    simp [hev, leafLen]
  | text n =>
    cases hact : textAct ilt st.head? with
    | skip =>
      refine ⟨c', [], rfl, hc', hbyte, by simp, ?_, by simp, by simp⟩
      simp [hev, leafLen, hact]
    | unlintable =>
      obtain ⟨hb, hfit⟩ := hleafpos n (by simp [hev, leafLen, hact])
      refine ⟨c', _, rfl, hc', hbyte, ?_, ?_, single_sorted _, ?_⟩
      · intro t ht; simp only [List.mem_singleton] at ht; subst ht
        rw [hchar, hb]; exact (leaf_single hN _ hfit).1
      · simp only [hev, leafLen, hact]
        intro t ht; simp only [List.mem_singleton] at ht; subst ht
        rw [hchar, hb]; exact (leaf_single hN .unlintable hfit).2
      · intro hs t ht h0; simp only [List.mem_singleton] at ht; subst ht
        simp [hev, solidEv, hact] at hs
        simp [spanWithLen] at h0; omega
    | parse =>
      obtain ⟨hb, hfit⟩ := hleafpos n (by simp [hev, leafLen, hact])
      have hre := ci_le bs e.re
      have htc : c'.char = ci bs e.rs := by rw [hchar, hb]
      have hmin1 : min (c'.char + n) src.length = c'.char + n := by rw [htc]; omega
      have hmin2 : min c'.char (c'.char + n) = c'.char := by omega
      simp only [hmin1, hmin2]
      have hsl : sliceE src c'.char (c'.char + n) = .ok ((src.drop c'.char).take (c'.char + n - c'.char)) := by
        unfold sliceE
        rw [if_neg (by rw [htc]; omega)]
      have hlen : ((src.drop c'.char).take (c'.char + n - c'.char)).length = n := by
        simp only [List.length_take, List.length_drop]; rw [htc]; omega
      obtain ⟨toks, hinn, htile⟩ := hin ((src.drop c'.char).take (c'.char + n - c'.char))
      rw [hlen] at htile
      obtain ⟨hf1, hf2⟩ := tiles_facts toks 0 n htile
      simp only [hsl, hinn]
      refine ⟨c', _, rfl, hc', hbyte, ?_, ?_, ?_, ?_⟩
      · intro t ht
        obtain ⟨u, hu, rfl⟩ := List.mem_map.mp ht
        have := hf1 u hu
        simp only [InB, Tok.shift, Span.pushBy]
        rw [htc]; omega
      · simp only [hev, leafLen, hact]
        intro t ht
        obtain ⟨u, hu, rfl⟩ := List.mem_map.mp ht
        have := hf1 u hu
        simp only [Tok.shift, Span.pushBy]
        rw [htc]; omega
      · refine List.Pairwise.sublist List.filter_sublist ?_
        refine List.Pairwise.map _ ?_ hf2
        intro a b hab
        simp only [Tok.shift, Span.pushBy]; omega
      · intro _ t ht h0
        obtain ⟨u, hu, rfl⟩ := List.mem_map.mp ht
        have := hf1 u hu
        simp only [Tok.shift, Span.pushBy] at h0
        omega


/-- in bounds; covering tokens start at or after `lo`, are increasing and pairwise disjoint -/
structure Good (n lo : Nat) (toks : List Tok) : Prop where
  inb : ∀ t ∈ toks, InB n t
  lo : ∀ t ∈ toks, t.span.start < t.span.stop → lo ≤ t.span.start
  sorted : (toks.filter cov).Pairwise (fun a b => a.span.stop ≤ b.span.start)

theorem cov_iff (t : Tok) : cov t = true ↔ t.span.start < t.span.stop := by simp [cov]

theorem Good.sublist {n lo : Nat} {a b : List Tok} (h : Good n lo b) (hs : a.Sublist b) : Good n lo a :=
  ⟨fun t ht => h.inb t (hs.subset ht), fun t ht => h.lo t (hs.subset ht),
   List.Pairwise.sublist (hs.filter _) h.sorted⟩

theorem mdLoop_spec (bs : List Nat) (src : List Char) (inner : List Char → Except Panic (List Tok))
    (ilt : Bool) (hN : charCount bs = src.length) (hin : InnerOK inner) :
    ∀ (es : List MdEvent) (c : Cursor) (st : List MdTag) (le : Nat), CurOK bs c →
      eventsOK bs ilt c.byte le st es = true →
      ∃ toks, mdLoop bs src inner ilt c st es = .ok toks ∧ Good src.length (ci bs le) toks ∧
        (solidOK ilt st es = true → ∀ t ∈ toks, t.span.start = t.span.stop → Structural t) := by
  intro es
  induction es with
  | nil =>
    intro c st le _ _
    exact ⟨[], rfl, ⟨by simp, by simp, by simp⟩, by simp⟩
  | cons e es ih =>
    intro c st le hc hok
    simp only [eventsOK, Bool.and_eq_true] at hok
    obtain ⟨hev, hrest⟩ := hok
    obtain ⟨c', ts, hstep, ho⟩ := mdStep_spec bs src inner ilt hN hin c st e le hc hev
    rw [← ho.byte] at hrest
    obtain ⟨rest, hloop, hg, hz⟩ := ih c' (stackAfter st e.ev) _ ho.cur hrest
    refine ⟨ts ++ rest, ?_, ?_, ?_⟩
    · simp only [mdLoop, hstep, hloop, bind, Except.bind, pure, Except.pure]
    · cases hl : leafLen ilt st e.ev with
      | none =>
        have hpl := ho.place
        rw [hl] at hpl
        simp only [hl, Option.isSome_none, Bool.false_eq_true, if_false] at hg
        refine ⟨?_, ?_, ?_⟩
        · intro t ht
          rcases List.mem_append.mp ht with h | h
          · exact ho.inb t h
          · exact hg.inb t h
        · intro t ht hcv
          rcases List.mem_append.mp ht with h | h
          · have := hpl t h; omega
          · exact hg.lo t h hcv
        · rw [List.filter_append]
          have : ts.filter cov = [] := by
            apply List.filter_eq_nil_iff.mpr
            intro t ht hcv
            have := hpl t ht
            rw [cov_iff] at hcv; omega
          rw [this]; simpa using hg.sorted
      | some n =>
        have hpl := ho.place
        rw [hl] at hpl
        rw [hl] at hev
        obtain ⟨h1, _, _, h4, _⟩ := eventOK_leaf hev
        simp only [hl, Option.isSome_some, if_true] at hg
        have hm1 := ci_mono bs h4
        have hm2 := ci_mono bs h1
        refine ⟨?_, ?_, ?_⟩
        · intro t ht
          rcases List.mem_append.mp ht with h | h
          · exact ho.inb t h
          · exact hg.inb t h
        · intro t ht hcv
          rcases List.mem_append.mp ht with h | h
          · have := hpl t h; omega
          · have := hg.lo t h hcv; omega
        · rw [List.filter_append]
          refine List.pairwise_append.mpr ⟨ho.sorted, hg.sorted, ?_⟩
          intro a ha b hb
          have ha' := List.mem_filter.mp ha
          have hb' := List.mem_filter.mp hb
          have h5 := hpl a ha'.1
          have h6 := hg.lo b hb'.1 ((cov_iff b).mp hb'.2)
          omega
    · intro hs t ht h0
      simp only [solidOK, Bool.and_eq_true] at hs
      rcases List.mem_append.mp ht with h | h
      · exact ho.zw hs.1 t h h0
      · exact hz hs.2 t h h0

/-! ### the final clamp-and-drop pass -/

/-- whatever the tokens are: if the pass returns, every token it returns is a well-formed span
inside the text -/
theorem clampAll_inb (n : Nat) : ∀ (toks out : List Tok), clampAll n toks = .ok out →
    ∀ t ∈ out, InB n t := by
  intro toks
  induction toks with
  | nil => intro out h; simp only [clampAll] at h; cases h; simp
  | cons x xs ih =>
    intro out h
    simp only [clampAll, bind, Except.bind] at h
    cases hx : clampTok n x with
    | error e => rw [hx] at h; cases h
    | ok r =>
      rw [hx] at h
      simp only at h
      cases hr : clampAll n xs with
      | error e => rw [hr] at h; cases h
      | ok rest =>
        rw [hr] at h
        simp only [pure, Except.pure] at h
        cases h
        have hrest := ih rest hr
        cases r with
        | none => exact hrest
        | some t' =>
          intro t ht
          rcases List.mem_cons.mp ht with rfl | ht
          · unfold clampTok at hx
            split at hx
            · cases hx
            · simp only at hx
              split at hx
              · cases hx
                simp only [InB]
                omega
              · cases hx
          · exact hrest t ht

/-- it cannot panic on well-formed spans -/
theorem clampAll_total (n : Nat) : ∀ (toks : List Tok), (∀ t ∈ toks, t.span.start ≤ t.span.stop) →
    ∃ out, clampAll n toks = .ok out := by
  intro toks
  induction toks with
  | nil => intro _; exact ⟨[], rfl⟩
  | cons x xs ih =>
    intro h
    obtain ⟨rest, hr⟩ := ih (fun t ht => h t (List.mem_cons_of_mem _ ht))
    have hx := h x List.mem_cons_self
    simp only [clampAll, clampTok, bind, Except.bind, hr]
    rw [if_neg (by omega)]
    exact ⟨_, rfl⟩

/-- and it changes nothing when every token already is inside the text -/
theorem clampAll_id (n : Nat) : ∀ (toks : List Tok), (∀ t ∈ toks, InB n t) →
    clampAll n toks = .ok toks := by
  intro toks
  induction toks with
  | nil => intro _; rfl
  | cons x xs ih =>
    intro h
    have hr := ih (fun t ht => h t (List.mem_cons_of_mem _ ht))
    obtain ⟨h1, h2⟩ := h x List.mem_cons_self
    simp only [clampAll, clampTok, bind, Except.bind, hr]
    rw [if_neg (by omega)]
    have e1 : min x.span.stop n = x.span.stop := by omega
    have e2 : min x.span.start x.span.stop = x.span.start := by omega
    simp only [e1, e2, pure, Except.pure]
    have hx : (⟨⟨x.span.start, x.span.stop⟩, x.kind⟩ : Tok) = x := by
      cases x with | mk sp k => cases sp; rfl
    rw [hx]
    by_cases he : x.span.start = x.span.stop
    · simp [he]
    · have : (x.span.start == x.span.stop) = false := by simp [he]
      have h3 : (x.span.start != x.span.stop) = true := by simp [he]
      simp [this, h3]

/-! ### no panic for ANY event list whose starts can be sliced -/

/-- the byte cursor is a character boundary inside the text -/
structure CurB (bs : List Nat) (c : Cursor) : Prop where
  le : c.byte ≤ bs.length
  bd : isBoundary bs c.byte = true

theorem mdAdvance_weak (bs : List Nat) (c : Cursor) (rs : Nat) (hc : CurB bs c)
    (h : rs ≤ c.byte ∨ (rs ≤ bs.length ∧ isBoundary bs rs = true)) :
    ∃ c', mdAdvance bs c rs = .ok c' ∧ CurB bs c' ∧ c'.byte = max c.byte rs := by
  unfold mdAdvance
  by_cases hgt : rs > c.byte
  · have ⟨h1, h2⟩ : rs ≤ bs.length ∧ isBoundary bs rs = true := by
      rcases h with h | h
      · omega
      · exact h
    have hs : sliceCount bs c.byte rs = .ok (charCount ((bs.drop c.byte).take (rs - c.byte))) := by
      unfold sliceCount
      rw [if_pos ⟨by omega, h1, hc.bd, h2⟩]
    rw [if_pos hgt, hs]
    refine ⟨⟨c.char + charCount ((bs.drop c.byte).take (rs - c.byte)), rs⟩, rfl, ⟨h1, h2⟩, ?_⟩
    show rs = max c.byte rs
    omega
  · rw [if_neg hgt]
    exact ⟨c, rfl, hc, by omega⟩

theorem mdStep_total (bs : List Nat) (src : List Char) (inner : List Char → Except Panic (List Tok))
    (ilt : Bool) (hin : InnerOK inner) (c : Cursor) (st : List MdTag) (e : MdEvent) (hc : CurB bs c)
    (h : e.rs ≤ c.byte ∨ (e.rs ≤ bs.length ∧ isBoundary bs e.rs = true)) :
    ∃ c' ts, mdStep bs src inner ilt c st e = .ok (c', ts) ∧ CurB bs c' ∧ c'.byte = max c.byte e.rs ∧
      ∀ t ∈ ts, t.span.start ≤ t.span.stop := by
  obtain ⟨c', hadv, hc', hbyte⟩ := mdAdvance_weak bs c e.rs hc h
  have hone : ∀ (k : Kind) (n : Nat), ∀ t ∈ [(⟨spanWithLen c'.char n, k⟩ : Tok)], t.span.start ≤ t.span.stop := by
    intro k n t ht
    simp only [List.mem_singleton] at ht; subst ht
    simp [spanWithLen]
  unfold mdStep
  simp only [hadv, bind, Except.bind]
  cases hev : e.ev with
  | softBreak => exact ⟨c', _, rfl, hc', hbyte, hone _ _⟩
  | hardBreak => exact ⟨c', _, rfl, hc', hbyte, hone _ _⟩
  | start tag =>
    by_cases hl : tag = .List
    · subst hl; exact ⟨c', _, rfl, hc', hbyte, hone _ _⟩
    · refine ⟨c', [], ?_, hc', hbyte, by simp⟩
      cases tag <;> first | rfl | exact absurd rfl hl
  | stop tag =>
    refine ⟨c', _, rfl, hc', hbyte, ?_⟩
    intro t ht
    split at ht
    · exact hone _ _ t ht
    · cases ht
  | code n => exact ⟨c', _, rfl, hc', hbyte, hone _ _⟩
  | html n => exact ⟨c', _, rfl, hc', hbyte, hone _ _⟩
  | other => exact ⟨c', [], rfl, hc', hbyte, by simp⟩
  | text n =>
    cases hact : textAct ilt st.head? with
    | skip => exact ⟨c', [], rfl, hc', hbyte, by simp⟩
    | unlintable => exact ⟨c', _, rfl, hc', hbyte, hone _ _⟩
    | parse =>
      -- the clamped slice of the source is always in range
      have hsl : ∃ chunk, sliceE src (min c'.char (min (c'.char + n) src.length))
          (min (c'.char + n) src.length) = .ok chunk := by
        unfold sliceE
        rw [if_neg (by omega)]
        exact ⟨_, rfl⟩
      obtain ⟨chunk, hsl⟩ := hsl
      obtain ⟨toks, hinn, htile⟩ := hin chunk
      obtain ⟨hf1, _⟩ := tiles_facts toks 0 chunk.length htile
      simp only [hsl, hinn]
      refine ⟨c', _, rfl, hc', hbyte, ?_⟩
      intro t ht
      obtain ⟨u, hu, rfl⟩ := List.mem_map.mp ht
      have := hf1 u hu
      simp only [Tok.shift, Span.pushBy]
      omega

theorem mdLoop_total (bs : List Nat) (src : List Char) (inner : List Char → Except Panic (List Tok))
    (ilt : Bool) (hin : InnerOK inner) :
    ∀ (es : List MdEvent) (c : Cursor) (st : List MdTag), CurB bs c → startsOK bs c.byte es = true →
      ∃ toks, mdLoop bs src inner ilt c st es = .ok toks ∧ ∀ t ∈ toks, t.span.start ≤ t.span.stop := by
  intro es
  induction es with
  | nil => intro c st _ _; exact ⟨[], rfl, by simp⟩
  | cons e es ih =>
    intro c st hc hok
    simp only [startsOK, Bool.and_eq_true, Bool.or_eq_true, decide_eq_true_eq] at hok
    obtain ⟨hev, hrest⟩ := hok
    obtain ⟨c', ts, hstep, hc', hbyte, hwf⟩ := mdStep_total bs src inner ilt hin c st e hc hev
    rw [← hbyte] at hrest
    obtain ⟨rest, hloop, hwf2⟩ := ih c' (stackAfter st e.ev) hc' hrest
    refine ⟨ts ++ rest, ?_, ?_⟩
    · simp only [mdLoop, hstep, hloop, bind, Except.bind, pure, Except.pure]
    · intro t ht
      rcases List.mem_append.mp ht with h | h
      · exact hwf t h
      · exact hwf2 t h

/-- NO PANIC, for every event list whose starts are sliceable -/
theorem mdParse_total_of_starts (bs : List Nat) (src : List Char)
    (inner : List Char → Except Panic (List Tok)) (ilt : Bool) (events : List MdEvent)
    (hin : InnerOK inner) (hst : StartsOK bs events) :
    ∃ toks, mdParse bs src inner ilt events = .ok toks := by
  obtain ⟨toks, hl, hwf⟩ := mdLoop_total bs src inner ilt hin events ⟨0, 0⟩ []
    ⟨Nat.zero_le _, by simp [isBoundary]⟩ hst
  have hsub : (wikilinkCleanup (popTrailingBreak src toks)).Sublist toks :=
    (wikilinkCleanup_sublist _).trans (popTrailingBreak_sublist src toks)
  obtain ⟨out, ho⟩ := clampAll_total src.length _ (fun t ht => hwf t (hsub.subset ht))
  exact ⟨out, by simp only [mdParse, hl, bind, Except.bind]; exact ho⟩

/-- IN BOUNDS, for EVERY event list and every inner parser: whatever `Markdown::parse` returns lies
inside the text -/
theorem mdParse_inb_of_ok (bs : List Nat) (src : List Char)
    (inner : List Char → Except Panic (List Tok)) (ilt : Bool) (events : List MdEvent)
    (toks : List Tok) (h : mdParse bs src inner ilt events = .ok toks) :
    ∀ t ∈ toks, InB src.length t := by
  simp only [mdParse, bind, Except.bind] at h
  cases hl : mdLoop bs src inner ilt ⟨0, 0⟩ [] events with
  | error e => rw [hl] at h; cases h
  | ok raw =>
    rw [hl] at h
    exact clampAll_inb src.length _ toks h

theorem eventOK_start {bs : List Nat} {cur le : Nat} {e : MdEvent} {leaf : Option Nat}
    (h : eventOK bs cur le e leaf = true) :
    (decide (e.rs ≤ cur) || (decide (e.rs ≤ bs.length) && isBoundary bs e.rs)) = true := by
  rcases eventOK_adv h with h | ⟨h1, h2⟩
  · simp [h]
  · simp [h1, h2]

/-- `EventsOK` implies `StartsOK` -/
theorem eventsOK_startsOK (bs : List Nat) (ilt : Bool) : ∀ (es : List MdEvent) (cur le : Nat)
    (st : List MdTag), eventsOK bs ilt cur le st es = true → startsOK bs cur es = true := by
  intro es
  induction es with
  | nil => intros; rfl
  | cons e es ih =>
    intro cur le st h
    simp only [eventsOK, Bool.and_eq_true] at h
    simp only [startsOK, Bool.and_eq_true]
    exact ⟨eventOK_start h.1, ih _ _ _ h.2⟩

/-- `Markdown::parse` as a whole -/
theorem mdParse_spec (bs : List Nat) (src : List Char) (inner : List Char → Except Panic (List Tok))
    (ilt : Bool) (events : List MdEvent) (hN : charCount bs = src.length) (hin : InnerOK inner)
    (hev : EventsOK bs ilt events) :
    ∃ toks, mdParse bs src inner ilt events = .ok toks ∧ Good src.length 0 toks ∧
      (solidOK ilt [] events = true → ∀ t ∈ toks, t.span.start = t.span.stop → Structural t) := by
  obtain ⟨toks, hl, hg, hz⟩ := mdLoop_spec bs src inner ilt hN hin events ⟨0, 0⟩ [] 0 (curOK_zero bs) hev
  have hsub : (wikilinkCleanup (popTrailingBreak src toks)).Sublist toks :=
    (wikilinkCleanup_sublist _).trans (popTrailingBreak_sublist src toks)
  have h0 : ci bs 0 = 0 := by simp [ci, charCount]
  rw [h0] at hg
  have hgs := hg.sublist hsub
  refine ⟨wikilinkCleanup (popTrailingBreak src toks), ?_, hgs, ?_⟩
  · simp only [mdParse, hl, bind, Except.bind]
    exact clampAll_id src.length _ hgs.inb
  · intro hs t ht h0
    exact hz hs t (hsub.subset ht) h0

/-! ## UTF-8: the bytes the driver computes are well formed, one group per character -/

theorem utf8Enc_wf (c : Char) : WFGroup (utf8Enc c) := by
  unfold utf8Enc WFGroup
  simp only
  split
  · exact ⟨_, [], rfl, by simp [isCont] <;> omega, by simp⟩
  · split
    · refine ⟨_, _, rfl, ?_, ?_⟩
      · simp [isCont] <;> omega
      · intro b hb; simp only [List.mem_singleton] at hb; subst hb; simp [isCont] <;> omega
    · split
      · refine ⟨_, _, rfl, ?_, ?_⟩
        · simp [isCont] <;> omega
        · intro b hb
          simp only [List.mem_cons, List.not_mem_nil, or_false] at hb
          rcases hb with rfl | rfl <;> (simp [isCont] <;> omega)
      · refine ⟨_, _, rfl, ?_, ?_⟩
        · simp [isCont] <;> omega
        · intro b hb
          simp only [List.mem_cons, List.not_mem_nil, or_false] at hb
          rcases hb with rfl | rfl | rfl <;> (simp [isCont] <;> omega)

theorem charCount_utf8Bytes (src : List Char) : charCount (utf8Bytes src) = src.length := by
  unfold utf8Bytes
  rw [charCount_flatten (fun g hg => by
    obtain ⟨c, _, rfl⟩ := List.mem_map.mp hg
    exact utf8Enc_wf c)]
  simp


/-! ## D. `IsolateEnglish` -/

theorem splitGo_flatten (term : Kind → Bool) : ∀ (toks cur : List Tok),
    (Chunks.splitGo term cur toks).flatten = cur.reverse ++ toks := by
  intro toks
  induction toks with
  | nil =>
    intro cur
    simp only [Chunks.splitGo]
    split
    · rename_i h; simp at h; subst h; simp
    · simp
  | cons t ts ih =>
    intro cur
    simp only [Chunks.splitGo]
    split
    · simp [ih]
    · simp [ih]

/-- the chunks are a partition of the token vector, in order -/
theorem iterChunks_flatten (toks : List Tok) : (Chunks.iterChunks toks).flatten = toks := by
  unfold Chunks.iterChunks Chunks.split
  split
  · rename_i h; simp at h; subst h; simp
  · simpa using splitGo_flatten _ toks []

theorem isolateGo_sublist (verdict : List Tok → Except Panic Bool) :
    ∀ (chunks : List (List Tok)) (r : List Tok), isolateGo verdict chunks = .ok r →
      r.Sublist chunks.flatten := by
  intro chunks
  induction chunks with
  | nil => intro r h; simp only [isolateGo] at h; cases h; simp
  | cons ch rest ih =>
    intro r h
    simp only [isolateGo, bind, Except.bind, pure, Except.pure] at h
    have key : ∀ (keep : Bool) (r' : List Tok), isolateGo verdict rest = .ok r' →
        (if keep = true then ch ++ r' else r').Sublist (ch :: rest).flatten := by
      intro keep r' hr
      have := ih r' hr
      simp only [List.flatten_cons]
      split
      · exact List.Sublist.append (List.Sublist.refl ch) this
      · exact this.trans (List.sublist_append_right ch _)
    by_cases hlt : ch.length < 4
    · rw [if_pos hlt] at h
      cases hr : isolateGo verdict rest with
      | error e => rw [hr] at h; cases h
      | ok r' =>
        rw [hr] at h
        simp only at h
        cases h
        simpa using key true r' hr
    · rw [if_neg hlt] at h
      cases hv : verdict ch with
      | error e => rw [hv] at h; cases h
      | ok keep =>
        rw [hv] at h
        simp only at h
        cases hr : isolateGo verdict rest with
        | error e => rw [hr] at h; cases h
        | ok r' =>
          rw [hr] at h
          simp only at h
          cases h
          exact key keep r' hr

/-- with a verdict that never panics the result is exactly the kept chunks -/
theorem isolateGo_spec (v : List Tok → Bool) : ∀ (chunks : List (List Tok)),
    isolateGo (fun ch => .ok (v ch)) chunks =
      .ok ((chunks.filter (fun ch => decide (ch.length < 4) || v ch)).flatten) := by
  intro chunks
  induction chunks with
  | nil => rfl
  | cons ch rest ih =>
    simp only [isolateGo, ih, bind, Except.bind, pure, Except.pure, List.filter_cons]
    by_cases h : ch.length < 4
    · simp [h]
    · cases hv : v ch <;> simp [h, hv]

end Harper.Md
