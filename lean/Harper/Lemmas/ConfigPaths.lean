import Harper.Model.ConfigPaths
import Harper.Lemmas.Effects
/-! # Lemmas for C10: path resolution and which paths a parsed configuration can contain -/
namespace Harper.Effects

theorem components_cons_slash (rest : List Char) : components ('/' :: rest) = components rest := by
  unfold components
  simp only [splitSlash]
  cases h : splitSlash rest with
  | nil => exact absurd h (splitSlash_ne_nil rest)
  | cons g gs => simp

/-- what `from_lsp_config` can put into the three path fields -/
theorem fromLspConfig_fields {e : DirsEnv} {cwd : Path} {c : PathCfg} {P : Paths}
    (h : fromLspConfig e cwd c = some P) :
    (P.userDict = (defaultPaths e).userDict ∨
      ∃ s, c.userDictPath = some (.str s) ∧ P.userDict = resolvePath e.home cwd s) ∧
    ConfiguredDir e cwd c P.fileDir ∧
    P.stats = (defaultPaths e).stats := by
  obtain ⟨cu, cf, cs⟩ := c
  unfold fromLspConfig at h
  unfold ConfiguredDir
  simp only at h ⊢
  rcases cu with _ | _ | su <;> rcases cf with _ | _ | sf <;> rcases cs with _ | _ | ss <;>
    simp at h <;> subst h <;> (try split) <;> (try split) <;> simp_all

end Harper.Effects
