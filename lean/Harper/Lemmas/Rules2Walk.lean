import Harper.Lemmas.Rules2
/-!
Rules that index the whole document (`walkE`): the generic append theorem, and CommaFixes, MergeWords,
AdjectiveOfA, InflectedVerbAfterTo.

A window function `f src pre suf` (tokens before the cursor, nearest first; tokens from the cursor on) is
`WinLocal` when it is local in the source text (`left`, `right`, as `XLocalE`) and **blind across a paragraph
break**: it does not see what follows a `ParagraphBreak` (`blindAfter`), nor a `ParagraphBreak` behind the
cursor and what precedes it (`blindBefore`). Then `walkE f` over the tokens of `P ++ D` is `walkE f` over
those of `P` followed by `walkE f` over those of `D`, moved (`walkE_append`) — although the loop runs over
the whole document and its windows do straddle the break.
-/
namespace Harper.Rules2
open Harper Harper.Chunks Harper.Rules Harper.Leaves

abbrev WinFn := List Char → List Tok → List Tok → Except Panic (List RuleLint)

/-- well-formed and inside the text -/
def InSrc (src : List Char) (t : Tok) : Prop := t.span.start ≤ t.span.stop ∧ t.span.stop ≤ src.length

structure WinLocal (f : WinFn) : Prop where
  left : ∀ (P D : List Char) (pre suf : List Tok), (∀ t ∈ pre, tokOK t = true ∧ t.span.stop ≤ P.length) →
    (∀ t ∈ suf, tokOK t = true ∧ t.span.stop ≤ P.length) → f (P ++ D) pre suf = f P pre suf
  right : ∀ (P D : List Char) (pre suf : List Tok) (j : Nat), (∀ t ∈ pre, tokOK t = true) → (∀ t ∈ suf, tokOK t = true) →
    f (P ++ D) (pre.map (shTok P.length j)) (suf.map (shTok P.length j)) = (f D pre suf).map (shiftRLs P.length)
  blindAfter : ∀ (src : List Char) (pre s : List Tok) (brk : Tok) (rest : List Tok), brk.kind.isParagraphBreak = true →
    (∀ t ∈ s, InSrc src t) → f src pre (s ++ brk :: rest) = f src pre (s ++ [brk])
  blindBefore : ∀ (src : List Char) (r : List Tok) (brk : Tok) (rest suf : List Tok), brk.kind.isParagraphBreak = true →
    f src (r ++ brk :: rest) suf = f src r suf

/-- first this, then that; the first panic wins -/
def seqE (a b : Except Panic (List RuleLint)) : Except Panic (List RuleLint) :=
  match a with
  | .error e => .error e
  | .ok x =>
    match b with
    | .error e => .error e
    | .ok y => .ok (x ++ y)

theorem walkE_cons (g : List Tok → List Tok → Except Panic (List RuleLint)) (pre : List Tok) (t : Tok) (ts : List Tok) :
    walkE g pre (t :: ts) = seqE (g pre (t :: ts)) (walkE g (t :: pre) ts) := by
  rw [walkE]; rfl

theorem seqE_assoc (a b c : Except Panic (List RuleLint)) : seqE (seqE a b) c = seqE a (seqE b c) := by
  cases a with
  | error e => rfl
  | ok x =>
    cases b with
    | error e => rfl
    | ok y =>
      cases c with
      | error e => rfl
      | ok z => simp [seqE]

theorem seqE_nil_right (a : Except Panic (List RuleLint)) : seqE a (.ok []) = a := by
  cases a with
  | error e => rfl
  | ok x => simp [seqE]

/-- the positions inside `P`: what follows the break is invisible, then the text after `P` is -/
theorem walkE_leftPart (f : WinFn) (hf : WinLocal f) (P D : List Char) (brk : Tok) (hb : brk.kind.isParagraphBreak = true)
    (Y : List Tok) : ∀ (xs pre : List Tok), (∀ t ∈ pre, tokOK t = true ∧ t.span.stop ≤ P.length) →
      (∀ t ∈ xs ++ [brk], tokOK t = true ∧ t.span.stop ≤ P.length) →
      walkE (f (P ++ D)) pre ((xs ++ [brk]) ++ Y) =
        seqE (walkE (f P) pre (xs ++ [brk])) (walkE (f (P ++ D)) ((xs ++ [brk]).reverse ++ pre) Y) := by
  intro xs
  induction xs with
  | nil =>
    intro pre hpre hx
    simp only [List.nil_append, List.singleton_append, walkE_cons, List.reverse_cons, List.reverse_nil]
    have e1 := hf.blindAfter (P ++ D) pre [] brk Y hb (by simp)
    simp only [List.nil_append] at e1
    rw [e1, hf.left P D pre [brk] hpre (by simpa using hx)]
    simp only [walkE, seqE_nil_right]
  | cons x xs ih =>
    intro pre hpre hx
    have hx' : ∀ t ∈ xs ++ [brk], tokOK t = true ∧ t.span.stop ≤ P.length :=
      fun t ht => hx t (by simp only [List.cons_append, List.mem_cons]; exact .inr ht)
    have hxx : tokOK x = true ∧ x.span.stop ≤ P.length := hx x (by simp)
    simp only [List.cons_append, walkE_cons]
    have e1 := hf.blindAfter (P ++ D) pre (x :: xs) brk Y hb (by
      intro t ht
      have := hx t (by simp only [List.cons_append, List.mem_cons, List.mem_append] at ht ⊢; rcases ht with h | h; exact .inl h; exact .inr (.inl h))
      have h1 := tokOK_nonempty this.1
      exact ⟨by omega, by simp only [List.length_append]; omega⟩)
    simp only [List.cons_append, List.append_assoc, List.singleton_append, List.nil_append] at e1 ⊢
    rw [e1]
    have e2 := hf.left P D pre (x :: (xs ++ [brk])) hpre (by
      intro t ht
      rcases List.mem_cons.mp ht with rfl | ht
      · exact hxx
      · exact hx' t ht)
    rw [e2]
    have := ih (x :: pre) (by
      intro t ht
      rcases List.mem_cons.mp ht with rfl | ht
      · exact hxx
      · exact hpre t ht) hx'
    simp only [List.append_assoc, List.singleton_append, List.cons_append, List.nil_append] at this
    rw [this, ← seqE_assoc]
    simp only [List.reverse_cons, List.append_assoc, List.singleton_append, List.reverse_append, List.reverse_nil, List.nil_append]

/-- the positions inside `D`: the break behind the cursor and what precedes it are invisible, then the
window moves with its text -/
theorem walkE_rightPart (f : WinFn) (hf : WinLocal f) (P D : List Char) (brk : Tok) (hb : brk.kind.isParagraphBreak = true)
    (rest : List Tok) (j : Nat) : ∀ (ds dpre : List Tok), (∀ t ∈ dpre, tokOK t = true) → (∀ t ∈ ds, tokOK t = true) →
      walkE (f (P ++ D)) (dpre.map (shTok P.length j) ++ brk :: rest) (ds.map (shTok P.length j)) =
        (walkE (f D) dpre ds).map (shiftRLs P.length) := by
  intro ds
  induction ds with
  | nil => intro _ _ _; rfl
  | cons d ds ih =>
    intro dpre hpre hds
    simp only [List.map_cons, walkE_cons]
    rw [hf.blindBefore (P ++ D) _ brk rest _ hb]
    have e := hf.right P D dpre (d :: ds) j hpre hds
    simp only [List.map_cons] at e
    rw [e]
    have := ih (d :: dpre) (by
      intro t ht
      rcases List.mem_cons.mp ht with rfl | ht
      · exact hds _ (by simp)
      · exact hpre t ht) (fun t ht => hds t (List.mem_cons_of_mem _ ht))
    simp only [List.map_cons, List.cons_append] at this
    rw [this]
    cases f D dpre (d :: ds) with
    | error e => rfl
    | ok a =>
      cases walkE (f D) (d :: dpre) ds with
      | error e => rfl
      | ok b => simp [seqE, Except.map, shiftRLs_append]

/-- **a rule that indexes the whole document, on two paragraphs**: if its window function is `WinLocal`,
the lints (and panics) on `P ++ D` are those on `P`, then those on `D` moved -/
theorem walkE_append (f : WinFn) (hf : WinLocal f) (P D : List Char) (A0 : List Tok) (brk : Tok)
    (hb : brk.kind.isParagraphBreak = true) (td : List Tok)
    (hin : ∀ t ∈ A0 ++ [brk], tokOK t = true ∧ t.span.stop ≤ P.length) (hd : ∀ t ∈ td, tokOK t = true) :
    walkE (f (P ++ D)) [] ((A0 ++ [brk]) ++ shiftDoc P.length (A0 ++ [brk]).length td) =
      joinE P.length (walkE (f P) [] (A0 ++ [brk])) (walkE (f D) [] td) := by
  rw [walkE_leftPart f hf P D brk hb _ A0 [] (by simp) hin]
  have e : (A0 ++ [brk]).reverse ++ [] = ([] : List Tok).map (shTok P.length (A0 ++ [brk]).length) ++ brk :: A0.reverse := by
    simp
  rw [e, shiftDoc_eq_map, walkE_rightPart f hf P D brk hb _ _ td [] (by simp) hd]
  cases walkE (f P) [] (A0 ++ [brk]) with
  | error e => rfl
  | ok a =>
    cases walkE (f D) [] td with
    | error e => rfl
    | ok b => rfl

/-- no panic and in-range lints at every position ⇒ for the walk -/
theorem walkE_ok (g : List Tok → List Tok → Except Panic (List RuleLint)) (n : Nat)
    (hg : ∀ pre suf, Ord n (pre.reverse ++ suf) → ∃ ls, g pre suf = .ok ls ∧ ∀ l ∈ ls, LintOK n l) :
    ∀ (suf pre : List Tok), Ord n (pre.reverse ++ suf) → ∃ ls, walkE g pre suf = .ok ls ∧ ∀ l ∈ ls, LintOK n l := by
  intro suf
  induction suf with
  | nil => intro _ _; exact ⟨[], rfl, by simp⟩
  | cons t ts ih =>
    intro pre ho
    obtain ⟨a, ea, ha⟩ := hg pre (t :: ts) ho
    obtain ⟨b, eb, hb⟩ := ih (t :: pre) (by simpa using ho)
    refine ⟨a ++ b, by simp only [walkE, ea, eb], ?_⟩
    intro x hx
    rcases List.mem_append.mp hx with hx | hx
    · exact ha x hx
    · exact hb x hx

/-! ## CommaFixes -/

theorem isComma_of_break {k : Kind} (h : k.isParagraphBreak = true) : isComma k = false := by
  cases k <;> simp_all [Kind.isParagraphBreak, isComma]

theorem isWord_of_break {k : Kind} (h : k.isParagraphBreak = true) : k.isWord = false := by
  cases k <;> simp_all [Kind.isParagraphBreak, Kind.isWord]

theorem isWhitespace_of_break {k : Kind} (h : k.isParagraphBreak = true) : k.isWhitespace = false := by
  cases k <;> simp_all [Kind.isParagraphBreak, Kind.isWhitespace]

theorem kcOf_break {t : Tok} (h : t.kind.isParagraphBreak = true) : kcOf (some t) = .other := by
  simp only [kcOf]
  cases hk : t.kind <;> simp_all [Kind.isParagraphBreak]

theorem kcOf_none : kcOf none = .other := rfl

theorem kcOf_shTok (k j : Nat) (o : Option Tok) : kcOf (o.map (shTok k j)) = kcOf o := by
  cases o with
  | none => rfl
  | some t =>
    simp only [Option.map_some, kcOf, shTok_kind]
    cases t.kind <;> try rfl
    rename_i q; cases q <;> rfl

/-- a neighbour that is neither a word, a blank nor unlintable hides the neighbour behind it … -/
theorem commaDecide_k1_other (k0 : KC) (c : CommaCh) (k3 k4 : KC) :
    commaDecide k0 .other c k3 k4 = commaDecide .other .other c k3 k4 := by
  cases k0 <;> cases c <;> cases k3 <;> cases k4 <;> rfl

theorem commaDecide_k3_other (k0 k1 : KC) (c : CommaCh) (k4 : KC) :
    commaDecide k0 k1 c .other k4 = commaDecide k0 k1 c .other .other := by
  cases k0 <;> cases k1 <;> cases c <;> cases k4 <;> rfl

/-- … and the lint is then on the comma itself -/
theorem commaDecide_k1_sel (k0 k1 : KC) (c : CommaCh) (k3 k4 : KC) (sel : CommaSpan) (sg : Sugg) (arg : Nat)
    (h : commaDecide k0 k1 c k3 k4 = some (sel, sg, arg)) (hs : sel ≠ .comma) : k1 = .space := by
  cases k0 <;> cases k1 <;> cases c <;> cases k3 <;> cases k4 <;> simp_all [commaDecide]

theorem commaAt_left (P D : List Char) (pre suf : List Tok) (h : ∀ t ∈ suf, tokOK t = true ∧ t.span.stop ≤ P.length) :
    commaAt (P ++ D) pre suf = commaAt P pre suf := by
  cases suf with
  | nil => rfl
  | cons c rest => simp only [commaAt, getContent_left' P D c.span (h c (by simp)).2]

theorem commaAt_right (P D : List Char) (pre suf : List Tok) (j : Nat) :
    commaAt (P ++ D) (pre.map (shTok P.length j)) (suf.map (shTok P.length j)) = (commaAt D pre suf).map (shiftRLs P.length) := by
  cases suf with
  | nil => rfl
  | cons c rest =>
    simp only [List.map_cons, commaAt, shTok_kind, isComma_shiftTwin, shTok_span, getContent_shift', List.getElem?_map, kcOf_shTok]
    split
    · rfl
    · cases c.span.getContent D with
      | error e => rfl
      | ok cs =>
        simp only []
        cases cs.head? with
        | none => rfl
        | some ch =>
          simp only []
          cases commaDecide (kcOf pre[1]?) (kcOf pre[0]?) (commaChOf ch) (kcOf rest[0]?) (kcOf rest[1]?) with
          | none => rfl
          | some r =>
            obtain ⟨sel, sg, arg⟩ := r
            cases sel with
            | comma => rfl
            | spaceBefore =>
              simp only []
              cases pre[0]? <;> rfl
            | spaceToComma =>
              simp only []
              cases pre[0]? with
              | none => rfl
              | some s =>
                simp only [Option.map_some, shTok_span, shiftSpan_start, shiftSpan_stop, spanNew_shift]
                cases Span.new s.span.start c.span.stop <;> rfl

theorem commaAt_blindAfter (src : List Char) (pre s : List Tok) (brk : Tok) (rest : List Tok)
    (hb : brk.kind.isParagraphBreak = true) : commaAt src pre (s ++ brk :: rest) = commaAt src pre (s ++ [brk]) := by
  cases s with
  | nil => simp only [List.nil_append, commaAt, isComma_of_break hb]; rfl
  | cons c s =>
    cases s with
    | nil =>
      simp only [List.cons_append, List.nil_append, commaAt, List.getElem?_cons_zero, List.getElem?_cons_succ, kcOf_break hb]
      have e : ∀ ch, commaDecide (kcOf pre[1]?) (kcOf pre[0]?) (commaChOf ch) .other (kcOf rest[0]?) =
          commaDecide (kcOf pre[1]?) (kcOf pre[0]?) (commaChOf ch) .other (kcOf ([] : List Tok)[0]?) := by
        intro ch
        rw [commaDecide_k3_other, List.getElem?_nil, kcOf_none]
      simp only [e]
    | cons x s =>
      cases s with
      | nil => simp only [List.cons_append, List.nil_append, commaAt, List.getElem?_cons_zero, List.getElem?_cons_succ]
      | cons y s => simp only [List.cons_append, commaAt, List.getElem?_cons_zero, List.getElem?_cons_succ]

theorem commaAt_blindBefore (src : List Char) (r : List Tok) (brk : Tok) (rest suf : List Tok)
    (hb : brk.kind.isParagraphBreak = true) : commaAt src (r ++ brk :: rest) suf = commaAt src r suf := by
  cases suf with
  | nil => rfl
  | cons c tl =>
    cases r with
    | nil =>
      simp only [List.nil_append, commaAt, List.getElem?_cons_zero, List.getElem?_cons_succ, List.getElem?_nil, kcOf_break hb]
      split
      · rfl
      · cases c.span.getContent src with
        | error e => rfl
        | ok cs =>
          simp only []
          cases cs.head? with
          | none => rfl
          | some ch =>
            simp only []
            rw [commaDecide_k1_other (kcOf rest[0]?)]
            simp only [kcOf_none]
            cases hd : commaDecide .other .other (commaChOf ch) (kcOf tl[0]?) (kcOf tl[1]?) with
            | none => rfl
            | some q =>
              obtain ⟨sel, sg, arg⟩ := q
              cases sel with
              | comma => rfl
              | spaceBefore => exact absurd (commaDecide_k1_sel _ _ _ _ _ _ _ _ hd (by decide)) (by decide)
              | spaceToComma => exact absurd (commaDecide_k1_sel _ _ _ _ _ _ _ _ hd (by decide)) (by decide)
    | cons x r =>
      cases r with
      | nil =>
        simp only [List.cons_append, List.nil_append, commaAt, List.getElem?_cons_zero, List.getElem?_cons_succ, List.getElem?_nil, kcOf_break hb,
          kcOf_none]
      | cons y r => simp only [List.cons_append, commaAt, List.getElem?_cons_zero, List.getElem?_cons_succ]

theorem commaFixes_winLocal : WinLocal commaAt where
  left := fun P D pre suf _ hs => commaAt_left P D pre suf hs
  right := fun P D pre suf j _ _ => commaAt_right P D pre suf j
  blindAfter := fun src pre s brk rest hb _ => commaAt_blindAfter src pre s brk rest hb
  blindBefore := fun src r brk rest suf hb => commaAt_blindBefore src r brk rest suf hb

/-- in a list in text order the token before the cursor ends before the token at the cursor starts -/
theorem ord_pre_suf {n : Nat} {p c : Tok} {pre suf : List Tok} (ho : Ord n ((p :: pre).reverse ++ c :: suf)) :
    p.span.stop ≤ c.span.start := by
  have h := ho.1
  simp only [List.reverse_cons, List.append_assoc, List.singleton_append] at h
  have h2 := (List.pairwise_append.mp h).2.1
  exact List.rel_of_pairwise_cons h2 (by simp)

theorem commaAt_ok (src : List Char) (pre suf : List Tok) (ho : Ord src.length (pre.reverse ++ suf)) :
    ∃ ls, commaAt src pre suf = .ok ls ∧ ∀ l ∈ ls, LintOK src.length l := by
  cases suf with
  | nil => exact ⟨[], rfl, by simp⟩
  | cons c rest =>
    have hc := ho.2 c (by simp)
    simp only [commaAt]
    split
    · exact ⟨[], rfl, by simp⟩
    · have hcont : c.span.getContent src = .ok (textOf src c.span) := getContent_textOf src c ⟨Nat.le_of_lt hc.1, hc.2⟩
      rw [hcont]
      simp only []
      have hne : (textOf src c.span).head? ≠ none := by
        have hl := textOf_length src c ⟨Nat.le_of_lt hc.1, hc.2⟩
        intro hh
        rw [List.head?_eq_none_iff] at hh
        rw [hh] at hl
        simp at hl
        omega
      cases hh : (textOf src c.span).head? with
      | none => exact absurd hh hne
      | some ch =>
        simp only []
        cases hd : commaDecide (kcOf pre[1]?) (kcOf pre[0]?) (commaChOf ch) (kcOf rest[0]?) (kcOf rest[1]?) with
        | none => exact ⟨[], rfl, by simp⟩
        | some q =>
          obtain ⟨sel, sg, arg⟩ := q
          have hk1 : sel ≠ .comma → kcOf pre[0]? = .space := fun hs => commaDecide_k1_sel _ _ _ _ _ _ _ _ hd hs
          cases sel with
          | comma => exact ⟨_, rfl, mem_singleton_lintOK (lintOK_tok hc)⟩
          | spaceBefore =>
            simp only []
            cases pre with
            | nil => have := hk1 (by decide); simp [kcOf_none] at this
            | cons s pre' =>
              simp only [List.getElem?_cons_zero]
              exact ⟨_, rfl, mem_singleton_lintOK (lintOK_tok (ho.2 s (by simp)))⟩
          | spaceToComma =>
            simp only []
            cases pre with
            | nil => have := hk1 (by decide); simp [kcOf_none] at this
            | cons s pre' =>
              simp only [List.getElem?_cons_zero]
              have hs := ho.2 s (by simp)
              have hsc := ord_pre_suf ho
              simp only [Span.new]
              rw [if_neg (by omega)]
              exact ⟨_, rfl, mem_singleton_lintOK ⟨by simp only []; omega, hc.2⟩⟩


/-! ## MergeWords -/

theorem mergeLint_shift (k : Nat) (cond : Bool) (a b : Tok) (j : Nat) (merged : List Char) (code : Nat) :
    mergeLint cond (shTok k j a) (shTok k j b) merged code = (mergeLint cond a b merged code).map (shiftRLs k) := by
  simp only [mergeLint, shTok_span, shiftSpan_start, shiftSpan_stop, spanNew_shift]
  split
  · cases Span.new a.span.start b.span.stop <;> rfl
  · rfl

theorem mergeAt_left (env : Env) (P D : List Char) (pre suf : List Tok) (h : ∀ t ∈ suf, tokOK t = true ∧ t.span.stop ≤ P.length) :
    mergeAt env (P ++ D) pre suf = mergeAt env P pre suf := by
  match suf, h with
  | [], _ => rfl
  | [_], _ => rfl
  | [_, _], _ => rfl
  | a :: w :: b :: _, h =>
    simp only [mergeAt, getContent_left' P D a.span (h a (by simp)).2, getContent_left' P D b.span (h b (by simp)).2]

theorem mergeAt_right (env : Env) (P D : List Char) (pre suf : List Tok) (j : Nat) :
    mergeAt env (P ++ D) (pre.map (shTok P.length j)) (suf.map (shTok P.length j)) = (mergeAt env D pre suf).map (shiftRLs P.length) := by
  match suf with
  | [] => rfl
  | [_] => rfl
  | [_, _] => rfl
  | a :: w :: b :: _ =>
    simp only [List.map_cons, mergeAt, shTok_kind, isWord_shiftTwin, isWhitespace_shiftTwin, shTok_span, getContent_shift', mergeLint_shift]
    split
    · rfl
    · cases a.span.getContent D with
      | error e => rfl
      | ok ac =>
        cases b.span.getContent D with
        | error e => rfl
        | ok bc =>
          simp only []
          split
          · rfl
          · split
            · rfl
            · cases mergeLint (textFlag env (ac ++ bc) 19 && (!textFlag env ac 19 || !textFlag env bc 19)) a b (ac ++ bc) 27 with
              | error e => rfl
              | ok l1 =>
                cases mergeLint (textFlag env (ac ++ '\'' :: bc) 19 && (!textFlag env ac 19 || !textFlag env bc 19)) a b (ac ++ '\'' :: bc) 28 with
                | error e => rfl
                | ok l2 => simp [Except.map, shiftRLs_append]

theorem mergeAt_blindAfter (env : Env) (src : List Char) (pre s : List Tok) (brk : Tok) (rest : List Tok)
    (hb : brk.kind.isParagraphBreak = true) : mergeAt env src pre (s ++ brk :: rest) = mergeAt env src pre (s ++ [brk]) := by
  match s with
  | [] =>
    cases rest with
    | nil => rfl
    | cons r1 rest =>
      cases rest with
      | nil => rfl
      | cons r2 rest => simp only [List.nil_append, mergeAt, isWord_of_break hb]; rfl
  | [a] =>
    cases rest with
    | nil => rfl
    | cons r1 rest => simp only [List.cons_append, List.nil_append, mergeAt, isWhitespace_of_break hb]; simp
  | [a, w] => simp only [List.cons_append, List.nil_append, mergeAt, isWord_of_break hb]
  | a :: w :: b :: s => simp only [List.cons_append, mergeAt]

theorem mergeWords_winLocal (env : Env) : WinLocal (mergeAt env) where
  left := fun P D pre suf _ hs => mergeAt_left env P D pre suf hs
  right := fun P D pre suf j _ _ => mergeAt_right env P D pre suf j
  blindAfter := fun src pre s brk rest hb _ => mergeAt_blindAfter env src pre s brk rest hb
  blindBefore := fun _ _ _ _ suf _ => by cases suf <;> rfl

theorem mergeLint_ok (n : Nat) (cond : Bool) (a b : Tok) (merged : List Char) (code : Nat)
    (h : a.span.start ≤ b.span.stop ∧ b.span.stop ≤ n) :
    ∃ ls, mergeLint cond a b merged code = .ok ls ∧ ∀ l ∈ ls, LintOK n l := by
  simp only [mergeLint, Span.new]
  split
  · rw [if_neg (by omega)]
    exact ⟨_, rfl, mem_singleton_lintOK ⟨h.1, h.2⟩⟩
  · exact ⟨[], rfl, by simp⟩

theorem ord_suf3 {n : Nat} {pre : List Tok} {a w b : Tok} {rest : List Tok} (ho : Ord n (pre.reverse ++ a :: w :: b :: rest)) :
    a.span.start ≤ b.span.stop ∧ b.span.stop ≤ n := by
  have hs : Ord n [a, b] := ho.sublist (by
    refine List.Sublist.trans ?_ (List.sublist_append_right _ _)
    exact List.Sublist.cons_cons _ (List.Sublist.cons _ (List.Sublist.cons_cons _ (List.nil_sublist _))))
  have h1 := List.rel_of_pairwise_cons hs.1 (List.mem_singleton.mpr rfl)
  have ha := hs.2 a (by simp)
  have hb := hs.2 b (by simp)
  omega

theorem mergeAt_ok (env : Env) (src : List Char) (pre suf : List Tok) (ho : Ord src.length (pre.reverse ++ suf)) :
    ∃ ls, mergeAt env src pre suf = .ok ls ∧ ∀ l ∈ ls, LintOK src.length l := by
  match suf, ho with
  | [], _ => exact ⟨[], rfl, by simp⟩
  | [_], _ => exact ⟨[], rfl, by simp⟩
  | [_, _], _ => exact ⟨[], rfl, by simp⟩
  | a :: w :: b :: rest, ho =>
    have ha := ho.2 a (by simp)
    have hb := ho.2 b (by simp)
    have hab := ord_suf3 ho
    simp only [mergeAt, getContent_textOf src a ⟨Nat.le_of_lt ha.1, ha.2⟩, getContent_textOf src b ⟨Nat.le_of_lt hb.1, hb.2⟩]
    split
    · exact ⟨[], rfl, by simp⟩
    · split
      · exact ⟨[], rfl, by simp⟩
      · split
        · exact ⟨[], rfl, by simp⟩
        · obtain ⟨l1, e1, h1⟩ := mergeLint_ok src.length (textFlag env (textOf src a.span ++ textOf src b.span) 19 &&
              (!textFlag env (textOf src a.span) 19 || !textFlag env (textOf src b.span) 19)) a b
              (textOf src a.span ++ textOf src b.span) 27 hab
          obtain ⟨l2, e2, h2⟩ := mergeLint_ok src.length (textFlag env (textOf src a.span ++ '\'' :: textOf src b.span) 19 &&
              (!textFlag env (textOf src a.span) 19 || !textFlag env (textOf src b.span) 19)) a b
              (textOf src a.span ++ '\'' :: textOf src b.span) 28 hab
          rw [e1, e2]
          refine ⟨l1 ++ l2, rfl, ?_⟩
          intro x hx
          rcases List.mem_append.mp hx with hx | hx
          · exact h1 x hx
          · exact h2 x hx


/-! ## AdjectiveOfA -/

theorem adjOfATail_left (P D : List Char) (adj : Tok) (adjc : List Char) (rest : List Tok)
    (h : ∀ t ∈ rest, tokOK t = true ∧ t.span.stop ≤ P.length) :
    adjOfATail (P ++ D) adj adjc rest = adjOfATail P adj adjc rest := by
  match rest, h with
  | [], _ => rfl
  | [_], _ => rfl
  | [_, _], _ => rfl
  | [_, _, _], _ => rfl
  | s1 :: wOf :: s2 :: a :: _, h =>
    simp only [adjOfATail, getContent_left' P D s1.span (h s1 (by simp)).2, getContent_left' P D wOf.span (h wOf (by simp)).2,
      getContent_left' P D s2.span (h s2 (by simp)).2, getContent_left' P D a.span (h a (by simp)).2]

theorem adjOfAAt_left (env : Env) (P D : List Char) (pre suf : List Tok) (h : ∀ t ∈ suf, tokOK t = true ∧ t.span.stop ≤ P.length) :
    adjOfAAt env (P ++ D) pre suf = adjOfAAt env P pre suf := by
  cases suf with
  | nil => rfl
  | cons adj rest =>
    have ha := (h adj (by simp)).2
    simp only [adjOfAAt, hasFlag_left env P D adj _ ha, getContent_left' P D adj.span ha,
      adjOfATail_left P D adj _ rest (fun t ht => h t (List.mem_cons_of_mem _ ht))]

theorem adjOfATail_right (P D : List Char) (adj : Tok) (adjc : List Char) (rest : List Tok) (j : Nat) :
    adjOfATail (P ++ D) (shTok P.length j adj) adjc (rest.map (shTok P.length j)) =
      (adjOfATail D adj adjc rest).map (shiftRLs P.length) := by
  match rest with
  | [] => rfl
  | [_] => rfl
  | [_, _] => rfl
  | [_, _, _] => rfl
  | s1 :: wOf :: s2 :: a :: _ =>
    simp only [List.map_cons, adjOfATail, shTok_kind, isWord_shiftTwin, isWhitespace_shiftTwin, shTok_span, getContent_shift',
      shiftSpan_start, shiftSpan_stop, spanNew_shift]
    split
    · rfl
    · split
      · rfl
      · cases wOf.span.getContent D with
        | error e => rfl
        | ok ofc =>
          simp only []
          split
          · rfl
          · split
            · rfl
            · split
              · rfl
              · cases a.span.getContent D with
                | error e => rfl
                | ok ac =>
                  simp only []
                  split
                  · rfl
                  · cases s1.span.getContent D with
                    | error e => rfl
                    | ok s1c =>
                      cases s2.span.getContent D with
                      | error e => rfl
                      | ok s2c =>
                        simp only []
                        cases Span.new adj.span.start a.span.stop <;> rfl

theorem adjOfAAt_right (env : Env) (P D : List Char) (pre suf : List Tok) (j : Nat) :
    adjOfAAt env (P ++ D) (pre.map (shTok P.length j)) (suf.map (shTok P.length j)) =
      (adjOfAAt env D pre suf).map (shiftRLs P.length) := by
  cases suf with
  | nil => rfl
  | cons adj rest =>
    simp only [List.map_cons, adjOfAAt, hasFlag_shift, shTok_span, getContent_shift', adjOfATail_right]
    split
    · rfl
    · cases adj.span.getContent D with
      | error e => rfl
      | ok adjc =>
        simp only []
        split
        · rfl
        · split
          · rfl
          · split <;> rfl

theorem getContent_ok_of_inSrc {src : List Char} {t : Tok} (h : InSrc src t) : t.span.getContent src = .ok (textOf src t.span) :=
  getContent_textOf src t h

/-- the window of five tokens does not see past a paragraph break (the words and blanks it asks for are
not breaks; the text of `of` is fetched before the break is reached: it must be in the text) -/
theorem adjOfATail_blindAfter (src : List Char) (adj : Tok) (adjc : List Char) (s : List Tok) (brk : Tok) (rest : List Tok)
    (hb : brk.kind.isParagraphBreak = true) (hs : ∀ t ∈ s, InSrc src t) :
    adjOfATail src adj adjc (s ++ brk :: rest) = adjOfATail src adj adjc (s ++ [brk]) := by
  match s, hs with
  | [], _ =>
    match rest with
    | [] => rfl
    | [_] => rfl
    | [_, _] => rfl
    | _ :: _ :: _ :: _ => simp only [List.nil_append, adjOfATail, isWhitespace_of_break hb]; rfl
  | [s1], _ =>
    match rest with
    | [] => rfl
    | [_] => rfl
    | _ :: _ :: _ =>
      simp only [List.cons_append, List.nil_append, adjOfATail, isWord_of_break hb]
      split <;> rfl
  | [s1, wOf], hs =>
    match rest with
    | [] => rfl
    | _ :: _ =>
      simp only [List.cons_append, List.nil_append, adjOfATail, isWhitespace_of_break hb, getContent_ok_of_inSrc (hs wOf (by simp))]
      split
      · rfl
      · split
        · rfl
        · split <;> rfl
  | [s1, wOf, s2], _ => simp only [List.cons_append, List.nil_append, adjOfATail]
  | s1 :: wOf :: s2 :: a :: _, _ => simp only [List.cons_append, adjOfATail]

theorem hasFlag_of_break (env : Env) (src : List Char) {t : Tok} (h : t.kind.isParagraphBreak = true) (bit : Nat) :
    hasFlag env src t bit = false := by
  simp only [hasFlag, isWord_of_break h, Bool.false_and]

theorem adjOfAAt_blindAfter (env : Env) (src : List Char) (pre s : List Tok) (brk : Tok) (rest : List Tok)
    (hb : brk.kind.isParagraphBreak = true) (hs : ∀ t ∈ s, InSrc src t) :
    adjOfAAt env src pre (s ++ brk :: rest) = adjOfAAt env src pre (s ++ [brk]) := by
  cases s with
  | nil => simp only [List.nil_append, adjOfAAt, hasFlag_of_break env src hb]; rfl
  | cons adj s =>
    simp only [List.cons_append, adjOfAAt, adjOfATail_blindAfter src adj _ s brk rest hb (fun t ht => hs t (List.mem_cons_of_mem _ ht))]

theorem adjectiveOfA_winLocal (env : Env) : WinLocal (adjOfAAt env) where
  left := fun P D pre suf _ hs => adjOfAAt_left env P D pre suf hs
  right := fun P D pre suf j _ _ => adjOfAAt_right env P D pre suf j
  blindAfter := fun src pre s brk rest hb hs => adjOfAAt_blindAfter env src pre s brk rest hb hs
  blindBefore := fun _ _ _ _ suf _ => by cases suf <;> rfl

theorem adjOfATail_ok (src : List Char) (adj : Tok) (adjc : List Char) (rest : List Tok)
    (ho : Ord src.length (adj :: rest)) :
    ∃ ls, adjOfATail src adj adjc rest = .ok ls ∧ ∀ l ∈ ls, LintOK src.length l := by
  match rest, ho with
  | [], _ => exact ⟨[], rfl, by simp⟩
  | [_], _ => exact ⟨[], rfl, by simp⟩
  | [_, _], _ => exact ⟨[], rfl, by simp⟩
  | [_, _, _], _ => exact ⟨[], rfl, by simp⟩
  | s1 :: wOf :: s2 :: a :: tl, ho =>
    have hin : ∀ t ∈ adj :: s1 :: wOf :: s2 :: a :: tl, InSrc src t := fun t ht => ⟨Nat.le_of_lt (ho.2 t ht).1, (ho.2 t ht).2⟩
    have hsp : adj.span.start ≤ a.span.stop ∧ a.span.stop ≤ src.length := by
      have hs : Ord src.length [adj, a] := ho.sublist (by
        exact List.Sublist.cons_cons _ (List.Sublist.cons _ (List.Sublist.cons _ (List.Sublist.cons _ (List.Sublist.cons_cons _ (List.nil_sublist _))))))
      have h1 := List.rel_of_pairwise_cons hs.1 (List.mem_singleton.mpr rfl)
      have ha := hs.2 adj (by simp)
      have hb := hs.2 a (by simp)
      omega
    have hnew : Span.new adj.span.start a.span.stop = .ok ⟨adj.span.start, a.span.stop⟩ := by
      have := hsp.1
      simp only [Span.new]
      rw [if_neg (by omega)]
    simp only [adjOfATail, getContent_ok_of_inSrc (hin s1 (by simp)), getContent_ok_of_inSrc (hin wOf (by simp)),
      getContent_ok_of_inSrc (hin s2 (by simp)), getContent_ok_of_inSrc (hin a (by simp)), hnew]
    split
    · exact ⟨[], rfl, by simp⟩
    · split
      · exact ⟨[], rfl, by simp⟩
      · split
        · exact ⟨[], rfl, by simp⟩
        · split
          · exact ⟨[], rfl, by simp⟩
          · split
            · exact ⟨[], rfl, by simp⟩
            · split
              · exact ⟨[], rfl, by simp⟩
              · exact ⟨_, rfl, mem_singleton_lintOK ⟨hsp.1, hsp.2⟩⟩

theorem adjOfAAt_ok (env : Env) (src : List Char) (pre suf : List Tok) (ho : Ord src.length (pre.reverse ++ suf)) :
    ∃ ls, adjOfAAt env src pre suf = .ok ls ∧ ∀ l ∈ ls, LintOK src.length l := by
  cases suf with
  | nil => exact ⟨[], rfl, by simp⟩
  | cons adj rest =>
    have ho' : Ord src.length (adj :: rest) := ho.sublist (List.sublist_append_right _ _)
    have ha := ho'.2 adj (by simp)
    simp only [adjOfAAt, getContent_textOf src adj ⟨Nat.le_of_lt ha.1, ha.2⟩]
    split
    · exact ⟨[], rfl, by simp⟩
    · split
      · exact ⟨[], rfl, by simp⟩
      · split
        · exact ⟨[], rfl, by simp⟩
        · split
          · exact ⟨[], rfl, by simp⟩
          · exact adjOfATail_ok src adj _ rest ho'


/-! ## InflectedVerbAfterTo -/

theorem thenE_map_shift (k : Nat) (a b : Except Panic (List RuleLint)) :
    thenE (a.map (shiftRLs k)) (b.map (shiftRLs k)) = (thenE a b).map (shiftRLs k) := by
  cases a with
  | error e => rfl
  | ok x =>
    cases b with
    | error e => rfl
    | ok y => simp [thenE, Except.map, shiftRLs_append]

theorem thenE_ok {n : Nat} {a b : Except Panic (List RuleLint)}
    (ha : ∃ ls, a = .ok ls ∧ ∀ l ∈ ls, LintOK n l) (hb : ∃ ls, b = .ok ls ∧ ∀ l ∈ ls, LintOK n l) :
    ∃ ls, thenE a b = .ok ls ∧ ∀ l ∈ ls, LintOK n l := by
  obtain ⟨x, rfl, hx⟩ := ha
  obtain ⟨y, rfl, hy⟩ := hb
  refine ⟨x ++ y, rfl, ?_⟩
  intro l hl
  rcases List.mem_append.mp hl with hl | hl
  · exact hx l hl
  · exact hy l hl

theorem checkStem_shift (env : Env) (ends : Bool) (k j : Nat) (prep word : Tok) (prepTo stem : List Char) :
    checkStem env ends (shTok k j prep) (shTok k j word) prepTo stem = (checkStem env ends prep word prepTo stem).map (shiftRLs k) := by
  simp only [checkStem, shTok_span, shiftSpan_start, shiftSpan_stop, spanNew_shift]
  split
  · cases Span.new prep.span.start word.span.stop <;> rfl
  · rfl

theorem inflectedAt_left (env : Env) (P D : List Char) (pre suf : List Tok) (h : ∀ t ∈ suf, tokOK t = true ∧ t.span.stop ≤ P.length) :
    inflectedAt env (P ++ D) pre suf = inflectedAt env P pre suf := by
  match suf, h with
  | [], _ => rfl
  | [_], _ => rfl
  | [_, _], _ => rfl
  | prep :: space :: word :: _, h =>
    have hp := (h prep (by simp)).2
    simp only [inflectedAt, hasFlag_left env P D prep 0 hp, getContent_left' P D prep.span hp,
      getContent_left' P D word.span (h word (by simp)).2]

theorem inflectedAt_right (env : Env) (P D : List Char) (pre suf : List Tok) (j : Nat) :
    inflectedAt env (P ++ D) (pre.map (shTok P.length j)) (suf.map (shTok P.length j)) =
      (inflectedAt env D pre suf).map (shiftRLs P.length) := by
  match suf with
  | [] => rfl
  | [_] => rfl
  | [_, _] => rfl
  | prep :: space :: word :: _ =>
    simp only [List.map_cons, inflectedAt, hasFlag_shift, shTok_kind, isWord_shiftTwin, isWhitespace_shiftTwin, shTok_span,
      getContent_shift', checkStem_shift]
    split
    · rfl
    · split
      · rfl
      · cases prep.span.getContent D with
        | error e => rfl
        | ok prepTo =>
          simp only []
          split
          · rfl
          · cases word.span.getContent D with
            | error e => rfl
            | ok chars =>
              simp only []
              split
              · rfl
              · simp only [thenE_map_shift]

theorem inflectedAt_blindAfter (env : Env) (src : List Char) (pre s : List Tok) (brk : Tok) (rest : List Tok)
    (hb : brk.kind.isParagraphBreak = true) : inflectedAt env src pre (s ++ brk :: rest) = inflectedAt env src pre (s ++ [brk]) := by
  match s with
  | [] =>
    match rest with
    | [] => rfl
    | [_] => rfl
    | _ :: _ :: _ => simp only [List.nil_append, inflectedAt, hasFlag_of_break env src hb]; rfl
  | [prep] =>
    match rest with
    | [] => rfl
    | _ :: _ =>
      simp only [List.cons_append, List.nil_append, inflectedAt, isWhitespace_of_break hb]
      split <;> rfl
  | [prep, space] => simp only [List.cons_append, List.nil_append, inflectedAt, isWord_of_break hb]
  | prep :: space :: word :: _ => simp only [List.cons_append, inflectedAt]

theorem inflectedVerbAfterTo_winLocal (env : Env) : WinLocal (inflectedAt env) where
  left := fun P D pre suf _ hs => inflectedAt_left env P D pre suf hs
  right := fun P D pre suf j _ _ => inflectedAt_right env P D pre suf j
  blindAfter := fun src pre s brk rest hb _ => inflectedAt_blindAfter env src pre s brk rest hb
  blindBefore := fun _ _ _ _ suf _ => by
    match suf with
    | [] => rfl
    | [_] => rfl
    | [_, _] => rfl
    | _ :: _ :: _ :: _ => rfl

theorem checkStem_ok (env : Env) (ends : Bool) (n : Nat) (prep word : Tok) (prepTo stem : List Char)
    (h : prep.span.start ≤ word.span.stop ∧ word.span.stop ≤ n) :
    ∃ ls, checkStem env ends prep word prepTo stem = .ok ls ∧ ∀ l ∈ ls, LintOK n l := by
  simp only [checkStem, Span.new]
  split
  · rw [if_neg (by omega)]
    exact ⟨_, rfl, mem_singleton_lintOK ⟨h.1, h.2⟩⟩
  · exact ⟨[], rfl, by simp⟩

theorem inflectedAt_ok (env : Env) (src : List Char) (pre suf : List Tok) (ho : Ord src.length (pre.reverse ++ suf)) :
    ∃ ls, inflectedAt env src pre suf = .ok ls ∧ ∀ l ∈ ls, LintOK src.length l := by
  match suf, ho with
  | [], _ => exact ⟨[], rfl, by simp⟩
  | [_], _ => exact ⟨[], rfl, by simp⟩
  | [_, _], _ => exact ⟨[], rfl, by simp⟩
  | prep :: space :: word :: rest, ho =>
    have hp := ho.2 prep (by simp)
    have hw := ho.2 word (by simp)
    have hpw := ord_suf3 ho
    have hnil : ∃ ls, (Except.ok [] : Except Panic (List RuleLint)) = .ok ls ∧ ∀ l ∈ ls, LintOK src.length l := ⟨[], rfl, by simp⟩
    simp only [inflectedAt, getContent_textOf src prep ⟨Nat.le_of_lt hp.1, hp.2⟩, getContent_textOf src word ⟨Nat.le_of_lt hw.1, hw.2⟩]
    split
    · exact hnil
    · split
      · exact hnil
      · split
        · exact hnil
        · split
          · exact hnil
          · exact thenE_ok (thenE_ok (checkStem_ok env _ _ prep word _ _ hpw) (checkStem_ok env _ _ prep word _ _ hpw))
              (thenE_ok (checkStem_ok env _ _ prep word _ _ hpw) (checkStem_ok env _ _ prep word _ _ hpw))

end Harper.Rules2
