import Harper.Model.Ignore
/-! Helper lemmas for C14 (`Harper/Props/C14.lean`), and the concrete witness data of the recorded finding. -/
namespace Harper.Ignore

theorem mem_insertCtx {s : IgnoreSet} {c c' : Context} :
    c' ∈ insertCtx s c ↔ c' ∈ s ∨ c' = c := by
  unfold insertCtx
  split
  · rename_i h
    have hm : c ∈ s := List.contains_iff_mem.mp h
    constructor
    · exact Or.inl
    · rintro (h | rfl)
      · exact h
      · exact hm
  · simp

theorem contains_insertCtx (s : IgnoreSet) (c c' : Context) :
    (insertCtx s c).contains c' = (s.contains c' || c' == c) := by
  rw [Bool.eq_iff_iff]
  simp [mem_insertCtx]

theorem mem_foldl_insertCtx (l : List Context) (s : IgnoreSet) (c : Context) :
    c ∈ l.foldl insertCtx s ↔ c ∈ s ∨ c ∈ l := by
  induction l generalizing s with
  | nil => simp
  | cons x xs ih =>
    simp only [List.foldl_cons, ih, mem_insertCtx, List.mem_cons]
    constructor
    · rintro ((h | h) | h)
      · exact Or.inl h
      · exact Or.inr (Or.inl h)
      · exact Or.inr (Or.inr h)
    · rintro (h | h | h)
      · exact Or.inl (Or.inl h)
      · exact Or.inl (Or.inr h)
      · exact Or.inr h

theorem nodup_insertCtx {s : IgnoreSet} (h : s.Nodup) (c : Context) : (insertCtx s c).Nodup := by
  unfold insertCtx
  split
  · exact h
  · rename_i hc
    have : c ∉ s := fun hm => hc (List.contains_iff_mem.mpr hm)
    rw [List.nodup_append]
    refine ⟨h, by simp, ?_⟩
    intro a ha b hb
    simp at hb
    subst hb
    intro hab
    subst hab
    exact this ha

theorem nodup_foldl_insertCtx (l : List Context) {s : IgnoreSet} (h : s.Nodup) :
    (l.foldl insertCtx s).Nodup := by
  induction l generalizing s with
  | nil => exact h
  | cons x xs ih => exact ih (nodup_insertCtx h x)

/-- inserting the elements of a duplicate-free list into the empty set rebuilds the list -/
theorem foldl_insertCtx_nodup (l : List Context) (s : IgnoreSet) (h : (s ++ l).Nodup) :
    l.foldl insertCtx s = s ++ l := by
  induction l generalizing s with
  | nil => simp
  | cons x xs ih =>
    have hx : x ∉ s := by
      intro hm
      rw [List.nodup_append] at h
      exact h.2.2 x hm x List.mem_cons_self rfl
    have hins : insertCtx s x = s ++ [x] := by
      unfold insertCtx
      rw [if_neg]
      intro hc; exact hx (List.contains_iff_mem.mp hc)
    simp only [List.foldl_cons, hins]
    rw [ih (s ++ [x]) (by simpa using h)]
    simp

theorem removeIgnored_eq_filter (s : IgnoreSet) (lints : List LintM) (toks : List Tok) :
    removeIgnored s lints toks = lints.filter (fun l => !isIgnored s l toks) := by
  unfold removeIgnored
  split
  · rename_i h
    have : s = [] := List.isEmpty_iff.mp h
    subst this
    simp only [isIgnored, List.contains_nil, Bool.not_false]
    exact (List.filter_eq_self.mpr (by simp)).symm
  · rfl

theorem isIgnored_congr {s s' : IgnoreSet} (h : ∀ c, c ∈ s ↔ c ∈ s') (l : LintM) (toks : List Tok) :
    isIgnored s l toks = isIgnored s' l toks := by
  unfold isIgnored
  rw [Bool.eq_iff_iff]
  simp [h]

theorem removeIgnored_congr {s s' : IgnoreSet} (h : ∀ c, c ∈ s ↔ c ∈ s') (lints : List LintM)
    (toks : List Tok) : removeIgnored s lints toks = removeIgnored s' lints toks := by
  rw [removeIgnored_eq_filter, removeIgnored_eq_filter]
  congr 1
  funext l
  rw [isIgnored_congr h]

theorem overlaps_shift (t : Tok) (d a b : Nat) :
    (t.shift d).overlaps (a + d) (b + d) = t.overlaps a b := by
  unfold Tok.overlaps Tok.shift
  simp

theorem fat_shift (t : Tok) (d : Nat) : (t.shift d).fat = t.fat := rfl

theorem fatsIn_shift (toks : List Tok) (d a b : Nat) :
    fatsIn (toks.map (Tok.shift d)) (a + d) (b + d) = fatsIn toks a b := by
  unfold fatsIn
  induction toks with
  | nil => rfl
  | cons t ts ih =>
    simp only [List.map_cons, List.filter_cons, overlaps_shift]
    split
    · simp only [List.map_cons, fat_shift]; rw [ih]
    · exact ih

theorem fatsIn_append (xs ys : List Tok) (a b : Nat) :
    fatsIn (xs ++ ys) a b = fatsIn xs a b ++ fatsIn ys a b := by
  simp [fatsIn]

theorem fatsIn_none (xs : List Tok) (a b : Nat) (h : ∀ t ∈ xs, t.overlaps a b = false) :
    fatsIn xs a b = [] := by
  unfold fatsIn
  rw [List.filter_eq_nil_iff.mpr]
  · rfl
  · intro t ht; simp [h t ht]

/-! ### The recorded finding's witness: the real tokens of `Well, "Ths" is bad.` before and after
`Hello there. ` is prepended (kinds as encoded by the harness; `[1,0,1,n]` = quote with
`twin_loc = Some n`), and the spelling lint on `Ths`. -/

def msgW : List Nat := [68,105,100,32,121,111,117,32,109,101,97,110,32,116,111,32,115,112,101,108,108,
  32,8220,84,104,115,8221,32,116,104,105,115,32,119,97,121,63]
def suggW : List (List Nat) := [[0,84,39,115],[0,84,104,39,115],[0,84,86,115]]

def toksW : List Tok := [
  ⟨[0,1],[87,101,108,108],0,4⟩, ⟨[1,2],[44],4,5⟩, ⟨[4,1],[32],5,6⟩, ⟨[1,0,1,5],[34],6,7⟩,
  ⟨[0,0],[84,104,115],7,10⟩, ⟨[1,0,1,3],[34],10,11⟩, ⟨[4,1],[32],11,12⟩, ⟨[0,3],[105,115],12,14⟩,
  ⟨[4,1],[32],14,15⟩, ⟨[0,1],[98,97,100],15,18⟩, ⟨[1,4],[46],18,19⟩]
def lintW : LintM := ⟨0, 7, 10, 0, suggW, msgW, 63⟩

def toksW' : List Tok := [
  ⟨[0,5],[72,101,108,108,111],0,5⟩, ⟨[4,1],[32],5,6⟩, ⟨[0,6],[116,104,101,114,101],6,11⟩,
  ⟨[1,4],[46],11,12⟩, ⟨[4,1],[32],12,13⟩,
  ⟨[0,1],[87,101,108,108],13,17⟩, ⟨[1,2],[44],17,18⟩, ⟨[4,1],[32],18,19⟩, ⟨[1,0,1,10],[34],19,20⟩,
  ⟨[0,0],[84,104,115],20,23⟩, ⟨[1,0,1,8],[34],23,24⟩, ⟨[4,1],[32],24,25⟩, ⟨[0,3],[105,115],25,27⟩,
  ⟨[4,1],[32],27,28⟩, ⟨[0,1],[98,97,100],28,31⟩, ⟨[1,4],[46],31,32⟩]
def lintW' : LintM := ⟨0, 20, 23, 0, suggW, msgW, 63⟩

/-! ### Witness of `c14-after-window-from-start`: the real tokens of `more than 4$.` before and
after ` Thanks.` is appended, and the "spell out numbers" lint on `4` (one character long). -/

def msgA : List Nat := [84,114,121,32,116,111,32,115,112,101,108,108,32,111,117,116,32,110,117,109,98,
  101,114,115,32,108,101,115,115,32,116,104,97,110,32,116,101,110,46]
def toksA : List Tok := [
  ⟨[0,1],[109,111,114,101],0,4⟩, ⟨[4,1],[32],4,5⟩, ⟨[0,2],[116,104,97,110],5,9⟩, ⟨[4,1],[32],9,10⟩,
  ⟨[3,3],[52],10,11⟩, ⟨[1,4],[36],11,12⟩, ⟨[1,5],[46],12,13⟩]
def addedA : List Tok := [⟨[4,1],[32],13,14⟩, ⟨[0,6],[84,104,97,110,107,115],14,20⟩, ⟨[1,5],[46],20,21⟩]
def lintA : LintM := ⟨1, 10, 11, 6, [[0,102,111,117,114]], msgA, 63⟩

end Harper.Ignore

namespace Harper.Ignore

/-! ### w26-s7: "only that lint" — membership after one / several `ignore_lint` calls -/

theorem isIgnored_iff_mem {s : IgnoreSet} {l : LintM} {toks : List Tok} :
    isIgnored s l toks = true ↔ contextOf l toks ∈ s := by
  unfold isIgnored
  exact List.contains_iff_mem

theorem isIgnored_eq_false_iff {s : IgnoreSet} {l : LintM} {toks : List Tok} :
    isIgnored s l toks = false ↔ contextOf l toks ∉ s := by
  rw [← isIgnored_iff_mem]
  cases isIgnored s l toks <;> simp

/-- the master equation of `ignore_lint` followed by `is_ignored` (any two documents) -/
theorem isIgnored_ignoreLint (s : IgnoreSet) (l₁ l₂ : LintM) (toks₁ toks₂ : List Tok) :
    isIgnored (ignoreLint s l₁ toks₁) l₂ toks₂
      = (isIgnored s l₂ toks₂ || decide (contextOf l₂ toks₂ = contextOf l₁ toks₁)) := by
  rw [Bool.eq_iff_iff]
  simp [isIgnored, ignoreLint, mem_insertCtx]

/-- several `ignore_lint` calls in a row (same document) -/
theorem mem_foldl_ignoreLint (ls : List LintM) (toks : List Tok) (s : IgnoreSet) (c : Context) :
    c ∈ ls.foldl (fun s l => ignoreLint s l toks) s ↔ c ∈ s ∨ ∃ l ∈ ls, c = contextOf l toks := by
  induction ls generalizing s with
  | nil => simp
  | cons x xs ih =>
    rw [List.foldl_cons, ih]
    simp only [ignoreLint, mem_insertCtx, List.mem_cons]
    constructor
    · rintro ((h | h) | ⟨l, hl, h⟩)
      · exact Or.inl h
      · exact Or.inr ⟨x, Or.inl rfl, h⟩
      · exact Or.inr ⟨l, Or.inr hl, h⟩
    · rintro (h | ⟨l, rfl | hl, h⟩)
      · exact Or.inl (Or.inl h)
      · exact Or.inl (Or.inr h)
      · exact Or.inr ⟨l, hl, h⟩

/-- several `ignore_lint` calls are one `append` of their contexts -/
theorem foldl_ignoreLint_eq_append (ls : List LintM) (toks : List Tok) (s : IgnoreSet) :
    ls.foldl (fun s l => ignoreLint s l toks) s = append s (ls.map (contextOf · toks)) := by
  unfold append ignoreLint
  rw [List.foldl_map]

/-- the lints the ids of `ids` stand for, in the order listed (unknown ids dropped) -/
def idLints (lints : List LintM) (ids : List Nat) : List LintM :=
  ids.filterMap (fun i => lints.find? (·.id == i))

theorem ignoreIds_eq_foldl (lints : List LintM) (toks : List Tok) (ids : List Nat) (s : IgnoreSet) :
    ignoreIds s lints toks ids = (idLints lints ids).foldl (fun s l => ignoreLint s l toks) s := by
  induction ids generalizing s with
  | nil => rfl
  | cons i is ih =>
    unfold ignoreIds idLints
    rw [List.filterMap_cons]
    cases h : lints.find? (·.id == i) with
    | none => simp only []; rw [ih]; rfl
    | some l => simp only [List.foldl_cons]; rw [ih]; rfl

theorem mem_idLints {lints : List LintM} {ids : List Nat} {l : LintM} :
    l ∈ idLints lints ids ↔ ∃ i ∈ ids, lints.find? (·.id == i) = some l := by
  simp [idLints, List.mem_filterMap]

/-- a lint picked by id is one of the lints and carries that id -/
theorem idLints_sub {lints : List LintM} {ids : List Nat} {l : LintM} (h : l ∈ idLints lints ids) :
    l ∈ lints ∧ l.id ∈ ids := by
  obtain ⟨i, hi, hf⟩ := mem_idLints.mp h
  have h1 := List.mem_of_find?_eq_some hf
  have h2 := List.find?_some hf
  have : l.id = i := by simpa using h2
  exact ⟨h1, this ▸ hi⟩

theorem mem_ignoreIds (lints : List LintM) (toks : List Tok) (ids : List Nat) (s : IgnoreSet)
    (c : Context) :
    c ∈ ignoreIds s lints toks ids ↔ c ∈ s ∨ ∃ l ∈ idLints lints ids, c = contextOf l toks := by
  rw [ignoreIds_eq_foldl, mem_foldl_ignoreLint]

/-! ### w26-s7 witness data: twins inside one document. `a thier a thier` — the same misspelling
twice with the same neighbours (kinds as the harness encodes them: `[0,k]` word, `[4,1]` space). -/

def toksT : List Tok := [⟨[0,1],[97],0,1⟩, ⟨[4,1],[32],1,2⟩, ⟨[0,0],[116,104,105,101,114],2,7⟩,
  ⟨[4,1],[32],7,8⟩, ⟨[0,1],[97],8,9⟩, ⟨[4,1],[32],9,10⟩, ⟨[0,0],[116,104,105,101,114],10,15⟩]
/-- spelling lint on the first `thier` -/
def lintT₁ : LintM := ⟨0, 2, 7, 0, [[0,116,104,101,105,114]], [63], 63⟩
/-- spelling lint on the second `thier`: other id, other span, everything hashed equal -/
def lintT₂ : LintM := ⟨1, 10, 15, 0, [[0,116,104,101,105,114]], [63], 63⟩
/-- a third lint on the second `thier` with another message (e.g. another rule) -/
def lintT₃ : LintM := ⟨2, 10, 15, 3, [], [64], 31⟩

/-- `teh cat. teh cat.`: the same misspelling twice, but the first one starts the document —
`pulled_by(2)` is `None` there, its context has no tokens before it -/
def toksU : List Tok := [⟨[0,0],[116,101,104],0,3⟩, ⟨[4,1],[32],3,4⟩, ⟨[0,1],[99,97,116],4,7⟩,
  ⟨[1,4],[46],7,8⟩, ⟨[4,1],[32],8,9⟩, ⟨[0,0],[116,101,104],9,12⟩, ⟨[4,1],[32],12,13⟩,
  ⟨[0,1],[99,97,116],13,16⟩, ⟨[1,4],[46],16,17⟩]
def lintU₁ : LintM := ⟨0, 0, 3, 0, [[0,116,104,101]], [63], 63⟩
def lintU₂ : LintM := ⟨1, 9, 12, 0, [[0,116,104,101]], [63], 63⟩

end Harper.Ignore
