import Harper.Model.Wasm
import Harper.Props.C13
import Harper.Props.C14
/-! Helper lemmas for C16 (`Harper/Props/C16.lean`): how the parts of `Linter::lint` compose. -/
namespace Harper.Wasm
open Harper Harper.Ignore

/-! ### `dedup` = `remove_overlaps` on positions, looked up again -/

theorem filterMap_congr_mem {α β} {f g : α → Option β} {l : List α} (h : ∀ x ∈ l, f x = g x) :
    l.filterMap f = l.filterMap g := by
  induction l with
  | nil => rfl
  | cons x xs ih =>
    simp only [List.filterMap_cons, h x List.mem_cons_self]
    rw [ih (fun y hy => h y (List.mem_cons_of_mem _ hy))]

theorem mem_toOv {raw : List RawLint} {o : Harper.Lint} (h : o ∈ toOv raw) :
    ∃ l, raw[o.id]? = some l ∧ l.start = o.s ∧ l.stop = o.e := by
  unfold toOv at h
  obtain ⟨p, hp, rfl⟩ := List.mem_map.mp h
  exact ⟨p.1, List.mem_zipIdx_iff_getElem?.mp hp, rfl, rfl⟩

/-- looking every position up again gives the raw list back -/
theorem toOv_lookup (raw : List RawLint) : (toOv raw).filterMap (fun o => raw[o.id]?) = raw := by
  unfold toOv
  rw [List.filterMap_map]
  have : raw.zipIdx.filterMap ((fun o : Harper.Lint => raw[o.id]?) ∘
      (fun p : RawLint × Nat => (⟨p.1.start, p.1.stop, p.2⟩ : Harper.Lint)))
      = raw.zipIdx.filterMap (some ∘ Prod.fst) := by
    apply filterMap_congr_mem
    intro p hp
    simpa using List.mem_zipIdx_iff_getElem?.mp hp
  rw [this, List.filterMap_eq_map, List.zipIdx_map_fst]

theorem toOv_wf {raw : List RawLint} (h : ∀ l ∈ raw, l.start ≤ l.stop) : ∀ o ∈ toOv raw, o.s ≤ o.e := by
  intro o ho
  obtain ⟨l, hl, hs, he⟩ := mem_toOv ho
  have := h l (List.mem_of_getElem? hl)
  omega

/-- nothing invented: a sub-list of a permutation (the stable sort) of the raw lints -/
theorem dedup_sublist_perm (raw : List RawLint) : ∃ p, p.Perm raw ∧ (dedup raw).Sublist p := by
  obtain ⟨s, hp, hs⟩ := C13.removeOverlaps_sublist_of_perm (toOv raw)
  refine ⟨s.filterMap (fun o => raw[o.id]?), ?_, ?_⟩
  · have := hp.filterMap (fun o => raw[o.id]?)
    rwa [toOv_lookup] at this
  · unfold dedup
    exact hs.filterMap _

theorem dedup_mem {raw : List RawLint} {l : RawLint} (h : l ∈ dedup raw) : l ∈ raw := by
  obtain ⟨p, hp, hs⟩ := dedup_sublist_perm raw
  exact hp.mem_iff.mp (hs.subset h)

/-- the survivors are pairwise disjoint, in output order -/
theorem dedup_disjoint (raw : List RawLint) (hwf : ∀ l ∈ raw, l.start ≤ l.stop) :
    (dedup raw).Pairwise (fun a b => a.stop ≤ b.start) := by
  unfold dedup
  rw [List.pairwise_filterMap]
  have hd := C13.removeOverlaps_disjoint (toOv raw) (toOv_wf hwf)
  refine List.Pairwise.imp_of_mem ?_ hd
  intro a b ha hb hab x hx y hy
  obtain ⟨la, hla, _, hae⟩ := mem_toOv (C13.removeOverlaps_subset _ a ha)
  obtain ⟨lb, hlb, hbs, _⟩ := mem_toOv (C13.removeOverlaps_subset _ b hb)
  rw [hla] at hx; rw [hlb] at hy
  cases hx; cases hy
  omega

/-! ### w26: `dedup` against the STABLE SORT of the group's lints (C13's strong theorems carried to raw lints) -/

/-- the group's raw lints in the order `remove_overlaps` sorts them before its sweep: the stable
`sort_by_key(|l| (l.span.start, !0 - l.span.end))` of C13 (`isort`), each position looked up again -/
def sortedRaw (raw : List RawLint) : List RawLint :=
  (isort (toOv raw)).filterMap (fun o => raw[o.id]?)

/-- it is a permutation of the raw lints … -/
theorem sortedRaw_perm (raw : List RawLint) : (sortedRaw raw).Perm raw := by
  have := (isort_perm (toOv raw)).filterMap (fun o => raw[o.id]?)
  rwa [toOv_lookup] at this

/-- … sorted by start, longer first among equal starts … -/
theorem sortedRaw_sorted (raw : List RawLint) :
    (sortedRaw raw).Pairwise (fun a b => a.start < b.start ∨ (a.start = b.start ∧ b.stop ≤ a.stop)) := by
  unfold sortedRaw
  rw [List.pairwise_filterMap]
  refine List.Pairwise.imp_of_mem ?_ (C13.isort_key_sorted (toOv raw))
  intro a b ha hb hab x hx y hy
  obtain ⟨la, hla, has, hae⟩ := mem_toOv ((isort_perm _).mem_iff.mp ha)
  obtain ⟨lb, hlb, hbs, hbe⟩ := mem_toOv ((isort_perm _).mem_iff.mp hb)
  rw [hla] at hx; rw [hlb] at hy
  cases hx; cases hy
  omega

theorem filterMap_filter_of_agree {α β} (f : α → Option β) (p : α → Bool) (q : β → Bool) (l : List α)
    (h : ∀ x ∈ l, ∃ y, f x = some y ∧ q y = p x) :
    (l.filterMap f).filter q = (l.filter p).filterMap f := by
  induction l with
  | nil => rfl
  | cons x xs ih =>
    obtain ⟨y, hy, hq⟩ := h x List.mem_cons_self
    have ih' := ih (fun z hz => h z (List.mem_cons_of_mem _ hz))
    cases hp : p x
    · simp [List.filterMap_cons, hy, List.filter_cons, hq, hp, ih']
    · simp [List.filterMap_cons, hy, List.filter_cons, hq, hp, ih']

/-- … and stable: lints with the same span keep their order in the group's output. With `sortedRaw_perm` and
`sortedRaw_sorted` this pins `sortedRaw raw` as THE stable sort of the raw lints by `(start, !0 - end)`. -/
theorem sortedRaw_stable (raw : List RawLint) (s e : Nat) :
    (sortedRaw raw).filter (fun l => l.start == s && l.stop == e)
      = raw.filter (fun l => l.start == s && l.stop == e) := by
  have key : ∀ L : List Harper.Lint, (∀ o ∈ L, o ∈ toOv raw) →
      (L.filterMap (fun o => raw[o.id]?)).filter (fun l => l.start == s && l.stop == e)
        = (L.filter (fun y => y.s == s && y.e == e)).filterMap (fun o => raw[o.id]?) := by
    intro L hL
    apply filterMap_filter_of_agree
    intro o ho
    obtain ⟨l, hl, hs, he⟩ := mem_toOv (hL o ho)
    exact ⟨l, hl, by rw [hs, he]⟩
  unfold sortedRaw
  rw [key _ (fun o ho => (isort_perm _).mem_iff.mp ho), C13.isort_stable,
    ← key _ (fun o ho => ho), toOv_lookup]

/-- **`remove_overlaps` on raw lints keeps a SUB-LIST of the stably sorted group output** (nothing invented,
altered or reordered beyond the sort) -/
theorem dedup_sublist_sortedRaw (raw : List RawLint) : (dedup raw).Sublist (sortedRaw raw) :=
  (C13.removeOverlaps_sublist_isort (toOv raw)).filterMap _

/-- the survivors are pairwise disjoint whatever the spans look like (no well-formedness needed) -/
theorem dedup_disjoint_any (raw : List RawLint) :
    (dedup raw).Pairwise (fun a b => a.stop ≤ b.start) := by
  unfold dedup
  rw [List.pairwise_filterMap]
  refine List.Pairwise.imp_of_mem ?_ (C13.removeOverlaps_disjoint_any (toOv raw))
  intro a b ha hb hab x hx y hy
  obtain ⟨la, hla, _, hae⟩ := mem_toOv (C13.removeOverlaps_subset _ a ha)
  obtain ⟨lb, hlb, hbs, _⟩ := mem_toOv (C13.removeOverlaps_subset _ b hb)
  rw [hla] at hx; rw [hlb] at hy
  cases hx; cases hy
  omega

theorem toOv_of_mem {raw : List RawLint} {d : RawLint} (h : d ∈ raw) :
    ∃ o ∈ toOv raw, raw[o.id]? = some d ∧ o.s = d.start ∧ o.e = d.stop := by
  obtain ⟨i, hi, rfl⟩ := List.mem_iff_getElem.mp h
  refine ⟨⟨raw[i].start, raw[i].stop, i⟩, ?_, by simp [hi], rfl, rfl⟩
  unfold toOv
  refine List.mem_map.mpr ⟨(raw[i], i), ?_, rfl⟩
  exact List.mem_zipIdx_iff_getElem?.mpr (by simp [hi])

/-- every raw lint survives `remove_overlaps` or starts inside (or at the start of) a survivor -/
theorem dedup_kept_or_covered (raw : List RawLint) :
    ∀ d ∈ raw, d ∈ dedup raw ∨ ∃ k ∈ dedup raw, k.start ≤ d.start ∧ d.start < k.stop := by
  intro d hd
  obtain ⟨o, ho, hod, hs, he⟩ := toOv_of_mem hd
  rcases C13.kept_or_starts_inside_kept (toOv raw) o ho with hk | ⟨k, hk, h1, h2⟩
  · exact Or.inl (List.mem_filterMap.mpr ⟨o, hk, hod⟩)
  · obtain ⟨l, hl, hls, hle⟩ := mem_toOv (C13.removeOverlaps_subset _ k hk)
    exact Or.inr ⟨l, List.mem_filterMap.mpr ⟨k, hk, hl⟩, by omega, by omega⟩

/-! ### `attach` -/

theorem getContent_inrange {α} (sp : Span) (src : List α) (h1 : sp.start ≤ sp.stop)
    (h2 : sp.stop ≤ src.length) :
    sp.getContent src = .ok ((src.drop sp.start).take (sp.stop - sp.start)) := by
  unfold Span.getContent
  have hn : ¬ sp.start > sp.stop := by omega
  rw [if_neg hn]
  split
  · rename_i h
    have he : sp.stop = sp.start := by omega
    simp [he]
  · rfl

/-- whenever `get_content` does not panic, it returns the characters at the span -/
theorem getContent_ok {α} (sp : Span) (src t : List α) (h : sp.getContent src = .ok t) :
    t = (src.drop sp.start).take (sp.stop - sp.start) := by
  unfold Span.getContent at h
  split at h
  · cases h
  · split at h
    · split at h
      · rename_i he
        have : sp.stop = sp.start := by simpa using he
        cases h
        simp [this]
      · cases h
    · cases h; rfl

theorem attachAll_spec (text : List Nat) (lang : Nat) (ls : List RawLint) (ws : List WLint)
    (h : attachAll text lang ls = .ok ws) :
    ws.map (·.lint) = ls ∧
    ∀ w ∈ ws, w.lang = lang ∧
      w.problemText = (text.drop w.lint.start).take (w.lint.stop - w.lint.start) := by
  induction ls generalizing ws with
  | nil => simp only [attachAll] at h; cases h; simp
  | cons l ls ih =>
    simp only [attachAll] at h
    split at h
    · cases h
    · rename_i w hw
      split at h
      · cases h
      · rename_i ws' hws'
        cases h
        obtain ⟨e1, e2⟩ := ih ws' hws'
        unfold attach at hw
        split at hw
        · rename_i t ht
          cases hw
          refine ⟨by simp [e1], ?_⟩
          intro w hw
          rcases List.mem_cons.mp hw with rfl | hw
          · exact ⟨rfl, getContent_ok _ _ _ ht⟩
          · exact e2 w hw
        · cases hw

theorem attachAll_inrange (text : List Nat) (lang : Nat) (ls : List RawLint)
    (h : ∀ l ∈ ls, l.start ≤ l.stop ∧ l.stop ≤ text.length) :
    ∃ ws, attachAll text lang ls = .ok ws := by
  induction ls with
  | nil => exact ⟨[], rfl⟩
  | cons l ls ih =>
    obtain ⟨ws, hws⟩ := ih (fun x hx => h x (List.mem_cons_of_mem _ hx))
    have ⟨h1, h2⟩ := h l List.mem_cons_self
    refine ⟨⟨l, (text.drop l.start).take (l.stop - l.start), lang⟩ :: ws, ?_⟩
    simp only [attachAll, attach, getContent_inrange ⟨l.start, l.stop⟩ text h1 h2, hws]

theorem attachAll_filter (text : List Nat) (lang : Nat) (p : RawLint → Bool) (ls : List RawLint)
    (ws : List WLint) (h : attachAll text lang ls = .ok ws) :
    attachAll text lang (ls.filter p) = .ok (ws.filter (fun w => p w.lint)) := by
  induction ls generalizing ws with
  | nil => simp only [attachAll] at h; cases h; rfl
  | cons l ls ih =>
    simp only [attachAll] at h
    split at h
    · cases h
    · rename_i w hw
      split at h
      · cases h
      · rename_i ws' hws'
        cases h
        have hwl : w.lint = l := by
          unfold attach at hw
          split at hw
          · cases hw; rfl
          · cases hw
        have ih' := ih ws' hws'
        by_cases hp : p l = true
        · simp only [List.filter_cons, hp, if_true, hwl, attachAll, hw, ih']
        · simp only [List.filter_cons, hp, hwl]
          exact ih'

/-! ### the ignore set as seen by `lint` -/

theorem lintCore_congr {s s' : IgnoreSet} (h : ∀ c, c ∈ s ↔ c ∈ s') (text : List Nat) (lang : Nat)
    (raw : List RawLint) (toks : List Tok) :
    lintCore s text lang raw toks = lintCore s' text lang raw toks := by
  unfold lintCore
  rw [removeIgnored_congr h]

/-- one more ignored context = one more filter on the result -/
theorem removeIgnored_insert (s : IgnoreSet) (c : Context) (lints : List LintM) (toks : List Tok) :
    removeIgnored (insertCtx s c) lints toks
      = (removeIgnored s lints toks).filter (fun l => contextOf l toks != c) := by
  rw [C14.removeIgnored_exact, C14.removeIgnored_exact, List.filter_filter]
  apply List.filter_congr
  intro l _
  by_cases h1 : contextOf l toks = c <;> by_cases h2 : contextOf l toks ∈ s <;>
    simp [mem_insertCtx, h1, h2]

theorem mem_append_importL (s : IgnoreSet) (p : List Context) (c : Context) :
    c ∈ Ignore.append s (importL p) ↔ c ∈ s ∨ c ∈ p := by
  unfold Ignore.append importL
  simp [mem_foldl_insertCtx]

/-! ### user dictionary -/

def keys (m : List Word) : List Nat := m.map (·.key)

theorem any_key_iff (m : List Word) (k : Nat) : m.any (·.key == k) = true ↔ k ∈ keys m := by
  unfold keys
  constructor
  · intro h
    obtain ⟨x, hx, he⟩ := List.any_eq_true.mp h
    exact List.mem_map.mpr ⟨x, hx, by simpa using he⟩
  · intro h
    obtain ⟨x, hx, he⟩ := List.mem_map.mp h
    exact List.any_eq_true.mpr ⟨x, hx, by simp [he]⟩

theorem keys_replace (m : List Word) (w : Word) :
    keys (m.map (fun x => if x.key == w.key then w else x)) = keys m := by
  unfold keys
  rw [List.map_map]
  apply List.map_congr_left
  intro x _
  by_cases h : x.key = w.key <;> simp [h]

theorem keys_insertWord (m : List Word) (w : Word) :
    keys (insertWord m w) = if w.key ∈ keys m then keys m else keys m ++ [w.key] := by
  unfold insertWord
  by_cases h : w.key ∈ keys m
  · rw [if_pos ((any_key_iff m w.key).mpr h), if_pos h, keys_replace]
  · rw [if_neg (fun hc => h ((any_key_iff m w.key).mp hc)), if_neg h]
    simp [keys]

theorem length_insertWord (m : List Word) (w : Word) :
    (insertWord m w).length = if w.key ∈ keys m then m.length else m.length + 1 := by
  have := congrArg List.length (keys_insertWord m w)
  by_cases h : w.key ∈ keys m
  · rw [if_pos h] at this ⊢
    simpa [keys] using this
  · rw [if_neg h] at this ⊢
    simpa [keys] using this

theorem nodup_keys_insertWord {m : List Word} (h : (keys m).Nodup) (w : Word) :
    (keys (insertWord m w)).Nodup := by
  rw [keys_insertWord]
  split
  · exact h
  · rename_i hk
    rw [List.nodup_append]
    refine ⟨h, by simp, ?_⟩
    intro a ha b hb
    simp at hb
    subst hb
    intro hab
    subst hab
    exact hk ha

/-- `extend_words` only ever appends new keys: the old keys stay, in their slots -/
theorem keys_foldl_insertWord (ws m : List Word) :
    ∃ extra, keys (ws.foldl insertWord m) = keys m ++ extra := by
  induction ws generalizing m with
  | nil => exact ⟨[], by simp⟩
  | cons w ws ih =>
    obtain ⟨ex, hex⟩ := ih (insertWord m w)
    rw [List.foldl_cons, hex, keys_insertWord]
    split
    · exact ⟨ex, rfl⟩
    · exact ⟨w.key :: ex, by simp⟩

theorem nodup_keys_foldl {m : List Word} (h : (keys m).Nodup) (ws : List Word) :
    (keys (ws.foldl insertWord m)).Nodup := by
  induction ws generalizing m with
  | nil => exact h
  | cons w ws ih => exact ih (nodup_keys_insertWord h w)

/-- importing words whose keys are all new and distinct appends them as they are -/
theorem foldl_insertWord_fresh (ws m : List Word) (h : (keys (m ++ ws)).Nodup) :
    ws.foldl insertWord m = m ++ ws := by
  induction ws generalizing m with
  | nil => simp
  | cons w ws ih =>
    have hw : w.key ∉ keys m := by
      intro hm
      simp only [keys, List.map_append, List.map_cons] at h
      rw [List.nodup_append] at h
      exact h.2.2 _ hm _ List.mem_cons_self rfl
    have hins : insertWord m w = m ++ [w] := by
      unfold insertWord
      rw [if_neg (fun hc => hw ((any_key_iff m w.key).mp hc))]
    rw [List.foldl_cons, hins, ih (m ++ [w]) (by simpa using h)]
    simp

/-! ### config -/

def ckeys (c : Config) : List Nat := c.map (·.1)

theorem ckeys_setRule (c : Config) (k : Nat) (v : Bool) :
    ckeys (setRule c k v) = if k ∈ ckeys c then ckeys c else ckeys c ++ [k] := by
  unfold setRule
  by_cases h : k ∈ ckeys c
  · have : c.any (·.1 == k) = true := by
      simp only [ckeys, List.mem_map] at h
      obtain ⟨x, hx, rfl⟩ := h
      exact List.any_eq_true.mpr ⟨x, hx, by simp⟩
    rw [if_pos this, if_pos h]
    unfold ckeys
    rw [List.map_map]
    apply List.map_congr_left
    intro x _
    by_cases hx : x.1 = k <;> simp [hx]
  · have : ¬ c.any (·.1 == k) = true := by
      intro hc
      obtain ⟨x, hx, he⟩ := List.any_eq_true.mp hc
      exact h (List.mem_map.mpr ⟨x, hx, by simpa using he⟩)
    rw [if_neg this, if_neg h]
    simp [ckeys]

theorem nodup_ckeys_setRule {c : Config} (h : (ckeys c).Nodup) (k : Nat) (v : Bool) :
    (ckeys (setRule c k v)).Nodup := by
  rw [ckeys_setRule]
  split
  · exact h
  · rename_i hk
    rw [List.nodup_append]
    refine ⟨h, by simp, ?_⟩
    intro a ha b hb
    simp at hb
    subst hb
    intro hab
    subst hab
    exact hk ha

theorem nodup_ckeys_merge {c : Config} (h : (ckeys c).Nodup) (es : List (Nat × Option Bool)) :
    (ckeys (mergeConfig c es)).Nodup := by
  induction es generalizing c with
  | nil => exact h
  | cons e es ih =>
    obtain ⟨k, v⟩ := e
    cases v with
    | none => exact ih h
    | some v => exact ih (nodup_ckeys_setRule h k v)

/-- merging a duplicate-free list of `Some` entries with new keys appends them as they are -/
theorem mergeConfig_fresh (d c : Config) (h : (ckeys (c ++ d)).Nodup) :
    mergeConfig c (d.map (fun e => (e.1, some e.2))) = c ++ d := by
  induction d generalizing c with
  | nil => simp [mergeConfig]
  | cons e d ih =>
    have hk : e.1 ∉ ckeys c := by
      intro hm
      simp only [ckeys, List.map_append, List.map_cons] at h
      rw [List.nodup_append] at h
      exact h.2.2 _ hm _ List.mem_cons_self rfl
    have hset : setRule c e.1 e.2 = c ++ [e] := by
      unfold setRule
      have : ¬ c.any (·.1 == e.1) = true := by
        intro hc
        obtain ⟨x, hx, he⟩ := List.any_eq_true.mp hc
        exact hk (List.mem_map.mpr ⟨x, hx, by simpa using he⟩)
      rw [if_neg this]
    simp only [List.map_cons, mergeConfig, hset]
    rw [ih (c ++ [e]) (by simpa using h)]
    simp

/-! ### which alternative is in force -/

theorem sameDict_congr_right (a x y : List (List Nat)) (h : ∀ w, w ∈ x ↔ w ∈ y) :
    sameDict a x = sameDict a y := by
  unfold sameDict
  rw [Bool.eq_iff_iff]
  simp only [Bool.and_eq_true, List.all_eq_true, List.contains_iff_mem, h]

theorem find?_congr_pred {α} {p q : α → Bool} (l : List α) (h : ∀ x, p x = q x) :
    l.find? p = l.find? q := by
  have : p = q := funext h
  rw [this]

theorem pickAlt_congr (x y : List Word) (alts : List Alt)
    (h : ∀ w, w ∈ x.map (·.chars) ↔ w ∈ y.map (·.chars)) : pickAlt x alts = pickAlt y alts := by
  unfold pickAlt
  exact find?_congr_pred alts (fun a => sameDict_congr_right a.dict _ _ h)

/-! ### vocabulary of the property statements of `Harper/Props/C16.lean` -/

/-- the raw lints handed over with a `lint` call are well formed and point into the text -/
def RawOK (text : List Nat) (a : Alt) : Prop :=
  ∀ l ∈ a.raw, l.start ≤ l.stop ∧ l.stop ≤ text.length

instance (text : List Nat) (a : Alt) : Decidable (RawOK text a) := by
  unfold RawOK; exact inferInstance

/-- `P` holds of every call of the sequence and what it returned -/
def AllCalls (P : Op → Out → Prop) (s : State) (ops : List Op) : Prop :=
  ∀ op out, (op, out) ∈ ops.zip (run s ops) → P op out

/-- clause "the lints returned lie inside the text and do not overlap", of one call -/
def InboundsDisjoint : Op → Out → Prop
  | .lint text _ alts, out =>
    (∀ a ∈ alts, RawOK text a) →
      out = .noAlt ∨ ∃ ls, out = .lints ls ∧
        (∀ w ∈ ls, w.lint.start ≤ w.lint.stop ∧ w.lint.stop ≤ text.length) ∧
        ls.Pairwise (fun a b => a.lint.stop ≤ b.lint.start)
  | _, _ => True

/-- clause "… and carry as problem text exactly the characters at their span", of one call
(no hypothesis: whenever `lint` returns at all) -/
def ProblemTextIsSpan : Op → Out → Prop
  | .lint text lang _, .lints ls =>
    ∀ w ∈ ls, w.lang = lang ∧
      w.problemText = (text.drop w.lint.start).take (w.lint.stop - w.lint.start)
  | _, _ => True

/-- clause "nothing invented", of one call: the returned lints are a sub-list of a permutation of
the raw lints of one of the supplied alternatives, none of them ignored -/
def SublistOfRaw (ig : IgnoreSet) : Op → Out → Prop
  | .lint _ _ alts, .lints ls =>
    ∃ a ∈ alts, (∃ p, p.Perm a.raw ∧ (ls.map (·.lint)).Sublist p) ∧
      ∀ w ∈ ls, contextOf w.lint a.toks ∉ ig
  | _, _ => True

/-- clause "applying a suggestion through the API returns the text with only that span edited" -/
def ApplyIsLocal : Op → Out → Prop
  | .apply text sp sugg, out =>
    sp.start ≤ sp.stop → sp.stop ≤ text.length →
      ∃ t, out = .text t ∧
        t = text.take sp.start ++ sugg.newText ((text.drop sp.start).take (sp.stop - sp.start))
              ++ text.drop sp.stop ∧
        t.take sp.start = text.take sp.start ∧
        t.drop (t.length - (text.length - sp.stop)) = text.drop sp.stop
  | _, _ => True

/-- calls that leave the ignore list and both word lists alone -/
def quiet : Op → Bool
  | .lint .. | .apply .. | .exportIgnored | .exportWords | .setConfig _ | .getConfig | .statsCount => true
  | _ => false

/-- … whereas the other order (`remove_ignored` first — NOT what `lib.rs` does; this definition
exists only to name the mutant the harness's oracle is sized for) would make B appear out of
nowhere once A is ignored. -/
def lintCoreSwapped (ig : IgnoreSet) (text : List Nat) (lang : Nat) (raw : List RawLint)
    (toks : List Tok) : Except Panic (List WLint) :=
  attachAll text lang (dedup (removeIgnored ig raw toks))

/-- what every reachable state satisfies: no duplicate in the ignore list; one entry per `WordId`
in the user dictionary; the dictionary in force has the SAME KEYS in the same slots as the user
dictionary — it can only be stale in the spelling (case) of an entry, never in which words it
knows; one entry per rule in the config -/
def Inv (s : State) : Prop :=
  s.ignored.Nodup ∧ (keys s.userWords).Nodup ∧ keys s.synced = keys s.userWords ∧
  (ckeys s.config).Nodup

instance (s : State) : Decidable (Inv s) := by unfold Inv; exact inferInstance

/-- the dictionary in force IS the user dictionary -/
def InSync (s : State) : Prop := s.synced = s.userWords

instance (s : State) : Decidable (InSync s) := by unfold InSync; exact inferInstance

/-! ### witness data of the examples and counter-histories of `Harper/Props/C16.lean` -/
namespace Wit

/-- text `abcdef`, one word token; raw lints A = [0,5) and B = [3,6) overlap -/
def textAB : List Nat := [97, 98, 99, 100, 101, 102]
def toksAB : List Tok := [⟨[0, 0], [97, 98, 99, 100, 101, 102], 0, 6⟩]
def A : RawLint := ⟨1, 0, 5, 0, [], [65], 31⟩
def B : RawLint := ⟨2, 3, 6, 1, [], [66], 31⟩
def altsAB : List Alt := [⟨[], [A, B], toksAB⟩]

/-- `zqxv` / `Zqxv`: one `WordId` (key 7), two spellings; the text `zqxv` is accepted under the
dictionary `{zqxv}` and flagged (lint `L`) under `{Zqxv}` -/
def z : Word := ⟨7, [122, 113, 120, 118]⟩
def Z : Word := ⟨7, [90, 113, 120, 118]⟩
def textZ : List Nat := [122, 113, 120, 118]
def toksZ : List Tok := [⟨[0, 0], [122, 113, 120, 118], 0, 4⟩]
def L : RawLint := ⟨1, 0, 4, 0, [[0, 90, 113, 120, 118]], [63], 63⟩
def altsZ : List Alt := [⟨[[122, 113, 120, 118]], [], toksZ⟩, ⟨[[90, 113, 120, 118]], [L], toksZ⟩]
def staleState : State := final init [.importWords [z], .importWords [Z]]
def freshState : State := (step init (.importWords staleState.userWords)).1

/-- text `abcdef gh`: A' = [0,5) with a suggestion, B = [3,6) overlapping it, C = [7,9) -/
def textC : List Nat := [97, 98, 99, 100, 101, 102, 32, 103, 104]
def toksC : List Tok := [⟨[0, 0], [97, 98, 99, 100, 101, 102], 0, 6⟩, ⟨[4, 1], [32], 6, 7⟩,
  ⟨[0, 0], [103, 104], 7, 9⟩]
def A' : RawLint := ⟨1, 0, 5, 0, [[0, 88]], [65], 31⟩
def C : RawLint := ⟨3, 7, 9, 0, [[2]], [67], 63⟩
def altsC : List Alt := [⟨[], [C, B, A'], toksC⟩]

/-- text `ab ab ab ab ac`: three lints with one payload on the 2nd, 3rd and 4th word. P and Q have
the same context (same tokens under and around them), R's after-window holds `ac` -/
def textP : List Nat := [97, 98, 32, 97, 98, 32, 97, 98, 32, 97, 98, 32, 97, 99]
def toksP : List Tok := [⟨[0, 0], [97, 98], 0, 2⟩, ⟨[4, 1], [32], 2, 3⟩, ⟨[0, 0], [97, 98], 3, 5⟩,
  ⟨[4, 1], [32], 5, 6⟩, ⟨[0, 0], [97, 98], 6, 8⟩, ⟨[4, 1], [32], 8, 9⟩, ⟨[0, 0], [97, 98], 9, 11⟩,
  ⟨[4, 1], [32], 11, 12⟩, ⟨[0, 0], [97, 99], 12, 14⟩]
def P : RawLint := ⟨1, 3, 5, 0, [], [65], 31⟩
def Q : RawLint := ⟨1, 6, 8, 0, [], [65], 31⟩
def R : RawLint := ⟨1, 9, 11, 0, [], [65], 31⟩
def altsP : List Alt := [⟨[], [P, Q, R], toksP⟩]

/-- text `an zqxw`: the a/an lint `N` on `an` (its after-window [2,4) holds the space and `zqxw`)
and the spelling lint `S` on `zqxw`. Under the dictionary `{zqxw}` the token `zqxw` carries
dictionary metadata (kind `[0,2]` instead of `[0,0]`) and `S` is no longer raised. -/
def textN : List Nat := [97, 110, 32, 122, 113, 120, 119]
def wN : Word := ⟨5, [122, 113, 120, 119]⟩
def toksN0 : List Tok := [⟨[0, 1], [1], 0, 2⟩, ⟨[4, 1], [2], 2, 3⟩, ⟨[0, 0], [3], 3, 7⟩]
def toksN1 : List Tok := [⟨[0, 1], [1], 0, 2⟩, ⟨[4, 1], [2], 2, 3⟩, ⟨[0, 2], [3], 3, 7⟩]
def N : RawLint := ⟨1, 0, 2, 0, [[9]], [65], 31⟩
def S : RawLint := ⟨2, 3, 7, 1, [[8]], [66], 63⟩
def altsN : List Alt := [⟨[], [N, S], toksN0⟩, ⟨[[122, 113, 120, 119]], [N], toksN1⟩]

end Wit

end Harper.Wasm
