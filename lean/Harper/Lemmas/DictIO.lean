import Harper.Model.DictIO
import Harper.Lemmas.Stats
/-! Helper lemmas for C07 (dictionary files, the in-memory word map, the merged accept test). -/
namespace Harper.DictIO
open Harper.Spell Harper.Stats

/-! ### the predicates the property theorems are stated with -/

/-- what `str::lines` needs to give a word back: no line feed inside, no carriage return at the end.
(The empty word and words made of spaces DO survive: `load_dict` neither trims nor filters.) -/
abbrev WellFormedWord (w : Word) : Prop := '\n' ∉ w ∧ w.getLast? ≠ some '\r'

abbrev WellFormed (ws : List Word) : Prop := ∀ w ∈ ws, WellFormedWord w

/-- what a map keyed by `WordId` guarantees -/
abbrev UniqueKeys (f : Fns) (ws : List Word) : Prop :=
  ws.Pairwise (fun a b => key f a ≠ key f b)

/-- the file reloads to well-formed words (true of every file written by `save_dict` from
well-formed words; false e.g. for a hand-edited file containing `\r\r\n`) -/
abbrev Clean (f : Fns) (d : Disk) : Prop := WellFormed (loadOrEmpty f d)

/-! ### bytes and chunks -/

theorem utf8Len_pos (c : Char) : 0 < utf8Len c := by
  unfold utf8Len; simp only; split <;> (try split) <;> (try split) <;> omega

theorem byteLen_eq_zero (cs : List Char) (h : byteLen cs = 0) : cs = [] := by
  cases cs with
  | nil => rfl
  | cons c cs => have := utf8Len_pos c; simp [byteLen] at h; omega

theorem pieces_flatten (ws : List Word) : (pieces ws).flatten = writeLog ws := by
  induction ws with
  | nil => rfl
  | cons w ws ih => simp [pieces, writeLog, ih]

theorem flushed_flatten (buf : List Char) :
    (if buf.isEmpty then ([] : List (List Char)) else [buf]).flatten = buf := by
  cases buf <;> simp

/-- the `write` syscalls carry exactly the pieces, in order, whatever the buffer capacity -/
theorem chunkGo_flatten (cap : Nat) (ps : List (List Char)) :
    ∀ buf, (chunkGo cap buf ps).flatten = buf ++ ps.flatten := by
  induction ps with
  | nil => intro buf; simp only [chunkGo, flushed_flatten, List.flatten_nil, List.append_nil]
  | cons p ps ih =>
    intro buf
    simp only [chunkGo]
    split
    · split
      · rw [List.flatten_append, flushed_flatten, List.flatten_cons, ih]; simp
      · rw [List.flatten_append, flushed_flatten, ih]; simp
    · split
      · rename_i h1 h2
        have hb : buf = [] := byteLen_eq_zero buf (by omega)
        subst hb
        rw [List.flatten_cons, ih]; simp
      · rw [ih]; simp

theorem chunks_flatten (ws : List Word) : (chunks ws).flatten = writeLog ws := by
  unfold chunks
  rw [chunkGo_flatten bufCap, pieces_flatten]; rfl

/-- no `write` syscall is empty -/
theorem chunkGo_ne_nil (cap : Nat) (hcap : 0 < cap) (ps : List (List Char)) :
    ∀ buf, ∀ c ∈ chunkGo cap buf ps, c ≠ [] := by
  induction ps with
  | nil =>
    intro buf c hc
    simp only [chunkGo] at hc
    cases buf with
    | nil => simp at hc
    | cons b bs => simp at hc; simp [hc]
  | cons p ps ih =>
    intro buf c hc
    have hfl : ∀ c ∈ (if buf.isEmpty then ([] : List (List Char)) else [buf]), c ≠ [] := by
      intro c hc
      cases buf with
      | nil => simp at hc
      | cons b bs => simp at hc; simp [hc]
    simp only [chunkGo] at hc
    split at hc
    · split at hc
      · rename_i h1 h2
        rcases List.mem_append.mp hc with h | h
        · exact hfl c h
        · rcases List.mem_cons.mp h with rfl | h
          · intro hp; subst hp; simp [byteLen] at h2; omega
          · exact ih [] c h
      · rcases List.mem_append.mp hc with h | h
        · exact hfl c h
        · exact ih p c h
    · split at hc
      · rename_i h1 h2
        rcases List.mem_cons.mp hc with rfl | h
        · intro hp; subst hp; simp [byteLen] at h2; omega
        · exact ih buf c h
      · exact ih _ c hc

theorem run_writes (cs : List (List Char)) :
    ∀ a t, run (cs.map Sys.write ++ [Sys.close]) (.file a t) = .file (a ++ cs.flatten) t := by
  induction cs with
  | nil => intro a t; simp [run, exec]
  | cons c cs ih =>
    intro a t
    have := ih (a ++ c) t
    simp only [run] at this ⊢
    simp only [List.map_cons, List.cons_append, List.foldl_cons, exec, this, List.flatten_cons,
      List.append_assoc]

/-- a completed `save_dict` leaves exactly `word ⏎ word ⏎ …` in the file, whatever was there -/
theorem run_saveTrace (ws : List Word) (d : Disk) :
    run (saveTrace ws) d = .file (writeLog ws) false := by
  have h := run_writes (chunks ws) [] false
  simp only [run] at h ⊢
  simp only [saveTrace, List.foldl_cons, exec, h, chunks_flatten, List.nil_append]

theorem takeBytes_all (cs : List Char) : ∀ j, byteLen cs ≤ j → takeBytes cs j = (cs, false) := by
  induction cs with
  | nil => intro j _; rfl
  | cons c cs ih =>
    intro j h
    have hp := utf8Len_pos c
    simp only [byteLen] at h
    have h0 : j ≠ 0 := by omega
    have h1 : utf8Len c ≤ j := by omega
    simp only [takeBytes, h0, if_false, h1, if_true, ih (j - utf8Len c) (by omega)]

theorem takeBytes_zero (cs : List Char) : takeBytes cs 0 = ([], false) := by
  cases cs <;> simp [takeBytes]

/-! ### the word map -/

theorem mem_insert_self (f : Fns) (w : Word) (d : List Word) : w ∈ insert f w d := by
  induction d with
  | nil => simp [insert]
  | cons e d ih => simp only [insert]; split <;> simp [ih]

theorem mem_of_mem_insert (f : Fns) (w x : Word) (d : List Word) (h : x ∈ insert f w d) :
    x = w ∨ x ∈ d := by
  induction d with
  | nil => simp [insert] at h; exact Or.inl h
  | cons e d ih =>
    simp only [insert] at h
    split at h
    · rcases List.mem_cons.mp h with h | h
      · exact Or.inl h
      · exact Or.inr (List.mem_cons_of_mem _ h)
    · rcases List.mem_cons.mp h with h | h
      · exact Or.inr (by simp [h])
      · rcases ih h with h | h
        · exact Or.inl h
        · exact Or.inr (List.mem_cons_of_mem _ h)

theorem mem_insert_of_ne (f : Fns) (w x : Word) (d : List Word) (hx : x ∈ d)
    (hk : key f x ≠ key f w) : x ∈ insert f w d := by
  induction d with
  | nil => cases hx
  | cons e d ih =>
    simp only [insert]
    rcases List.mem_cons.mp hx with rfl | hx
    · have : (key f x == key f w) = false := beq_eq_false_iff_ne.mpr hk
      simp [this]
    · split
      · exact List.mem_cons_of_mem _ hx
      · exact List.mem_cons_of_mem _ (ih hx)

/-- under unique keys, an entry other than the inserted word survives only with another key -/
theorem key_ne_of_mem_insert (f : Fns) (w x : Word) (d : List Word) (hu : UniqueKeys f d)
    (h : x ∈ insert f w d) : x = w ∨ (x ∈ d ∧ key f x ≠ key f w) := by
  induction d with
  | nil => simp [insert] at h; exact Or.inl h
  | cons e d ih =>
    have ⟨h1, h2⟩ := List.pairwise_cons.mp hu
    simp only [insert] at h
    split at h
    · rename_i hk
      have hk : key f e = key f w := by simpa using hk
      rcases List.mem_cons.mp h with h | h
      · exact Or.inl h
      · exact Or.inr ⟨List.mem_cons_of_mem _ h, fun hx => h1 x h (hk.trans hx.symm)⟩
    · rename_i hk
      have hk : key f e ≠ key f w := by simpa using hk
      rcases List.mem_cons.mp h with h | h
      · exact Or.inr ⟨by simp [h], by rw [h]; exact hk⟩
      · rcases ih h2 h with h | ⟨h, hne⟩
        · exact Or.inl h
        · exact Or.inr ⟨List.mem_cons_of_mem _ h, hne⟩

theorem uniqueKeys_insert (f : Fns) (w : Word) (d : List Word) (hu : UniqueKeys f d) :
    UniqueKeys f (insert f w d) := by
  induction d with
  | nil => simp [insert, UniqueKeys]
  | cons e d ih =>
    have ⟨h1, h2⟩ := List.pairwise_cons.mp hu
    simp only [insert]
    split
    · rename_i hk
      have hk : key f e = key f w := by simpa using hk
      exact List.pairwise_cons.mpr ⟨fun x hx => by rw [← hk]; exact h1 x hx, h2⟩
    · rename_i hk
      have hk : key f e ≠ key f w := by simpa using hk
      refine List.pairwise_cons.mpr ⟨fun x hx => ?_, ih h2⟩
      rcases mem_of_mem_insert f w x d hx with rfl | hx
      · exact hk
      · exact h1 x hx

theorem insert_fresh (f : Fns) (w : Word) (d : List Word) (h : ∀ e ∈ d, key f e ≠ key f w) :
    insert f w d = d ++ [w] := by
  induction d with
  | nil => rfl
  | cons e d ih =>
    have : (key f e == key f w) = false := beq_eq_false_iff_ne.mpr (h e (by simp))
    simp only [insert, this, List.cons_append]
    rw [ih (fun x hx => h x (List.mem_cons_of_mem _ hx))]
    simp

theorem uniqueKeys_insertAll (f : Fns) (ws : List Word) :
    ∀ d, UniqueKeys f d → UniqueKeys f (insertAll f d ws) := by
  induction ws with
  | nil => intro d h; exact h
  | cons w ws ih => intro d h; exact ih _ (uniqueKeys_insert f w d h)

theorem uniqueKeys_loadWords (f : Fns) (s : List Char) : UniqueKeys f (loadWords f s) :=
  uniqueKeys_insertAll f _ [] List.Pairwise.nil

theorem uniqueKeys_loadOrEmpty (f : Fns) (d : Disk) : UniqueKeys f (loadOrEmpty f d) := by
  unfold loadOrEmpty loadDict
  cases readToString d with
  | none => exact List.Pairwise.nil
  | some s => exact uniqueKeys_loadWords f s

/-- words with pairwise different keys are stored one after the other -/
theorem insertAll_unique (f : Fns) (ws : List Word) :
    ∀ d, UniqueKeys f (d ++ ws) → insertAll f d ws = d ++ ws := by
  induction ws with
  | nil => intro d _; simp [insertAll]
  | cons w ws ih =>
    intro d h
    have hfresh : ∀ e ∈ d, key f e ≠ key f w := by
      intro e he
      have := List.pairwise_append.mp h
      exact this.2.2 e he w (by simp)
    have h' : UniqueKeys f ((d ++ [w]) ++ ws) := by simpa using h
    have := ih (d ++ [w]) h'
    simp only [insertAll, List.foldl_cons] at this ⊢
    rw [insert_fresh f w d hfresh, this]; simp

theorem loadWords_writeLog (f : Fns) (ws : List Word) (hw : WellFormed ws)
    (hu : UniqueKeys f ws) : loadWords f (writeLog ws) = ws := by
  unfold loadWords
  rw [lines_writeLog ws hw]
  simpa using insertAll_unique f ws [] (by simpa using hu)

theorem wellFormed_insert (f : Fns) (w : Word) (d : List Word) (hd : WellFormed d)
    (hw : WellFormedWord w) : WellFormed (insert f w d) := by
  intro x hx
  rcases mem_of_mem_insert f w x d hx with rfl | hx
  · exact hw
  · exact hd x hx

theorem orderOf_perm (ord d : List Word) : (orderOf ord d).Perm d := by
  unfold orderOf
  split
  · rename_i h; exact List.isPerm_iff.mp h
  · exact List.Perm.refl _

theorem uniqueKeys_perm (f : Fns) {a b : List Word} (p : a.Perm b) (h : UniqueKeys f b) :
    UniqueKeys f a :=
  (p.pairwise_iff (fun h => Ne.symm h)).mpr h

theorem wellFormed_perm {a b : List Word} (p : a.Perm b) (h : WellFormed b) : WellFormed a :=
  fun w hw => h w (p.mem_iff.mp hw)

/-- one `HarperAddToUserDict` on a clean file: the file then reloads to exactly the sequence that
was written, which is a permutation of (old dictionary with `w` inserted) -/
theorem add_reload (f : Fns) (disk : Disk) (w : Word) (ord : List Word) (hc : Clean f disk)
    (hw : WellFormedWord w) :
    loadDict f (run (saveTrace (savedWords f disk w ord)) disk) = some (savedWords f disk w ord) ∧
    (savedWords f disk w ord).Perm (insert f w (loadOrEmpty f disk)) ∧
    UniqueKeys f (savedWords f disk w ord) ∧ WellFormed (savedWords f disk w ord) := by
  have hp := orderOf_perm ord (insert f w (loadOrEmpty f disk))
  have hu : UniqueKeys f (savedWords f disk w ord) :=
    uniqueKeys_perm f hp (uniqueKeys_insert f w _ (uniqueKeys_loadOrEmpty f disk))
  have hwf : WellFormed (savedWords f disk w ord) :=
    wellFormed_perm hp (wellFormed_insert f w _ hc hw)
  refine ⟨?_, hp, hu, hwf⟩
  rw [run_saveTrace]
  simp [loadDict, readToString, loadWords_writeLog f _ hwf hu]

theorem loadOrEmpty_of_loadDict {f : Fns} {d : Disk} {ws : List Word}
    (h : loadDict f d = some ws) : loadOrEmpty f d = ws := by
  simp [loadOrEmpty, h]

/-! ### lookup / accept on word lists -/

theorem lookup_entries_of_mem (f : Fns) (d : List Word) (hu : UniqueKeys f d) (w : Word)
    (hw : w ∈ d) (q : Word) (hk : key f q = key f w) :
    lookup f (entries d) q = some ⟨w, true⟩ := by
  induction d with
  | nil => cases hw
  | cons e d ih =>
    have ⟨h1, h2⟩ := List.pairwise_cons.mp hu
    unfold lookup entries
    rw [List.map_cons, List.find?_cons]
    rcases List.mem_cons.mp hw with rfl | hw'
    · have : (key f w == key f q) = true := by rw [hk]; exact beq_self_eq_true _
      simp [this]
    · have hne : (key f e == key f q) = false := by
        rw [hk]; exact beq_eq_false_iff_ne.mpr (h1 w hw')
      simp only [hne]
      exact ih h2 hw'

theorem lookup_entries_none (f : Fns) (d : List Word) (q : Word)
    (h : ∀ e ∈ d, key f e ≠ key f q) : lookup f (entries d) q = none := by
  unfold lookup entries
  rw [List.find?_eq_none]
  intro e he
  obtain ⟨x, hx, rfl⟩ := List.mem_map.mp he
  simpa using h x hx

theorem lookup_entries_dialectOk (f : Fns) (d : List Word) (q : Word) (e : Entry)
    (h : lookup f (entries d) q = some e) : e.dialectOk = true := by
  have := List.mem_of_find?_eq_some h
  obtain ⟨x, _, rfl⟩ := List.mem_map.mp this
  rfl

theorem containsExact_entries (f : Fns) (d : List Word) (hu : UniqueKeys f d) (w : Word)
    (hw : w ∈ d) (hn : f.normalize w = w) : containsExact f (entries d) w = true := by
  unfold containsExact
  rw [hn, lookup_entries_of_mem f d hu w hw w rfl]
  simp

/-- a word of the user dictionary, listed in normalized form, whose key the curated dictionary
either lacks or admits for the active dialect, is not reported -/
theorem acceptM_of_user (f : Fns) (cur : List Entry) (u : List Word) (rest : List (List Entry))
    (hu : UniqueKeys f u) (w : Word) (hw : w ∈ u) (hn : f.normalize w = w)
    (hcur : ∀ e, lookup f cur w = some e → e.dialectOk = true) :
    acceptM f (cur :: entries u :: rest) w = true := by
  have hx : containsExactM f (cur :: entries u :: rest) w = true := by
    simp [containsExactM, containsExact_entries f u hu w hw hn]
  unfold acceptM lookupM
  cases hc : lookup f cur w with
  | some e => simp [List.findSome?, hc, hcur e hc, hx]
  | none => simp [List.findSome?, hc, lookup_entries_of_mem f u hu w hw w rfl, hx]

/-- the same for a word of the file dictionary (third child) -/
theorem acceptM_of_file (f : Fns) (cur : List Entry) (u : List Entry) (fd : List Word)
    (hfd : UniqueKeys f fd) (w : Word) (hw : w ∈ fd) (hn : f.normalize w = w)
    (hcur : ∀ e, lookup f cur w = some e → e.dialectOk = true)
    (husr : ∀ e, lookup f u w = some e → e.dialectOk = true) :
    acceptM f [cur, u, entries fd] w = true := by
  have hx : containsExactM f [cur, u, entries fd] w = true := by
    simp [containsExactM, containsExact_entries f fd hfd w hw hn]
  unfold acceptM lookupM
  cases hc : lookup f cur w with
  | some e => simp [List.findSome?, hc, hcur e hc, hx]
  | none =>
    cases hc2 : lookup f u w with
    | some e => simp [List.findSome?, hc, hc2, husr e hc2, hx]
    | none => simp [List.findSome?, hc, hc2, lookup_entries_of_mem f fd hfd w hw w rfl, hx]

theorem fileDisk_cons_ne (files : List (Nat × Disk)) (n m : Nat) (d : Disk) (h : m ≠ n) :
    fileDisk ((n, d) :: files) m = fileDisk files m := by
  unfold fileDisk
  have : (m == n) = false := by simpa using h
  simp [List.lookup, this]

theorem fileDisk_cons_self (files : List (Nat × Disk)) (n : Nat) (d : Disk) :
    fileDisk ((n, d) :: files) n = d := by
  simp [fileDisk, List.lookup]

/-! ### w24: the document URL (`UrlKind`) in `HarperAddToFileDict` and in a document check -/

theorem loadFileDict_file (f : Fns) (disk : Disk) :
    loadFileDict f fileUrl disk = some (loadOrEmpty f disk) := rfl

theorem loadFileDict_untitled (f : Fns) (u : UrlKind) (disk : Disk) (h : u.untitled = true) :
    loadFileDict f u disk = some [] := by simp [loadFileDict, h]

theorem childrenOf_file (f : Fns) (cur : List Entry) (s : State) (n : Nat) :
    childrenOf f cur s fileUrl n = some (children f cur s n) := rfl

/-- for a `file:` URL `step` is what it was before URL kinds were modelled -/
theorem step_addFile_file (f : Fns) (cur : List Entry) (s : State) (n : Nat) (w : Word)
    (ord : List Word) :
    step f cur s (.addFile fileUrl n w ord) =
      ({ s with
          files := (n, run (saveTrace (savedWords f (fileDisk s.files n) w ord)) (fileDisk s.files n))
            :: s.files,
          mem := loadOrEmpty f s.user }, []) := rfl

theorem step_lint_file (f : Fns) (cur : List Entry) (s : State) (n : Nat) (qs : List Word) :
    step f cur s (.lint fileUrl n qs) =
      ({ s with mem := loadOrEmpty f s.user }, qs.map (acceptM f (children f cur s n))) := rfl

/-- a URL without a path: `HarperAddToFileDict` changes nothing at all (whatever the scheme) -/
theorem step_addFile_nopath (f : Fns) (cur : List Entry) (s : State) (u : UrlKind) (n : Nat)
    (w : Word) (ord : List Word) (h : u.path = false) :
    step f cur s (.addFile u n w ord) = (s, []) := by
  simp only [step]
  split
  · rfl
  · simp [h]

/-- an `untitled:` URL, with or without a path: `save_file_dictionary` returns before writing (repo
commit 861d597) — no dictionary file is touched, the user dictionary and the JS linter neither -/
theorem step_addFile_untitled (f : Fns) (cur : List Entry) (s : State) (u : UrlKind) (n : Nat)
    (w : Word) (ord : List Word) (h : u.untitled = true) :
    (step f cur s (.addFile u n w ord)).1.files = s.files ∧
    (step f cur s (.addFile u n w ord)).1.user = s.user ∧
    (step f cur s (.addFile u n w ord)).1.js = s.js ∧
    (step f cur s (.addFile u n w ord)).2 = [] := by
  simp only [step, loadFileDict_untitled f u _ h, h, if_true]
  split <;> exact ⟨rfl, rfl, rfl, rfl⟩

/-- `untitled:/a/b.md`: nothing is saved (before 861d597 the dictionary holding the new word alone was
written over the file dictionary of `/a/b.md`); the document is re-read from its path -/
theorem step_addFile_untitledPath (f : Fns) (cur : List Entry) (s : State) (n : Nat) (w : Word)
    (ord : List Word) :
    step f cur s (.addFile untitledPathUrl n w ord) =
      ({ s with mem := loadOrEmpty f s.user }, []) := by
  simp only [step, loadFileDict, if_true]

theorem step_addFile_user (f : Fns) (cur : List Entry) (s : State) (u : UrlKind) (n : Nat)
    (w : Word) (ord : List Word) : (step f cur s (.addFile u n w ord)).1.user = s.user := by
  simp only [step]
  split
  · rfl
  · split
    · split <;> rfl
    · rfl

theorem step_addFile_js (f : Fns) (cur : List Entry) (s : State) (u : UrlKind) (n : Nat)
    (w : Word) (ord : List Word) : (step f cur s (.addFile u n w ord)).1.js = s.js := by
  simp only [step]
  split
  · rfl
  · split
    · split <;> rfl
    · rfl

/-- whatever the URL kind, `HarperAddToFileDict` for the name `n` leaves every other name's file alone -/
theorem step_addFile_fileDisk_ne (f : Fns) (cur : List Entry) (s : State) (u : UrlKind) (n m : Nat)
    (w : Word) (ord : List Word) (h : m ≠ n) :
    fileDisk (step f cur s (.addFile u n w ord)).1.files m = fileDisk s.files m := by
  simp only [step]
  split
  · rfl
  · split
    · split
      · rfl
      · exact fileDisk_cons_ne _ _ _ _ h
    · rfl

theorem step_lint_user (f : Fns) (cur : List Entry) (s : State) (u : UrlKind) (n : Nat)
    (qs : List Word) : (step f cur s (.lint u n qs)).1.user = s.user := by
  simp only [step]
  split <;> rfl

theorem step_lint_files (f : Fns) (cur : List Entry) (s : State) (u : UrlKind) (n : Nat)
    (qs : List Word) : (step f cur s (.lint u n qs)).1.files = s.files := by
  simp only [step]
  split <;> rfl

/-! ### w26: the JS linter — `import_words`, `export_words` + `new Linter` (`harper-wasm/src/lib.rs`) -/

theorem step_lint_js (f : Fns) (cur : List Entry) (s : State) (u : UrlKind) (n : Nat)
    (qs : List Word) : (step f cur s (.lint u n qs)).1.js = s.js := by
  simp only [step]
  split <;> rfl

theorem length_insert_ge (f : Fns) (w : Word) (d : List Word) :
    d.length ≤ (insert f w d).length := by
  induction d with
  | nil => simp [insert]
  | cons e d ih =>
    simp only [insert]
    split
    · simp
    · simpa using ih

theorem length_insertAll_ge (f : Fns) (ws : List Word) :
    ∀ d, d.length ≤ (insertAll f d ws).length := by
  induction ws with
  | nil => intro d; exact Nat.le_refl _
  | cons w ws ih => intro d; exact Nat.le_trans (length_insert_ge f w d) (ih _)

/-- in a keyed map two entries with one key are one entry -/
theorem eq_of_key_eq (f : Fns) (d : List Word) (hu : UniqueKeys f d) :
    ∀ a ∈ d, ∀ b ∈ d, key f a = key f b → a = b := by
  induction d with
  | nil => intro a ha; cases ha
  | cons e d ih =>
    have ⟨h1, h2⟩ := List.pairwise_cons.mp hu
    intro a ha b hb hk
    rcases List.mem_cons.mp ha with ha' | ha' <;> rcases List.mem_cons.mp hb with hb' | hb'
    · rw [ha', hb']
    · rw [ha'] at hk; exact absurd hk (h1 b hb')
    · rw [hb'] at hk; exact absurd hk.symm (h1 a ha')
    · exact ih h2 a ha' b hb' hk

theorem mem_of_mem_insertAll (f : Fns) (x : Word) (ws : List Word) :
    ∀ d, x ∈ insertAll f d ws → x ∈ d ∨ x ∈ ws := by
  induction ws with
  | nil => intro d h; exact Or.inl h
  | cons w ws ih =>
    intro d h
    rcases ih (insert f w d) h with h | h
    · rcases mem_of_mem_insert f w x d h with h | h
      · exact Or.inr (by simp [h])
      · exact Or.inl h
    · exact Or.inr (List.mem_cons_of_mem _ h)

/-- `extend_words` keeps (or brings in) `w` when no word of the batch with `w`'s key is spelt differently -/
theorem mem_insertAll (f : Fns) (w : Word) (ws : List Word) :
    (∀ x ∈ ws, key f x = key f w → x = w) → ∀ d, (w ∈ d ∨ w ∈ ws) → w ∈ insertAll f d ws := by
  induction ws with
  | nil =>
    intro _ d h
    rcases h with h | h
    · exact h
    · cases h
  | cons x ws ih =>
    intro hk d h
    have hk' : ∀ y ∈ ws, key f y = key f w → y = w := fun y hy => hk y (List.mem_cons_of_mem _ hy)
    have hin : w ∈ insert f x d ∨ w ∈ ws := by
      rcases h with h | h
      · by_cases hkx : key f w = key f x
        · have : x = w := hk x (by simp) hkx.symm
          rw [this]; exact Or.inl (mem_insert_self f w d)
        · exact Or.inl (mem_insert_of_ne f x w d h hkx)
      · rcases List.mem_cons.mp h with h | h
        · rw [h]; exact Or.inl (mem_insert_self f x d)
        · exact Or.inr h
    exact ih hk' (insert f x d) hin

/-- `word_count` grows when the batch holds a word whose key the map lacks -/
theorem length_insertAll_lt (f : Fns) (w : Word) (ws : List Word) :
    w ∈ ws → ∀ d, (∀ e ∈ d, key f e ≠ key f w) → d.length < (insertAll f d ws).length := by
  induction ws with
  | nil => intro h; cases h
  | cons x ws ih =>
    intro hw d hd
    by_cases hkx : key f x = key f w
    · have hfresh : ∀ e ∈ d, key f e ≠ key f x := fun e he => by rw [hkx]; exact hd e he
      have h1 : (insert f x d).length = d.length + 1 := by rw [insert_fresh f x d hfresh]; simp
      have h2 := length_insertAll_ge f ws (insert f x d)
      show d.length < (insertAll f (insert f x d) ws).length
      omega
    · have hw' : w ∈ ws := by
        rcases List.mem_cons.mp hw with h | h
        · exact absurd (by rw [h]) hkx
        · exact h
      have hd' : ∀ e ∈ insert f x d, key f e ≠ key f w := by
        intro e he
        rcases mem_of_mem_insert f x e d he with h | h
        · rw [h]; exact hkx
        · exact hd e h
      have h1 := ih hw' (insert f x d) hd'
      have h2 := length_insert_ge f x d
      show d.length < (insertAll f (insert f x d) ws).length
      omega

/-- no two different spellings of one key among the words: what makes the word map behave like a set -/
abbrev NoCollision (f : Fns) (ws : List Word) : Prop :=
  ∀ a ∈ ws, ∀ b ∈ ws, key f a = key f b → a = b

theorem insert_eq_or_append (f : Fns) (w : Word) (d : List Word)
    (h : ∀ e ∈ d, key f e = key f w → e = w) : insert f w d = d ∨ insert f w d = d ++ [w] := by
  induction d with
  | nil => exact Or.inr rfl
  | cons e d ih =>
    simp only [insert]
    split
    · rename_i hk
      have hk : key f e = key f w := by simpa using hk
      rw [h e (by simp) hk]; exact Or.inl rfl
    · rcases ih (fun x hx => h x (List.mem_cons_of_mem _ hx)) with h' | h'
      · rw [h']; exact Or.inl rfl
      · rw [h']; exact Or.inr rfl

/-- without collisions a batch either changes nothing or makes the map longer -/
theorem insertAll_eq_or_longer (f : Fns) (ws : List Word) :
    ∀ d, NoCollision f (d ++ ws) → insertAll f d ws = d ∨ d.length < (insertAll f d ws).length := by
  induction ws with
  | nil => intro d _; exact Or.inl rfl
  | cons w ws ih =>
    intro d hc
    have hw : ∀ e ∈ d, key f e = key f w → e = w :=
      fun e he hk => hc e (by simp [he]) w (by simp) hk
    show insertAll f (insert f w d) ws = d ∨ d.length < (insertAll f (insert f w d) ws).length
    rcases insert_eq_or_append f w d hw with h | h
    · rw [h]
      exact ih d (fun a ha b hb => hc a (by
        rcases List.mem_append.mp ha with ha | ha
        · simp [ha]
        · simp [ha]) b (by
        rcases List.mem_append.mp hb with hb | hb
        · simp [hb]
        · simp [hb]))
    · rw [h]
      have hc' : NoCollision f ((d ++ [w]) ++ ws) := by
        intro a ha b hb
        exact hc a (by simpa using ha) b (by simpa using hb)
      have h2 := length_insertAll_ge f ws (d ++ [w])
      right
      simp at h2
      omega

/-- what a later operation may be for the imported word `w` to stay accepted by the JS linter: a later
`import_words` batch must not hold a DIFFERENT spelling of `w`'s key (the case-variant staleness of
`C07.js_import_case_variant_stale`); everything else — `new Linter` + `import_words(export_words())` in any
order, lints, and all the language-server operations, which do not touch the JS linter — is harmless -/
def BenignJs (f : Fns) (w : Word) : Op → Prop
  | .jsImport ws => ∀ x ∈ ws, key f x = key f w → x = w
  | _ => True

instance (f : Fns) (w : Word) : DecidablePred (BenignJs f w) := fun op => by
  cases op <;> unfold BenignJs <;> infer_instance

/-- the invariant of "accepted from then on" for the JS linter: both dictionaries are keyed maps and both
hold `w` (the lint dictionary may lag behind `user_dictionary`, so both are carried) -/
abbrev JsHolds (f : Fns) (w : Word) (js : Js) : Prop :=
  UniqueKeys f js.user ∧ UniqueKeys f js.lint ∧ w ∈ js.user ∧ w ∈ js.lint

theorem jsHolds_importWords (f : Fns) (w : Word) (ws : List Word) (js : Js)
    (hk : ∀ x ∈ ws, key f x = key f w → x = w) (h : JsHolds f w js) :
    JsHolds f w (js.importWords f ws) := by
  obtain ⟨hu, hl, hwu, hwl⟩ := h
  have hu' := uniqueKeys_insertAll f ws js.user hu
  have hm' := mem_insertAll f w ws hk js.user (Or.inl hwu)
  simp only [JsHolds, Js.importWords]
  refine ⟨hu', ?_, hm', ?_⟩ <;> split
  · exact hu'
  · exact hl
  · exact hm'
  · exact hwl

/-- `import_words` of a batch that holds `w`, whose key is new: the count grows, the lint dictionary is rebuilt -/
theorem jsHolds_import_new (f : Fns) (w : Word) (ws : List Word) (js : Js)
    (hu : UniqueKeys f js.user) (hnew : ∀ e ∈ js.user, key f e ≠ key f w) (hw : w ∈ ws)
    (hk : ∀ x ∈ ws, key f x = key f w → x = w) : JsHolds f w (js.importWords f ws) := by
  have hu' := uniqueKeys_insertAll f ws js.user hu
  have hm' := mem_insertAll f w ws hk js.user (Or.inr hw)
  have hlt := length_insertAll_lt f w ws hw js.user hnew
  simp only [JsHolds, Js.importWords, gt_iff_lt, hlt, if_true]
  exact ⟨hu', hu', hm', hm'⟩

/-- `new Linter` + `import_words(export_words())`, the export in any order -/
theorem jsHolds_restart (f : Fns) (w : Word) (ord : List Word) (js : Js) (h : JsHolds f w js) :
    JsHolds f w (Js.importWords f (orderOf ord js.user) {}) := by
  obtain ⟨hu, _, hwu, _⟩ := h
  have hp := orderOf_perm ord js.user
  have hup := uniqueKeys_perm f hp hu
  refine jsHolds_import_new f w _ {} List.Pairwise.nil (fun e he => by cases he)
    (hp.mem_iff.mpr hwu) ?_
  intro x hx hkx
  exact eq_of_key_eq f _ hup x hx w (hp.mem_iff.mpr hwu) hkx

theorem benignJs_step (f : Fns) (cur : List Entry) (w : Word) (s : State) (op : Op)
    (hb : BenignJs f w op) (h : JsHolds f w s.js) : JsHolds f w (step f cur s op).1.js := by
  cases op with
  | jsImport ws => exact jsHolds_importWords f w ws s.js hb h
  | jsRestart ord => exact jsHolds_restart f w ord s.js h
  | jsLint _ => exact h
  | add _ _ => exact h
  | crashAdd _ _ _ _ => exact h
  | restart => exact h
  | addFile u n w' ord => rw [step_addFile_js]; exact h
  | lint u n qs => rw [step_lint_js]; exact h

theorem benignJs_runOps (f : Fns) (cur : List Entry) (w : Word) (rest : List Op) :
    ∀ s : State, (∀ op ∈ rest, BenignJs f w op) → JsHolds f w s.js →
      JsHolds f w (runOps f cur s rest).js := by
  induction rest with
  | nil => intro s _ h; exact h
  | cons op rest ih =>
    intro s hb h
    exact ih _ (fun o ho => hb o (List.mem_cons_of_mem _ ho))
      (benignJs_step f cur w s op (hb op (by simp)) h)

/-- the `user_dictionary` of the JS linter is a keyed map whatever happens -/
theorem uniqueKeys_js_step (f : Fns) (cur : List Entry) (s : State) (op : Op)
    (h : UniqueKeys f s.js.user) : UniqueKeys f (step f cur s op).1.js.user := by
  cases op with
  | jsImport ws => exact uniqueKeys_insertAll f ws _ h
  | jsRestart ord => exact uniqueKeys_insertAll f _ [] List.Pairwise.nil
  | jsLint _ => exact h
  | add _ _ => exact h
  | crashAdd _ _ _ _ => exact h
  | restart => exact h
  | addFile u n w' ord => rw [step_addFile_js]; exact h
  | lint u n qs => rw [step_lint_js]; exact h

theorem uniqueKeys_js_runOps (f : Fns) (cur : List Entry) (ops : List Op) :
    ∀ s : State, UniqueKeys f s.js.user → UniqueKeys f (runOps f cur s ops).js.user := by
  induction ops with
  | nil => intro s h; exact h
  | cons op ops ih => intro s h; exact ih _ (uniqueKeys_js_step f cur s op h)

/-- the words of the `import_words` calls of a history -/
def jsImports : List Op → List Word
  | [] => []
  | .jsImport ws :: ops => ws ++ jsImports ops
  | _ :: ops => jsImports ops

/-- a collision-free `import_words` on a synchronised linter leaves it synchronised, holding the old words
and the batch -/
theorem importWords_sync (f : Fns) (ws : List Word) (js : Js) (hs : js.lint = js.user)
    (hcol : NoCollision f (js.user ++ ws)) :
    (js.importWords f ws).lint = (js.importWords f ws).user ∧
    ∀ x, x ∈ (js.importWords f ws).user ↔ x ∈ js.user ∨ x ∈ ws := by
  constructor
  · simp only [Js.importWords]
    split
    · rfl
    · rename_i hgt
      rcases insertAll_eq_or_longer f ws js.user hcol with h | h
      · rw [h, hs]
      · exact absurd h hgt
  · intro x
    refine ⟨mem_of_mem_insertAll f x ws js.user, fun hx => ?_⟩
    refine mem_insertAll f x ws (fun y hy hk => ?_) js.user hx
    refine hcol y (by simp [hy]) x ?_ hk
    rcases hx with hx | hx
    · simp [hx]
    · simp [hx]

/-- `new Linter` + `import_words(export_words())` rebuilds exactly the exported sequence, in both
dictionaries -/
theorem js_restart_exact (f : Fns) (ord : List Word) (js : Js) (hu : UniqueKeys f js.user) :
    Js.importWords f (orderOf ord js.user) {} = ⟨orderOf ord js.user, orderOf ord js.user⟩ := by
  have hup := uniqueKeys_perm f (orderOf_perm ord js.user) hu
  have hi : insertAll f [] (orderOf ord js.user) = orderOf ord js.user := by
    simpa using insertAll_unique f (orderOf ord js.user) [] (by simpa using hup)
  simp only [Js.importWords, hi]
  cases orderOf ord js.user <;> simp

theorem js_sync_from (f : Fns) (cur : List Entry) (ops : List Op) :
    ∀ (s : State) (acc : List Word), s.js.lint = s.js.user →
      (∀ w, w ∈ s.js.user ↔ w ∈ acc) → NoCollision f (acc ++ jsImports ops) →
      (∀ w, w ∈ (runOps f cur s ops).js.user ↔ w ∈ acc ++ jsImports ops) ∧
      (runOps f cur s ops).js.lint = (runOps f cur s ops).js.user := by
  induction ops with
  | nil => intro s acc hs hm _; exact ⟨by simpa [runOps, jsImports] using hm, hs⟩
  | cons op ops ih =>
    intro s acc hs hm hcol
    have same : ∀ s' : State, s'.js = s.js → jsImports (op :: ops) = jsImports ops →
        (∀ w, w ∈ (runOps f cur s' ops).js.user ↔ w ∈ acc ++ jsImports (op :: ops)) ∧
        (runOps f cur s' ops).js.lint = (runOps f cur s' ops).js.user := by
      intro s' hs' hj
      rw [hj] at hcol ⊢
      exact ih s' acc (by rw [hs']; exact hs) (by rw [hs']; exact hm) hcol
    cases op with
    | add _ _ => exact same _ rfl rfl
    | crashAdd _ _ _ _ => exact same _ rfl rfl
    | restart => exact same _ rfl rfl
    | jsLint _ => exact same _ rfl rfl
    | addFile u n w' ord => exact same _ (step_addFile_js f cur s u n w' ord) rfl
    | lint u n qs => exact same _ (step_lint_js f cur s u n qs) rfl
    | jsImport ws =>
      have hc0 : NoCollision f (s.js.user ++ ws) := by
        intro a ha b hb
        refine hcol a ?_ b ?_
        · rcases List.mem_append.mp ha with h | h
          · simp [(hm a).mp h]
          · simp [jsImports, h]
        · rcases List.mem_append.mp hb with h | h
          · simp [(hm b).mp h]
          · simp [jsImports, h]
      obtain ⟨h1, h2⟩ := importWords_sync f ws s.js hs hc0
      have := ih (step f cur s (.jsImport ws)).1 (acc ++ ws) h1
        (fun x => by rw [List.mem_append, ← hm x]; exact h2 x)
        (by simpa [jsImports] using hcol)
      simpa [runOps, jsImports] using this
    | jsRestart ord =>
      have hp := orderOf_perm ord s.js.user
      have hc0 : NoCollision f (({} : Js).user ++ orderOf ord s.js.user) := by
        intro a ha b hb
        have ha' : a ∈ s.js.user := hp.mem_iff.mp (by simpa using ha)
        have hb' : b ∈ s.js.user := hp.mem_iff.mp (by simpa using hb)
        exact hcol a (by simp [(hm a).mp ha']) b (by simp [(hm b).mp hb'])
      obtain ⟨h1, h2⟩ := importWords_sync f (orderOf ord s.js.user) {} rfl hc0
      have hj : jsImports (Op.jsRestart ord :: ops) = jsImports ops := rfl
      rw [hj] at hcol ⊢
      exact ih (step f cur s (.jsRestart ord)).1 acc h1
        (fun x => by
          rw [← hm x]
          refine (h2 x).trans ?_
          simp [hp.mem_iff]) hcol

end Harper.DictIO
