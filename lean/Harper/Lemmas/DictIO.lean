import Harper.Model.DictIO
import Harper.Lemmas.Stats
/-! Helper lemmas for C07 (dictionary files, the in-memory word map, the merged accept test). -/
namespace Harper.DictIO
open Harper.Spell Harper.Stats

/-! ### the predicates the property theorems are stated with -/

/-- what `str::lines` needs to give a word back: no line feed inside, no carriage return at the end.
(The empty word and words made of spaces DO survive: `load_dict` neither trims nor filters.) -/
abbrev WellFormedWord (w : Word) : Prop := '\n' ∉ w ∧ w.getLast? ≠ some '\r'

abbrev WellFormed (ws : List Word) : Prop := ∀ w ∈ ws, WellFormedWord w

/-- what a map keyed by `WordId` guarantees -/
abbrev UniqueKeys (f : Fns) (ws : List Word) : Prop :=
  ws.Pairwise (fun a b => key f a ≠ key f b)

/-- the file reloads to well-formed words (true of every file written by `save_dict` from
well-formed words; false e.g. for a hand-edited file containing `\r\r\n`) -/
abbrev Clean (f : Fns) (d : Disk) : Prop := WellFormed (loadOrEmpty f d)

/-! ### bytes and chunks -/

theorem utf8Len_pos (c : Char) : 0 < utf8Len c := by
  unfold utf8Len; simp only; split <;> (try split) <;> (try split) <;> omega

theorem byteLen_eq_zero (cs : List Char) (h : byteLen cs = 0) : cs = [] := by
  cases cs with
  | nil => rfl
  | cons c cs => have := utf8Len_pos c; simp [byteLen] at h; omega

theorem pieces_flatten (ws : List Word) : (pieces ws).flatten = writeLog ws := by
  induction ws with
  | nil => rfl
  | cons w ws ih => simp [pieces, writeLog, ih]

theorem flushed_flatten (buf : List Char) :
    (if buf.isEmpty then ([] : List (List Char)) else [buf]).flatten = buf := by
  cases buf <;> simp

/-- the `write` syscalls carry exactly the pieces, in order, whatever the buffer capacity -/
theorem chunkGo_flatten (cap : Nat) (ps : List (List Char)) :
    ∀ buf, (chunkGo cap buf ps).flatten = buf ++ ps.flatten := by
  induction ps with
  | nil => intro buf; simp only [chunkGo, flushed_flatten, List.flatten_nil, List.append_nil]
  | cons p ps ih =>
    intro buf
    simp only [chunkGo]
    split
    · split
      · rw [List.flatten_append, flushed_flatten, List.flatten_cons, ih]; simp
      · rw [List.flatten_append, flushed_flatten, ih]; simp
    · split
      · rename_i h1 h2
        have hb : buf = [] := byteLen_eq_zero buf (by omega)
        subst hb
        rw [List.flatten_cons, ih]; simp
      · rw [ih]; simp

theorem chunks_flatten (ws : List Word) : (chunks ws).flatten = writeLog ws := by
  unfold chunks
  rw [chunkGo_flatten bufCap, pieces_flatten]; rfl

/-- no `write` syscall is empty -/
theorem chunkGo_ne_nil (cap : Nat) (hcap : 0 < cap) (ps : List (List Char)) :
    ∀ buf, ∀ c ∈ chunkGo cap buf ps, c ≠ [] := by
  induction ps with
  | nil =>
    intro buf c hc
    simp only [chunkGo] at hc
    cases buf with
    | nil => simp at hc
    | cons b bs => simp at hc; simp [hc]
  | cons p ps ih =>
    intro buf c hc
    have hfl : ∀ c ∈ (if buf.isEmpty then ([] : List (List Char)) else [buf]), c ≠ [] := by
      intro c hc
      cases buf with
      | nil => simp at hc
      | cons b bs => simp at hc; simp [hc]
    simp only [chunkGo] at hc
    split at hc
    · split at hc
      · rename_i h1 h2
        rcases List.mem_append.mp hc with h | h
        · exact hfl c h
        · rcases List.mem_cons.mp h with rfl | h
          · intro hp; subst hp; simp [byteLen] at h2; omega
          · exact ih [] c h
      · rcases List.mem_append.mp hc with h | h
        · exact hfl c h
        · exact ih p c h
    · split at hc
      · rename_i h1 h2
        rcases List.mem_cons.mp hc with rfl | h
        · intro hp; subst hp; simp [byteLen] at h2; omega
        · exact ih buf c h
      · exact ih _ c hc

theorem run_writes (cs : List (List Char)) :
    ∀ a t, run (cs.map Sys.write ++ [Sys.close]) (.file a t) = .file (a ++ cs.flatten) t := by
  induction cs with
  | nil => intro a t; simp [run, exec]
  | cons c cs ih =>
    intro a t
    have := ih (a ++ c) t
    simp only [run] at this ⊢
    simp only [List.map_cons, List.cons_append, List.foldl_cons, exec, this, List.flatten_cons,
      List.append_assoc]

/-- a completed `save_dict` leaves exactly `word ⏎ word ⏎ …` in the file, whatever was there -/
theorem run_saveTrace (ws : List Word) (d : Disk) :
    run (saveTrace ws) d = .file (writeLog ws) false := by
  have h := run_writes (chunks ws) [] false
  simp only [run] at h ⊢
  simp only [saveTrace, List.foldl_cons, exec, h, chunks_flatten, List.nil_append]

theorem takeBytes_all (cs : List Char) : ∀ j, byteLen cs ≤ j → takeBytes cs j = (cs, false) := by
  induction cs with
  | nil => intro j _; rfl
  | cons c cs ih =>
    intro j h
    have hp := utf8Len_pos c
    simp only [byteLen] at h
    have h0 : j ≠ 0 := by omega
    have h1 : utf8Len c ≤ j := by omega
    simp only [takeBytes, h0, if_false, h1, if_true, ih (j - utf8Len c) (by omega)]

theorem takeBytes_zero (cs : List Char) : takeBytes cs 0 = ([], false) := by
  cases cs <;> simp [takeBytes]

/-! ### the word map -/

theorem mem_insert_self (f : Fns) (w : Word) (d : List Word) : w ∈ insert f w d := by
  induction d with
  | nil => simp [insert]
  | cons e d ih => simp only [insert]; split <;> simp [ih]

theorem mem_of_mem_insert (f : Fns) (w x : Word) (d : List Word) (h : x ∈ insert f w d) :
    x = w ∨ x ∈ d := by
  induction d with
  | nil => simp [insert] at h; exact Or.inl h
  | cons e d ih =>
    simp only [insert] at h
    split at h
    · rcases List.mem_cons.mp h with h | h
      · exact Or.inl h
      · exact Or.inr (List.mem_cons_of_mem _ h)
    · rcases List.mem_cons.mp h with h | h
      · exact Or.inr (by simp [h])
      · rcases ih h with h | h
        · exact Or.inl h
        · exact Or.inr (List.mem_cons_of_mem _ h)

theorem mem_insert_of_ne (f : Fns) (w x : Word) (d : List Word) (hx : x ∈ d)
    (hk : key f x ≠ key f w) : x ∈ insert f w d := by
  induction d with
  | nil => cases hx
  | cons e d ih =>
    simp only [insert]
    rcases List.mem_cons.mp hx with rfl | hx
    · have : (key f x == key f w) = false := beq_eq_false_iff_ne.mpr hk
      simp [this]
    · split
      · exact List.mem_cons_of_mem _ hx
      · exact List.mem_cons_of_mem _ (ih hx)

/-- under unique keys, an entry other than the inserted word survives only with another key -/
theorem key_ne_of_mem_insert (f : Fns) (w x : Word) (d : List Word) (hu : UniqueKeys f d)
    (h : x ∈ insert f w d) : x = w ∨ (x ∈ d ∧ key f x ≠ key f w) := by
  induction d with
  | nil => simp [insert] at h; exact Or.inl h
  | cons e d ih =>
    have ⟨h1, h2⟩ := List.pairwise_cons.mp hu
    simp only [insert] at h
    split at h
    · rename_i hk
      have hk : key f e = key f w := by simpa using hk
      rcases List.mem_cons.mp h with h | h
      · exact Or.inl h
      · exact Or.inr ⟨List.mem_cons_of_mem _ h, fun hx => h1 x h (hk.trans hx.symm)⟩
    · rename_i hk
      have hk : key f e ≠ key f w := by simpa using hk
      rcases List.mem_cons.mp h with h | h
      · exact Or.inr ⟨by simp [h], by rw [h]; exact hk⟩
      · rcases ih h2 h with h | ⟨h, hne⟩
        · exact Or.inl h
        · exact Or.inr ⟨List.mem_cons_of_mem _ h, hne⟩

theorem uniqueKeys_insert (f : Fns) (w : Word) (d : List Word) (hu : UniqueKeys f d) :
    UniqueKeys f (insert f w d) := by
  induction d with
  | nil => simp [insert, UniqueKeys]
  | cons e d ih =>
    have ⟨h1, h2⟩ := List.pairwise_cons.mp hu
    simp only [insert]
    split
    · rename_i hk
      have hk : key f e = key f w := by simpa using hk
      exact List.pairwise_cons.mpr ⟨fun x hx => by rw [← hk]; exact h1 x hx, h2⟩
    · rename_i hk
      have hk : key f e ≠ key f w := by simpa using hk
      refine List.pairwise_cons.mpr ⟨fun x hx => ?_, ih h2⟩
      rcases mem_of_mem_insert f w x d hx with rfl | hx
      · exact hk
      · exact h1 x hx

theorem insert_fresh (f : Fns) (w : Word) (d : List Word) (h : ∀ e ∈ d, key f e ≠ key f w) :
    insert f w d = d ++ [w] := by
  induction d with
  | nil => rfl
  | cons e d ih =>
    have : (key f e == key f w) = false := beq_eq_false_iff_ne.mpr (h e (by simp))
    simp only [insert, this, List.cons_append]
    rw [ih (fun x hx => h x (List.mem_cons_of_mem _ hx))]
    simp

theorem uniqueKeys_insertAll (f : Fns) (ws : List Word) :
    ∀ d, UniqueKeys f d → UniqueKeys f (insertAll f d ws) := by
  induction ws with
  | nil => intro d h; exact h
  | cons w ws ih => intro d h; exact ih _ (uniqueKeys_insert f w d h)

theorem uniqueKeys_loadWords (f : Fns) (s : List Char) : UniqueKeys f (loadWords f s) :=
  uniqueKeys_insertAll f _ [] List.Pairwise.nil

theorem uniqueKeys_loadOrEmpty (f : Fns) (d : Disk) : UniqueKeys f (loadOrEmpty f d) := by
  unfold loadOrEmpty loadDict
  cases readToString d with
  | none => exact List.Pairwise.nil
  | some s => exact uniqueKeys_loadWords f s

/-- words with pairwise different keys are stored one after the other -/
theorem insertAll_unique (f : Fns) (ws : List Word) :
    ∀ d, UniqueKeys f (d ++ ws) → insertAll f d ws = d ++ ws := by
  induction ws with
  | nil => intro d _; simp [insertAll]
  | cons w ws ih =>
    intro d h
    have hfresh : ∀ e ∈ d, key f e ≠ key f w := by
      intro e he
      have := List.pairwise_append.mp h
      exact this.2.2 e he w (by simp)
    have h' : UniqueKeys f ((d ++ [w]) ++ ws) := by simpa using h
    have := ih (d ++ [w]) h'
    simp only [insertAll, List.foldl_cons] at this ⊢
    rw [insert_fresh f w d hfresh, this]; simp

theorem loadWords_writeLog (f : Fns) (ws : List Word) (hw : WellFormed ws)
    (hu : UniqueKeys f ws) : loadWords f (writeLog ws) = ws := by
  unfold loadWords
  rw [lines_writeLog ws hw]
  simpa using insertAll_unique f ws [] (by simpa using hu)

theorem wellFormed_insert (f : Fns) (w : Word) (d : List Word) (hd : WellFormed d)
    (hw : WellFormedWord w) : WellFormed (insert f w d) := by
  intro x hx
  rcases mem_of_mem_insert f w x d hx with rfl | hx
  · exact hw
  · exact hd x hx

theorem orderOf_perm (ord d : List Word) : (orderOf ord d).Perm d := by
  unfold orderOf
  split
  · rename_i h; exact List.isPerm_iff.mp h
  · exact List.Perm.refl _

theorem uniqueKeys_perm (f : Fns) {a b : List Word} (p : a.Perm b) (h : UniqueKeys f b) :
    UniqueKeys f a :=
  (p.pairwise_iff (fun h => Ne.symm h)).mpr h

theorem wellFormed_perm {a b : List Word} (p : a.Perm b) (h : WellFormed b) : WellFormed a :=
  fun w hw => h w (p.mem_iff.mp hw)

/-- one `HarperAddToUserDict` on a clean file: the file then reloads to exactly the sequence that
was written, which is a permutation of (old dictionary with `w` inserted) -/
theorem add_reload (f : Fns) (disk : Disk) (w : Word) (ord : List Word) (hc : Clean f disk)
    (hw : WellFormedWord w) :
    loadDict f (run (saveTrace (savedWords f disk w ord)) disk) = some (savedWords f disk w ord) ∧
    (savedWords f disk w ord).Perm (insert f w (loadOrEmpty f disk)) ∧
    UniqueKeys f (savedWords f disk w ord) ∧ WellFormed (savedWords f disk w ord) := by
  have hp := orderOf_perm ord (insert f w (loadOrEmpty f disk))
  have hu : UniqueKeys f (savedWords f disk w ord) :=
    uniqueKeys_perm f hp (uniqueKeys_insert f w _ (uniqueKeys_loadOrEmpty f disk))
  have hwf : WellFormed (savedWords f disk w ord) :=
    wellFormed_perm hp (wellFormed_insert f w _ hc hw)
  refine ⟨?_, hp, hu, hwf⟩
  rw [run_saveTrace]
  simp [loadDict, readToString, loadWords_writeLog f _ hwf hu]

theorem loadOrEmpty_of_loadDict {f : Fns} {d : Disk} {ws : List Word}
    (h : loadDict f d = some ws) : loadOrEmpty f d = ws := by
  simp [loadOrEmpty, h]

/-! ### lookup / accept on word lists -/

theorem lookup_entries_of_mem (f : Fns) (d : List Word) (hu : UniqueKeys f d) (w : Word)
    (hw : w ∈ d) (q : Word) (hk : key f q = key f w) :
    lookup f (entries d) q = some ⟨w, true⟩ := by
  induction d with
  | nil => cases hw
  | cons e d ih =>
    have ⟨h1, h2⟩ := List.pairwise_cons.mp hu
    unfold lookup entries
    rw [List.map_cons, List.find?_cons]
    rcases List.mem_cons.mp hw with rfl | hw'
    · have : (key f w == key f q) = true := by rw [hk]; exact beq_self_eq_true _
      simp [this]
    · have hne : (key f e == key f q) = false := by
        rw [hk]; exact beq_eq_false_iff_ne.mpr (h1 w hw')
      simp only [hne]
      exact ih h2 hw'

theorem lookup_entries_none (f : Fns) (d : List Word) (q : Word)
    (h : ∀ e ∈ d, key f e ≠ key f q) : lookup f (entries d) q = none := by
  unfold lookup entries
  rw [List.find?_eq_none]
  intro e he
  obtain ⟨x, hx, rfl⟩ := List.mem_map.mp he
  simpa using h x hx

theorem lookup_entries_dialectOk (f : Fns) (d : List Word) (q : Word) (e : Entry)
    (h : lookup f (entries d) q = some e) : e.dialectOk = true := by
  have := List.mem_of_find?_eq_some h
  obtain ⟨x, _, rfl⟩ := List.mem_map.mp this
  rfl

theorem containsExact_entries (f : Fns) (d : List Word) (hu : UniqueKeys f d) (w : Word)
    (hw : w ∈ d) (hn : f.normalize w = w) : containsExact f (entries d) w = true := by
  unfold containsExact
  rw [hn, lookup_entries_of_mem f d hu w hw w rfl]
  simp

/-- a word of the user dictionary, listed in normalized form, whose key the curated dictionary
either lacks or admits for the active dialect, is not reported -/
theorem acceptM_of_user (f : Fns) (cur : List Entry) (u : List Word) (rest : List (List Entry))
    (hu : UniqueKeys f u) (w : Word) (hw : w ∈ u) (hn : f.normalize w = w)
    (hcur : ∀ e, lookup f cur w = some e → e.dialectOk = true) :
    acceptM f (cur :: entries u :: rest) w = true := by
  have hx : containsExactM f (cur :: entries u :: rest) w = true := by
    simp [containsExactM, containsExact_entries f u hu w hw hn]
  unfold acceptM lookupM
  cases hc : lookup f cur w with
  | some e => simp [List.findSome?, hc, hcur e hc, hx]
  | none => simp [List.findSome?, hc, lookup_entries_of_mem f u hu w hw w rfl, hx]

/-- the same for a word of the file dictionary (third child) -/
theorem acceptM_of_file (f : Fns) (cur : List Entry) (u : List Entry) (fd : List Word)
    (hfd : UniqueKeys f fd) (w : Word) (hw : w ∈ fd) (hn : f.normalize w = w)
    (hcur : ∀ e, lookup f cur w = some e → e.dialectOk = true)
    (husr : ∀ e, lookup f u w = some e → e.dialectOk = true) :
    acceptM f [cur, u, entries fd] w = true := by
  have hx : containsExactM f [cur, u, entries fd] w = true := by
    simp [containsExactM, containsExact_entries f fd hfd w hw hn]
  unfold acceptM lookupM
  cases hc : lookup f cur w with
  | some e => simp [List.findSome?, hc, hcur e hc, hx]
  | none =>
    cases hc2 : lookup f u w with
    | some e => simp [List.findSome?, hc, hc2, husr e hc2, hx]
    | none => simp [List.findSome?, hc, hc2, lookup_entries_of_mem f fd hfd w hw w rfl, hx]

theorem fileDisk_cons_ne (files : List (Nat × Disk)) (n m : Nat) (d : Disk) (h : m ≠ n) :
    fileDisk ((n, d) :: files) m = fileDisk files m := by
  unfold fileDisk
  have : (m == n) = false := by simpa using h
  simp [List.lookup, this]

theorem fileDisk_cons_self (files : List (Nat × Disk)) (n : Nat) (d : Disk) :
    fileDisk ((n, d) :: files) n = d := by
  simp [fileDisk, List.lookup]

/-! ### w24: the document URL (`UrlKind`) in `HarperAddToFileDict` and in a document check -/

theorem loadFileDict_file (f : Fns) (disk : Disk) :
    loadFileDict f fileUrl disk = some (loadOrEmpty f disk) := rfl

theorem loadFileDict_untitled (f : Fns) (u : UrlKind) (disk : Disk) (h : u.untitled = true) :
    loadFileDict f u disk = some [] := by simp [loadFileDict, h]

theorem childrenOf_file (f : Fns) (cur : List Entry) (s : State) (n : Nat) :
    childrenOf f cur s fileUrl n = some (children f cur s n) := rfl

/-- for a `file:` URL `step` is what it was before URL kinds were modelled -/
theorem step_addFile_file (f : Fns) (cur : List Entry) (s : State) (n : Nat) (w : Word)
    (ord : List Word) :
    step f cur s (.addFile fileUrl n w ord) =
      ({ s with
          files := (n, run (saveTrace (savedWords f (fileDisk s.files n) w ord)) (fileDisk s.files n))
            :: s.files,
          mem := loadOrEmpty f s.user }, []) := rfl

theorem step_lint_file (f : Fns) (cur : List Entry) (s : State) (n : Nat) (qs : List Word) :
    step f cur s (.lint fileUrl n qs) =
      ({ s with mem := loadOrEmpty f s.user }, qs.map (acceptM f (children f cur s n))) := rfl

/-- a URL without a path: `HarperAddToFileDict` changes nothing at all (whatever the scheme) -/
theorem step_addFile_nopath (f : Fns) (cur : List Entry) (s : State) (u : UrlKind) (n : Nat)
    (w : Word) (ord : List Word) (h : u.path = false) :
    step f cur s (.addFile u n w ord) = (s, []) := by
  simp only [step]
  split
  · rfl
  · simp [h]

/-- an `untitled:` URL, with or without a path: `save_file_dictionary` returns before writing (repo
commit 861d597) — no dictionary file is touched, the user dictionary and the JS linter neither -/
theorem step_addFile_untitled (f : Fns) (cur : List Entry) (s : State) (u : UrlKind) (n : Nat)
    (w : Word) (ord : List Word) (h : u.untitled = true) :
    (step f cur s (.addFile u n w ord)).1.files = s.files ∧
    (step f cur s (.addFile u n w ord)).1.user = s.user ∧
    (step f cur s (.addFile u n w ord)).1.js = s.js ∧
    (step f cur s (.addFile u n w ord)).2 = [] := by
  simp only [step, loadFileDict_untitled f u _ h, h, if_true]
  split <;> exact ⟨rfl, rfl, rfl, rfl⟩

/-- `untitled:/a/b.md`: nothing is saved (before 861d597 the dictionary holding the new word alone was
written over the file dictionary of `/a/b.md`); the document is re-read from its path -/
theorem step_addFile_untitledPath (f : Fns) (cur : List Entry) (s : State) (n : Nat) (w : Word)
    (ord : List Word) :
    step f cur s (.addFile untitledPathUrl n w ord) =
      ({ s with mem := loadOrEmpty f s.user }, []) := by
  simp only [step, loadFileDict, if_true]

theorem step_addFile_user (f : Fns) (cur : List Entry) (s : State) (u : UrlKind) (n : Nat)
    (w : Word) (ord : List Word) : (step f cur s (.addFile u n w ord)).1.user = s.user := by
  simp only [step]
  split
  · rfl
  · split
    · split <;> rfl
    · rfl

theorem step_addFile_js (f : Fns) (cur : List Entry) (s : State) (u : UrlKind) (n : Nat)
    (w : Word) (ord : List Word) : (step f cur s (.addFile u n w ord)).1.js = s.js := by
  simp only [step]
  split
  · rfl
  · split
    · split <;> rfl
    · rfl

/-- whatever the URL kind, `HarperAddToFileDict` for the name `n` leaves every other name's file alone -/
theorem step_addFile_fileDisk_ne (f : Fns) (cur : List Entry) (s : State) (u : UrlKind) (n m : Nat)
    (w : Word) (ord : List Word) (h : m ≠ n) :
    fileDisk (step f cur s (.addFile u n w ord)).1.files m = fileDisk s.files m := by
  simp only [step]
  split
  · rfl
  · split
    · split
      · rfl
      · exact fileDisk_cons_ne _ _ _ _ h
    · rfl

theorem step_lint_user (f : Fns) (cur : List Entry) (s : State) (u : UrlKind) (n : Nat)
    (qs : List Word) : (step f cur s (.lint u n qs)).1.user = s.user := by
  simp only [step]
  split <;> rfl

theorem step_lint_files (f : Fns) (cur : List Entry) (s : State) (u : UrlKind) (n : Nat)
    (qs : List Word) : (step f cur s (.lint u n qs)).1.files = s.files := by
  simp only [step]
  split <;> rfl

end Harper.DictIO
