import Harper.Model.Chunks
/-! Pieces (paragraphs, sentences, chunks) of two token vectors joined at a terminator, and rules
that are functions of one piece. -/
namespace Harper.Chunks
open Harper

theorem splitGo_append (term : Kind → Bool) (brk : Tok) (hb : term brk.kind = true) (A0 B : List Tok)
    (cur : List Tok) :
    splitGo term cur (A0 ++ brk :: B) = splitGo term cur (A0 ++ [brk]) ++ splitGo term [] B := by
  induction A0 generalizing cur with
  | nil => simp [splitGo, hb]
  | cons a A0 ih =>
    simp only [List.cons_append, splitGo]
    split
    · rw [ih]; rfl
    · exact ih _

/-- the pieces of `A ++ B` when `A` ends in a terminator -/
theorem split_append (term : Kind → Bool) (brk : Tok) (hb : term brk.kind = true) (A0 B : List Tok) :
    split term ((A0 ++ [brk]) ++ B) = split term (A0 ++ [brk]) ++ (if B.isEmpty then [] else split term B) := by
  have e : (A0 ++ [brk]) ++ B = A0 ++ brk :: B := by simp
  rw [e]
  unfold split
  rw [if_neg (by simp), if_neg (by simp), splitGo_append term brk hb]
  cases B with
  | nil => simp [splitGo]
  | cons b B => simp

theorem splitGo_map (term : Kind → Bool) (f : Tok → Tok) (hf : ∀ t, term (f t).kind = term t.kind)
    (toks cur : List Tok) :
    splitGo term (cur.map f) (toks.map f) = (splitGo term cur toks).map (List.map f) := by
  induction toks generalizing cur with
  | nil => cases cur <;> simp [splitGo]
  | cons t ts ih =>
    simp only [List.map_cons, splitGo, hf]
    split
    · have := ih []
      simp only [List.map_nil] at this
      simp [this]
    · have := ih (t :: cur)
      simp only [List.map_cons] at this
      exact this

theorem split_map (term : Kind → Bool) (f : Tok → Tok) (hf : ∀ t, term (f t).kind = term t.kind)
    (toks : List Tok) : split term (toks.map f) = (split term toks).map (List.map f) := by
  unfold split
  cases toks with
  | nil => simp
  | cons t ts =>
    rw [if_neg (by simp), if_neg (by simp)]
    have := splitGo_map term f hf (t :: ts) []
    simpa using this

/-- every piece is made of tokens of the vector -/
theorem splitGo_mem (term : Kind → Bool) (toks cur : List Tok) :
    ∀ piece ∈ splitGo term cur toks, ∀ t ∈ piece, t ∈ cur ∨ t ∈ toks := by
  induction toks generalizing cur with
  | nil =>
    intro piece hp t ht
    simp only [splitGo] at hp
    split at hp
    · cases hp
    · simp only [List.mem_singleton] at hp; subst hp; left; simpa using ht
  | cons a ts ih =>
    intro piece hp t ht
    simp only [splitGo] at hp
    split at hp
    · rcases List.mem_cons.mp hp with rfl | hp
      · simp only [List.mem_append, List.mem_reverse, List.mem_singleton] at ht
        rcases ht with ht | rfl
        · left; exact ht
        · right; simp
      · rcases ih [] piece hp t ht with h | h
        · cases h
        · right; exact List.mem_cons_of_mem _ h
    · rcases ih (a :: cur) piece hp t ht with h | h
      · rcases List.mem_cons.mp h with rfl | h
        · right; simp
        · left; exact h
      · right; exact List.mem_cons_of_mem _ h

theorem split_mem (term : Kind → Bool) (toks : List Tok) :
    ∀ piece ∈ split term toks, ∀ t ∈ piece, t ∈ toks := by
  intro piece hp t ht
  unfold split at hp
  split at hp
  · simp only [List.mem_singleton] at hp; subst hp; cases ht
  · rcases splitGo_mem term toks [] piece hp t ht with h | h
    · cases h
    · exact h

/-- `shiftTwin` does not change what kind of terminator a token is -/
theorem isParagraphBreak_shiftTwin (j : Nat) (k : Kind) : (shiftTwin j k).isParagraphBreak = k.isParagraphBreak := by
  cases k <;> try rfl
  rename_i t; cases t <;> rfl

theorem isSentenceTerminator_shiftTwin (j : Nat) (k : Kind) :
    isSentenceTerminator (shiftTwin j k) = isSentenceTerminator k := by
  cases k <;> try rfl
  rename_i t; cases t <;> rfl

theorem isChunkTerminator_shiftTwin (j : Nat) (k : Kind) :
    isChunkTerminator (shiftTwin j k) = isChunkTerminator k := by
  cases k <;> try rfl
  rename_i t; cases t <;> rfl

/-- A rule is local to its piece and translation invariant: it reports nothing on an empty piece;
text after the piece's paragraph does not matter; and moving the piece together with its text
moves the lints and nothing else (`j`: quote twins are token indices). -/
structure XLocal (r : Rule) : Prop where
  nil : ∀ src, r src [] = []
  left : ∀ (P D : List Char) (piece : List Tok), (∀ t ∈ piece, t.span.stop ≤ P.length) →
    r (P ++ D) piece = r P piece
  right : ∀ (P D : List Char) (piece : List Tok) (j : Nat),
    r (P ++ D) (shiftDoc P.length j piece) = shiftLints P.length (r D piece)

theorem flatMap_congr' {α β} (l : List α) (f g : α → List β) (h : ∀ x ∈ l, f x = g x) :
    l.flatMap f = l.flatMap g := by
  induction l with
  | nil => rfl
  | cons x xs ih =>
    simp only [List.flatMap_cons]
    rw [h x (by simp), ih (fun y hy => h y (List.mem_cons_of_mem _ hy))]

theorem shiftLints_append (k : Nat) (a b : List PLint) :
    shiftLints k (a ++ b) = shiftLints k a ++ shiftLints k b := by simp [shiftLints]

theorem shiftLints_flatMap {α} (k : Nat) (l : List α) (f : α → List PLint) :
    shiftLints k (l.flatMap f) = l.flatMap (fun x => shiftLints k (f x)) := by
  induction l with
  | nil => rfl
  | cons x xs ih => simp [List.flatMap_cons, shiftLints_append, ih]

/-- one local rule over the pieces of two documents joined at a terminator -/
theorem lintBy_append (term : Kind → Bool) (hterm : ∀ j k, term (shiftTwin j k) = term k)
    (r : Rule) (hr : XLocal r) (P D : List Char) (A0 : List Tok) (brk : Tok) (hb : term brk.kind = true)
    (td : List Tok) (hin : ∀ t ∈ A0 ++ [brk], t.span.stop ≤ P.length) :
    lintBy (split term) r (P ++ D) ((A0 ++ [brk]) ++ shiftDoc P.length (A0 ++ [brk]).length td) =
      lintBy (split term) r P (A0 ++ [brk]) ++ shiftLints P.length (lintBy (split term) r D td) := by
  unfold lintBy
  rw [split_append term brk hb, List.flatMap_append]
  congr 1
  · -- the pieces of the first document: the text after it does not matter
    apply flatMap_congr'
    intro piece hp
    exact hr.left P D piece (fun t ht => hin t (split_mem term _ piece hp t ht))
  · cases td with
    | nil => simp [shiftDoc, split, hr.nil, shiftLints]
    | cons t ts =>
      rw [if_neg (by simp [shiftDoc])]
      unfold shiftDoc
      rw [split_map term _ (fun t => hterm _ _), List.flatMap_map, shiftLints_flatMap]
      apply flatMap_congr'
      intro piece _
      exact hr.right P D piece _

/-- a group of local rules: the same lints, rule by rule (a group concatenates rule after rule, so
the two documents' lints interleave: equal up to that order) -/
theorem lintGroup_append_perm (pieces : List Tok → List (List Tok)) (rs : List Rule) (srcPD srcP srcD : List Char)
    (tpd tp td : List Tok) (k : Nat)
    (h : ∀ r ∈ rs, lintBy pieces r srcPD tpd = lintBy pieces r srcP tp ++ shiftLints k (lintBy pieces r srcD td)) :
    (lintGroup pieces rs srcPD tpd).Perm
      (lintGroup pieces rs srcP tp ++ shiftLints k (lintGroup pieces rs srcD td)) := by
  unfold lintGroup
  induction rs with
  | nil => simp [shiftLints]
  | cons r rs ih =>
    simp only [List.flatMap_cons, shiftLints_append]
    rw [h r (by simp)]
    have ih' := ih (fun r hr => h r (List.mem_cons_of_mem _ hr))
    -- (a ++ b) ++ X ~ (a ++ Y) ++ (b ++ Z) where X ~ Y ++ Z
    refine (List.Perm.append_left _ ih').trans ?_
    simp only [List.append_assoc]
    refine List.Perm.append_left _ ?_
    rw [← List.append_assoc, ← List.append_assoc]
    exact List.Perm.append_right _ List.perm_append_comm

end Harper.Chunks

namespace Harper.Chunks
open Harper

/-! ## the pieces of `split`: non-empty, counted, closed by their terminators -/

/-- no piece of `splitGo` is empty -/
theorem splitGo_ne (term : Kind → Bool) (toks cur : List Tok) : ∀ c ∈ splitGo term cur toks, c ≠ [] := by
  induction toks generalizing cur with
  | nil =>
    intro c hc
    simp only [splitGo] at hc
    split at hc
    · cases hc
    · rename_i h
      simp only [List.mem_singleton] at hc
      subst hc
      intro e
      apply h
      simpa using e
  | cons t ts ih =>
    intro c hc
    simp only [splitGo] at hc
    split at hc
    · rcases List.mem_cons.mp hc with rfl | hc
      · simp
      · exact ih [] c hc
    · exact ih _ c hc

/-- is the last token a terminator? (`none`: no token) -/
def endsInTerm (term : Kind → Bool) (toks : List Tok) : Bool :=
  match toks.getLast? with
  | some t => term t.kind
  | none => false

/-- as many pieces as terminators, and one more for what follows the last terminator -/
theorem splitGo_length (term : Kind → Bool) (toks cur : List Tok) :
    (splitGo term cur toks).length =
      toks.countP (fun t => term t.kind) +
        (if (match toks.getLast? with
             | some t => term t.kind
             | none => cur.isEmpty) then 0 else 1) := by
  induction toks generalizing cur with
  | nil =>
    simp only [splitGo, List.getLast?_nil, List.countP_nil]
    cases cur <;> simp
  | cons t ts ih =>
    simp only [splitGo]
    by_cases ht : term t.kind = true
    · rw [if_pos ht, List.length_cons, ih [], List.countP_cons_of_pos (by simpa using ht)]
      cases ts with
      | nil => simp [ht]
      | cons u us =>
        rw [List.getLast?_cons_cons]
        cases hl : (u :: us).getLast? with
        | none => simp at hl
        | some l => simp only []; omega
    · rw [if_neg ht, ih (t :: cur), List.countP_cons_of_neg (by simpa using ht)]
      cases ts with
      | nil => simp [ht]
      | cons u us =>
        rw [List.getLast?_cons_cons]
        cases hl : (u :: us).getLast? with
        | none => simp at hl
        | some l => rfl

/-- a terminator can only be the last token of a piece (the collected `cur` has none) -/
theorem splitGo_inner (term : Kind → Bool) (toks cur : List Tok) (hcur : cur.any (fun t => term t.kind) = false) :
    ∀ c ∈ splitGo term cur toks, c.dropLast.any (fun t => term t.kind) = false := by
  induction toks generalizing cur with
  | nil =>
    intro c hc
    simp only [splitGo] at hc
    split at hc
    · cases hc
    · simp only [List.mem_singleton] at hc
      subst hc
      simp only [List.any_eq_false] at hcur ⊢
      intro x hx
      exact hcur x (by simpa using List.dropLast_subset _ hx)
  | cons t ts ih =>
    intro c hc
    simp only [splitGo] at hc
    split at hc
    · rcases List.mem_cons.mp hc with rfl | hc
      · rw [List.dropLast_concat]
        simpa using hcur
      · exact ih [] (by simp) c hc
    · rename_i ht
      refine ih (t :: cur) ?_ c hc
      simp only [List.any_cons, hcur, Bool.or_false]
      simpa using ht

/-- every piece but the last ends in a terminator -/
theorem splitGo_ends (term : Kind → Bool) (toks cur : List Tok) :
    ∀ pre c post, splitGo term cur toks = pre ++ c :: post → post ≠ [] →
      ∃ t, c.getLast? = some t ∧ term t.kind = true := by
  induction toks generalizing cur with
  | nil =>
    intro pre c post h hpost
    simp only [splitGo] at h
    split at h
    · cases pre <;> cases h
    · cases pre with
      | nil => simp at h; exact absurd h.2 hpost
      | cons p pre => simp at h
  | cons t ts ih =>
    intro pre c post h hpost
    simp only [splitGo] at h
    split at h
    · rename_i ht
      cases pre with
      | nil =>
        simp only [List.nil_append, List.cons.injEq] at h
        exact ⟨t, by rw [← h.1]; simp, ht⟩
      | cons p pre =>
        simp only [List.cons_append, List.cons.injEq] at h
        exact ih [] pre c post h.2 hpost
    · exact ih _ pre c post h hpost

end Harper.Chunks
