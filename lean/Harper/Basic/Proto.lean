/-!
# Line-protocol helpers for the model driver (import-free)
-/
namespace Harper.Proto

def splitWs (s : String) : List String :=
  (s.splitOn " ").filter (· ≠ "")

/-- split a list at every element equal to `sep` -/
def splitAt {α} [BEq α] (sep : α) : List α → List (List α)
  | [] => [[]]
  | x :: xs =>
    match splitAt sep xs with
    | [] => [[x]]
    | g :: gs => if x == sep then [] :: g :: gs else (x :: g) :: gs

def nats? (ws : List String) : Option (List Nat) := ws.mapM String.toNat?

def natsOf (s : String) (sep : Char := ':') : Option (List Nat) :=
  (s.splitOn (String.singleton sep)).mapM String.toNat?

def joinSp (l : List String) : String := " ".intercalate l

def showNats (l : List Nat) : String := joinSp (l.map toString)

def charsOf (ws : List String) : Option (List Char) :=
  ws.mapM fun w => w.toNat?.map Char.ofNat

def showChars (cs : List Char) : String := joinSp (cs.map fun c => toString c.toNat)

end Harper.Proto
