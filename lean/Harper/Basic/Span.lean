/-!
# L0 — spans (`harper-core/src/span.rs`)

Import-free. Panics are values: every Rust operation of the modelled code that can panic
returns `Except Panic α`.
-/
namespace Harper

/-- Why a modelled Rust operation panicked. -/
inductive Panic where
  | spanNew        -- `Span::new(start, end)` with `start > end`
  | sliceOOB       -- slice / index out of bounds
  | underflow      -- `usize` subtraction below zero (overflow checks on)
  | overflow       -- `u8` / `usize` addition overflow (overflow checks on)
  | unwrapNone     -- `Option::unwrap` on `None`
  | outOfFuel      -- the modelled loop did not finish within its fuel (a hang)
  | assertFail
  deriving Repr, DecidableEq, Inhabited

structure Span where
  start : Nat
  stop  : Nat
  deriving Repr, DecidableEq, Inhabited

namespace Span

/-- `Span::new` panics when `start > end`. -/
def new (s e : Nat) : Except Panic Span :=
  if s > e then .error .spanNew else .ok ⟨s, e⟩

def len (s : Span) : Nat := s.stop - s.start
def isEmpty (s : Span) : Bool := s.len == 0
def WF (s : Span) : Prop := s.start ≤ s.stop
instance (s : Span) : Decidable s.WF := inferInstanceAs (Decidable (_ ≤ _))

def overlapsWith (a b : Span) : Bool := a.start < b.stop && b.start < a.stop

def pushBy (s : Span) (by_ : Nat) : Span := ⟨s.start + by_, s.stop + by_⟩

/-- `pull_by` (debug build: subtraction underflow panics). -/
def pullBy (s : Span) (by_ : Nat) : Except Panic Span :=
  if by_ > s.start ∨ by_ > s.stop then .error .underflow else .ok ⟨s.start - by_, s.stop - by_⟩

/-- `pulled_by` returns `None` when `by > start`. -/
def pulledBy (s : Span) (by_ : Nat) : Option Span :=
  if by_ > s.start then none else some ⟨s.start - by_, s.stop - by_⟩

def withLen (s : Span) (n : Nat) : Span := ⟨s.start, s.start + n⟩

/-- `get_content`: panics unless the span denotes a slice of `src`
(an empty span is always accepted by `try_get_content`; `start > end` underflows in `len`). -/
def getContent {α} (s : Span) (src : List α) : Except Panic (List α) :=
  if s.start > s.stop then .error .underflow
  else if s.start ≥ src.length ∨ s.stop > src.length then
    (if s.stop == s.start then .ok [] else .error .sliceOOB)
  else .ok ((src.drop s.start).take (s.stop - s.start))

end Span
end Harper
