namespace Harper
/-- `NumberSuffix` of harper-core/src/number.rs -/
inductive Suffix where
  | th | st | nd | rd
  deriving Repr, DecidableEq, Inhabited
end Harper
