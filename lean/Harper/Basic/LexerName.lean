namespace Harper
/-- the lexer functions of `harper-core/src/lexing/mod.rs` -/
inductive LexerName where
  | lex_regexish | lex_punctuation | lex_tabs | lex_spaces | lex_newlines | lex_plural_digit
  | lex_hex_number | lex_long_decade | lex_number | lex_url | lex_email_address
  | lex_hostname_token | lex_word | lex_catch
  deriving Repr, DecidableEq, Inhabited
end Harper
