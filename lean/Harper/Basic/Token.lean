import Harper.Basic.Span
import Harper.Basic.Suffix
/-!
# L0 — tokens (`token.rs`, `token_kind.rs`, `punctuation.rs`)
-/
namespace Harper

/-- `Punctuation` (quotes are `Kind.quote`, they carry `twin_loc`). -/
inductive Punct where
  | Ellipsis | EnDash | EmDash | Ampersand | Period | Bang | Question | Colon | Semicolon
  | Comma | Hyphen | OpenSquare | CloseSquare | OpenRound | CloseRound | OpenCurly | CloseCurly
  | Hash | Apostrophe | Percent | ForwardSlash | Backslash | LessThan | GreaterThan | Equal
  | Star | Tilde | At | Caret | Plus | Currency | Pipe | Underscore
  deriving Repr, DecidableEq, Inhabited

/-- `TokenKind`; word metadata is not modelled (it is dictionary data attached after parsing). -/
inductive Kind where
  | word
  | punct (p : Punct)
  | quote (twin : Option Nat)
  | decade
  | number (radix : Nat) (suffix : Option Suffix)
  | space (n : Nat)
  | newline (n : Nat)
  | email | url | hostname
  | unlintable
  | paragraphBreak
  | regexish
  deriving Repr, DecidableEq, Inhabited

structure Tok where
  span : Span
  kind : Kind
  deriving Repr, DecidableEq, Inhabited

namespace Kind
def isWord : Kind → Bool | word => true | _ => false
def isPeriod : Kind → Bool | punct .Period => true | _ => false
def isApostrophe : Kind → Bool | punct .Apostrophe => true | _ => false
def isSpace : Kind → Bool | space _ => true | _ => false
def isNewline : Kind → Bool | newline _ => true | _ => false
def isNumber : Kind → Bool | number _ _ => true | _ => false
def isQuote : Kind → Bool | quote _ => true | _ => false
def isPunctuation : Kind → Bool | punct _ => true | quote _ => true | _ => false
def isParagraphBreak : Kind → Bool | paragraphBreak => true | _ => false
/-- `is_whitespace`: `Space(_) | Newline(_)` -/
def isWhitespace : Kind → Bool | space _ => true | newline _ => true | _ => false

def tag : Kind → String
  | word => "word" | punct p => "p." ++ (reprStr p).replace "Harper.Punct." ""
  | quote none => "quote:-" | quote (some t) => s!"quote:{t}"
  | decade => "decade"
  | number r none => s!"num{r}:-"
  | number r (some s) => s!"num{r}:" ++ (reprStr s).replace "Harper.Suffix." ""
  | space n => s!"space{n}" | newline n => s!"nl{n}"
  | email => "email" | url => "url" | hostname => "host" | unlintable => "unl"
  | paragraphBreak => "parbreak" | regexish => "regexish"
end Kind

def Tok.show (t : Tok) : String := s!"{t.kind.tag}@{t.span.start}-{t.span.stop}"

/-- spans are contiguous from `a` to `b`, every token non-empty -/
def Tiles : List Tok → Nat → Nat → Prop
  | [], a, b => a = b
  | t :: ts, a, b => t.span.start = a ∧ a < t.span.stop ∧ Tiles ts t.span.stop b

instance : (ts : List Tok) → (a b : Nat) → Decidable (Tiles ts a b)
  | [], a, b => inferInstanceAs (Decidable (a = b))
  | t :: ts, a, b =>
    have := instDecidableTiles ts t.span.stop b
    inferInstanceAs (Decidable (_ ∧ _ ∧ _))

end Harper
