import Harper.Driver.PatternRules
import Harper.Model.MergeRules
import Harper.Model.SpellRule
/-!
Driver ops for `Model/MergeRules.lean` (tokens as data, as in `prule`):

* `mrule <Name> | code points | tag@s-e … | numbers | words | chars` → the lints of the `merge_linters!` rule `<Name>`
  (HopHope, CompoundNouns, PronounContraction, LetsConfusion) alone, format of `rule`;
* `mchild <Child> | …` → the lints of one child (`PRule.rule`) alone;
* `mrulem <Child> | …` → `ok r₀ … r_len`, `rᵢ` = `child.pattern().matches(&tokens[i..], source)`: a number, `p` or `t`;
* `mmtl <Child> | code points | tokens | i:n … | numbers | words | chars` → `child.match_to_lint(&tokens[i..i+n], source)` per
  slice, separated by `;`: `none`, the lint, or `panic`.

`Model/SpellRule.lean`:

* `spellr <cap> | words | chars | code points₁ | tokens₁ | code points₂ | tokens₂ | …` → ONE `SpellCheck` instance (empty
  `word_cache` of capacity `cap`) linting the documents in turn: `ok r₁ ; r₂ ; …`, `rᵢ` = the lints of document `i` (format of
  `rule`, `-` = none) or `panic`. words: `text/kdel/suggestions` — `k` token has metadata, `d` dialect admitted, `e`
  `contains_exact_word(text)`, `l` `contains_exact_word(lower(text))` (each `0` / `1`); suggestions = the UNCACHED search result:
  `,`-joined texts, `-` = none found, `!` = the search panics. chars: `cp/f/cp'` — `f` = `u` when `is_uppercase` (else `n`), `cp'` = `to_uppercase().next()`.
-/
namespace Harper.Driver.MergeRules
open Harper Harper.Proto Harper.Rules Harper.Leaves Harper.PatternRules Harper.MergeRules Harper.Driver.Rules Harper.Driver.Leaves

def handleMRule (args : List String) : String :=
  match args with
  | name :: rest =>
    match splitAt "|" rest with
    | [[], cs, ts, ns, ws, chs] =>
      match mergedByName name, envOfGroups ns ws chs, charsOf cs, ts.mapM Mask.parseTok with
      | some children, some env, some src, some toks => showResult (mergedRule env children src toks)
      | _, _, _, _ => "bad-op"
    | _ => "bad-op"
  | [] => "bad-op"

def handleMChild (args : List String) : String :=
  match args with
  | name :: rest =>
    match splitAt "|" rest with
    | [[], cs, ts, ns, ws, chs] =>
      match childByName name, envOfGroups ns ws chs, charsOf cs, ts.mapM Mask.parseTok with
      | some r, some env, some src, some toks => showResult (r.rule env src toks)
      | _, _, _, _ => "bad-op"
    | _ => "bad-op"
  | [] => "bad-op"

def handleMRuleM (args : List String) : String :=
  match args with
  | name :: rest =>
    match splitAt "|" rest with
    | [[], cs, ts, ns, ws, chs] =>
      match childByName name, envOfGroups ns ws chs, charsOf cs, ts.mapM Mask.parseTok with
      | some r, some env, some src, some toks =>
        joinSp ("ok" :: (suffixes toks).map fun s => showM (r.pat.matcher env src s))
      | _, _, _, _ => "bad-op"
    | _ => "bad-op"
  | [] => "bad-op"

def handleMMtl (args : List String) : String :=
  match args with
  | name :: rest =>
    match splitAt "|" rest with
    | [[], cs, ts, sl, ns, ws, chs] =>
      match childByName name, envOfGroups ns ws chs, charsOf cs, ts.mapM Mask.parseTok, sl.mapM (natsOf ·) with
      | some r, some env, some src, some toks, some sls =>
        let outs := sls.map fun s =>
          match s with
          | [i, n] =>
            (match r.spec.run env src ((toks.drop i).take n) with
             | .ok [] => "none"
             | .ok ls => joinSp (ls.map showLint)
             | .error _ => "panic")
          | _ => "bad"
        joinSp ("ok" :: (outs.intersperse ";"))
      | _, _, _, _, _ => "bad-op"
    | _ => "bad-op"
  | [] => "bad-op"

open Harper.SpellRule in
def parseSpellWord (w : String) : Option (List Char × WordData) :=
  match w.splitOn "/" with
  | [t, f, sg] =>
    match cpsOf t, f.toList with
    | some t, [k, d, e, l] =>
      let b := fun (c : Char) => c == '1'
      let sugg : Option (Option (List (List Char))) :=
        if sg = "!" then some none
        else if sg = "-" then some (some [])
        else ((sg.splitOn ",").mapM cpsOf).map some
      sugg.map fun s => (t, ⟨b k, b d, b e, b l, s⟩)
    | _, _ => none
  | _ => none

def parseSpellChar (w : String) : Option (Char × Bool × Char) :=
  match w.splitOn "/" with
  | [c, f, u] =>
    match c.toNat?, u.toNat? with
    | some c, some u => some (Char.ofNat c, f == "u", Char.ofNat u)
    | _, _ => none
  | _ => none

open Harper.SpellRule in
def spellEnvOf (words : List (List Char × WordData)) (chars : List (Char × Bool × Char)) : SpellEnv where
  data w := match words.lookup w with | some d => d | none => ⟨false, false, false, false, some []⟩
  isUpper c := match chars.lookup c with | some (u, _) => u | none => false
  upperFirst c := match chars.lookup c with | some (_, u) => u | none => c

def parseDocs : List (List String) → Option (List (List Char × List Tok))
  | [] => some []
  | cs :: ts :: rest =>
    match charsOf cs, ts.mapM Mask.parseTok, parseDocs rest with
    | some src, some toks, some ds => some ((src, toks) :: ds)
    | _, _, _ => none
  | [_] => none

open Harper.SpellRule in
def handleSpellR (args : List String) : String :=
  match splitAt "|" args with
  | [cap] :: ws :: chs :: docs =>
    match cap.toNat?, ws.mapM parseSpellWord, chs.mapM parseSpellChar, parseDocs docs with
    | some cap, some words, some chars, some ds =>
      let rs := spellSession (spellEnvOf words chars) id cap [] ds
      let shown := rs.map fun r =>
        match r with
        | .ok [] => "-"
        | .ok ls => joinSp (ls.map showLint)
        | .error _ => "panic"
      joinSp ("ok" :: (shown.intersperse ";"))
    | _, _, _, _ => "bad-op"
  | _ => "bad-op"

end Harper.Driver.MergeRules
