import Harper.Driver.Lex
import Harper.Model.Condense
import Harper.Model.Chunks
namespace Harper.Driver.Condense
open Harper Harper.Proto Harper.Driver.Lex

/-- `doc | cp:flags … | pos:kind:len …` → tokens of `Document::new(text, &PlainEnglish, _)` -/
def handleDoc (args : List String) : String :=
  match parseText args with
  | some (src, cls, ext) => showTokResult (document cls ext src)
  | none => "bad-op"

end Harper.Driver.Condense
namespace Harper.Driver.Condense
open Harper Harper.Proto Harper.Driver.Lex

/-- one piece as `firstTokenIndex:count` is not observable from slices; print its character span
`start-stop` and its token count, `e` for an empty piece -/
def showPiece (p : List Tok) : String :=
  match p.head?, p.getLast? with
  | some a, some b => s!"{a.span.start}-{b.span.stop}/{p.length}"
  | _, _ => "e"

/-- `pieces par|sent|chunk | cp:flags … | ext …` → `iter_paragraphs` / `iter_sentences` /
`iter_chunks` of the document -/
def handlePieces (args : List String) : String :=
  match args with
  | which :: rest =>
    match parseText rest with
    | some (src, cls, ext) =>
      match document cls ext src with
      | .ok ts =>
        let ps := match which with
          | "par" => some (Harper.Chunks.iterParagraphs ts)
          | "sent" => some (Harper.Chunks.iterSentences ts)
          | "chunk" => some (Harper.Chunks.iterChunks ts)
          | _ => none
        match ps with
        | some ps => joinSp ("ok" :: ps.map showPiece)
        | none => "bad-op"
      | .error .outOfFuel => "timeout"
      | .error _ => "panic"
    | none => "bad-op"
  | [] => "bad-op"

end Harper.Driver.Condense