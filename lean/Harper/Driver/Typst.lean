import Harper.Basic.Proto
import Harper.Model.Typst
import Harper.Driver.Lex
import Harper.Driver.Mask
/-!
Driver ops of the Typst translator and of the HTML `Space` clamp (C02 / C01).

The tree is serialised in prefix notation with explicit counts (`harness/src/c02typst.rs:w_n`):

```
range := "-" | s:e                      byte range, "-" = detached
text  := n cp[:flags]*n                 n characters
nodes := n node*n        items := n item*n
node  := T range text                   Text
       | S range                        Space
       | L(lb|pb|qd|qs|ln|ot) range     Linebreak, Parbreak, SmartQuote double / single, Link, other
       | B(st|em|hd|li|en|tm|co|cd) range nodes      Strong Emph Heading List Enum Term Content Code
       | Q range text                   Str
       | O(pa|da|cx) range node         Parenthesized, DestructAssign, Contextual
       | R(wh|fo|if|sh) range nodes     While, For, Conditional, Show
       | A range items | D range items  Array, Dict
       | F range node range             FieldAccess: target, field
       | E range node nodes             Let: kind, init
       | C range                        LetBindingKind::Closure(ident)
       | Z range node nodes items       Set: target, condition, args
       | U range nodes items node       Closure: name, params, body
       | K range range items            FuncCall: callee, args
       | P_ range | P( range node node | PD range items      the pattern views
item  := ip node | in range node text node | id range range node | ik range node node | is range nodes
```

Fuel = number of words. A word sequence that is not a tree, or has words left over, is `bad-op`.
-/
namespace Harper.Driver.Typst
open Harper Harper.Proto Harper.Typst

def pRange (w : String) : Option BRange :=
  if w == "-" then some none
  else match natsOf w with
    | some [s, e] => some (some (s, e))
    | _ => none

/-- `n cp[:flags]*n` -/
def pText : List String → Option (List Char × List String)
  | [] => none
  | n :: ws =>
    match n.toNat? with
    | none => none
    | some n =>
      if ws.length < n then none
      else match (ws.take n).mapM Lex.parseCh with
        | some cs => some (cs.map (·.1), ws.drop n)
        | none => none

def leafOf : String → Option LeafKind
  | "Llb" => some .linebreak | "Lpb" => some .parbreak | "Lqd" => some .quoteDouble
  | "Lqs" => some .quoteSingle | "Lln" => some .link | "Lot" => some .other | _ => none

def bodyOf : String → Option BodyKind
  | "Bst" => some .strong | "Bem" => some .emph | "Bhd" => some .heading | "Bli" => some .list
  | "Ben" => some .enum | "Btm" => some .term | "Bco" => some .content | "Bcd" => some .code | _ => none

def rec1Of : String → Option Rec1Kind
  | "Opa" => some .parenthesized | "Oda" => some .destructAssign | "Ocx" => some .contextual | _ => none

def recOf : String → Option RecKind
  | "Rwh" => some .whileLoop | "Rfo" => some .forLoop | "Rif" => some .conditional
  | "Rsh" => some .showRule | _ => none

mutual
def pNode : Nat → List String → Option (TNode × List String)
  | 0, _ => none
  | _, [] => none
  | _, [_] => none
  | fuel + 1, tag :: rw :: ws =>
    match pRange rw with
    | none => none
    | some r =>
      if tag == "T" then (pText ws).map fun (t, rest) => (.text r t, rest)
      else if tag == "S" then some (.space r, ws)
      else if tag == "Q" then (pText ws).map fun (t, rest) => (.str r t, rest)
      else if tag == "C" then some (.letClosure r, ws)
      else if tag == "P_" then some (.patPlaceholder r, ws)
      else if tag == "A" then (pItems fuel ws).map fun (is, rest) => (.array r is, rest)
      else if tag == "D" then (pItems fuel ws).map fun (is, rest) => (.dict r is, rest)
      else if tag == "PD" then (pItems fuel ws).map fun (is, rest) => (.patDestruct r is, rest)
      else if tag == "F" then
        match pNode fuel ws with
        | some (t, f :: rest) => (pRange f).map fun fr => (.fieldAccess r t fr, rest)
        | _ => none
      else if tag == "E" then
        match pNode fuel ws with
        | some (k, rest) => (pNodes fuel rest).map fun (init, rest') => (.letBinding r k init, rest')
        | none => none
      else if tag == "Z" then
        match pNode fuel ws with
        | some (t, rest) =>
          match pNodes fuel rest with
          | some (c, rest') => (pItems fuel rest').map fun (a, rest'') => (.setRule r t c a, rest'')
          | none => none
        | none => none
      else if tag == "U" then
        match pNodes fuel ws with
        | some (nm, rest) =>
          match pItems fuel rest with
          | some (ps, rest') => (pNode fuel rest').map fun (b, rest'') => (.closure r nm ps b, rest'')
          | none => none
        | none => none
      else if tag == "K" then
        match ws with
        | c :: rest =>
          match pRange c with
          | some cr => (pItems fuel rest).map fun (a, rest') => (.funcCall r cr a, rest')
          | none => none
        | [] => none
      else if tag == "P(" then
        match pNode fuel ws with
        | some (e, rest) => (pNode fuel rest).map fun (p, rest') => (.patParen r e p, rest')
        | none => none
      else match leafOf tag, bodyOf tag, rec1Of tag, recOf tag with
        | some k, _, _, _ => some (.leaf k r, ws)
        | _, some k, _, _ => (pNodes fuel ws).map fun (es, rest) => (.body k r es, rest)
        | _, _, some k, _ => (pNode fuel ws).map fun (e, rest) => (.rec1 k r e, rest)
        | _, _, _, some k => (pNodes fuel ws).map fun (es, rest) => (.recN k r es, rest)
        | _, _, _, _ => none

def pNodesN : Nat → Nat → List String → Option (TNodes × List String)
  | 0, _, _ => none
  | _, 0, ws => some (.nil, ws)
  | fuel + 1, n + 1, ws =>
    match pNode fuel ws with
    | some (e, rest) => (pNodesN fuel n rest).map fun (es, rest') => (.cons e es, rest')
    | none => none

def pNodes : Nat → List String → Option (TNodes × List String)
  | 0, _ => none
  | _, [] => none
  | fuel + 1, n :: ws =>
    match n.toNat? with
    | some n => pNodesN fuel n ws
    | none => none

def pItem : Nat → List String → Option (TItem × List String)
  | 0, _ => none
  | _, [] => none
  | fuel + 1, tag :: ws =>
    if tag == "ip" then (pNode fuel ws).map fun (n, rest) => (.pos n, rest)
    else match ws with
      | [] => none
      | rw :: ws =>
        match pRange rw with
        | none => none
        | some r =>
          if tag == "in" then
            match pNode fuel ws with
            | some (nm, rest) =>
              match pText rest with
              | some (t, rest') => (pNode fuel rest').map fun (v, rest'') => (.named r nm t v, rest'')
              | none => none
            | none => none
          else if tag == "id" then
            match ws with
            | nr :: rest =>
              match pRange nr with
              | some nr => (pNode fuel rest).map fun (p, rest') => (.dnamed r nr p, rest')
              | none => none
            | [] => none
          else if tag == "ik" then
            match pNode fuel ws with
            | some (k, rest) => (pNode fuel rest).map fun (v, rest') => (.keyed r k v, rest')
            | none => none
          else if tag == "is" then (pNodes fuel ws).map fun (es, rest) => (.spread r es, rest)
          else none

def pItemsN : Nat → Nat → List String → Option (TItems × List String)
  | 0, _, _ => none
  | _, 0, ws => some (.nil, ws)
  | fuel + 1, n + 1, ws =>
    match pItem fuel ws with
    | some (i, rest) => (pItemsN fuel n rest).map fun (is, rest') => (.cons i is, rest')
    | none => none

def pItems : Nat → List String → Option (TItems × List String)
  | 0, _ => none
  | _, [] => none
  | fuel + 1, n :: ws =>
    match n.toNat? with
    | some n => pItemsN fuel n ws
    | none => none
end

/-- the whole tree group: the top-level expressions, nothing left over -/
def parseTree (ws : List String) : Option TNodes :=
  match pNodes (2 * ws.length + 2) ws with
  | some (top, []) => some top
  | _ => none

/-- every `cp:flags` word of the tree group (node texts carry their class flags) -/
def flagWords (ws : List String) : List (Char × String) :=
  ws.filterMap fun w =>
    match w.splitOn ":" with
    | [cp, fl] =>
      if fl.isEmpty || !fl.all Char.isAlpha then none
      else cp.toNat?.map fun n => (Char.ofNat n, fl)
    | _ => none

/-- `typst | tree | cp:flags …` → the tokens of `harper_typst::Typst.parse` -/
def handleTypst (args : List String) : String :=
  match splitAt "|" args with
  | [[], tw, cs] =>
    match parseTree tw, cs.mapM Lex.parseCh with
    | some top, some chs =>
      let cls := Lex.clsOf (Lex.dedupTab (chs ++ flagWords tw))
      Mask.showToks (typstParseSrc cls (chs.map (·.1)) top)
    | _, _ => "bad-op"
  | _ => "bad-op"

/-- `typok | tree | cps` → `ok t a o s`: the assumption monitors `TreeOK`, `NoAlias`, `InOrder`,
`RangesSolid` (w24) of the Typst theorems, evaluated by the model's own definitions on the real tree -/
def handleTypOk (args : List String) : String :=
  match splitAt "|" args with
  | [[], tw, cs] =>
    match parseTree tw, charsOf cs with
    | some top, some src =>
      let b := fun (x : Bool) => if x then "1" else "0"
      let E := envOfSrc ⟨fun _ => false, fun _ => false, fun _ => false⟩ src
      s!"ok {b (treesOK E.bs 0 E.bs.length top)} {b (nodupRanges top.ranges && noAliasL top)} {b (inOrderL E top 0).isSome} {b (rangesSolid E.bs top)}"
    | _, _ => "bad-op"
  | _ => "bad-op"

/-- `htmlclamp | v …` → `(*v).clamp(0, 1)` for every `Space(v)` -/
def handleHtmlClamp (args : List String) : String :=
  match splitAt "|" args with
  | [[], vs] =>
    match nats? vs with
    | some vs =>
      let toks := htmlSpaceClamp (vs.map fun v => (⟨⟨0, 0⟩, .space v⟩ : Tok))
      joinSp ("ok" :: toks.filterMap fun t => match t.kind with | .space v => some (toString v) | _ => none)
    | none => "bad-op"
  | _ => "bad-op"

/-- `htmlclampt | tokens of the inner Mask parse` → the tokens of `HtmlParser::parse` -/
def handleHtmlClampT (args : List String) : String :=
  match splitAt "|" args with
  | [[], ts] =>
    match ts.mapM Mask.parseTok with
    | some toks => Mask.showToks (.ok (htmlSpaceClamp toks))
    | none => "bad-op"
  | _ => "bad-op"

/-- `htmlparse | cp:flags … | s:e …` → the tokens of `HtmlParser::default().parse`: `htmlParse` over
the text and the mask the real `TreeSitterMasker` computed for it (data), the inner parser being the
model's own `PlainEnglish` (`plainInner`: class flags from the text's `cp:flags` words) -/
def handleHtmlParse (args : List String) : String :=
  match splitAt "|" args with
  | [[], tx, rs] =>
    match tx.mapM Lex.parseCh, rs.mapM Mask.parseSpan with
    | some chs, some mask =>
      Mask.showToks (htmlParseSrc (Lex.clsOf (Lex.dedupTab chs)) (chs.map (·.1)) mask)
    | _, _ => "bad-op"
  | _ => "bad-op"

end Harper.Driver.Typst
