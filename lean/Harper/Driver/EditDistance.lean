import Harper.Basic.Proto
import Harper.Model.EditDistance
import Harper.Model.Dict
/-!
Driver ops for C15 (text = decimal code points; groups separated by the word `|`):

* `ed  <a> | <b>`                      → `ok <n>` / `panic`      (`u8` cells, dev profile)
* `edn <a> | <b>`                      → `ok <n>`                (unbounded cells)
* `dq | <nq> | <kq> | <dict>`          → `ok mem=<0|1> exact=<0|1> canon=<word|-> meta=<n|->`
* `mq | <nq> | <kq> | <dict> / <dict> …`   the same for a merged dictionary
* `fz <bound> <cap> | <q> | <ql> | <dict>` → `ok n=<pool> <dist>:<word> …` / `panic`
* `fzall <maxbound> <maxcap> | <q> | <ql> | <dict>` → the `fz` answers for every bound `0..=maxbound`
  and cap `1..=maxcap`, separated by ` ; `
* `fzf <bound> <cap> | <q> | <sql> | <word> , <word> …` → as `fz`, for the FST back-end (the empty
  word is written `_`)
  (`fzfall <maxbound> <maxcap> | …` as `fzall`)
* `mfz <bound> <cap> | <q> | <ql> | <dict> / <dict> …` → as `fz`, for a merged dictionary

`<dict>` = entries separated by the word `,`; an entry is `<word> ; <key>` where `<key>` is
`lower(normalized(word))` as computed by the real code; the entry's metadata payload is its index
in the op line (counted across the children of a merged dictionary). `<nq>` is the normalised
query, `<kq>` its key, `<q>` the normalised query and `<ql>` its lower-case form.

Fuzzy results are canonicalised (hash-map iteration order and the unstable sort decide the order
of ties in the real code): sorted by (distance, word); `n` is the number of matches before the
final `take`; if the `take` (or, for a merged dictionary, a child's own `take`) cut through a
distance group, that group's words are printed as `?`. Words are code points joined by `.`, the empty word is `_`.
-/
namespace Harper.Driver.EditDistance
open Harper Harper.Proto

def showRes : Except Panic Nat → String
  | .ok n => s!"ok {n}"
  | .error _ => "panic"

def handleEdWith (m : Arith) (args : List String) : String :=
  match splitAt "|" args with
  | [a, b] =>
    match charsOf a, charsOf b with
    | some a, some b => showRes (editDistance m a b)
    | _, _ => "bad-op"
  | _ => "bad-op"

def handleEd := handleEdWith .checked
def handleEdn := handleEdWith .nat

/-- entries of one dictionary group, metadata payloads numbered from `i0` -/
def parseDict (i0 : Nat) (g : List String) : Option (List DictEntry) :=
  if g.isEmpty then some []
  else
    let rec go (i : Nat) : List (List String) → Option (List DictEntry)
      | [] => some []
      | e :: es =>
        match splitAt ";" e with
        | [w, k] =>
          match charsOf w, charsOf k, go (i + 1) es with
          | some w, some k, some rest => some (⟨w, k, i⟩ :: rest)
          | _, _, _ => none
        | _ => none
    go i0 (splitAt "," g)

/-- children of a merged dictionary, separated by `/`; payloads numbered across children -/
def parseMerged (g : List String) : Option (List (List DictEntry)) :=
  let rec go (i : Nat) : List (List String) → Option (List (List DictEntry))
    | [] => some []
    | c :: cs =>
      match parseDict i c with
      | some es =>
        match go (i + es.length) cs with
        | some rest => some (es :: rest)
        | none => none
      | none => none
  go 0 (splitAt "/" g)

def showEdWord (w : List Char) : String :=
  if w.isEmpty then "_" else ".".intercalate (w.map fun c => toString c.toNat)

def showOptWord : Option (List Char) → String
  | some w => showEdWord w
  | none => "-"

def showOptNat : Option Nat → String
  | some n => toString n
  | none => "-"

def b01 (b : Bool) : String := if b then "1" else "0"

def handleDq (args : List String) : String :=
  match splitAt "|" args with
  | [[], nq, kq, d] =>
    match charsOf nq, charsOf kq, parseDict 0 d with
    | some nq, some kq, some es =>
      let d := Dict.ofList es
      s!"ok mem={b01 (d.containsWord kq)} exact={b01 (d.containsExact nq kq)} canon={showOptWord (d.canonical kq)} meta={showOptNat (d.metadata kq)}"
    | _, _, _ => "bad-op"
  | _ => "bad-op"

def handleMq (args : List String) : String :=
  match splitAt "|" args with
  | [[], nq, kq, d] =>
    match charsOf nq, charsOf kq, parseMerged d with
    | some nq, some kq, some cs =>
      let ds : Merged := cs.map Dict.ofList
      s!"ok mem={b01 (Merged.containsWord ds kq)} exact={b01 (Merged.containsExact ds nq kq)} canon={showOptWord (Merged.canonical ds kq)} meta={showOptNat (Merged.metadata ds kq)}"
    | _, _, _ => "bad-op"
  | _ => "bad-op"

/-- lexicographic order on code points -/
def lexLe : List Char → List Char → Bool
  | [], _ => true
  | _ :: _, [] => false
  | a :: s, b :: t => a.toNat < b.toNat || (a.toNat == b.toNat && lexLe s t)

def resLe (a b : List Char × Nat) : Bool := a.2 < b.2 || (a.2 == b.2 && lexLe a.1 b.1)

def insertRes (x : List Char × Nat) : List (List Char × Nat) → List (List Char × Nat)
  | [] => [x]
  | y :: ys => if resLe x y then x :: y :: ys else y :: insertRes x ys

def sortRes : List (List Char × Nat) → List (List Char × Nat)
  | [] => []
  | x :: xs => insertRes x (sortRes xs)

/-- the distance of the last group of `res = pool.take cap` if the `take` cut through it -/
def cutDist (pool res : List (List Char × Nat)) : List Nat :=
  match (sortRes res).getLast? with
  | none => []
  | some l =>
    if (pool.filter (·.2 == l.2)).length > (res.filter (·.2 == l.2)).length then [l.2] else []

/-- canonical form of a fuzzy result: `n` = size of the pool the final `take` worked on, results
sorted by (distance, word), words of the distance groups in `cuts` masked -/
def showFuzzyWith (n : Nat) (cuts : List Nat) (res : List (List Char × Nat)) : String :=
  joinSp (s!"ok n={n}" :: (sortRes res).map fun r =>
    if cuts.contains r.2 then s!"{r.2}:?" else s!"{r.2}:{showEdWord r.1}")

def showFuzzy (pool res : List (List Char × Nat)) : String :=
  showFuzzyWith pool.length (cutDist pool res) res

def fzOne (d : Dict) (bound cap : Nat) (q ql : List Char) : String :=
  match fuzzyAll .checked bound q ql d.tagged, fuzzyMatch .checked bound cap q ql d.tagged with
  | .ok pool, .ok res => showFuzzy pool res
  | _, _ => "panic"

def handleFz (args : List String) : String :=
  match splitAt "|" args with
  | [[b, c], q, ql, d] =>
    match b.toNat?, c.toNat?, charsOf q, charsOf ql, parseDict 0 d with
    | some b, some c, some q, some ql, some es => fzOne (Dict.ofList es) b c q ql
    | _, _, _, _, _ => "bad-op"
  | _ => "bad-op"

def handleFzAll (args : List String) : String :=
  match splitAt "|" args with
  | [[b, c], q, ql, d] =>
    match b.toNat?, c.toNat?, charsOf q, charsOf ql, parseDict 0 d with
    | some mb, some mc, some q, some ql, some es =>
      let d := Dict.ofList es
      " ; ".intercalate <|
        (List.range (mb + 1)).flatMap fun b => (List.range mc).map fun c => fzOne d b (c + 1) q ql
    | _, _, _, _, _ => "bad-op"
  | _ => "bad-op"

/-- `fzf <bound> <cap> | <q> | <sql> | <word> , <word> …` — the FST back-end; the words are the
FST's own list (sorted, deduplicated), `<sql>` is `String::to_lowercase` of the normalised query -/
def fzfOne (ws : List (List Char)) (b c : Nat) (q sql : List Char) : String :=
  let iws := ws.zipIdx.map fun (w, i) => (i, w)
  let us := fstStream b q iws
  let ls := fstStream b sql iws
  let word := fun (r : Nat × Nat) => (ws.getD r.1 [], r.2)
  showFuzzy ((zipMergeAll us ls).map word) ((zipMerge c us ls).map word)

def parseWords (d : List String) : Option (List (List Char)) :=
  (if d.isEmpty then [] else splitAt "," d).mapM fun g => if g == ["_"] then some [] else charsOf g

def handleFzf (args : List String) : String :=
  match splitAt "|" args with
  | [[b, c], q, sql, d] =>
    match b.toNat?, c.toNat?, charsOf q, charsOf sql, parseWords d with
    | some b, some c, some q, some sql, some ws => fzfOne ws b c q sql
    | _, _, _, _, _ => "bad-op"
  | _ => "bad-op"

/-- `fzfall <maxbound> <maxcap> | …`: every bound `0..=maxbound` × cap `1..=maxcap` -/
def handleFzfAll (args : List String) : String :=
  match splitAt "|" args with
  | [[b, c], q, sql, d] =>
    match b.toNat?, c.toNat?, charsOf q, charsOf sql, parseWords d with
    | some mb, some mc, some q, some sql, some ws =>
      " ; ".intercalate <|
        (List.range (mb + 1)).flatMap fun b => (List.range mc).map fun c => fzfOne ws b (c + 1) q sql
    | _, _, _, _, _ => "bad-op"
  | _ => "bad-op"

def handleMfz (args : List String) : String :=
  match splitAt "|" args with
  | [[b, c], q, ql, d] =>
    match b.toNat?, c.toNat?, charsOf q, charsOf ql, parseMerged d with
    | some b, some c, some q, some ql, some cs =>
      let ds : Merged := cs.map Dict.ofList
      -- a child's own `take` may already have cut a distance group: mask those distances too
      let childCuts := ds.flatMap fun d =>
        match fuzzyAll .checked b q ql d.tagged, fuzzyMatch .checked b c q ql d.tagged with
        | .ok pool, .ok res => cutDist pool res
        | _, _ => []
      match Merged.fuzzyFlat .checked b c q ql ds, Merged.fuzzyMatch .checked b c q ql ds with
      | .ok pool, .ok res => showFuzzyWith pool.length (childCuts ++ cutDist pool res) res
      | _, _ => "panic"
    | _, _, _, _, _ => "bad-op"
  | _ => "bad-op"

end Harper.Driver.EditDistance