import Harper.Driver.Leaves
import Harper.Model.PatternRules
/-!
Driver ops for `Model/PatternRules.lean` (tokens as data, as in `leafm` / `mphrase`):

* `prulem <Name> | code points | tag@s-e … | numbers | words | chars` → `ok r₀ … r_len`, `rᵢ` =
  `rule.pattern().matches(&tokens[i..], source)` of the model's tree for that rule name: a number, `p` (panic)
  or `t` (out of fuel);
* `prule <Name> | code points | tokens | numbers | words | chars` → the lints of the rule alone (format of `rule`);
* `pmtl <Name> | code points | tokens | i:n … | numbers | words | chars` → `match_to_lint(&tokens[i..i+n], source)`
  per slice, separated by `;`: `none`, the lint, or `panic`.
-/
namespace Harper.Driver.PatternRules
open Harper Harper.Proto Harper.Rules Harper.Leaves Harper.PatternRules Harper.Driver.Rules Harper.Driver.Leaves

def handlePRuleM (args : List String) : String :=
  match args with
  | name :: rest =>
    match splitAt "|" rest with
    | [[], cs, ts, ns, ws, chs] =>
      match patternRuleByName name, envOfGroups ns ws chs, charsOf cs, ts.mapM Mask.parseTok with
      | some r, some env, some src, some toks =>
        joinSp ("ok" :: (suffixes toks).map fun s => showM (r.pat.matcher env src s))
      | _, _, _, _ => "bad-op"
    | _ => "bad-op"
  | [] => "bad-op"

def handlePRule (args : List String) : String :=
  match args with
  | name :: rest =>
    match splitAt "|" rest with
    | [[], cs, ts, ns, ws, chs] =>
      match patternRuleByName name, envOfGroups ns ws chs, charsOf cs, ts.mapM Mask.parseTok with
      | some r, some env, some src, some toks => showResult (r.rule env src toks)
      | _, _, _, _ => "bad-op"
    | _ => "bad-op"
  | [] => "bad-op"

def handlePMtl (args : List String) : String :=
  match args with
  | name :: rest =>
    match splitAt "|" rest with
    | [[], cs, ts, sl, ns, ws, chs] =>
      match patternRuleByName name, envOfGroups ns ws chs, charsOf cs, ts.mapM Mask.parseTok, sl.mapM (natsOf ·) with
      | some r, some env, some src, some toks, some sls =>
        let outs := sls.map fun s =>
          match s with
          | [i, n] =>
            (match r.spec.run env src ((toks.drop i).take n) with
             | .ok [] => "none"
             | .ok ls => joinSp (ls.map showLint)
             | .error _ => "panic")
          | _ => "bad"
        joinSp ("ok" :: (outs.intersperse ";"))
      | _, _, _, _, _ => "bad-op"
    | _ => "bad-op"
  | [] => "bad-op"

end Harper.Driver.PatternRules
