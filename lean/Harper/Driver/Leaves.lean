import Harper.Driver.Rules
import Harper.Driver.Mask
import Harper.Model.Leaves
/-!
Driver ops for `Model/Leaves.lean`.

A pattern tree is written in prefix form (words separated by blanks; `<cps>` = code points joined by
`.`, `-` = empty; `<tag>` = a kind tag of `Kind.tag`; `<doc>` = `<cps> <n> tag@s-e × n`, a phrase
document given by its source and its tokens):

`kp <quality> <0|1>` · `strict <tag>` · `punct <Name>` · `num <radix> <sfx|-> <cps>` · `xw <cps>` ·
`ac <cps>` · `wset <n> <cps> × n` · `ed <cps> <d>` · `sp` · `any` · `np` · `iq` · `scw <bit>` · `ia` ·
`seq <n> p × n` · `rep <req> p` · `either <n> p × n` · `all <n> p × n` · `inv p` · `cons p` ·
`first <n> p × n` · `sim p p` · `ntc p` · `wg <n> (<cps> p) × n` · `kg <n> (<tag> p) × n` ·
`xp <doc>` (`ExactPhrase::from_document`) · `stp <d> <doc>` (`SimilarToPhrase::from_doc`).

* `leafm | pattern | code points | tag@s-e … | numbers | words | chars` → `ok r₀ r₁ … r_len`, `rᵢ` =
  `matches(&tokens[i..], source)`: a number, `p` (panic) or `t` (out of fuel); `cpanic` when the
  pattern's constructor panics.
* `mphrase | pattern | <cps> … (correct forms) | code points | tokens | numbers | words | chars` → the lints of
  the `MapPhraseLinter` with that pattern (format of `rule`).
* `pnoun | <n> <doc> × n | code points | tokens | numbers | words | chars` → `ProperNounCapitalizationLinter`.
* `mergel | s:e … ; s:e … ; … ` → `merge_linters!` of linters returning those spans: the kept
  `start:stop:index` (index into the concatenation).
-/
namespace Harper.Driver.Leaves
open Harper Harper.Proto Harper.Rules Harper.Leaves Harper.Driver.Rules

def kpOfName : String → Option KP
  | "nominal" => some .nominal | "noun" => some .noun | "possessive_nominal" => some .possessiveNominal
  | "plural_nominal" => some .pluralNominal | "verb" => some .verb | "linking_verb" => some .linkingVerb
  | "pronoun" => some .pronoun | "punctuation" => some .punctuation | "conjunction" => some .conjunction
  | "comma" => some .comma | "period" => some .period | "number" => some .number
  | "case_separator" => some .caseSeparator | "adverb" => some .adverb | "adjective" => some .adjective
  | "apostrophe" => some .apostrophe | "hyphen" => some .hyphen | "determiner" => some .determiner
  | "proper_noun" => some .properNoun | "preposition" => some .preposition
  | "not_plural_nominal" => some .notPluralNominal | "word" => some .word
  | _ => none

/-- `<cps> <n> tok × n` -/
def parseDoc (ws : List String) : Option ((List Char × List Tok) × List String) :=
  match ws with
  | c :: n :: rest =>
    match cpsOf c, n.toNat? with
    | some src, some n =>
      if rest.length < n then none else
      ((rest.take n).mapM Mask.parseTok).map fun ts => ((src, ts), rest.drop n)
    | _, _ => none
  | _ => none

def takeCps : Nat → List String → Option (List (List Char) × List String)
  | 0, ws => some ([], ws)
  | n + 1, w :: ws =>
    match cpsOf w, takeCps n ws with
    | some c, some (cs, rest) => some (c :: cs, rest)
    | _, _ => none
  | _ + 1, [] => none

mutual
/-- `none` = not a pattern; `some (none, _)` = the real constructor panics -/
def parsePat (env : Env) : Nat → List String → Option (Option RPat × List String)
  | 0, _ => none
  | fuel + 1, ws =>
    match ws with
    | "kp" :: q :: neg :: rest =>
      match kpOfName q, neg.toNat? with
      | some q, some n => some (some (.leaf (.kind q (n != 0))), rest)
      | _, _ => none
    | "strict" :: tag :: rest => (Mask.kindOfTag tag).map fun k => (some (.leaf (.strict k)), rest)
    | "punct" :: name :: rest =>
      match Mask.kindOfTag ("p." ++ name) with
      | some (.punct p) => some (some (.leaf (.punctIs p)), rest)
      | _ => none
    | "num" :: r :: sf :: d :: rest =>
      match r.toNat?, Mask.suffixOfName sf, cpsOf d with
      | some r, some sf, some d => some (some (.leaf (.numberIs r sf d)), rest)
      | _, _, _ => none
    | "xw" :: w :: rest => (cpsOf w).map fun w => (some (.leaf (.exactWord w)), rest)
    | "ac" :: w :: rest => (cpsOf w).map fun w => (some (.leaf (.anyCap w)), rest)
    | "wset" :: n :: rest =>
      match n.toNat? with
      | some n => (takeCps n rest).map fun (ws', rest') => (some (.leaf (.wordSet ws')), rest')
      | none => none
    | "ed" :: w :: d :: rest =>
      match cpsOf w, d.toNat? with
      | some w, some d => some (some (.leaf (.withinEdit w d)), rest)
      | _, _ => none
    | "sp" :: rest => some (some (.leaf .whitespace), rest)
    | "any" :: rest => some (some (.leaf .any), rest)
    | "np" :: rest => some (some (.leaf .nominalPhrase), rest)
    | "iq" :: rest => some (some (.leaf .impliesQuantity), rest)
    | "scw" :: b :: rest => b.toNat?.map fun b => (some (.leaf (.splitCompound b)), rest)
    | "ia" :: rest => some (some indefiniteArticle, rest)
    | "seq" :: n :: rest => n.toNat?.bind fun n => (parsePats env fuel n rest).map fun (ps, r) => (ps.map fun l => .seq (RPats.ofList l), r)
    | "either" :: n :: rest => n.toNat?.bind fun n => (parsePats env fuel n rest).map fun (ps, r) => (ps.map fun l => .either (RPats.ofList l), r)
    | "all" :: n :: rest => n.toNat?.bind fun n => (parsePats env fuel n rest).map fun (ps, r) => (ps.map fun l => .all (RPats.ofList l), r)
    | "first" :: n :: rest => n.toNat?.bind fun n => (parsePats env fuel n rest).map fun (ps, r) => (ps.map fun l => .first (RPats.ofList l), r)
    | "rep" :: q :: rest => q.toNat?.bind fun q => (parsePat env fuel rest).map fun (p, r) => (p.map fun p => .rep p q, r)
    | "inv" :: rest => (parsePat env fuel rest).map fun (p, r) => (p.map .invert, r)
    | "cons" :: rest => (parsePat env fuel rest).map fun (p, r) => (p.map .consumes, r)
    | "ntc" :: rest => (parsePat env fuel rest).map fun (p, r) => (p.map .notTitleCase, r)
    | "sim" :: rest =>
      match parsePat env fuel rest with
      | some (a, r1) =>
        match parsePat env fuel r1 with
        | some (b, r2) => some ((a.bind fun a => b.map fun b => .similar a b), r2)
        | none => none
      | none => none
    | "wg" :: n :: rest => n.toNat?.bind fun n => (parseWRows env fuel n rest).map fun (rs, r) => (rs.map fun l => .wordGroup (WRows.ofList l), r)
    | "kg" :: n :: rest => n.toNat?.bind fun n => (parseKRows env fuel n rest).map fun (rs, r) => (rs.map fun l => .kindGroup (KRows.ofList l), r)
    | "xp" :: rest => (parseDoc rest).map fun (d, r) => (exactPhraseOf env d.1 d.2, r)
    | "stp" :: d :: rest => d.toNat?.bind fun dist => (parseDoc rest).map fun (d, r) => (similarToPhraseOf d.1 d.2 dist, r)
    | _ => none
def parsePats (env : Env) : Nat → Nat → List String → Option (Option (List RPat) × List String)
  | 0, _, _ => none
  | _ + 1, 0, ws => some (some [], ws)
  | fuel + 1, n + 1, ws =>
    match parsePat env fuel ws with
    | some (p, r1) =>
      match parsePats env fuel n r1 with
      | some (ps, r2) => some ((p.bind fun p => ps.map fun ps => p :: ps), r2)
      | none => none
    | none => none
def parseWRows (env : Env) : Nat → Nat → List String → Option (Option (List (List Char × RPat)) × List String)
  | 0, _, _ => none
  | _ + 1, 0, ws => some (some [], ws)
  | fuel + 1, n + 1, w :: ws =>
    match cpsOf w, parsePat env fuel ws with
    | some w, some (p, r1) =>
      match parseWRows env fuel n r1 with
      | some (ps, r2) => some ((p.bind fun p => ps.map fun ps => (w, p) :: ps), r2)
      | none => none
    | _, _ => none
  | _ + 1, _ + 1, [] => none
def parseKRows (env : Env) : Nat → Nat → List String → Option (Option (List (Kind × RPat)) × List String)
  | 0, _, _ => none
  | _ + 1, 0, ws => some (some [], ws)
  | fuel + 1, n + 1, w :: ws =>
    match Mask.kindOfTag w, parsePat env fuel ws with
    | some k, some (p, r1) =>
      match parseKRows env fuel n r1 with
      | some (ps, r2) => some ((p.bind fun p => ps.map fun ps => (k, p) :: ps), r2)
      | none => none
    | _, _ => none
  | _ + 1, _ + 1, [] => none
end

/-- a whole group must be one pattern -/
def patOf (env : Env) (ws : List String) : Option (Option RPat) :=
  match parsePat env (ws.length + 1) ws with
  | some (p, []) => some p
  | _ => none

def envOfGroups (ns ws chs : List String) : Option Env :=
  match ns.mapM parseNumEntry, ws.mapM parseWordEntry, chs.mapM parseCharEntry with
  | some ns', some ws', some ct => some (envOf ns' ws' ct)
  | _, _, _ => none

def showM (r : Except Panic Nat) : String :=
  match r with
  | .ok n => toString n
  | .error .outOfFuel => "t"
  | .error _ => "p"

def suffixes {α} : List α → List (List α)
  | [] => [[]]
  | x :: xs => (x :: xs) :: suffixes xs

def handleLeafM (args : List String) : String :=
  match splitAt "|" args with
  | [[], pw, cs, ts, ns, ws, chs] =>
    match envOfGroups ns ws chs, charsOf cs, ts.mapM Mask.parseTok with
    | some env, some src, some toks =>
      match patOf env pw with
      | some (some p) => joinSp ("ok" :: (suffixes toks).map fun s => showM (p.matcher env src s))
      | some none => "cpanic"
      | none => "bad-op"
    | _, _, _ => "bad-op"
  | _ => "bad-op"

def handleMPhrase (args : List String) : String :=
  match splitAt "|" args with
  | [[], pw, fs, cs, ts, ns, ws, chs] =>
    match envOfGroups ns ws chs, fs.mapM cpsOf, charsOf cs, ts.mapM Mask.parseTok with
    | some env, some forms, some src, some toks =>
      match patOf env pw with
      | some (some p) => showResult (ruleMapPhrase env p forms src toks)
      | some none => "cpanic"
      | none => "bad-op"
    | _, _, _, _ => "bad-op"
  | _ => "bad-op"

def parseDocs : Nat → List String → Option (List (List Char × List Tok))
  | 0, [] => some []
  | 0, _ :: _ => none
  | n + 1, ws =>
    match parseDoc ws with
    | some (d, rest) => (parseDocs n rest).map (d :: ·)
    | none => none

def handlePNoun (args : List String) : String :=
  match splitAt "|" args with
  | [[], n :: dw, cs, ts, ns, ws, chs] =>
    match envOfGroups ns ws chs, n.toNat?, charsOf cs, ts.mapM Mask.parseTok with
    | some env, some n, some src, some toks =>
      match parseDocs n dw with
      | some docs =>
        match docs.mapM fun d => pnRowOf env d.1 d.2 with
        | some rows => showResult (ruleProperNoun env rows src toks)
        | none => "cpanic"
      | none => "bad-op"
    | _, _, _, _ => "bad-op"
  | _ => "bad-op"

def handleMergeL (args : List String) : String :=
  match ((splitAt ";" args).mapM fun g => g.mapM Mask.parseSpan) with
  | some groups =>
    let tagged : List (List RuleLint) := (groups.foldl (fun (acc : Nat × List (List RuleLint)) g =>
      (acc.1 + g.length, acc.2 ++ [(g.zip (List.range g.length)).map fun (sp, i) => (⟨sp, [], acc.1 + i, 0⟩ : RuleLint)])) (0, [])).2
    match mergeLinters (tagged.map fun ls => (fun _ _ => .ok ls : PieceRule)) [] [] with
    | .ok ls => joinSp ("ok" :: ls.map fun l => s!"{l.span.start}:{l.span.stop}:{l.msg}")
    | .error _ => "panic"
  | none => "bad-op"

end Harper.Driver.Leaves
