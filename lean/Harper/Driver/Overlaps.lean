import Harper.Basic.Proto
import Harper.Model.Overlaps
namespace Harper.Driver.Overlaps
open Harper Harper.Proto

def parseLint (w : String) : Option Lint :=
  match natsOf w with
  | some [s, e, i] => some ⟨s, e, i⟩
  | _ => none

def showLint (l : Lint) : String := s!"{l.s}:{l.e}:{l.id}"

/-- `ro s:e:id ...` → `ok <kept...>` -/
def handleRo (args : List String) : String :=
  match args.mapM parseLint with
  | some ls => joinSp ("ok" :: (removeOverlaps ls).map showLint)
  | none => "bad-op"

/-- `ri i0 | q... | x...` → `ok <remaining...>` -/
def handleRi (args : List String) : String :=
  match splitAt "|" args with
  | [[i0], q, xs] =>
    match i0.toNat?, nats? q, nats? xs with
    | some i, some q, some xs => joinSp ("ok" :: (removeIndices i q xs).map toString)
    | _, _, _ => "bad-op"
  | _ => "bad-op"

end Harper.Driver.Overlaps