import Harper.Driver.Lex
import Harper.Model.LexExt
import Harper.Model.DocFull
namespace Harper.Driver.LexExt
open Harper Harper.Proto Harper.Driver.Lex

/-- `lexfull | cp:flags …` → tokens of `PlainEnglish::parse`, the url / e-mail / hostname lexers
computed by the model (`parsePlainFull`), no external table. Same output format as `lex`. -/
def handleLexFull (args : List String) : String :=
  match splitAt "|" args with
  | [[], cs] =>
    match cs.mapM parseCh with
    | some chs => showTokResult (parsePlainFull (clsOf (dedupTab chs)) (chs.map (·.1)))
    | none => "bad-op"
  | _ => "bad-op"

def showLen (f : Option Nat) : String :=
  match f with
  | some n => toString n
  | none => "-"

/-- `extlex | cps` → `next_index` of `lex_url`, `lex_email_address`, `lex_hostname_token` and the
result of `lex_hostname` on the slice `cps` (each called directly, not through `lex_token`):
`ok url=<n|-> email=<n|-> host=<n|-> hostname=<n|->` -/
def handleExtLex (args : List String) : String :=
  match splitAt "|" args with
  | [[], cs] =>
    match charsOf cs with
    | some s =>
      s!"ok url={showLen ((lexUrl s).map (·.2))} email={showLen ((lexEmailAddress s).map (·.2))} host={showLen ((lexHostnameToken s).map (·.2))} hostname={showLen (lexHostname s)}"
    | none => "bad-op"
  | _ => "bad-op"

end Harper.Driver.LexExt
namespace Harper.Driver.LexExt
open Harper Harper.Proto Harper.Driver.Lex

/-- `docfull | cp:flags …` → tokens of `Document::new(text, &PlainEnglish, _)`, the url / e-mail /
hostname lexers computed by the model (`documentFull`), no external table. Same output format as
`doc`; the same text under op `doc` carries the real lexers' answers as a third group. -/
def handleDocFull (args : List String) : String :=
  match splitAt "|" args with
  | [[], cs] =>
    match cs.mapM parseCh with
    | some chs => showTokResult (documentFull (clsOf (dedupTab chs)) (chs.map (·.1)))
    | none => "bad-op"
  | _ => "bad-op"

end Harper.Driver.LexExt
