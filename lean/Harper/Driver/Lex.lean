import Harper.Basic.Proto
import Harper.Model.Lex
namespace Harper.Driver.Lex
open Harper Harper.Proto

/-- `cp:flags` with flag letters `l` (english lingual), `n` (numeric), `a` (alphanumeric) -/
def parseCh (w : String) : Option (Char × String) :=
  match w.splitOn ":" with
  | [cp] => cp.toNat?.map fun n => (Char.ofNat n, "")
  | [cp, fl] => cp.toNat?.map fun n => (Char.ofNat n, fl)
  | _ => none

def clsOf (tab : List (Char × String)) : Cls where
  lingual c := match tab.lookup c with | some f => f.contains 'l' | none => false
  numeric c := match tab.lookup c with | some f => f.contains 'n' | none => false
  alnum c := match tab.lookup c with | some f => f.contains 'a' | none => false

def dedupTab (tab : List (Char × String)) : List (Char × String) :=
  tab.foldl (fun acc p => if (acc.lookup p.1).isSome then acc else p :: acc) []

/-- `pos:kind:len` with kind ∈ url, email, host -/
def parseExt (w : String) : Option (Nat × Kind × Nat) :=
  match w.splitOn ":" with
  | [p, k, n] =>
    match p.toNat?, n.toNat? with
    | some p, some n =>
      (match k with
       | "url" => some (p, .url, n) | "email" => some (p, .email, n) | "host" => some (p, .hostname, n)
       | _ => none)
    | _, _ => none
  | _ => none

def extOf (tab : List (Nat × Kind × Nat)) : Ext := fun pos => tab.lookup pos

def showTokResult (r : Except Panic (List Tok)) : String :=
  match r with
  | .ok ts => joinSp ("ok" :: ts.map Tok.show)
  | .error .outOfFuel => "timeout"
  | .error _ => "panic"

/-- parse `| chars | ext` groups shared by the text ops -/
def parseText (args : List String) : Option (List Char × Cls × Ext) :=
  match splitAt "|" args with
  | [[], cs, ex] =>
    match cs.mapM parseCh, ex.mapM parseExt with
    | some chs, some ext => some (chs.map (·.1), clsOf (dedupTab chs), extOf ext)
    | _, _ => none
  | _ => none

/-- `lex | cp:flags … | pos:kind:len …` → tokens of `PlainEnglish::parse` -/
def handleLex (args : List String) : String :=
  match parseText args with
  | some (src, cls, ext) => showTokResult (parsePlain cls ext src)
  | none => "bad-op"

/-- `f64 | cps` → does `str::parse::<f64>` accept? -/
def handleF64 (args : List String) : String :=
  match splitAt "|" args with
  | [[], cs] => match charsOf cs with
    | some s => if parsesF64 s then "ok 1" else "ok 0"
    | none => "bad-op"
  | _ => "bad-op"

end Harper.Driver.Lex