import Harper.Basic.Proto
import Harper.Model.Markdown
import Harper.Driver.Lex
import Harper.Driver.Mask
/-!
Driver ops of the Markdown parser's own logic and of the two wrapper parsers (C02 / C01).

* text = `cp:flags` words as for `lexfull` (the inner `PlainEnglish` parse is computed by the model);
* a pulldown-cmark event = `Name:rs:re:len` — `Name` is the `Event` variant name, for `Start` / `End`
  followed by `.` and the `Tag` / `TagEnd` variant name (`Start.Paragraph`, `End.Heading`); `rs:re` is
  the BYTE range, `len` the number of characters of the event's text (0 where it has none);
* tokens = `tag@s-e` (`Tok.show`);
* a dictionary table = groups `cps ; 0|1`.
-/
namespace Harper.Driver.Markdown
open Harper Harper.Proto

def tagOfName : String → Option MdTag
  | "Paragraph" => some .Paragraph | "Heading" => some .Heading | "BlockQuote" => some .BlockQuote
  | "CodeBlock" => some .CodeBlock | "HtmlBlock" => some .HtmlBlock | "List" => some .List
  | "Item" => some .Item | "FootnoteDefinition" => some .FootnoteDefinition
  | "DefinitionList" => some .DefinitionList | "DefinitionListTitle" => some .DefinitionListTitle
  | "DefinitionListDefinition" => some .DefinitionListDefinition | "Table" => some .Table
  | "TableHead" => some .TableHead | "TableRow" => some .TableRow | "TableCell" => some .TableCell
  | "Emphasis" => some .Emphasis | "Strong" => some .Strong | "Strikethrough" => some .Strikethrough
  | "Superscript" => some .Superscript | "Subscript" => some .Subscript | "Link" => some .Link
  | "Image" => some .Image | "MetadataBlock" => some .MetadataBlock
  | _ => none

def evOfName (name : String) (len : Nat) : Option MdEv :=
  match name.splitOn "." with
  | ["SoftBreak"] => some .softBreak
  | ["HardBreak"] => some .hardBreak
  | ["Code"] => some (.code len)
  | ["InlineMath"] => some (.code len)
  | ["DisplayMath"] => some (.code len)
  | ["Text"] => some (.text len)
  | ["Html"] => some (.html len)
  | ["InlineHtml"] => some (.html len)
  | ["FootnoteReference"] => some .other
  | ["Rule"] => some .other
  | ["TaskListMarker"] => some .other
  | ["Start", t] => (tagOfName t).map .start
  | ["End", t] => (tagOfName t).map .stop
  | _ => none

def parseEvent (w : String) : Option MdEvent :=
  match w.splitOn ":" with
  | [name, rs, re, len] =>
    match rs.toNat?, re.toNat?, len.toNat? with
    | some rs, some re, some len => (evOfName name len).map fun ev => ⟨ev, rs, re⟩
    | _, _, _ => none
  | _ => none

def parseBool : List String → Option Bool
  | ["0"] => some false
  | ["1"] => some true
  | _ => none

/-- `mdparse | ilt | cp:flags … | Name:rs:re:len …` → the tokens of `Markdown::new(opts).parse` -/
def handleMdParse (args : List String) : String :=
  match splitAt "|" args with
  | [[], il, cs, evs] =>
    match parseBool il, cs.mapM Lex.parseCh, evs.mapM parseEvent with
    | some ilt, some chs, some events =>
      Mask.showToks (mdParseSrc (Lex.clsOf (Lex.dedupTab chs)) (chs.map (·.1)) ilt events)
    | _, _, _ => "bad-op"
  | _ => "bad-op"

/-- `evok | ilt | cps | events` → `ok e s b`: the assumption monitors `EventsOK` (e), `solidOK` (s)
and `StartsOK` (b) of the Markdown theorems, evaluated by the model's own definitions on the real event list -/
def handleEvOk (args : List String) : String :=
  match splitAt "|" args with
  | [[], il, cs, evs] =>
    match parseBool il, charsOf cs, evs.mapM parseEvent with
    | some ilt, some src, some events =>
      let b := fun (x : Bool) => if x then "1" else "0"
      s!"ok {b (eventsOK (utf8Bytes src) ilt 0 0 [] events)} {b (solidOK ilt [] events)} {b (startsOK (utf8Bytes src) 0 events)}"
    | _, _, _ => "bad-op"
  | _ => "bad-op"

/-- `wikiclean | ilt | cp:flags … | events` — the same model run, on the wikilink streams (the
clean-up passes are private to `Markdown`: they are reached through `Markdown::parse`) -/
def handleWikiClean (args : List String) : String := handleMdParse args

/-- `cps ; 0|1` groups → membership table -/
def parseDict (gs : List (List String)) : Option (List (List Char × Bool)) :=
  gs.mapM fun g =>
    match splitAt ";" g with
    | [cs, b] =>
      match charsOf cs, parseBool b with
      | some c, some v => some (c, v)
      | _, _ => none
    | _ => none

def dictOf (tab : List (List Char × Bool)) (dflt : Bool) : List Char → Bool :=
  fun w => (tab.lookup w).getD dflt

/-- run with both defaults for words the table does not list: if the answers differ the harness
did not hand over a membership the model needed -/
def withDict (tab : List (List Char × Bool)) (f : (List Char → Bool) → Except Panic (List Tok)) :
    String :=
  let a := Mask.showToks (f (dictOf tab false))
  let b := Mask.showToks (f (dictOf tab true))
  if a == b then a else "oracle-missing"

/-- `collapse | cps | inner tokens | cps ; 0|1 | …` → `CollapseIdentifiers::parse` -/
def handleCollapse (args : List String) : String :=
  match splitAt "|" args with
  | [] :: cs :: ts :: ds =>
    match charsOf cs, ts.mapM Mask.parseTok, parseDict ds with
    | some src, some toks, some tab => withDict tab fun d => collapseIdentifiers d src toks
    | _, _, _ => "bad-op"
  | _ => "bad-op"

/-- `isolate | cps | inner tokens | cps ; 0|1 | …` → `IsolateEnglish::parse`, `is_likely_english`
computed by the model from the membership of each word -/
def handleIsolate (args : List String) : String :=
  match splitAt "|" args with
  | [] :: cs :: ts :: ds =>
    match charsOf cs, ts.mapM Mask.parseTok, parseDict ds with
    | some src, some toks, some tab => withDict tab fun d => isolateEnglishDict d src toks
    | _, _, _ => "bad-op"
  | _ => "bad-op"

/-- `isolatev | inner tokens | 0|1 …` → `IsolateEnglish::parse` with the real `is_likely_english`
verdict of every chunk (of the real `iter_chunks`, in order) handed over as data: the verdict
function is the table chunk ↦ bit (a chunk count that differs from the model's is reported) -/
def handleIsolateV (args : List String) : String :=
  match splitAt "|" args with
  | [[], ts, vs] =>
    match ts.mapM Mask.parseTok, vs.mapM (fun v => parseBool [v]) with
    | some toks, some bits =>
      let chunks := Chunks.iterChunks toks
      if chunks.length != bits.length then "verdict-count-mismatch"
      else
        let tab := chunks.zip bits
        let run := fun (dflt : Bool) =>
          Mask.showToks (isolateEnglish (fun ch => .ok ((tab.lookup ch).getD dflt)) toks)
        if run false == run true then run false else "oracle-missing"
    | _, _ => "bad-op"
  | _ => "bad-op"

end Harper.Driver.Markdown
