import Harper.Basic.Proto
import Harper.Model.LintGroup
/-!
# Driver ops for `Harper/Model/LintGroup.lean`

Names: a word of ASCII letters/digits stands for itself; any other name is `~` followed by its
code points joined with `.` (`~` alone is the empty name). A configuration is a group of words
`name=1` / `name=0` / `name=-` (`Some(true)`, `Some(false)`, `None`).
Configurations are sorted by key (the real map is a `BTreeMap`) when parsed and when printed.

* `cfg <sub> <args> | <cfg> [| <cfg>]` — the configuration algebra
  (`set n b`, `unset n`, `setifunset n b`, `clear`, `enabled n`, `merge | self | other`,
  `fill | user | curated`, `seq | init | step | …`).
* `lg <cap> | D <names> | P <names> | C <cfg> | L ; W <name> <lints> ; K <off> <chars> , <toks>
  ; R <name> <relative lints> ; … | …` — one history on one long-lived group; the harness supplies
  the rule tables obtained from the real rules run alone; the model predicts every `L`'s output.
-/
namespace Harper.Driver.LintGroup
open Harper Harper.Proto Harper.LG

def decName (w : String) : Option String :=
  match w.toList with
  | '~' :: [] => some ""
  | '~' :: rest =>
    (natsOf (String.ofList rest) '.').map fun ns => String.ofList (ns.map Char.ofNat)
  | _ => some w

def encName (n : String) : String :=
  if n.toList.all (fun c => c.isAlphanum) && n ≠ "" then n
  else "~" ++ ".".intercalate (n.toList.map fun c => toString c.toNat)

def decVal (w : String) : Option (Option Bool) :=
  if w = "1" then some (some true) else if w = "0" then some (some false)
  else if w = "-" then some none else none

def decBool (w : String) : Option Bool :=
  if w = "1" then some true else if w = "0" then some false else none

/-- `name=v`, split at the last `=` -/
def decEntry (w : String) : Option (String × Option Bool) :=
  match (w.splitOn "=").reverse with
  | v :: n :: [] => do
    let n ← decName n
    let v ← decVal v
    pure (n, v)
  | _ => none

def insSorted (x : String × Option Bool) : List (String × Option Bool) → List (String × Option Bool)
  | [] => [x]
  | y :: ys => if decide (x.1 < y.1) then x :: y :: ys else y :: insSorted x ys

/-- sort by key (byte order of UTF-8 = code-point order = Lean's `String.lt`) -/
def sortCfg (c : Cfg String) : Cfg String := c.foldr insSorted []

def hasDupKeys : List String → Bool
  | [] => false
  | k :: r => r.contains k || hasDupKeys r

def decCfg (ws : List String) : Option (Cfg String) := do
  let c ← ws.mapM decEntry
  if hasDupKeys (c.map (·.1)) then none else pure (sortCfg c)

def showVal : Option Bool → String
  | some true => "1"
  | some false => "0"
  | none => "-"

def showCfg (c : Cfg String) : List String :=
  (sortCfg c).map fun p => encName p.1 ++ "=" ++ showVal p.2

/-- one step of a `cfg seq` history -/
def cfgStep (c : Cfg String) (ws : List String) : Option (Cfg String) :=
  match ws with
  | ["set", n, b] => do pure (setRule (← decName n) (← decBool b) c)
  | ["unset", n] => do pure (unset (← decName n) c)
  | ["setifunset", n, b] => do pure (setIfUnset (← decName n) (← decBool b) c)
  | ["clear"] => some (clear c)
  | "merge" :: o => do pure (mergeFrom c (← decCfg o)).1
  | "mergeinto" :: o => do pure (mergeFrom (← decCfg o) c).1
  | "other" :: o => do pure (mergeFrom (← decCfg o) c).2
  | "fill" :: cur => do pure (fillWithCurated (← decCfg cur) c)
  | _ => none

def handleCfg (args : List String) : String :=
  match splitAt "|" args with
  | [["set", n, b], c] =>
    match decName n, decBool b, decCfg c with
    | some n, some b, some c => joinSp ("ok" :: showCfg (setRule n b c))
    | _, _, _ => "bad-op"
  | [["unset", n], c] =>
    match decName n, decCfg c with
    | some n, some c => joinSp ("ok" :: showCfg (unset n c))
    | _, _ => "bad-op"
  | [["setifunset", n, b], c] =>
    match decName n, decBool b, decCfg c with
    | some n, some b, some c => joinSp ("ok" :: showCfg (setIfUnset n b c))
    | _, _, _ => "bad-op"
  | [["clear"], c] =>
    match decCfg c with
    | some c => joinSp ("ok" :: showCfg (clear c))
    | none => "bad-op"
  | [["enabled", n], c] =>
    match decName n, decCfg c with
    | some n, some c => if isEnabled c n then "ok 1" else "ok 0"
    | _, _ => "bad-op"
  | [["merge"], s, o] =>
    match decCfg s, decCfg o with
    | some s, some o =>
      let r := mergeFrom s o
      joinSp ("ok" :: showCfg r.1 ++ "|" :: showCfg r.2)
    | _, _ => "bad-op"
  | [["fill"], u, cur] =>
    match decCfg cur, decCfg u with
    | some cur, some u => joinSp ("ok" :: showCfg (fillWithCurated cur u))
    | _, _ => "bad-op"
  | ["seq"] :: c :: steps =>
    match decCfg c with
    | some c =>
      match steps.foldlM cfgStep c with
      | some r => joinSp ("ok" :: showCfg r)
      | none => "bad-op"
    | none => "bad-op"
  | _ => "bad-op"

/-! ### `lg` -/

def decLint (w : String) : Option PLint :=
  match natsOf w with
  | some [s, e, i] => some ⟨s, e, i⟩
  | _ => none

def showPLint (l : PLint) : String := s!"{l.s}:{l.e}:{l.id}"

/-- chunk content as handed over: characters and `relstart:len:kind` tokens -/
abbrev Content := List Nat × List (List Nat)

structure RawChunk where
  off : Nat
  content : Content
  tables : List (String × List PLint)

structure RawDoc where
  whole : List (String × List PLint)
  chunks : List RawChunk

/-- items of an `L` group after splitting at `;` -/
def decDoc (items : List (List String)) : Option RawDoc :=
  items.foldlM (init := (⟨[], []⟩ : RawDoc)) fun d it =>
    match it with
    | [] => some d
    | "W" :: n :: ls => do
      let n ← decName n
      let ls ← ls.mapM decLint
      pure { d with whole := d.whole ++ [(n, ls)] }
    | "K" :: off :: rest =>
      match splitAt "," rest with
      | [cs, ts] => do
        let off ← off.toNat?
        let cs ← nats? cs
        let ts ← ts.mapM (natsOf ·)
        pure { d with chunks := d.chunks ++ [⟨off, (cs, ts), []⟩] }
      | _ => none
    | "R" :: n :: ls => do
      let n ← decName n
      let ls ← ls.mapM decLint
      match d.chunks.reverse with
      | [] => none
      | ch :: before =>
        pure { d with chunks := (({ ch with tables := ch.tables ++ [(n, ls)] }) :: before).reverse }
    | _ => none

inductive RawOp where
  | cfg (c : Cfg String)
  | doc (d : RawDoc)

def decOp (g : List String) : Option RawOp :=
  match g with
  | "C" :: c => (decCfg c).map .cfg
  | "L" :: rest => (decDoc (splitAt ";" rest)).map .doc
  | _ => none

/-- first-occurrence index of a chunk content (an injective renaming within the line) -/
def intern (seen : List Content) (c : Content) : Nat × List Content :=
  match seen.idxOf? c with
  | some i => (seen.length - 1 - i, seen)
  | none => (seen.length, c :: seen)

def lookupTable {α : Type} [BEq α] (t : List (α × List PLint)) (k : α) : List PLint :=
  (t.lookup k).getD []

/-- the rule function of `name`: the first table the harness supplied for (name, key) -/
def mkRules (dn pn : List String) (wt : List ((String × Nat) × List PLint))
    (pt : List ((String × Nat) × List PLint)) : Rules String Nat Nat where
  doc := dn.map fun n => (n, fun di => lookupTable wt (n, di))
  pat := pn.map fun n =>
    let mine := pt.filterMap fun e => if e.1.1 = n then some (e.1.2, e.2) else none
    (n, fun g => lookupTable mine g)

def handleLg (args : List String) : String :=
  match splitAt "|" args with
  | [cap] :: ("D" :: dn) :: ("P" :: pn) :: ops =>
    match cap.toNat?, dn.mapM decName, pn.mapM decName, ops.mapM decOp with
    | some cap, some dn, some pn, some ops =>
      -- number the documents, intern the chunk contents, collect the tables
      -- (accumulators are built in reverse)
      let (_, _, wt, pt, mops) :=
        ops.foldl (init := ((0 : Nat), ([] : List Content),
            ([] : List ((String × Nat) × List PLint)), ([] : List ((String × Nat) × List PLint)),
            ([] : List (Op String Nat Nat))))
          fun (di, seen, wt, pt, acc) op =>
            match op with
            | .cfg c => (di, seen, wt, pt, Op.setConfig c :: acc)
            | .doc d =>
              let wt := (d.whole.map fun (n, ls) => ((n, di), ls)).reverse ++ wt
              let (seen, pt, chs) :=
                d.chunks.foldl (init := (seen, pt, ([] : List (Nat × Nat))))
                  fun (seen, pt, chs) ch =>
                    let (gi, seen) := intern seen ch.content
                    (seen, (ch.tables.map (fun (n, ls) => ((n, gi), ls))).reverse ++ pt, (ch.off, gi) :: chs)
              (di + 1, seen, wt, pt, Op.lint ⟨di, chs.reverse⟩ :: acc)
      let (wt, pt, mops) := (wt.reverse, pt.reverse, mops.reverse)
      let R := mkRules dn pn wt pt
      let outs := run R cap ⟨[], []⟩ mops
      joinSp ("ok" :: ((outs.map fun o => o.map showPLint).intersperse ["|"]).flatten)
    | _, _, _, _ => "bad-op"
  | _ => "bad-op"

/-- `spell <cap> | <word>:<known>:<suggestion id> …` — `SpellCheck`'s cache over the words of a
history (all documents concatenated): one `word:sugg` per flagged word -/
def handleSpell (args : List String) : String :=
  match splitAt "|" args with
  | [[cap], ws] =>
    match cap.toNat?, ws.mapM (natsOf ·) with
    | some cap, some ws =>
      if ws.all (fun w => w.length == 3) then
        let tbl : List (Nat × Nat) := ws.map fun w => (w.getD 0 0, w.getD 2 0)
        let knownT : List (Nat × Nat) := ws.map fun w => (w.getD 0 0, w.getD 1 0)
        let r := spellLint (fun w => (knownT.lookup w).getD 0 == 1) (fun w => (tbl.lookup w).getD 0)
          (fun w s => ⟨w, w, s⟩) cap [] (ws.map fun w => w.getD 0 0)
        joinSp ("ok" :: r.1.map fun l => s!"{l.s}:{l.id}")
      else "bad-op"
    | _, _ => "bad-op"
  | _ => "bad-op"

end Harper.Driver.LintGroup