import Harper.Basic.Proto
import Harper.Model.Server
/-!
# Driver for the language-server model (C09)

`srv <n> | <lang per URL: p m t x> | <client actions>` → the publications per URL in order, each
shown by the facets the harness can observe, and the final dictionary files.

Actions: `W:u:ver:idents` (client writes the file), `O:u:ver:idents`, `C:u:ver:idents`, `S:u`,
`L:u` (close), `D:u` (file removed + deleted notification), `DD` (directory removed),
`G:k:o1,o2,…` (didChangeConfiguration to version `k`; the observed key order), `AU:w:u`, `AF:w:u`,
`I:u`, `R:idx:k` (answer the idx-th oldest configuration request with configuration `k`).
After every action the model server runs until it is idle (`macroStep`).
-/
namespace Harper.Driver.Server
open Harper.Server Harper.Proto

def parseLang : String → Option Lang
  | "p" => some .plain
  | "m" => some .markdown
  | "t" => some .ts
  | "x" => some .unknown
  | _ => none

def parseSrvAct (langs : List Lang) (w : String) : Option (List Act) :=
  match w.splitOn ":" with
  | ["W", u, v, i] => do
    let u ← u.toNat?; let v ← v.toNat?; let i ← i.toNat?
    some [.disk u (some ⟨v, i⟩)]
  | ["O", u, v, i] => do
    let u ← u.toNat?; let v ← v.toNat?; let i ← i.toNat?
    let l ← langs[u]?
    some [.recv (.didOpen u l ⟨v, i⟩)]
  | ["C", u, v, i] => do
    let u ← u.toNat?; let v ← v.toNat?; let i ← i.toNat?
    some [.recv (.didChange u ⟨v, i⟩)]
  | ["S", u] => do let u ← u.toNat?; some [.recv (.didSave u)]
  | ["L", u] => do let u ← u.toNat?; some [.recv (.didClose u)]
  | ["D", u] => do let u ← u.toNat?; some [.disk u none, .recv (.deleted [u])]
  | ["DD"] =>
    let us := List.range langs.length
    some (us.map (fun u => Act.disk u none) ++ [.recv (.deleted us)])
  | ["G", k, ord] => do
    let k ← k.toNat?
    let order ← (if ord = "" then some [] else (ord.splitOn ",").mapM String.toNat?)
    some [.recv (.didChangeConfiguration k order)]
  | ["AU", w, u] => do let w ← w.toNat?; let u ← u.toNat?; some [.recv (.addUser w u)]
  | ["AF", w, u] => do let w ← w.toNat?; let u ← u.toNat?; some [.recv (.addFile w u)]
  | ["I", u] => do let u ← u.toNat?; some [.recv (.ignore u)]
  | ["K", k] => do let _ ← k.toNat?; some []   -- the client's configuration changes silently: no message
  | ["R", i, k] => do let i ← i.toNat?; let k ← k.toNat?; some [.reply i k]
  | _ => none

def showWords (pool : List Nat) (ws : List Nat) : String :=
  let s := String.join ((pool.filter (fun w => ws.contains w)).map toString)
  if s = "" then "-" else s

/-- `IgnoreLinkTitle` of configuration version `k` (harness convention) -/
def iltOf (k : Nat) : Nat := (k / 2) % 2

def showOut : Out → String
  | .never => "N"
  | .empty => "E"
  | .diag p =>
    let pk := match p.lang with
      | .plain => "-"
      | _ => toString (iltOf p.parseCfg)
    let n := match p.lang, p.dictIdent with
      | .ts, some i => if i = 0 then "0" else "1"
      | _, _ => "0"
    -- a dictionary of ≥ 2 words iterates in a per-instance random order in the implementation, so its
    -- order-sensitive hash comparison may rebuild the linter spuriously: the linter facet is masked
    let lk := if ([1, 2].filter (fun w => p.dictUser.contains w)).length ≥ 2 ∨
                 ([3, 4].filter (fun w => p.dictFile.contains w)).length ≥ 2 then "*" else toString p.lintCfg
    s!"t{p.text.ver}.s{p.sevCfg}.l{lk}.p{pk}.u{showWords [1, 2] p.dictUser}.f{showWords [3, 4] p.dictFile}.n{n}.g{if p.ignored then 1 else 0}"

def handleSrv (args : List String) : String :=
  match splitAt "|" args with
  | [[n], langs, acts] =>
    match n.toNat?, langs.mapM parseLang, acts.mapM (parseSrvAct (langs.filterMap parseLang)) with
    | some n, some ls, some as =>
      if ls.length ≠ n then "bad-op" else
      let y := runMacro (Sys.init State.init) as.flatten
      if y.st.badOrder then "bad-order"
      else if !y.pend.isEmpty || !y.run.isEmpty || !y.queue.isEmpty then "unfinished"
      else
        let us := List.range n
        let pubs := us.flatMap fun u => "|" :: s!"u{u}" :: (pubsOf y.st u).map showOut
        let sorted (l : List Nat) : List String := ((List.range 5).filter (fun w => l.contains w)).map toString
        let files := us.flatMap fun u => "|" :: s!"F{u}" :: sorted (y.st.fileDict u)
        joinSp ("ok" :: pubs ++ ("|" :: "U" :: sorted y.st.userDict) ++ files)
    | _, _, _ => "bad-op"
  | _ => "bad-op"

end Harper.Driver.Server