import Harper.Basic.Proto
import Harper.Model.Server
/-!
# Driver for the language-server model (C09)

`srv <n> | <lang per URL: p m t x> | <client actions>` → the publications per URL in order, each
shown by the facets the harness can observe, and the final dictionary files.

Actions: `W:u:ver:idents` (client writes the file), `O:u:ver:idents`, `C:u:ver:idents`, `S:u`,
`L:u` (close), `D:u` (file removed + deleted notification), `DD` (directory removed),
`G:k:o1,o2,…` (didChangeConfiguration to version `k`; the observed key order), `AU:w:u`, `AF:w:u`,
`I:u`, `R:idx:k` (answer the idx-th oldest configuration request with configuration `k`).
After every action the model server runs until it is idle (`macroStep`).
-/
namespace Harper.Driver.Server
open Harper.Server Harper.Proto

def parseLang : String → Option Lang
  | "p" => some .plain
  | "m" => some .markdown
  | "t" => some .ts
  | "x" => some .unknown
  | _ => none

def parseSrvAct (langs : List Lang) (w : String) : Option (List Act) :=
  match w.splitOn ":" with
  | ["W", u, v, i] => do
    let u ← u.toNat?; let v ← v.toNat?; let i ← i.toNat?
    some [.disk u (some ⟨v, i⟩)]
  | ["O", u, v, i] => do
    let u ← u.toNat?; let v ← v.toNat?; let i ← i.toNat?
    let l ← langs[u]?
    some [.recv (.didOpen u l ⟨v, i⟩)]
  | ["C", u, v, i] => do
    let u ← u.toNat?; let v ← v.toNat?; let i ← i.toNat?
    some [.recv (.didChange u ⟨v, i⟩)]
  | ["S", u] => do let u ← u.toNat?; some [.recv (.didSave u)]
  | ["L", u] => do let u ← u.toNat?; some [.recv (.didClose u)]
  | ["D", u] => do let u ← u.toNat?; some [.disk u none, .recv (.deleted [u])]
  | ["DD"] =>
    let us := List.range langs.length
    some (us.map (fun u => Act.disk u none) ++ [.recv (.deleted us)])
  | ["G", k, ord] => do
    let k ← k.toNat?
    let order ← (if ord = "" then some [] else (ord.splitOn ",").mapM String.toNat?)
    some [.recv (.didChangeConfiguration k order)]
  | ["AU", w, u] => do let w ← w.toNat?; let u ← u.toNat?; some [.recv (.addUser w u)]
  | ["AF", w, u] => do let w ← w.toNat?; let u ← u.toNat?; some [.recv (.addFile w u)]
  | ["I", u] => do let u ← u.toNat?; some [.recv (.ignore u)]
  | ["K", k] => do let _ ← k.toNat?; some []   -- the client's configuration changes silently: no message
  | ["R", i, k] => do let i ← i.toNat?; let k ← k.toNat?; some [.reply i k]
  | _ => none

def showWords (pool : List Nat) (ws : List Nat) : String :=
  let s := String.join ((pool.filter (fun w => ws.contains w)).map toString)
  if s = "" then "-" else s

/-- `IgnoreLinkTitle` of configuration version `k` (harness convention) -/
def iltOf (k : Nat) : Nat := (k / 2) % 2

def showOut : Out → String
  | .never => "N"
  | .empty => "E"
  | .diag p =>
    let pk := match p.lang with
      | .plain => "-"
      | _ => toString (iltOf p.parseCfg)
    let n := match p.lang, p.dictIdent with
      | .ts, some i => if i = 0 then "0" else "1"
      | _, _ => "0"
    -- a dictionary of ≥ 2 words iterates in a per-instance random order in the implementation, so its
    -- order-sensitive hash comparison may rebuild the linter spuriously: the linter facet is masked
    let lk := if ([1, 2].filter (fun w => p.dictUser.contains w)).length ≥ 2 ∨
                 ([3, 4].filter (fun w => p.dictFile.contains w)).length ≥ 2 then "*" else toString p.lintCfg
    s!"t{p.text.ver}.s{p.sevCfg}.l{lk}.p{pk}.u{showWords [1, 2] p.dictUser}.f{showWords [3, 4] p.dictFile}.n{n}.g{if p.ignored then 1 else 0}"

def handleSrv (args : List String) : String :=
  match splitAt "|" args with
  | [[n], langs, acts] =>
    match n.toNat?, langs.mapM parseLang, acts.mapM (parseSrvAct (langs.filterMap parseLang)) with
    | some n, some ls, some as =>
      if ls.length ≠ n then "bad-op" else
      let y := runMacro (Sys.init State.init) as.flatten
      if y.st.badOrder then "bad-order"
      else if !y.pend.isEmpty || !y.run.isEmpty || !y.queue.isEmpty then "unfinished"
      else
        let us := List.range n
        let pubs := us.flatMap fun u => "|" :: s!"u{u}" :: (pubsOf y.st u).map showOut
        let sorted (l : List Nat) : List String := ((List.range 5).filter (fun w => l.contains w)).map toString
        let files := us.flatMap fun u => "|" :: s!"F{u}" :: sorted (y.st.fileDict u)
        joinSp ("ok" :: pubs ++ ("|" :: "U" :: sorted y.st.userDict) ++ files)
    | _, _, _ => "bad-op"
  | _ => "bad-op"

/-! ## `srvseq`: a history executed one handler at a time, by BOTH schedulers

`srvseq <n> | <lang per URL> | <history>` — the history in the vocabulary of `srv` without `R:` (the
answers are the model's: `seqActs`) and without `K:` (a silent configuration change is not an `Op`).
The line printed is what `srv` prints for `runMacro (Sys.init State.init) (seqActs Client.init ops)`
plus `| L <per URL 1/0: LatestAt as far as it is visible, `latestShown`>` for the client that schedule
implies (`clientAfter`), then `| seq`
and the same for `seqRun (Client.init, State.init) ops` — the two sides of `C09.macro_is_seqRun`; the
implementation's line repeats the real server's publications (and the harness's own verdict "last
publication = fresh lint of the newest text") on both sides. -/

def actToOp : Act → Option Op
  | .disk u t => some (.disk u t)
  | .recv m => some (.msg m)
  | _ => none

def parseSrvOps (langs : List Lang) (w : String) : Option (List Op) := do
  let as ← parseSrvAct langs w
  if as.isEmpty then none else as.mapM actToOp

/-- `LatestAt` as far as a client can SEE it: the last publication and `truth` print alike (`showOut`),
or the document was never opened and nothing was published. `LatestAt c st u` implies it (equal `Out`s
print alike); the converse fails exactly in the facets `showOut` hides because the published JSON does
not carry them: the parser configuration of a plain-text document (`p-`), parser configurations with the
same `IgnoreLinkTitle` bit (`iltOf`), the linter facet of documents with ≥ 2 dictionary words (`l*`).
Example (outside `HistOk`: `DiskIsBuf` fails): `didOpen` of a plain-text document whose file does not
exist, then `didChangeConfiguration 2` — the update is skipped, `parseCfg` stays 0, `LatestAt` is false,
and the diagnostics are nevertheless those of a fresh lint (cf. the markdown example "a configuration
change while the file does not exist" in `Props/C09.lean`, where the bit differs and it IS visible).
The harness's verdict (published JSON = fresh lint of the newest text under the client's configuration
and the dictionary files) is this observable notion, so this is what the `L` column compares. -/
def latestShown (c : Client) (st : State) (u : Url) : Bool :=
  showOut (st.outbox u) == showOut (truth c st u) || decide (c.buf u = none ∧ st.outbox u = .never)

/-- publications per URL, user dictionary, file dictionaries (the format of `srv`), and per URL the
verdict `L` (`latestShown`: 1/0) -/
def showSt (n : Nat) (c : Client) (st : State) : List String :=
  let us := List.range n
  let pubs := us.flatMap fun u => "|" :: s!"u{u}" :: (pubsOf st u).map showOut
  let sorted (l : List Nat) : List String := ((List.range 5).filter (fun w => l.contains w)).map toString
  let files := us.flatMap fun u => "|" :: s!"F{u}" :: sorted (st.fileDict u)
  pubs ++ ("|" :: "U" :: sorted st.userDict) ++ files ++
    ("|" :: "L" :: us.map fun u => if latestShown c st u then "1" else "0")

def handleSrvSeq (args : List String) : String :=
  match splitAt "|" args with
  | [[n], langs, hist] =>
    match n.toNat?, langs.mapM parseLang, hist.mapM (parseSrvOps (langs.filterMap parseLang)) with
    | some n, some ls, some ops =>
      if ls.length ≠ n then "bad-op" else
      let ops := ops.flatten
      let as := seqActs Client.init ops
      let y := runMacro (Sys.init State.init) as
      let w := seqRun (Client.init, State.init) ops
      if y.st.badOrder || w.2.badOrder then "bad-order"
      else if !y.pend.isEmpty || !y.run.isEmpty || !y.queue.isEmpty then "unfinished"
      -- the theorems' predicate implies the printed one (never fires; a guard on `showOut` / `latestShown`)
      else if (List.range n).any (fun u =>
          (decide (LatestAt (clientAfter as) y.st u) && !latestShown (clientAfter as) y.st u) ||
          (decide (LatestAt w.1 w.2 u) && !latestShown w.1 w.2 u)) then "bad-latest"
      else joinSp ("ok" :: showSt n (clientAfter as) y.st ++ ("|" :: "seq" :: showSt n w.1 w.2))
    | _, _, _ => "bad-op"
  | _ => "bad-op"

end Harper.Driver.Server