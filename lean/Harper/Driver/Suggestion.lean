import Harper.Basic.Proto
import Harper.Model.Suggestion
namespace Harper.Driver.Suggestion
open Harper Harper.Proto

def showResult (r : Except Panic (List Nat)) : String :=
  match r with
  | .ok cs => joinSp ("ok" :: cs.map toString)
  | .error _ => "panic"

/-- `apply R <start> <end> | <text cps> | <replacement cps>`, `apply I <start> <end> | <text> |
<inserted>`, `apply D <start> <end> | <text>` → `ok <cps>` or `panic` -/
def handleApply (args : List String) : String :=
  match splitAt "|" args with
  | [[k, s, e], text, r] =>
    match s.toNat?, e.toNat?, nats? text, nats? r with
    | some s, some e, some text, some r =>
      if k == "R" then showResult ((Suggestion.replaceWith r).apply ⟨s, e⟩ text)
      else if k == "I" then showResult ((Suggestion.insertAfter r).apply ⟨s, e⟩ text)
      else "bad-op"
    | _, _, _, _ => "bad-op"
  | [[k, s, e], text] =>
    match s.toNat?, e.toNat?, nats? text with
    | some s, some e, some text =>
      if k == "D" then showResult ((Suggestion.remove : Suggestion Nat).apply ⟨s, e⟩ text)
      else "bad-op"
    | _, _, _ => "bad-op"
  | _ => "bad-op"

/-- `rebase <s> <e> <c> <c'>`: `pull_by(c)` then `push_by(c')` → `ok <s'> <e'>` or `panic` -/
def handleRebase (args : List String) : String :=
  match nats? args with
  | some [s, e, c, c'] =>
    match rebase ⟨s, e⟩ c c' with
    | .ok sp => s!"ok {sp.start} {sp.stop}"
    | .error _ => "panic"
  | _ => "bad-op"

def parseSpan (w : String) : Option Span :=
  match natsOf w with
  | some [s, e] => some ⟨s, e⟩
  | _ => none

/-- `tokspan s:e s:e ...` → `ok <start> <end>` or `ok none` -/
def handleTokSpan (args : List String) : String :=
  match args.mapM parseSpan with
  | some toks =>
    match tokenSpan toks with
    | some sp => s!"ok {sp.start} {sp.stop}"
    | none => "ok none"
  | none => "bad-op"

/-- one edit `s:e:R:cp,cp,..` / `s:e:I:cp,cp,..` / `s:e:D:` (the code point list may be empty) -/
def parseEdit (w : String) : Option (Span × Suggestion Nat) :=
  match w.splitOn ":" with
  | [s, e, k, r] =>
    let cps : Option (List Nat) := if r == "" then some [] else natsOf r ','
    match s.toNat?, e.toNat?, cps with
    | some s, some e, some cps =>
      if k == "R" then some (⟨s, e⟩, .replaceWith cps)
      else if k == "I" then some (⟨s, e⟩, .insertAfter cps)
      else if k == "D" && cps.isEmpty then some (⟨s, e⟩, .remove)
      else none
    | _, _, _ => none
  | _ => none

/-- `fixall | <text cps> | <edit> <edit> ...` → `ok <cps>` or `panic`: the edits applied from
the last to the first with `Suggestion.apply` -/
def handleFixAll (args : List String) : String :=
  match splitAt "|" args with
  | [[], text, edits] =>
    match nats? text, edits.mapM parseEdit with
    | some text, some edits => showResult (fixAllBackToFront edits text)
    | _, _ => "bad-op"
  | _ => "bad-op"

/-- `substall | <text cps> | <edit> ...` → `ok <cps>`: the simultaneous substitution -/
def handleSubstAll (args : List String) : String :=
  match splitAt "|" args with
  | [[], text, edits] =>
    match nats? text, edits.mapM parseEdit with
    | some text, some edits => joinSp ("ok" :: (substAll edits text).map toString)
    | _, _ => "bad-op"
  | _ => "bad-op"

end Harper.Driver.Suggestion