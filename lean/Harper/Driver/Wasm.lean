import Harper.Basic.Proto
import Harper.Model.Wasm
import Harper.Driver.Ignore
/-!
Driver op of C16: one line = one whole sequence of calls on one `Linter`.

`wasm <call> ;; <call> ;; …` → `ok <result> ;; <result> ;; …`

Calls (groups separated by the word `|`; token / lint words as in `Driver/Ignore.lean`):

* `L <lang> | <text> | D₁ | R₁ | T₁ | D₂ | R₂ | T₂ …` — `lint`; one triple per candidate user
  dictionary: `D` = its words (`c,c,c` each), `R` = the raw lints, `T` = the tokens.
  → `L s:e:id:<problem text c,c,c or -> …`
* `A | <text> | s e | <suggestion tag,chars>` — `apply_suggestion` → `T <text>`
* `I <lint> | D₁ | T₁ | D₂ | T₂ …` — `ignore_lint` → `U`
* `XI` → `X i j …` the stored contexts, each named by the order in which this sequence first
  ignored it, sorted; `II k` — import what the k-th `XI` of this sequence returned → `U`; `CI` → `U`
* `IW key:c,c,c …` → `U`;  `XW` → `W c,c,c …` (sorted)
* `SC k:v …` (`v` = `0`, `1` or `n` for `null`) → `U`;  `GC` → `C k:v …` (sorted by key)
* `ST` → `N n`

A panic is `P` (the harness ends the sequence there); no alternative for the dictionary in force is
`noalt`.
-/
namespace Harper.Driver.Wasm
open Harper Harper.Proto Harper.Ignore Harper.Wasm Harper.Driver.Ignore

structure WasmSt where
  st      : Harper.Wasm.State
  /-- every context ever ignored in this sequence, in order of first occurrence -/
  seen    : List Context
  /-- what the `XI` calls returned -/
  exports : List (List Context)

def lexLe : List Nat → List Nat → Bool
  | [], _ => true
  | _ :: _, [] => false
  | a :: as, b :: bs => a < b || (a == b && lexLe as bs)

def insSorted {α} (le : α → α → Bool) (x : α) : List α → List α
  | [] => [x]
  | y :: ys => if le x y then x :: y :: ys else y :: insSorted le x ys

def sortBy {α} (le : α → α → Bool) (l : List α) : List α := l.foldr (insSorted le) []

def commasOf (l : List Nat) : String :=
  if l.isEmpty then "-" else ",".intercalate (l.map toString)

def parseWord (w : String) : Option Harper.Wasm.Word :=
  match w.splitOn ":" with
  | [k, c] =>
    match k.toNat?, natList? c with
    | some k, some c => some ⟨k, c⟩
    | _, _ => none
  | _ => none

def parseCfg (w : String) : Option (Nat × Option Bool) :=
  match w.splitOn ":" with
  | [k, v] =>
    match k.toNat? with
    | some k =>
      if v == "0" then some (k, some false)
      else if v == "1" then some (k, some true)
      else if v == "n" then some (k, none)
      else none
    | none => none
  | _ => none

def parseSugg (w : String) : Option (Suggestion Nat) :=
  match natList? w with
  | some (0 :: cs) => some (.replaceWith cs)
  | some (1 :: cs) => some (.insertAfter cs)
  | some [2] => some .remove
  | _ => none

/-- `D | R | T` triples -/
def parseAlts3 : List (List String) → Option (List Alt)
  | [] => some []
  | d :: r :: t :: rest =>
    match d.mapM natList?, r.mapM parseLintM, t.mapM parseIgTok, parseAlts3 rest with
    | some d, some r, some t, some as => some (⟨d, r, t⟩ :: as)
    | _, _, _, _ => none
  | _ => none

/-- `D | T` pairs -/
def parseAlts2 : List (List String) → Option (List Alt)
  | [] => some []
  | d :: t :: rest =>
    match d.mapM natList?, t.mapM parseIgTok, parseAlts2 rest with
    | some d, some t, some as => some (⟨d, [], t⟩ :: as)
    | _, _, _ => none
  | _ => none

def parseCall (exports : List (List Context)) (ws : List String) : Option Op :=
  match ws with
  | "L" :: rest =>
    match splitAt "|" rest with
    | [lang] :: text :: groups =>
      match lang.toNat?, nats? text, parseAlts3 groups with
      | some lang, some text, some alts => some (.lint text lang alts)
      | _, _, _ => none
    | _ => none
  | "A" :: rest =>
    match splitAt "|" rest with
    | [[], text, [s, e], [sg]] =>
      match nats? text, s.toNat?, e.toNat?, parseSugg sg with
      | some text, some s, some e, some sg => some (.apply text ⟨s, e⟩ sg)
      | _, _, _, _ => none
    | _ => none
  | "I" :: rest =>
    match splitAt "|" rest with
    | [l] :: groups =>
      match parseLintM l, parseAlts2 groups with
      | some l, some alts => some (.ignore l alts)
      | _, _ => none
    | _ => none
  | ["XI"] => some .exportIgnored
  | ["II", k] =>
    match k.toNat? with
    | some k =>
      match exports[k]? with
      | some p => some (.importIgnored p)
      | none => none
    | none => none
  | ["CI"] => some .clearIgnored
  | "IW" :: ws => (ws.mapM parseWord).map .importWords
  | ["XW"] => some .exportWords
  | "SC" :: es => (es.mapM parseCfg).map .setConfig
  | ["GC"] => some .getConfig
  | ["ST"] => some .statsCount
  | _ => none

def showWLint (w : WLint) : String :=
  s!"{w.lint.start}:{w.lint.stop}:{w.lint.id}:{commasOf w.problemText}"

def showOut (seen : List Context) : Out → String
  | .lints ls => joinSp ("L" :: ls.map showWLint)
  | .text t => joinSp ("T" :: t.map toString)
  | .ignoredList cs =>
    joinSp ("X" :: (sortBy (fun a b => decide (a ≤ b)) (cs.map (fun c => seen.idxOf c))).map toString)
  | .words ws => joinSp ("W" :: (sortBy lexLe (ws.map (·.chars))).map commasOf)
  | .config c =>
    joinSp ("C" :: (sortBy (fun a b => decide (a.1 ≤ b.1)) c).map
      (fun e => s!"{e.1}:{if e.2 then 1 else 0}"))
  | .count n => s!"N {n}"
  | .unit => "U"
  | .panic _ => "P"
  | .noAlt => "noalt"

/-- the context an `ignore` call stores (for the first-occurrence numbering of `XI`) -/
def ignoredCtx (s : Harper.Wasm.State) : Op → Option Context
  | .ignore l alts => (pickAlt s.synced alts).map (fun a => contextOf l a.toks)
  | _ => none

def runCalls (d : WasmSt) : List (List String) → Option (List String)
  | [] => some []
  | ws :: rest =>
    match parseCall d.exports ws with
    | none => none
    | some op =>
      let (s', out) := step d.st op
      let seen := match ignoredCtx d.st op with
        | some c => if d.seen.contains c then d.seen else d.seen ++ [c]
        | none => d.seen
      let exports := match out with
        | .ignoredList cs => d.exports ++ [cs]
        | _ => d.exports
      match runCalls ⟨s', seen, exports⟩ rest with
      | none => none
      | some outs => some (showOut seen out :: outs)

def handleWasm (args : List String) : String :=
  match runCalls ⟨Harper.Wasm.init, [], []⟩ (splitAt ";;" args) with
  | some outs => "ok " ++ " ;; ".intercalate outs
  | none => "bad-op"

end Harper.Driver.Wasm
