import Harper.Driver.Pattern
import Harper.Driver.Ignore
import Harper.Driver.Title
import Harper.Driver.PosConv
import Harper.Driver.Stats
import Harper.Driver.NumberSuffix
import Harper.Driver.Suggestion
import Harper.Driver.Overlaps
import Harper.Driver.Lex
import Harper.Driver.Spell
/-! Dispatch table of the model driver: first word of an op line → handler on the remaining words. -/
namespace Harper.Driver

def handlers : List (String × (List String → String)) := [
  ("ro", handleRo),
  ("ri", handleRi),
  ("lex", handleLex),
  ("acc", handleAcc),
  ("f64", handleF64),
  ("apply", handleApply),
  ("rebase", handleRebase),
  ("tokspan", handleTokSpan),
  ("fixall", handleFixAll),
  ("substall", handleSubstAll),
  ("sfx", handleSfx),
  ("fromchars", handleFromChars),
  ("tochars", handleToChars),
  ("nsrule", handleNsRule),
  ("esc", handleEsc),
  ("unq", handleUnq),
  ("lines", handleLines),
  ("rdlog", handleRdlog),
  ("wlog", handleWlog),
  ("rlog", handleRlog),
  ("sum", handleSum),
  ("i2p", handleI2p), ("p2i", handleP2i), ("s2r", handleS2r), ("r2s", handleR2s),
  ("edit", handleEdit), ("sel", handleSel), ("sapply", handleSpliceApply),
  ("cdec", handleCdec), ("capply", handleCapply),
  ("ig", handleIg),
  ("ce", handleCe),
  ("tc", handleTc),
  ("pat", handlePat),
  ("roc", handleRoc),
  ("fam", handleFam),
  ("lint", handleLint),
  ("chunks", handleChunks),
  ("pata", handlePatA),
  ("roca", handleRocA),
  ("fama", handleFamA)
]

def handle (line : String) : String :=
  match Harper.Proto.splitWs line.trimAscii.toString with
  | [] => "bad-op"
  | op :: args =>
    match handlers.lookup op with
    | some h => h args
    | none => "bad-op"

end Harper.Driver
