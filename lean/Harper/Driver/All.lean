import Harper.Driver.Overlaps
import Harper.Driver.Lex
/-! Dispatch table of the model driver: first word of an op line → handler on the remaining words. -/
namespace Harper.Driver

def handlers : List (String × (List String → String)) := [
  ("ro", handleRo),
  ("ri", handleRi),
  ("lex", handleLex),
  ("f64", handleF64)
]

def handle (line : String) : String :=
  match Harper.Proto.splitWs line.trimAscii.toString with
  | [] => "bad-op"
  | op :: args =>
    match handlers.lookup op with
    | some h => h args
    | none => "bad-op"

end Harper.Driver
