import Harper.Driver.MergeRules
import Harper.Driver.Rules2
import Harper.Driver.PatternRules
import Harper.Driver.Leaves
import Harper.Driver.Typst
import Harper.Driver.Rules
import Harper.Driver.Markdown
import Harper.Driver.Condense
import Harper.Driver.Server
import Harper.Driver.Effects
import Harper.Driver.Wasm
import Harper.Driver.DictIO
import Harper.Driver.Mask
import Harper.Driver.LintGroup
import Harper.Driver.LexExt
import Harper.Driver.EditDistance
import Harper.Driver.Pattern
import Harper.Driver.Ignore
import Harper.Driver.Title
import Harper.Driver.PosConv
import Harper.Driver.Stats
import Harper.Driver.NumberSuffix
import Harper.Driver.Suggestion
import Harper.Driver.Overlaps
import Harper.Driver.Lex
import Harper.Driver.Spell
/-! Dispatch table of the model driver: first word of an op line → handler on the remaining words. -/
namespace Harper.Driver

def handlers : List (String × (List String → String)) := [
  ("ro", Overlaps.handleRo),
  ("ri", Overlaps.handleRi),
  ("lex", Lex.handleLex),
  ("acc", Spell.handleAcc),
  ("f64", Lex.handleF64),
  ("apply", Suggestion.handleApply),
  ("rebase", Suggestion.handleRebase),
  ("tokspan", Suggestion.handleTokSpan),
  ("fixall", Suggestion.handleFixAll),
  ("substall", Suggestion.handleSubstAll),
  ("sfx", NumberSuffix.handleSfx),
  ("fromchars", NumberSuffix.handleFromChars),
  ("tochars", NumberSuffix.handleToChars),
  ("nsrule", NumberSuffix.handleNsRule),
  ("esc", Stats.handleEsc),
  ("unq", Stats.handleUnq),
  ("lines", Stats.handleLines),
  ("rdlog", Stats.handleRdlog),
  ("wlog", Stats.handleWlog),
  ("rlog", Stats.handleRlog),
  ("sum", Stats.handleSum),
  ("i2p", PosConv.handleI2p), ("p2i", PosConv.handleP2i), ("s2r", PosConv.handleS2r), ("r2s", PosConv.handleR2s),
  ("edit", PosConv.handleEdit), ("sel", PosConv.handleSel), ("sapply", PosConv.handleSpliceApply),
  ("cdec", PosConv.handleCdec), ("capply", PosConv.handleCapply),
  ("ig", Ignore.handleIg),
  ("ce", Ignore.handleCe),
  ("tc", Title.handleTc),
  ("pat", Pattern.handlePat),
  ("roc", Pattern.handleRoc),
  ("fam", Pattern.handleFam),
  ("lint", Pattern.handleLint),
  ("chunks", Pattern.handleChunks),
  ("pata", Pattern.handlePatA),
  ("roca", Pattern.handleRocA),
  ("fama", Pattern.handleFamA),
  ("ed", EditDistance.handleEd),
  ("edn", EditDistance.handleEdn),
  ("dq", EditDistance.handleDq),
  ("mq", EditDistance.handleMq),
  ("fz", EditDistance.handleFz),
  ("fzall", EditDistance.handleFzAll),
  ("fzf", EditDistance.handleFzf),
  ("fzfall", EditDistance.handleFzfAll),
  ("mfz", EditDistance.handleMfz),
  ("lexfull", LexExt.handleLexFull),
  ("extlex", LexExt.handleExtLex),
  ("cfg", LintGroup.handleCfg),
  ("lg", LintGroup.handleLg),
  ("spell", LintGroup.handleSpell),
  ("b2c", Mask.handleB2c),
  ("tsmask", Mask.handleTsMask),
  ("mws", Mask.handleMws),
  ("maskparse", Mask.handleMaskParse),
  ("unit", Mask.handleUnit),
  ("jsdoc", Mask.handleJsdoc),
  ("woi", Mask.handleWoi),
  ("lhs", Mask.handleLhs),
  ("gitcut", Mask.handleGitCut),
  ("cursor", Mask.handleCursor),
  ("mdtrav", Mask.handleMdTrav),
  ("dio", DictIO.handleDio), ("dload", DictIO.handleDload), ("dsave", DictIO.handleDsave), ("dchunk", DictIO.handleDchunk),
  ("wasm", Wasm.handleWasm),
  ("srv", Server.handleSrv),
  ("fdn", Effects.handleFdn),
  ("eff", Effects.handleEff),
  ("doc", Condense.handleDoc),
  ("pieces", Condense.handlePieces),
  ("javadoc", Mask.handleJavadoc), ("gopar", Mask.handleGoPar), ("jdmark", Mask.handleJdMark),
  ("cfgp", Effects.handleCfgp), ("effc", Effects.handleEffc),
  ("dfp", DictIO.handleDfp),
  ("mdparse", Markdown.handleMdParse),
  ("evok", Markdown.handleEvOk),
  ("wikiclean", Markdown.handleWikiClean),
  ("collapse", Markdown.handleCollapse),
  ("isolate", Markdown.handleIsolate),
  ("isolatev", Markdown.handleIsolateV),
  ("rule", Rules.handleRule),
  ("rulemo", Rules.handleRuleMo),
  ("ruletoks", Rules.handleRuleToks),
  ("typst", Typst.handleTypst),
  ("typok", Typst.handleTypOk),
  ("htmlclamp", Typst.handleHtmlClamp),
  ("htmlclampt", Typst.handleHtmlClampT),
  ("leafm", Leaves.handleLeafM),
  ("mphrase", Leaves.handleMPhrase),
  ("pnoun", Leaves.handlePNoun),
  ("mergel", Leaves.handleMergeL),
  ("prulem", PatternRules.handlePRuleM),
  ("prule", PatternRules.handlePRule),
  ("pmtl", PatternRules.handlePMtl),
  ("rule2", Rules2.handleRule2),
  ("rule2toks", Rules2.handleRule2Toks),
  ("mrule", Harper.Driver.MergeRules.handleMRule),
  ("mchild", Harper.Driver.MergeRules.handleMChild),
  ("mrulem", Harper.Driver.MergeRules.handleMRuleM),
  ("mmtl", Harper.Driver.MergeRules.handleMMtl),
  ("spellr", Harper.Driver.MergeRules.handleSpellR),
  ("docfull", LexExt.handleDocFull),
  ("srvseq", Server.handleSrvSeq),
  ("cmask", Mask.handleCMask),
  ("sugg", Spell.handleSugg),
  ("mkd", Effects.handleMkd), ("effmk", Effects.handleEffmk), ("sde", Effects.handleSde),
  ("htmlparse", Typst.handleHtmlParse)
]

def handle (line : String) : String :=
  match Harper.Proto.splitWs line.trimAscii.toString with
  | [] => "bad-op"
  | op :: args =>
    match handlers.lookup op with
    | some h => h args
    | none => "bad-op"

end Harper.Driver
