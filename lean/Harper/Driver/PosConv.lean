import Harper.Basic.Proto
import Harper.Model.PosConv
/-!
Driver ops for `Harper.Model.PosConv` (C08). Text = words `cp:len16` (code point and
`char::len_utf16` as computed by Rust); replacement / new text = plain code points.

```
i2p <i> | text                          → ok <line> <col> | panic
p2i <line> <col> | text                 → ok <idx> | panic
s2r <s> <e> | text                      → ok <l> <c> <l> <c> | panic
r2s <l> <c> <l> <c> | text              → ok <s> <e> | panic
edit <R|I|D> <s> <e> | text | repl      → ok <l> <c> <l> <c> | <new_text cps> | panic
sel <l> <c> <l> <c> <s> <e> | text      → ok <0|1> | panic
apply <R|I|D> <s> <e> | text | repl     → ok <result cps>          (in-bounds spans only)
cdec <line> <col> | text                → ok <offset>              (the LSP client)
capply <l> <c> <l> <c> | text | new     → ok <result cps>          (the LSP client)
```
-/
namespace Harper.Driver.PosConv
open Harper Harper.Proto Harper.PosConv

/-- `cp:len16` words → text and the `len16` table -/
def parseItem16 (w : String) : Option (Char × Nat) :=
  match natsOf w with
  | some [cp, n] => if n = 1 ∨ n = 2 then some (Char.ofNat cp, n) else none
  | _ => none

def parseText16 (ws : List String) : Option (List Char × List (Char × Nat)) :=
  match ws.mapM parseItem16 with
  | some l => some (l.map (·.1), l)
  | none => none

def len16Of (tbl : List (Char × Nat)) (c : Char) : Nat := (tbl.lookup c).getD 1

def showPos (p : Position) : String := s!"{p.line} {p.character}"
def showRange (r : Range) : String := s!"{showPos r.start} {showPos r.stop}"

def exc {α} (f : α → String) : Except Panic α → String
  | .ok v => f v
  | .error _ => "panic"

def handleI2p (args : List String) : String :=
  match splitAt "|" args with
  | [[i], t] =>
    match i.toNat?, parseText16 t with
    | some i, some (src, tbl) => exc (fun p => s!"ok {showPos p}") (indexToPosition (len16Of tbl) src i)
    | _, _ => "bad-op"
  | _ => "bad-op"

def handleP2i (args : List String) : String :=
  match splitAt "|" args with
  | [[l, c], t] =>
    match l.toNat?, c.toNat?, parseText16 t with
    | some l, some c, some (src, tbl) => exc (fun i => s!"ok {i}") (positionToIndex (len16Of tbl) src ⟨l, c⟩)
    | _, _, _ => "bad-op"
  | _ => "bad-op"

def handleS2r (args : List String) : String :=
  match splitAt "|" args with
  | [[s, e], t] =>
    match s.toNat?, e.toNat?, parseText16 t with
    | some s, some e, some (src, tbl) =>
      exc (fun r => s!"ok {showRange r}") (spanToRange (len16Of tbl) src ⟨s, e⟩)
    | _, _, _ => "bad-op"
  | _ => "bad-op"

def handleR2s (args : List String) : String :=
  match splitAt "|" args with
  | [ps, t] =>
    match nats? ps, parseText16 t with
    | some [l1, c1, l2, c2], some (src, tbl) =>
      exc (fun sp => s!"ok {sp.start} {sp.stop}") (rangeToSpan (len16Of tbl) src ⟨⟨l1, c1⟩, ⟨l2, c2⟩⟩)
    | _, _ => "bad-op"
  | _ => "bad-op"

def parseSugg (kind : String) (r : List Char) : Option Sugg :=
  match kind with
  | "R" => some (.replaceWith r)
  | "I" => some (.insertAfter r)
  | "D" => if r.isEmpty then some .remove else none
  | _ => none

def handleEdit (args : List String) : String :=
  match splitAt "|" args with
  | [[k, s, e], t, r] =>
    match s.toNat?, e.toNat?, parseText16 t, charsOf r with
    | some s, some e, some (src, tbl), some r =>
      match parseSugg k r with
      | some sg =>
        exc (fun ed => (s!"ok {showRange ed.range} | {showChars ed.newText}").trimAsciiEnd.toString)
          (editOf (len16Of tbl) src sg ⟨s, e⟩)
      | none => "bad-op"
    | _, _, _, _ => "bad-op"
  | _ => "bad-op"

def handleSel (args : List String) : String :=
  match splitAt "|" args with
  | [ps, t] =>
    match nats? ps, parseText16 t with
    | some [l1, c1, l2, c2, s, e], some (src, tbl) =>
      exc (fun b => if b then "ok 1" else "ok 0")
        (selects (len16Of tbl) src ⟨⟨l1, c1⟩, ⟨l2, c2⟩⟩ ⟨s, e⟩)
    | _, _ => "bad-op"
  | _ => "bad-op"

def handleSpliceApply (args : List String) : String :=
  match splitAt "|" args with
  | [[k, s, e], t, r] =>
    match s.toNat?, e.toNat?, parseText16 t, charsOf r with
    | some s, some e, some (src, _), some r =>
      if s > e ∨ e > src.length then "bad-op" else
      match parseSugg k r with
      | some sg => (s!"ok {showChars (applySpec sg ⟨s, e⟩ src)}").trimAsciiEnd.toString
      | none => "bad-op"
    | _, _, _, _ => "bad-op"
  | _ => "bad-op"

def handleCdec (args : List String) : String :=
  match splitAt "|" args with
  | [[l, c], t] =>
    match l.toNat?, c.toNat?, parseText16 t with
    | some l, some c, some (src, tbl) => s!"ok {clientOffset (len16Of tbl) src ⟨l, c⟩}"
    | _, _, _ => "bad-op"
  | _ => "bad-op"

def handleCapply (args : List String) : String :=
  match splitAt "|" args with
  | [ps, t, r] =>
    match nats? ps, parseText16 t, charsOf r with
    | some [l1, c1, l2, c2], some (src, tbl), some r =>
      (s!"ok {showChars (clientApply (len16Of tbl) src ⟨⟨⟨l1, c1⟩, ⟨l2, c2⟩⟩, r⟩)}").trimAsciiEnd.toString
    | _, _, _ => "bad-op"
  | _ => "bad-op"

end Harper.Driver.PosConv