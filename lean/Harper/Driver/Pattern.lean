import Harper.Basic.Proto
import Harper.Model.Pattern
/-!
Driver ops of the pattern framework model.

Pattern syntax (space-separated words):
`any` · `ws` · `k<n>` kind-`n` leaf · `c<n>` arbitrary leaf "always `n`" · `u<n>` arbitrary leaf
"`min n len`" · `z<n>` arbitrary leaf "`n` on the empty slice, else 0" (the unfixed `Invert(any)` is `z1`) ·
`( seq p… )` · `( rep <n> p )` · `( or p… )` · `( all p… )` · `( inv p )` · `( rem p )`.
-/
namespace Harper.Driver.Pattern
open Harper Harper.Proto Harper.Pat

def atomOf (w : String) : Option Pat :=
  if w == "any" then some .any
  else if w == "ws" then some .whitespace
  else
    match w.toList with
    | 'k' :: ds => (String.ofList ds).toNat?.map Pat.leaf
    | 'c' :: ds => (String.ofList ds).toNat?.map fun n => Pat.fn (fun _ => n)
    | 'u' :: ds => (String.ofList ds).toNat?.map fun n => Pat.fn (fun t => min n t.length)
    | 'z' :: ds => (String.ofList ds).toNat?.map fun n => Pat.fn (fun t => if t.isEmpty then n else 0)
    | _ => none

mutual
def parsePat : Nat → List String → Option (Pat × List String)
  | 0, _ => none
  | _ + 1, [] => none
  | fuel + 1, w :: ws =>
    if w == "(" then
      match ws with
      | "seq" :: r => (parsePats fuel r).map fun x => (.seq x.1, x.2)
      | "or" :: r => (parsePats fuel r).map fun x => (.either x.1, x.2)
      | "all" :: r => (parsePats fuel r).map fun x => (.all x.1, x.2)
      | "rep" :: n :: r =>
        match n.toNat?, parsePat fuel r with
        | some n, some (p, ")" :: r') => some (.rep p n, r')
        | _, _ => none
      | "inv" :: r =>
        match parsePat fuel r with
        | some (p, ")" :: r') => some (.invert p, r')
        | _ => none
      | "rem" :: r =>
        match parsePat fuel r with
        | some (p, ")" :: r') => some (.consumes p, r')
        | _ => none
      | _ => none
    else (atomOf w).map fun p => (p, ws)
def parsePats : Nat → List String → Option (PatList × List String)
  | 0, _ => none
  | _ + 1, [] => none
  | fuel + 1, w :: ws =>
    if w == ")" then some (.nil, ws)
    else
      match parsePat fuel (w :: ws) with
      | some (p, r) =>
        match parsePats fuel r with
        | some (ps, r') => some (.cons p ps, r')
        | none => none
      | none => none
end

def patOf (ws : List String) : Option Pat :=
  match parsePat (ws.length + 1) ws with
  | some (p, []) => some p
  | _ => none

def showLen (r : Except Panic Nat) : String :=
  match r with
  | .ok n => s!"ok {n}"
  | .error .outOfFuel => "timeout"
  | .error _ => "panic"

def showPair (m : Nat × Nat) : String := s!"{m.1}:{m.2}"

def showMatches (r : Except Panic (List (Nat × Nat))) : String :=
  match r with
  | .ok ms => joinSp ("ok" :: ms.map showPair)
  | .error .outOfFuel => "timeout"
  | .error _ => "panic"

/-- `<pattern words> | <kind codes>` -/
def patAndToks (args : List String) : Option (Pat × List Nat) :=
  match splitAt "|" args with
  | [pw, ks] =>
    match patOf pw, nats? ks with
    | some p, some ks => some (p, ks)
    | _, _ => none
  | _ => none

/-- `pat <pattern> | <kinds>` → `ok n` (`Pattern::matches`) -/
def handlePat (args : List String) : String :=
  match patAndToks args with
  | some (p, ks) => showLen (matchLen p ks)
  | none => "bad-op"

/-- `roc <pattern> | <kinds>` → `ok s:l …` (`run_on_chunk` on one chunk) -/
def handleRoc (args : List String) : String :=
  match patAndToks args with
  | some (p, ks) => showMatches (runOnChunk p ks)
  | none => "bad-op"

/-- `fam <pattern> | <kinds>` → `ok s:l …` (`find_all_matches`) -/
def handleFam (args : List String) : String :=
  match patAndToks args with
  | some (p, ks) => showMatches (findAllMatches p ks)
  | none => "bad-op"

/-- `lint <pattern> | <kinds>` → `ok s:l …` (blanket `Linter::lint` over `iter_chunks`) -/
def handleLint (args : List String) : String :=
  match patAndToks args with
  | some (p, ks) => showMatches (lintDoc p ks)
  | none => "bad-op"

/-- `(start, len)` of each chunk -/
def chunkSpans : Nat → List (List Nat) → List (Nat × Nat)
  | _, [] => []
  | off, c :: cs => (off, c.length) :: chunkSpans (off + c.length) cs

/-- `chunks c|s|p | <kinds>` → `ok s:l …` (`iter_chunks` / `iter_sentences` / `iter_paragraphs`) -/
def handleChunks (args : List String) : String :=
  match splitAt "|" args with
  | [[which], ks] =>
    match nats? ks with
    | some ks =>
      let r := if which == "c" then some (iterChunks ks)
        else if which == "s" then some (iterSentences ks)
        else if which == "p" then some (iterParagraphs ks)
        else none
      match r with
      | some cs => joinSp ("ok" :: (chunkSpans 0 cs).map showPair)
      | none => "bad-op"
    | none => "bad-op"
  | _ => "bad-op"

/-- all strings of length `n` over the kind codes `0..3`, first token most significant -/
def stringsOfLen : Nat → List (List Nat)
  | 0 => [[]]
  | n + 1 => [0, 1, 2, 3].flatMap fun k => (stringsOfLen n).map (k :: ·)

/-- all strings of length `≤ L`, by length then lexicographically -/
def stringsUpTo (L : Nat) : List (List Nat) := (List.range (L + 1)).flatMap stringsOfLen

def cellLen (r : Except Panic Nat) : String :=
  match r with
  | .ok n => toString n
  | .error .outOfFuel => "T"
  | .error _ => "P"

def cellMatches (r : Except Panic (List (Nat × Nat))) : String :=
  match r with
  | .ok [] => "-"
  | .ok ms => ",".intercalate (ms.map showPair)
  | .error .outOfFuel => "T"
  | .error _ => "P"

def handleAll (cell : Pat → List Nat → String) (args : List String) : String :=
  match args with
  | l :: pw =>
    match l.toNat?, patOf pw with
    | some L, some p => if L ≤ 6 then joinSp ("ok" :: (stringsUpTo L).map (cell p)) else "bad-op"
    | _, _ => "bad-op"
  | _ => "bad-op"

/-- `pata <L> <pattern>` → `ok r…`: `matches` on every kind string of length ≤ L over `0..3` -/
def handlePatA : List String → String := handleAll fun p ks => cellLen (matchLen p ks)
/-- `roca <L> <pattern>` → `run_on_chunk` on every such string -/
def handleRocA : List String → String := handleAll fun p ks => cellMatches (runOnChunk p ks)
/-- `fama <L> <pattern>` → `find_all_matches` on every such string -/
def handleFamA : List String → String := handleAll fun p ks => cellMatches (findAllMatches p ks)

end Harper.Driver.Pattern