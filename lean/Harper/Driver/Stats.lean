import Harper.Basic.Proto
import Harper.Model.Stats
/-! Driver ops of the statistics-log model (C19). -/
namespace Harper.Driver.Stats
open Harper.Proto Harper.Stats

/-- `esc <cps>` → `ok <cps of the JSON string literal, quotes included>` -/
def handleEsc (args : List String) : String :=
  match charsOf args with
  | some s => joinSp ("ok" :: (jsonString s).map fun c => toString c.toNat)
  | none => "bad-op"

/-- `unq <cps of a JSON string literal>` → `ok <cps>` | `err` -/
def handleUnq (args : List String) : String :=
  match charsOf args with
  | some s =>
    match parseJsonString s with
    | some r => joinSp ("ok" :: r.map fun c => toString c.toNat)
    | none => "err"
  | none => "bad-op"

def showGroups (gs : List (List Char)) : String :=
  String.join (gs.map fun g => " |" ++ String.join (g.map fun c => " " ++ toString c.toNat))

/-- `lines <cps>` → `ok <n> | <cps of line 1> | <cps of line 2> …` -/
def handleLines (args : List String) : String :=
  match charsOf args with
  | some s =>
    let ls := lines s
    s!"ok {ls.length}" ++ showGroups ls
  | none => "bad-op"

/-- `rdlog <cps of a log of JSON-string records>` → `ok <n> | <cps of record 1> …` | `err` -/
def handleRdlog (args : List String) : String :=
  match charsOf args with
  | some s =>
    match readLog s with
    | some rs => s!"ok {rs.length}" ++ showGroups rs
    | none => "err"
  | none => "bad-op"

/-- `wlog | <pre cps> | <suf cps> | <s1 cps> | <s2 cps> …` → `ok <cps of the log>` -/
def handleWlog (args : List String) : String :=
  match splitAt "|" args with
  | [] :: pre :: suf :: ss =>
    match charsOf pre, charsOf suf, ss.mapM charsOf with
    | some pre, some suf, some ss =>
      joinSp ("ok" :: (write (frameSer pre suf) ss).map fun c => toString c.toNat)
    | _, _, _ => "bad-op"
  | _ => "bad-op"

/-- `rlog | <pre cps> | <suf cps> | <log cps>` → `ok <n> | <s1 cps> …` | `err` -/
def handleRlog (args : List String) : String :=
  match splitAt "|" args with
  | [[], pre, suf, log] =>
    match charsOf pre, charsOf suf, charsOf log with
    | some pre, some suf, some log =>
      match read (frameParse pre suf) log with
      | some rs => s!"ok {rs.length}" ++ showGroups rs
      | none => "err"
    | _, _, _ => "bad-op"
  | _ => "bad-op"

/-- a word: code points joined by `.`, the empty word is `-` -/
def parseWord (w : String) : Option (List Char) :=
  if w == "-" then some [] else (natsOf w '.').map (·.map Char.ofNat)

def showWord (w : List Char) : String :=
  if w.isEmpty then "-" else ".".intercalate (w.map fun c => toString c.toNat)

/-- `l:<kind>[:<word>…]` | `c:<cfg>` -/
def parseRec (w : String) : Option Rec :=
  match w.splitOn ":" with
  | "c" :: [n] => n.toNat?.map Rec.configUpdate
  | "l" :: k :: ws =>
    match k.toNat?, ws.mapM parseWord with
    | some k, some ws => some (Rec.lint k ws)
    | _, _ => none
  | _ => none

/-- `sum <rec>…` → `ok <total> <final cfg> | <kind>:<n> … | <word>:<n> …` (maps in first-insertion order) -/
def handleSum (args : List String) : String :=
  match args.mapM parseRec with
  | some rs =>
    let s := summarize rs
    joinSp (["ok", toString s.totalApplied, toString s.finalConfig, "|"]
      ++ s.lintCounts.map (fun p => s!"{p.1}:{p.2}") ++ ["|"]
      ++ s.misspelled.map (fun p => s!"{showWord p.1}:{p.2}"))
  | none => "bad-op"

end Harper.Driver.Stats