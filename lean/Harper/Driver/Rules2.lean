import Harper.Driver.Rules
import Harper.Model.Rules2
/-!
`rule2 <Name> | cp:flags … | pos:kind:len … | numbers | words | chars` and
`rule2toks <Name> | code points | tag@s-e … | numbers | words | chars`:
the ops `rule` / `ruletoks` of `Driver/Rules.lean` (same fields, same output) for the rules of
`Model/Rules2.lean` (`ruleByName2`). The word table carries the metadata bits 0–19 and also has
entries for texts that are not tokens (MergeWords' concatenations).
-/
namespace Harper.Driver.Rules2
open Harper Harper.Proto Harper.Driver.Lex Harper.Rules Harper.Driver.Rules Harper.Rules2

def handleRule2 (args : List String) : String :=
  match args with
  | name :: rest =>
    match ruleByName2 name, parseRuleArgs rest with
    | some r, some (src, cls, ext, env) =>
      match document cls ext src with
      | .ok toks => showResult (r env src toks)
      | .error .outOfFuel => "timeout"
      | .error _ => "panic"
    | _, _ => "bad-op"
  | [] => "bad-op"

def handleRule2Toks (args : List String) : String :=
  match args with
  | name :: rest =>
    match splitAt "|" rest with
    | [[], cs, ts, ns, ws, chs] =>
      match ruleByName2 name, charsOf cs, ts.mapM Mask.parseTok, ns.mapM parseNumEntry, ws.mapM parseWordEntry,
          chs.mapM parseCharEntry with
      | some r, some src, some toks, some ns', some ws', some ct => showResult (r (envOf ns' ws' ct) src toks)
      | _, _, _, _, _, _ => "bad-op"
    | _ => "bad-op"
  | [] => "bad-op"

end Harper.Driver.Rules2
