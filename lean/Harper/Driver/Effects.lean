import Harper.Basic.Proto
import Harper.Model.Effects
import Harper.Model.ConfigPaths
/-!
# Driver for the effect model (C10)

* `fdn <code points of the document path>` → `ok <code points of file_dict_name>`
* `eff <entry> | <entry> | …` → `ok <sorted, de-duplicated effect tags>` for the symbolic
  configuration `user dictionary = @cfg/dictionary.txt`, `file dictionaries = @data/fdicts/`,
  `statistics = @data/stats.txt` (as in `Config::default()`, the statistics file and the
  file-dictionary directory share their parent). Entries: `lib wasm stdio tcp tcp-taken close deleted ignore
  record action shutdown`, `upd <twice> <path…>`, `save <exists> <twice> <path…>`,
  `addu <exists> <twice> <path…>`, `addf <exists> <twice> <path…>`,
  `cfg <exists> <twice> <path…> ; <exists> <twice> <path…> ; …`.
  Tags: `r:` read, `c:` create/truncate, `a:` append, `m:` mkdirs; `U` user dictionary, `UD` its
  directory, `S` statistics file, `DD` the data directory, `FD` the file-dictionary directory,
  `F:<name code points>` a per-document dictionary, `D:<path code points>` a document.
* `cfgp`, `effc`: further down; `mkd`, `effmk`, `sde` (w24, what `create_dir_all` creates): at the end.
-/
namespace Harper.Driver.Effects
open Harper.Effects Harper.Proto

def symPaths : Paths :=
  { userDict := ["@cfg".toList, "dictionary.txt".toList],
    fileDir := ["@data".toList, "fdicts".toList],
    stats := ["@data".toList, "stats.txt".toList] }

def effDots (cs : List Char) : String := ".".intercalate (cs.map fun c => toString c.toNat)

def effTagPath (p : Path) : String :=
  let P := symPaths
  if p = P.userDict then "U"
  else if p = parent P.userDict then "UD"
  else if p = P.stats then "S"
  else if p = parent P.stats then "DD"
  else if p = P.fileDir then "FD"
  else if p.dropLast = P.fileDir then "F:" ++ effDots (p.getLastD [])
  else "D:" ++ effDots (p.flatMap fun c => '/' :: c)

def tagEff : Eff → String
  | .readFile p => "r:" ++ effTagPath p
  | .createFile p => "c:" ++ effTagPath p
  | .appendFile p => "a:" ++ effTagPath p
  | .mkdirs p => "m:" ++ effTagPath p
  | .listen ip port => "listen:" ++ ".".intercalate (ip.map toString) ++ ":" ++ toString port
  | .accept => "accept"
  | .connect _ _ => "connect"
  | .resolve _ => "resolve"
  | .sendDatagram _ _ => "send"
  | .spawnOpener _ => "opener"

def effBool? : String → Option Bool
  | "0" => some false
  | "1" => some true
  | _ => none

def effDocArgs (ws : List String) : Option (Bool × Bool × List Char) :=
  match ws with
  | e :: t :: cps => do
    let e ← effBool? e; let t ← effBool? t; let cs ← charsOf cps
    some (e, t, cs)
  | _ => none

def effParseEntry : List String → Option Entry
  | ["lib"] => some .library
  | ["wasm"] => some .wasm
  | ["stdio"] => some .startStdio
  | ["tcp"] => some .startTcp
  | ["tcp-taken"] => some .startTcpTaken
  | ["close"] => some .close
  | ["deleted"] => some .deleted
  | ["ignore"] => some .ignoreLint
  | ["record"] => some .recordLint
  | ["action"] => some .codeAction
  | ["shutdown"] => some .shutdown
  | "upd" :: t :: cps => do
    let t ← effBool? t; let cs ← charsOf cps
    some (.update cs t)
  | "save" :: rest => do let (e, t, cs) ← effDocArgs rest; some (.save cs e t)
  | "addu" :: rest => do let (e, t, cs) ← effDocArgs rest; some (.addUser cs e t)
  | "addf" :: rest => do let (e, t, cs) ← effDocArgs rest; some (.addFile cs e t)
  | ["cfg"] => some (.configuration [])
  | "cfg" :: rest => do
    let docs ← (splitAt ";" rest).mapM effDocArgs
    some (.configuration (docs.map fun d => (d.2.2, d.1, d.2.1)))
  | _ => none

def effInsertSorted (x : String) : List String → List String
  | [] => [x]
  | y :: ys => if x < y then x :: y :: ys else if x = y then y :: ys else y :: effInsertSorted x ys

def effSortUniq (l : List String) : List String := l.foldr effInsertSorted []

/-- `fdn <cps>` -/
def handleFdn (args : List String) : String :=
  match charsOf args with
  | some cs => joinSp ("ok" :: (fileDictName cs).map fun c => toString c.toNat)
  | none => "bad-op"

/-- `eff <entry> | …` -/
def handleEff (args : List String) : String :=
  match (splitAt "|" args).mapM effParseEntry with
  | some es => joinSp ("ok" :: effSortUniq ((traceAll symPaths es).map tagEff))
  | none => "bad-op"

/-! ## configured path strings → resolved paths (`cfgp`), and traces over resolved paths (`effc`)

`cfgp <home> | <cwd> | <XDG_CONFIG_HOME> | <XDG_DATA_HOME> | <userDictPath> | <fileDictPath> | <statsPath>`
→ `ok U:<path> F:<path> S:<path>` or `rejected`. `<home>`, `<cwd>`: code points of an absolute path;
an XDG variable: `-` (unset) or `s <code points>`; a key: `-` (absent), `n` (not a string) or
`s <code points>`. Paths are shown as the code points of `/c1/c2/…`.

`effc <the seven groups above> | <entry> | <entry> | …` → `ok <sorted effects over full paths>`
(`..` resolved lexically, as the kernel would) or `rejected`. -/

def showPath (p : Path) : String :=
  if p = [] then "47" else effDots (p.flatMap fun c => '/' :: c)

def optStr? : List String → Option (Option (List Char))
  | ["-"] => some none
  | "s" :: cps => (charsOf cps).map some
  | _ => none

def keyVal? : List String → Option (Option Val)
  | ["-"] => some none
  | ["n"] => some (some .other)
  | "s" :: cps => (charsOf cps).map fun cs => some (.str cs)
  | _ => none

def parseCfgGroups : List (List String) → Option (DirsEnv × Path × PathCfg)
  | [home, cwd, xc, xd, u, f, st] => do
    let home ← charsOf home; let cwd ← charsOf cwd
    let xc ← optStr? xc; let xd ← optStr? xd
    let u ← keyVal? u; let f ← keyVal? f; let st ← keyVal? st
    some (⟨components home, xc, xd⟩, components cwd, ⟨u, f, st⟩)
  | _ => none

def handleCfgp (args : List String) : String :=
  match parseCfgGroups (splitAt "|" args) with
  | some (e, cwd, c) =>
    match fromLspConfig e cwd c with
    | some P => s!"ok U:{showPath P.userDict} F:{showPath P.fileDir} S:{showPath P.stats}"
    | none => "rejected"
  | none => "bad-op"

def tagEffFull : Eff → String
  | .readFile p => "r:" ++ showPath (normDots [] p)
  | .createFile p => "c:" ++ showPath (normDots [] p)
  | .appendFile p => "a:" ++ showPath (normDots [] p)
  | .mkdirs p => "m:" ++ showPath (normDots [] p)
  | e => tagEff e

def handleEffc (args : List String) : String :=
  let groups := splitAt "|" args
  match parseCfgGroups (groups.take 7), (groups.drop 7).mapM effParseEntry with
  | some (e, cwd, c), some es =>
    match fromLspConfig e cwd c with
    | some P => joinSp ("ok" :: effSortUniq ((traceAll P es).map tagEffFull))
    | none => "rejected"
  | _, _ => "bad-op"

/-! ## what `create_dir_all` creates (w24): `mkd`, `effmk`, `sde`

`mkd <existing dir> ; <existing dir> ; … | <target path>` → `ok <directories created>`: the directories
(full paths as code points of `/c1/c2/…`, `..` resolved, sorted, de-duplicated) that `save_dict(target, …)`
makes on a file system where exactly the listed directories (and their ancestors) exist —
`dirsCreated existing (saveDictEff (components target))`. Compared with the real `save_dict` run in a sandbox.

`effmk <the seven groups of cfgp> | <existing dir> ; … | <entry> | <entry> | …` → `ok <directories created>`
by the `mkdirs` effects of the whole history under the resolved configuration, or `rejected`. Compared
with the SUCCESSFUL `mkdir` calls of a traced server session.

`sde <path>` → `ok <effects of save_dict(path)>` as ATTEMPTS (`m:` the argument of `create_dir_all`, `c:`
the file): for the root path there is no `m:` (`Path::parent()` is `None`). -/

def pathsOf? (ws : List String) : Option (List Path) :=
  ((splitAt ";" ws).mapM charsOf).map fun l => l.map fun x => normDots [] (components x)

def showDirs (ds : List Path) : String := joinSp ("ok" :: effSortUniq (ds.map showPath))

def handleMkd (args : List String) : String :=
  match splitAt "|" args with
  | [ex, tgt] =>
    match pathsOf? ex, charsOf tgt with
    | some existing, some t => showDirs (dirsCreated existing (saveDictEff (components t)))
    | _, _ => "bad-op"
  | _ => "bad-op"

def handleSde (args : List String) : String :=
  match charsOf args with
  | some t => joinSp ("ok" :: effSortUniq ((saveDictEff (components t)).map tagEffFull))
  | none => "bad-op"

def handleEffmk (args : List String) : String :=
  let groups := splitAt "|" args
  match parseCfgGroups (groups.take 7), groups.drop 7 with
  | some (e, cwd, c), ex :: entries =>
    match pathsOf? ex, entries.mapM effParseEntry with
    | some existing, some es =>
      match fromLspConfig e cwd c with
      | some P => showDirs (dirsCreated existing (traceAll P es))
      | none => "rejected"
    | _, _ => "bad-op"
  | _, _ => "bad-op"

end Harper.Driver.Effects
