import Harper.Basic.Proto
import Harper.Model.Effects
/-!
# Driver for the effect model (C10)

* `fdn <code points of the document path>` → `ok <code points of file_dict_name>`
* `eff <entry> | <entry> | …` → `ok <sorted, de-duplicated effect tags>` for the symbolic
  configuration `user dictionary = @cfg/dictionary.txt`, `file dictionaries = @data/fdicts/`,
  `statistics = @data/stats.txt` (as in `Config::default()`, the statistics file and the
  file-dictionary directory share their parent). Entries: `lib wasm stdio tcp close deleted ignore
  record action shutdown`, `upd <twice> <path…>`, `save <exists> <twice> <path…>`,
  `addu <exists> <twice> <path…>`, `addf <exists> <twice> <path…>`,
  `cfg <exists> <twice> <path…> ; <exists> <twice> <path…> ; …`.
  Tags: `r:` read, `c:` create/truncate, `a:` append, `m:` mkdirs; `U` user dictionary, `UD` its
  directory, `S` statistics file, `DD` the data directory, `FD` the file-dictionary directory,
  `F:<name code points>` a per-document dictionary, `D:<path code points>` a document.
-/
namespace Harper.Driver.Effects
open Harper.Effects Harper.Proto

def symPaths : Paths :=
  { userDict := ["@cfg".toList, "dictionary.txt".toList],
    fileDir := ["@data".toList, "fdicts".toList],
    stats := ["@data".toList, "stats.txt".toList] }

def effDots (cs : List Char) : String := ".".intercalate (cs.map fun c => toString c.toNat)

def effTagPath (p : Path) : String :=
  let P := symPaths
  if p = P.userDict then "U"
  else if p = parent P.userDict then "UD"
  else if p = P.stats then "S"
  else if p = parent P.stats then "DD"
  else if p = P.fileDir then "FD"
  else if p.dropLast = P.fileDir then "F:" ++ effDots (p.getLastD [])
  else "D:" ++ effDots (p.flatMap fun c => '/' :: c)

def tagEff : Eff → String
  | .readFile p => "r:" ++ effTagPath p
  | .createFile p => "c:" ++ effTagPath p
  | .appendFile p => "a:" ++ effTagPath p
  | .mkdirs p => "m:" ++ effTagPath p
  | .listen ip port => "listen:" ++ ".".intercalate (ip.map toString) ++ ":" ++ toString port
  | .accept => "accept"
  | .connect _ _ => "connect"
  | .resolve _ => "resolve"
  | .sendDatagram _ _ => "send"
  | .spawnOpener _ => "opener"

def effBool? : String → Option Bool
  | "0" => some false
  | "1" => some true
  | _ => none

def effDocArgs (ws : List String) : Option (Bool × Bool × List Char) :=
  match ws with
  | e :: t :: cps => do
    let e ← effBool? e; let t ← effBool? t; let cs ← charsOf cps
    some (e, t, cs)
  | _ => none

def effParseEntry : List String → Option Entry
  | ["lib"] => some .library
  | ["wasm"] => some .wasm
  | ["stdio"] => some .startStdio
  | ["tcp"] => some .startTcp
  | ["close"] => some .close
  | ["deleted"] => some .deleted
  | ["ignore"] => some .ignoreLint
  | ["record"] => some .recordLint
  | ["action"] => some .codeAction
  | ["shutdown"] => some .shutdown
  | "upd" :: t :: cps => do
    let t ← effBool? t; let cs ← charsOf cps
    some (.update cs t)
  | "save" :: rest => do let (e, t, cs) ← effDocArgs rest; some (.save cs e t)
  | "addu" :: rest => do let (e, t, cs) ← effDocArgs rest; some (.addUser cs e t)
  | "addf" :: rest => do let (e, t, cs) ← effDocArgs rest; some (.addFile cs e t)
  | ["cfg"] => some (.configuration [])
  | "cfg" :: rest => do
    let docs ← (splitAt ";" rest).mapM effDocArgs
    some (.configuration (docs.map fun d => (d.2.2, d.1, d.2.1)))
  | _ => none

def effInsertSorted (x : String) : List String → List String
  | [] => [x]
  | y :: ys => if x < y then x :: y :: ys else if x = y then y :: ys else y :: effInsertSorted x ys

def effSortUniq (l : List String) : List String := l.foldr effInsertSorted []

/-- `fdn <cps>` -/
def handleFdn (args : List String) : String :=
  match charsOf args with
  | some cs => joinSp ("ok" :: (fileDictName cs).map fun c => toString c.toNat)
  | none => "bad-op"

/-- `eff <entry> | …` -/
def handleEff (args : List String) : String :=
  match (splitAt "|" args).mapM effParseEntry with
  | some es => joinSp ("ok" :: effSortUniq ((traceAll symPaths es).map tagEff))
  | none => "bad-op"

end Harper.Driver.Effects