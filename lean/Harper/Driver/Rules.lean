import Harper.Driver.Lex
import Harper.Driver.Mask
import Harper.Model.Rules
/-!
`rule <Name> | cp:flags … | pos:kind:len … | numbers | words | chars`
→ `Document::new(text, &PlainEnglish, _)` (the model's `document`), then the rule alone.

* numbers: `text/display/value` — per distinct `Number` token text: its `to_string()` and its value
  as `correct_suffix_for` sees it (`i<n>` an exactly represented natural, `x` anything else);
* words: `text/flags[/canonical]` — per distinct `Word` token text: metadata bits (see `Rules.Env.wordFlags`)
  and, if the dictionary has one, `get_correct_capitalization_of(text)`;
* chars: `cp/flags/lower` — per distinct character: `l` is_lowercase, `u` is_uppercase,
  `a` is_alphabetic, `n` is_alphanumeric, `w` is_whitespace; its `to_lowercase()`.
Texts are code points joined by `.`, `-` = empty.
Output: `ok start:stop:msg:arg:suggestions …` with suggestions `-` (none) or `,`-joined
`R<cps>` (ReplaceWith) / `X` (Remove) / `I<cps>` (InsertAfter).
-/
namespace Harper.Driver.Rules
open Harper Harper.Proto Harper.Driver.Lex Harper.Rules

def cpsOf (s : String) : Option (List Char) :=
  if s = "-" || s = "" then some []
  else (s.splitOn ".").mapM fun w => w.toNat?.map Char.ofNat

def showCps (cs : List Char) : String := ".".intercalate (cs.map fun c => toString c.toNat)

def parseNumEntry (w : String) : Option (List Char × List Char × NumVal) :=
  match w.splitOn "/" with
  | [t, d, v] =>
    match cpsOf t, cpsOf d with
    | some t, some d =>
      if v = "x" then some (t, d, .nonInt)
      else if v.startsWith "i" then (v.drop 1).toNat?.map fun n => (t, d, .int n)
      else none
    | _, _ => none
  | _ => none

def parseWordEntry (w : String) : Option (List Char × Nat × Option (List Char)) :=
  match w.splitOn "/" with
  | [t, f] =>
    match cpsOf t, f.toNat? with
    | some t, some f => some (t, f, none)
    | _, _ => none
  | [t, f, c] =>
    match cpsOf t, f.toNat?, cpsOf c with
    | some t, some f, some c => some (t, f, some c)
    | _, _, _ => none
  | _ => none

def parseCharEntry (w : String) : Option (Char × String × List Char) :=
  match w.splitOn "/" with
  | [c, f, l] =>
    match c.toNat?, cpsOf l with
    | some c, some l => some (Char.ofNat c, f, l)
    | _, _ => none
  | _ => none

def envOf (nums : List (List Char × List Char × NumVal)) (words : List (List Char × Nat × Option (List Char)))
    (chars : List (Char × String × List Char)) : Env where
  numStr t := match nums.lookup t with | some (d, _) => d | none => []
  numVal t := match nums.lookup t with | some (_, v) => v | none => .nonInt
  wordFlags t := match words.lookup t with | some (f, _) => f | none => 0
  canonical t := match words.lookup t with | some (_, c) => c | none => none
  isWs c := match chars.lookup c with | some (f, _) => f.contains 'w' | none => false
  lower c := match chars.lookup c with | some (_, l) => l | none => [c]
  isLower c := match chars.lookup c with | some (f, _) => f.contains 'l' | none => false
  isUpper c := match chars.lookup c with | some (f, _) => f.contains 'u' | none => false
  isAlpha c := match chars.lookup c with | some (f, _) => f.contains 'a' | none => false
  isAlnum c := match chars.lookup c with | some (f, _) => f.contains 'n' | none => false

def showSugg : Sugg → String
  | .replaceWith cs => "R" ++ showCps cs
  | .remove => "X"
  | .insertAfter cs => "I" ++ showCps cs

def showLint (l : RuleLint) : String :=
  let sg := if l.suggs.isEmpty then "-" else ",".intercalate (l.suggs.map showSugg)
  s!"{l.span.start}:{l.span.stop}:{l.msg}:{l.arg}:{sg}"

def showResult (r : Except Panic (List RuleLint)) : String :=
  match r with
  | .ok ls => joinSp ("ok" :: ls.map showLint)
  | .error .outOfFuel => "timeout"
  | .error _ => "panic"

/-- the five groups after the rule name -/
def parseRuleArgs (args : List String) : Option (List Char × Cls × Ext × Env) :=
  match splitAt "|" args with
  | [[], cs, ex, ns, ws, chs] =>
    match cs.mapM parseCh, ex.mapM parseExt, ns.mapM parseNumEntry, ws.mapM parseWordEntry, chs.mapM parseCharEntry with
    | some chs', some ext, some ns', some ws', some ct =>
      some (chs'.map (·.1), clsOf (dedupTab chs'), extOf ext, envOf ns' ws' ct)
    | _, _, _, _, _ => none
  | _ => none

def handleRule (args : List String) : String :=
  match args with
  | name :: rest =>
    match ruleByName name, parseRuleArgs rest with
    | some r, some (src, cls, ext, env) =>
      match document cls ext src with
      | .ok toks => showResult (r env src toks)
      | .error .outOfFuel => "timeout"
      | .error _ => "panic"
    | _, _ => "bad-op"
  | [] => "bad-op"

/-- `rulemo | text | ext | i:n … | numbers | words | chars` → `ModalOf::match_to_lint` on the slices
`tokens[i .. i+n]` of the document, one result per slice separated by `;` -/
def handleRuleMo (args : List String) : String :=
  match splitAt "|" args with
  | [[], cs, ex, sl, ns, ws, chs] =>
    match parseRuleArgs ("|" :: cs ++ "|" :: ex ++ "|" :: ns ++ "|" :: ws ++ "|" :: chs), sl.mapM (natsOf ·) with
    | some (src, cls, ext, env), some sls =>
      match document cls ext src with
      | .ok toks =>
        let outs := sls.map fun s =>
          match s with
          | [i, n] =>
            (match modalOfMatch env src ((toks.drop i).take n) with
             | .ok [] => "none"
             | .ok ls => joinSp (ls.map showLint)
             | .error _ => "panic")
          | _ => "bad"
        joinSp ("ok" :: (outs.intersperse ";"))
      | .error .outOfFuel => "timeout"
      | .error _ => "panic"
    | _, _ => "bad-op"
  | _ => "bad-op"

/-- `ruletoks <Name> | code points | tag@s-e … | numbers | words | chars` → the rule alone on a token
vector GIVEN AS DATA (the real Markdown parser's `Document`): token order and zero-width tokens as
they are -/
def handleRuleToks (args : List String) : String :=
  match args with
  | name :: rest =>
    match splitAt "|" rest with
    | [[], cs, ts, ns, ws, chs] =>
      match ruleByName name, charsOf cs, ts.mapM Mask.parseTok, ns.mapM parseNumEntry, ws.mapM parseWordEntry,
          chs.mapM parseCharEntry with
      | some r, some src, some toks, some ns', some ws', some ct => showResult (r (envOf ns' ws' ct) src toks)
      | _, _, _, _, _, _ => "bad-op"
    | _ => "bad-op"
  | [] => "bad-op"

end Harper.Driver.Rules
