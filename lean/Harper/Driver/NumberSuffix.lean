import Harper.Basic.Proto
import Harper.Model.NumberSuffix
/-!
Driver ops of the ordinal-suffix model (C17).

* `sfx <n>` | `sfx frac`                      → `ok st|nd|rd|th|none`   (`correct_suffix_for`)
* `fromchars <cp>*`                           → `ok st|nd|rd|th|none` | `panic`   (`from_chars`)
* `tochars st|nd|rd|th`                       → `ok <cp> <cp>`   (`to_chars`)
* `nsrule <n>|frac <tokstart> <tokend> | <cp>*` → `ok none` | `ok <s> <e> | <replacement cps>`
  the rule on a number literal of that value followed directly by the word `<cp>*`; the token
  (number + word) spans `[tokstart, tokend)`.
-/
namespace Harper.Driver.NumberSuffix
open Harper Harper.Proto

def showSuffix : Option Suffix → String
  | some .th => "th"
  | some .st => "st"
  | some .nd => "nd"
  | some .rd => "rd"
  | none => "none"

def parseSuffix : String → Option Suffix
  | "th" => some .th
  | "st" => some .st
  | "nd" => some .nd
  | "rd" => some .rd
  | _ => none

def parseNumVal (w : String) : Option NumVal :=
  if w == "frac" then some .nonInt else w.toNat?.map .int

def handleSfx (args : List String) : String :=
  match args with
  | [w] =>
    match parseNumVal w with
    | some v => "ok " ++ showSuffix (correctSuffixForVal v)
    | none => "bad-op"
  | _ => "bad-op"

def handleFromChars (args : List String) : String :=
  match charsOf args with
  | some cs =>
    match fromChars cs with
    | .ok r => "ok " ++ showSuffix r
    | .error _ => "panic"
  | none => "bad-op"

def handleToChars (args : List String) : String :=
  match args with
  | [w] =>
    match parseSuffix w with
    | some s => joinSp ["ok", showChars (toChars s)]
    | none => "bad-op"
  | _ => "bad-op"

def handleNsRule (args : List String) : String :=
  match splitAt "|" args with
  | [[v, s, e], cps] =>
    match parseNumVal v, s.toNat?, e.toNat?, charsOf cps with
    | some v, some s, some e, some w =>
      match ruleOnWritten v w ⟨s, e⟩ with
      | .error _ => "panic"
      | .ok none => "ok none"
      | .ok (some l) => joinSp ["ok", toString l.span.start, toString l.span.stop, "|", showChars l.replacement]
    | _, _, _, _ => "bad-op"
  | _ => "bad-op"

end Harper.Driver.NumberSuffix