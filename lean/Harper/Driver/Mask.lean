import Harper.Basic.Proto
import Harper.Model.Mask
/-!
Driver ops of the offset glue (C04). Text = decimal code points, `cp:w` marks a character for which
`char::is_whitespace` holds; bytes = decimal bytes; ranges = `s:e`; tokens = `tag@s-e` (the
`Tok.show` format); an inner-parser run = `chunk code points ; tokens`; groups separated by `|`.
-/
namespace Harper.Driver.Mask
open Harper Harper.Proto

def allPuncts : List Punct := [
  .Ellipsis, .EnDash, .EmDash, .Ampersand, .Period, .Bang, .Question, .Colon, .Semicolon,
  .Comma, .Hyphen, .OpenSquare, .CloseSquare, .OpenRound, .CloseRound, .OpenCurly, .CloseCurly,
  .Hash, .Apostrophe, .Percent, .ForwardSlash, .Backslash, .LessThan, .GreaterThan, .Equal,
  .Star, .Tilde, .At, .Caret, .Plus, .Currency, .Pipe, .Underscore]

def suffixOfName : String → Option (Option Suffix)
  | "-" => some none | "th" => some (some .th) | "st" => some (some .st)
  | "nd" => some (some .nd) | "rd" => some (some .rd) | _ => none

/-- inverse of `Kind.tag` -/
def kindOfTag (s : String) : Option Kind :=
  match s with
  | "word" => some .word | "decade" => some .decade | "email" => some .email | "url" => some .url
  | "host" => some .hostname | "unl" => some .unlintable | "parbreak" => some .paragraphBreak
  | "regexish" => some .regexish | "quote:-" => some (.quote none)
  | _ =>
    if s.startsWith "p." then
      allPuncts.find? (fun p => (Kind.punct p).tag == s) |>.map Kind.punct
    else if s.startsWith "quote:" then (s.drop 6).toString.toNat?.map (fun n => Kind.quote (some n))
    else if s.startsWith "space" then (s.drop 5).toString.toNat?.map Kind.space
    else if s.startsWith "nl" then (s.drop 2).toString.toNat?.map Kind.newline
    else if s.startsWith "num" then
      match (s.drop 3).toString.splitOn ":" with
      | [r, sf] => match r.toNat?, suffixOfName sf with
        | some r, some sf => some (.number r sf)
        | _, _ => none
      | _ => none
    else none

def parseTok (w : String) : Option Tok :=
  match w.splitOn "@" with
  | [tag, sp] =>
    match kindOfTag tag, natsOf sp '-' with
    | some k, some [s, e] => some ⟨⟨s, e⟩, k⟩
    | _, _ => none
  | _ => none

def parseSpan (w : String) : Option Span :=
  match natsOf w with
  | some [s, e] => some ⟨s, e⟩
  | _ => none

def showSpan (s : Span) : String := s!"{s.start}:{s.stop}"

/-- `cp` or `cp:w` -/
def parseWsCh (w : String) : Option (Char × Bool) :=
  match w.splitOn ":" with
  | [cp] => cp.toNat?.map fun n => (Char.ofNat n, false)
  | [cp, "w"] => cp.toNat?.map fun n => (Char.ofNat n, true)
  | _ => none

/-- text and its whitespace predicate (a character is whitespace iff some occurrence is flagged) -/
def parseWsText (ws : List String) : Option (List Char × (Char → Bool)) :=
  (ws.mapM parseWsCh).map fun chs =>
    let wsChars := (chs.filter (·.2)).map (·.1)
    (chs.map (·.1), fun c => wsChars.contains c)

/-- `chunk ; toks` groups → the inner parser as a lookup on the chunk (unknown chunk: no tokens,
reported by `innerMissing`) -/
def parseRuns (gs : List (List String)) : Option (List (List Char × List Tok)) :=
  gs.mapM fun g =>
    match splitAt ";" g with
    | [cs, ts] =>
      match charsOf cs, ts.mapM parseTok with
      | some c, some t => some (c, t)
      | _, _ => none
    | _ => none

def innerOf (runs : List (List Char × List Tok)) : List Char → List Tok :=
  fun c => (runs.lookup c).getD []

def showSpans (r : Except Panic (List Span)) : String :=
  match r with
  | .ok ss => joinSp ("ok" :: ss.map showSpan)
  | .error .outOfFuel => "timeout"
  | .error _ => "panic"

def showToks (r : Except Panic (List Tok)) : String :=
  match r with
  | .ok ts => joinSp ("ok" :: ts.map Tok.show)
  | .error .outOfFuel => "timeout"
  | .error _ => "panic"

/-- `b2c | bytes | s:e …` → `byte_spans_to_char_spans` alone -/
def handleB2c (args : List String) : String :=
  match splitAt "|" args with
  | [[], bs, rs] =>
    match nats? bs, rs.mapM parseSpan with
    | some b, some r => showSpans (byteSpansToCharSpans b r)
    | _, _ => "bad-op"
  | _ => "bad-op"

/-- `tsmask | bytes | text | byte ranges` → `TreeSitterMasker::create_mask` after the tree walk -/
def handleTsMask (args : List String) : String :=
  match splitAt "|" args with
  | [[], bs, tx, rs] =>
    match nats? bs, parseWsText tx, rs.mapM parseSpan with
    | some b, some (src, isWs), some r => showSpans (treeSitterMask isWs b src r)
    | _, _, _ => "bad-op"
  | _ => "bad-op"

/-- `cmask | bytes | text | byte ranges` → `CommentMasker::create_mask` after the tree walk: the
tree-sitter mask, then the ignore-marker filter with the default `ignore_condition`, then
`Mask::from_iter` -/
def handleCMask (args : List String) : String :=
  match splitAt "|" args with
  | [[], bs, tx, rs] =>
    match nats? bs, parseWsText tx, rs.mapM parseSpan with
    | some b, some (src, isWs), some r => showSpans (commentMask ignoreCondition isWs b src r)
    | _, _, _ => "bad-op"
  | _ => "bad-op"

/-- `mws | text | s:e …` → `push_allowed`* then `merge_whitespace_sep` -/
def handleMws (args : List String) : String :=
  match splitAt "|" args with
  | [[], tx, rs] =>
    match parseWsText tx, rs.mapM parseSpan with
    | some (src, isWs), some r =>
      showSpans (do
        let m ← pushAll [] r
        mergeWhitespaceSep isWs src (m.length + 1) m)
    | _, _ => "bad-op"
  | _ => "bad-op"

/-- `maskparse | text | s:e … | chunk ; toks | …` → `push_allowed`* then `parsers::Mask::parse` -/
def handleMaskParse (args : List String) : String :=
  match splitAt "|" args with
  | [] :: tx :: rs :: runs =>
    match charsOf tx, rs.mapM parseSpan, parseRuns runs with
    | some src, some r, some runs =>
      showToks (do
        let m ← pushAll [] r
        maskParse src m (innerOf runs))
    | _, _, _ => "bad-op"
  | _ => "bad-op"

/-- `unit | text | chunk ; toks | …` → `Unit::parse` -/
def handleUnit (args : List String) : String :=
  match splitAt "|" args with
  | [] :: tx :: runs =>
    match parseWsText tx, parseRuns runs with
    | some (src, isWs), some runs => showToks (unitParse isWs src (innerOf runs))
    | _, _ => "bad-op"
  | _ => "bad-op"

/-- `jsdoc | text | chunk ; toks | …` → `JsDoc::parse` -/
def handleJsdoc (args : List String) : String :=
  match splitAt "|" args with
  | [] :: tx :: runs =>
    match parseWsText tx, parseRuns runs with
    | some (src, isWs), some runs => showToks (jsdocParse isWs src (innerOf runs))
    | _, _ => "bad-op"
  | _ => "bad-op"


/-- `javadoc | text | chunk ; toks` → `JavaDoc::parse` (the HTML parser's tokens are data) -/
def handleJavadoc (args : List String) : String :=
  match splitAt "|" args with
  | [] :: tx :: runs =>
    match parseWsText tx, parseRuns runs with
    | some (src, isWs), some runs => showToks (javadocParse isWs src (innerOf runs))
    | _, _ => "bad-op"
  | _ => "bad-op"

/-- `gopar | text | chunk ; toks | …` → `Go::parse` -/
def handleGoPar (args : List String) : String :=
  match splitAt "|" args with
  | [] :: tx :: runs =>
    match parseWsText tx, parseRuns runs with
    | some (src, isWs), some runs => showToks (goParse isWs src (innerOf runs))
    | _, _ => "bad-op"
  | _ => "bad-op"

/-- `jdmark | toks` → the block-tag loop of javadoc.rs alone -/
def handleJdMark (args : List String) : String :=
  match splitAt "|" args with
  | [[], ts] =>
    match ts.mapM parseTok with
    | some t => showToks (javadocMark t)
    | none => "bad-op"
  | _ => "bad-op"

/-- `woi | text` → `without_initiators` -/
def handleWoi (args : List String) : String :=
  match splitAt "|" args with
  | [[], tx] =>
    match parseWsText tx with
    | some (src, isWs) =>
      (match withoutInitiators isWs src with
       | .ok s => s!"ok {showSpan s}"
       | .error _ => "panic")
    | none => "bad-op"
  | _ => "bad-op"

/-- `lhs text|code | text` → `LiterateHaskellMasker::create_mask` -/
def handleLhs (args : List String) : String :=
  match splitAt "|" args with
  | [[mode], tx] =>
    match parseWsText tx with
    | some (src, isWs) =>
      (match mode with
       | "text" => showSpans (lhsMask isWs true false src)
       | "code" => showSpans (lhsMask isWs false true src)
       | _ => "bad-op")
    | none => "bad-op"
  | _ => "bad-op"

/-- `gitcut | text` → length of the text handed to the inner parser -/
def handleGitCut (args : List String) : String :=
  match splitAt "|" args with
  | [[], tx] =>
    match charsOf tx with
    | some src => s!"ok {(gitCommitCut src).length}"
    | none => "bad-op"
  | _ => "bad-op"

def showCursors (r : Except Panic (List Cursor)) : String :=
  match r with
  | .ok cs => joinSp ("ok" :: cs.map fun c => s!"{c.char}:{c.byte}")
  | .error _ => "panic"

/-- `cursor | bytes | b1 b2 …` → successive `OffsetCursor::push_to` -/
def handleCursor (args : List String) : String :=
  match splitAt "|" args with
  | [[], bs, ps] =>
    match nats? bs, nats? ps with
    | some b, some p => showCursors (Cursor.pushAll b ⟨0, 0⟩ p)
    | _, _ => "bad-op"
  | _ => "bad-op"

/-- `mdtrav | bytes | start:len:sel …` → the Markdown `traversed_*` pair advanced over every
event's `range.start`; for selected events (`sel = 1`) the span `traversed_chars .. +len` -/
def handleMdTrav (args : List String) : String :=
  match splitAt "|" args with
  | [[], bs, evs] =>
    match nats? bs, evs.mapM (natsOf ·) with
    | some b, some evs =>
      if evs.all (·.length == 3) then
        match mdAdvanceAll b ⟨0, 0⟩ (evs.map (·.headD 0)) with
        | .ok cs =>
          let sel := (cs.zip evs).filterMap fun (c, ev) =>
            match ev with
            | [_, len, 1] => some s!"{c.char}-{c.char + len}"
            | _ => none
          joinSp ("ok" :: sel)
        | .error _ => "panic"
      else "bad-op"
    | _, _ => "bad-op"
  | _ => "bad-op"

end Harper.Driver.Mask