import Harper.Basic.Proto
import Harper.Model.Spell
namespace Harper.Driver.Spell
open Harper Harper.Proto Harper.Spell

namespace SpellDrv

def fnsOf (tab : List (List Char × List Char × List Char)) : Fns where
  lower w := match tab.find? (fun r => r.1 == w) with | some r => r.2.1 | none => w
  normalize w := match tab.find? (fun r => r.1 == w) with | some r => r.2.2 | none => w

def parseEntry (ws : List String) : Option Entry :=
  match ws with
  | fl :: cs => match charsOf cs with
    | some c => some ⟨c, fl == "1"⟩
    | none => none
  | [] => none

def parseRow (ws : List String) : Option (List Char × List Char × List Char) :=
  match splitAt "," ws with
  | [a, b, c] => match charsOf a, charsOf b, charsOf c with
    | some a, some b, some c => some (a, b, c)
    | _, _, _ => none
  | _ => none

def bit (b : Bool) : String := if b then "1" else "0"

end SpellDrv
open SpellDrv

/-- `acc | w | flag cps ; flag cps … | s , lower s , norm s ; …` → `ok <accept> <contains_word> <contains_exact_word>` -/
def handleAcc (args : List String) : String :=
  match splitAt "|" args with
  | [[], w, es, tab] =>
    let es := if es.isEmpty then [] else splitAt ";" es
    let tab := if tab.isEmpty then [] else splitAt ";" tab
    match charsOf w, es.mapM parseEntry, tab.mapM parseRow with
    | some w, some dict, some rows =>
      let f := fnsOf rows
      s!"ok {bit (accept f dict w)} {bit (containsWord f dict w)} {bit (containsExact f dict w)}"
    | _, _, _ => "bad-op"
  | _ => "bad-op"

namespace SpellDrv

/-- `cp/f/cp'`: `f` = `u` when `char::is_uppercase` (else `n`), `cp'` = `to_uppercase().next()` (format of `spellr`) -/
def parseCharRow (w : String) : Option (Char × Bool × Char) :=
  match w.splitOn "/" with
  | [c, f, u] =>
    match c.toNat?, u.toNat? with
    | some c, some u => if f == "u" || f == "n" then some (Char.ofNat c, f == "u", Char.ofNat u) else none
    | _, _ => none
  | _ => none

/-- one search result: words separated by `,`; no word at all = the empty result -/
def parseRound (ws : List String) : Option (List (List Char)) :=
  if ws.isEmpty then some [] else (splitAt "," ws).mapM charsOf

end SpellDrv

/-- `sugg | w | r₂ ; r₃ ; r₄ | flag cps ; … | s , lower s , norm s ; … | cp/f/cp' …` → `ok s₁ , s₂ , s₃` (the suggestions of
the lint on the flagged word `w`, code points) or `panic`: `Spell.lintSuggestions`. `rᵢ` = what
`suggest_correct_spelling(w, 100, i, dict)` returns (words separated by `,`); entries and the `lower` / `normalize` table as
in `acc` (a string without a row is its own image); chars as in `spellr`. -/
def handleSugg (args : List String) : String :=
  match splitAt "|" args with
  | [[], w, rs, es, tab, chs] =>
    let es := if es.isEmpty then [] else splitAt ";" es
    let tab := if tab.isEmpty then [] else splitAt ";" tab
    match charsOf w, (splitAt ";" rs).mapM parseRound, es.mapM parseEntry, tab.mapM parseRow, chs.mapM parseCharRow with
    | some w, some rounds, some dict, some rows, some chars =>
      let isUpper := fun c => match chars.lookup c with | some (u, _) => u | none => false
      let up := fun c => match chars.lookup c with | some (_, u) => u | none => c
      -- never default silently: the first letter of the word and of every candidate of the chosen search must have a row
      let need := w.head?.toList ++ (backoff rounds).filterMap List.head?
      if need.all (fun c => (chars.lookup c).isSome) then
        match lintSuggestions (fnsOf rows) dict isUpper up w rounds with
        | .ok out => joinSp ("ok" :: (out.map showChars).intersperse ",")
        | .error _ => "panic"
      else "bad-op"
    | _, _, _, _, _ => "bad-op"
  | _ => "bad-op"

end Harper.Driver.Spell
