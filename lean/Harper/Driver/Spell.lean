import Harper.Basic.Proto
import Harper.Model.Spell
namespace Harper.Driver.Spell
open Harper Harper.Proto Harper.Spell

namespace SpellDrv

def fnsOf (tab : List (List Char × List Char × List Char)) : Fns where
  lower w := match tab.find? (fun r => r.1 == w) with | some r => r.2.1 | none => w
  normalize w := match tab.find? (fun r => r.1 == w) with | some r => r.2.2 | none => w

def parseEntry (ws : List String) : Option Entry :=
  match ws with
  | fl :: cs => match charsOf cs with
    | some c => some ⟨c, fl == "1"⟩
    | none => none
  | [] => none

def parseRow (ws : List String) : Option (List Char × List Char × List Char) :=
  match splitAt "," ws with
  | [a, b, c] => match charsOf a, charsOf b, charsOf c with
    | some a, some b, some c => some (a, b, c)
    | _, _, _ => none
  | _ => none

def bit (b : Bool) : String := if b then "1" else "0"

end SpellDrv
open SpellDrv

/-- `acc | w | flag cps ; flag cps … | s , lower s , norm s ; …` → `ok <accept> <contains_word> <contains_exact_word>` -/
def handleAcc (args : List String) : String :=
  match splitAt "|" args with
  | [[], w, es, tab] =>
    let es := if es.isEmpty then [] else splitAt ";" es
    let tab := if tab.isEmpty then [] else splitAt ";" tab
    match charsOf w, es.mapM parseEntry, tab.mapM parseRow with
    | some w, some dict, some rows =>
      let f := fnsOf rows
      s!"ok {bit (accept f dict w)} {bit (containsWord f dict w)} {bit (containsExact f dict w)}"
    | _, _, _ => "bad-op"
  | _ => "bad-op"

end Harper.Driver.Spell