import Harper.Basic.Proto
import Harper.Model.Title
import Harper.Driver.Ignore
/-!
Driver op of C18.

* `tc <code points of the source…> | <token>…` → `ok <code points of the title-cased text…>` / `panic`
* token word `start:stop:wordLike:hasMeta:prep:det:L:C` — flags `0`/`1`; `L` = `chars.to_lower()`
  as comma-separated code points (`-` = empty); `C` = canonical spelling (`n` = none, `-` = empty)
-/
namespace Harper.Driver.Title
open Harper Harper.Proto Harper.Title Harper.Driver.Ignore

def bool? (w : String) : Option Bool :=
  if w == "1" then some true else if w == "0" then some false else none

def parseTTok (w : String) : Option TTok :=
  match w.splitOn ":" with
  | [s, e, wl, hm, p, d, l, c] =>
    match s.toNat?, e.toNat?, bool? wl, bool? hm, bool? p, bool? d, natList? l with
    | some s, some e, some wl, some hm, some p, some d, some l =>
      if c == "n" then some ⟨s, e, wl, hm, p, d, l, none⟩
      else match natList? c with
        | some c => some ⟨s, e, wl, hm, p, d, l, some c⟩
        | none => none
    | _, _, _, _, _, _, _ => none
  | _ => none

def handleTc (args : List String) : String :=
  match splitAt "|" args with
  | [src, toks] =>
    match nats? src, toks.mapM parseTTok with
    | some src, some toks =>
      match makeTitleCase toks src with
      | .ok out => joinSp ("ok" :: out.map toString)
      | .error _ => "panic"
    | _, _ => "bad-op"
  | _ => "bad-op"

end Harper.Driver.Title