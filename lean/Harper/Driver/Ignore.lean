import Harper.Basic.Proto
import Harper.Model.Ignore
/-!
Driver ops of C14.

* token word  `start:stop:K:C`   — `K`, `C` comma-separated naturals, `-` for the empty list
* lint word   `id:start:stop:kind:priority:M:S` — `M` comma-separated code points (`-` = empty),
  `S` = suggestions separated by `;`, each a comma-separated list `tag,chars…` (`-` = none)
* `ig T1… | L1… | ids… | T2… | L2… | mode…` → `ok <ids of the lints of L2 that remain>`
  (ignore the lints `ids` of document 1, then `remove_ignored` on the lints of document 2);
  mode `d` = directly, `x` = through export/import, `a k` = the first `k` ignores go into one
  set, the rest into another, then `append`.
* `ce T1… | l1 | T2… | l2` → `ok 1` / `ok 0`: do the two lints have the same context
-/
namespace Harper.Driver.Ignore
open Harper Harper.Proto Harper.Ignore

def natList? (w : String) : Option (List Nat) :=
  if w == "-" then some [] else natsOf w ','

def parseIgTok (w : String) : Option Ignore.Tok :=
  match w.splitOn ":" with
  | [s, e, k, c] =>
    match s.toNat?, e.toNat?, natList? k, natList? c with
    | some s, some e, some k, some c => some (⟨k, c, s, e⟩ : Ignore.Tok)
    | _, _, _, _ => none
  | _ => none

def parseSuggs (w : String) : Option (List (List Nat)) :=
  if w == "-" then some [] else (w.splitOn ";").mapM natList?

def parseLintM (w : String) : Option LintM :=
  match w.splitOn ":" with
  | [i, s, e, k, p, m, sg] =>
    match i.toNat?, s.toNat?, e.toNat?, k.toNat?, p.toNat?, natList? m, parseSuggs sg with
    | some i, some s, some e, some k, some p, some m, some sg => some ⟨i, s, e, k, sg, m, p⟩
    | _, _, _, _, _, _, _ => none
  | _ => none

def buildSet (mode : List String) (lints : List LintM) (toks : List Ignore.Tok) (ids : List Nat) :
    Option IgnoreSet :=
  match mode with
  | ["d"] => some (ignoreIds [] lints toks ids)
  | ["x"] => some (importL (exportL (ignoreIds [] lints toks ids)))
  | ["a", k] =>
    match k.toNat? with
    | some k =>
      some (Ignore.append (ignoreIds [] lints toks (ids.take k)) (ignoreIds [] lints toks (ids.drop k)))
    | none => none
  | _ => none

def handleIg (args : List String) : String :=
  match splitAt "|" args with
  | [t1, l1, ids, t2, l2, mode] =>
    match t1.mapM parseIgTok, l1.mapM parseLintM, nats? ids, t2.mapM parseIgTok, l2.mapM parseLintM with
    | some t1, some l1, some ids, some t2, some l2 =>
      match buildSet mode l1 t1 ids with
      | some s => joinSp ("ok" :: (removeIgnored s l2 t2).map (fun l => toString l.id))
      | none => "bad-op"
    | _, _, _, _, _ => "bad-op"
  | _ => "bad-op"

def handleCe (args : List String) : String :=
  match splitAt "|" args with
  | [t1, [l1], t2, [l2]] =>
    match t1.mapM parseIgTok, parseLintM l1, t2.mapM parseIgTok, parseLintM l2 with
    | some t1, some l1, some t2, some l2 =>
      if contextOf l1 t1 = contextOf l2 t2 then "ok 1" else "ok 0"
    | _, _, _, _ => "bad-op"
  | _ => "bad-op"

end Harper.Driver.Ignore