import Harper.Basic.Proto
import Harper.Model.DictIO
/-!
Driver for `Harper.DictIO` (C07).

Words are decimal code points separated by spaces; a list of words writes `/` before every item
(so `/` alone is the list holding the empty word and nothing is the empty list); fields of an op are
separated by `,`, ops by `;`, groups by `|`. A file is `absent`, `t <code points>` or
`torn <code points>` (valid prefix of a file that ends inside a UTF-8 sequence).

* `dio <chartab> | <curated> | <disk> | <op> ; <op> ; …` → `ok <res> ; <res> ; …`
  chartab rows `c , lower(c)… , normalize(c)` separated by `;` (every character of the history must
  have a row, else `bad-op`); curated rows `flag cps` separated by `;`; `<disk>` = the user
  dictionary file at the start. Ops and results:
  `add , w , ord`            → `F <disk> L <reload>`   (`bad-iter` if `ord` is no permutation)
  `addf , name , w , ord`    → `F <disk> L <reload>`   (that file dictionary; a `file:` URL)
  `addfk , k , name , w , ord` → `F <disk> L <reload> N <n>`   (`HarperAddToFileDict` for a document of
                               URL kind `k` = two bits `<scheme is untitled><to_file_path succeeds>`:
                               `01` file:///a, `10` untitled:Untitled-1, `11` untitled:/a, `00` zq:opaque;
                               `<n>` = number of file dictionaries that exist afterwards; `ord` must be
                               empty when nothing is saved)
  `lintk , k , name , qs`    → `A <bits>`              (a check of a document of URL kind `k`)
  `crash , w , ord , b`      → `F <disk> L <reload>`   (`b` = `pre` | byte offset into the new file)
  `restart`                  → `r`
  `lint , name , qs`         → `A <bits>`
  `jimp , ws`                → `N <word_count>`
  `jlint , qs`               → `A <bits>`
  `jrst , ord`               → `E <sorted export>`
  `<reload>` = `err` | the loaded words, sorted by code points.
* `dload <chartab> | <disk>` → `ok <reload>`
* `dsave <ws>` → `ok F <cps> C <byte length of every write syscall>`
* `dchunk <cap> <pieces>` → `ok <byte length of every write>` (the `BufWriter` rule alone)
* `dfp <userA> , <fileA> | <userB> , <fileB>` → `ok 1` when the two merged dictionaries
  [curated, user, file] (children given in `words_iter` order) compare equal under an injective
  hash, `ok 0` otherwise
-/
namespace Harper.Driver.DictIO
open Harper Harper.Proto Harper.Spell Harper.DictIO

namespace DictDrv

structure Row where
  c : Char
  lower : List Char
  norm : Char

def parseRow (ws : List String) : Option Row :=
  match splitAt "," ws with
  | [[c], l, [n]] =>
    match c.toNat?, charsOf l, n.toNat? with
    | some c, some l, some n => some ⟨Char.ofNat c, l, Char.ofNat n⟩
    | _, _, _ => none
  | _ => none

def parseTab (ws : List String) : Option (List Row) :=
  if ws.isEmpty then some [] else (splitAt ";" ws).mapM parseRow

/-- `to_lower` = per-character `to_lowercase` (the all-lower-case shortcut returns the same),
`normalized` = per-character map -/
def fnsOf (tab : List Row) : Fns where
  lower w := w.flatMap fun c => match tab.find? (·.c == c) with | some r => r.lower | none => [c]
  normalize w := w.map fun c => match tab.find? (·.c == c) with | some r => r.norm | none => c

def covered (tab : List Row) (w : List Char) : Bool := w.all fun c => tab.any (·.c == c)

def parseList (ws : List String) : Option (List Word) :=
  match splitAt "/" ws with
  | [] :: items => items.mapM charsOf
  | _ => none

def parseDisk : List String → Option Disk
  | ["absent"] => some .absent
  | "t" :: cs => (charsOf cs).map fun c => .file c false
  | "torn" :: cs => (charsOf cs).map fun c => .file c true
  | _ => none

def parseEntry (ws : List String) : Option Entry :=
  match ws with
  | fl :: cs => (charsOf cs).map fun c => ⟨c, fl == "1"⟩
  | [] => none

def parseCur (ws : List String) : Option (List Entry) :=
  if ws.isEmpty then some [] else (splitAt ";" ws).mapM parseEntry

def ltW : List Char → List Char → Bool
  | [], [] => false
  | [], _ :: _ => true
  | _ :: _, [] => false
  | a :: as, b :: bs => if a.toNat < b.toNat then true else if b.toNat < a.toNat then false else ltW as bs

def insSorted (w : Word) : List Word → List Word
  | [] => [w]
  | x :: xs => if ltW x w then x :: insSorted w xs else w :: x :: xs

def sortW (ws : List Word) : List Word := ws.foldr insSorted []

def showList (ws : List Word) : String :=
  joinSp (ws.flatMap fun w => "/" :: w.map fun c => toString c.toNat)

def showDisk : Disk → String
  | .absent => "absent"
  | .file cs false => joinSp ("t" :: cs.map fun c => toString c.toNat)
  | .file cs true => joinSp ("torn" :: cs.map fun c => toString c.toNat)

def showReload (f : Fns) (d : Disk) : String :=
  match loadDict f d with
  | none => "err"
  | some ws => showList (sortW ws)

def bits (bs : List Bool) : String := joinSp (bs.map fun b => if b then "1" else "0")

def fd (f : Fns) (d : Disk) : String :=
  (s!"F {showDisk d} L {showReload f d}").trimAscii.toString

/-- URL kind: two bits, `<scheme is untitled><to_file_path succeeds>` -/
def parseKind : String → Option UrlKind
  | "01" => some fileUrl
  | "10" => some untitledUrl
  | "11" => some untitledPathUrl
  | "00" => some opaqueUrl
  | _ => none

/-- number of file dictionaries that exist (names with a file on disk) -/
def fileCount (s : State) : Nat :=
  ((s.files.map (·.1)).eraseDups.filter fun n => fileDisk s.files n != .absent).length

/-- one op of a history: `none` = unparsable, else the new state and the result text -/
def doOp (tab : List Row) (f : Fns) (cur : List Entry) (s : State) (ws : List String) :
    Option (State × String) :=
  let cov (l : List Word) : Bool := l.all (covered tab)
  match splitAt "," ws with
  | [["add"], w, ord] =>
    match charsOf w, parseList ord with
    | some w, some ord =>
      if !cov (w :: ord) then none
      else if !ord.isPerm (insert f w (loadOrEmpty f s.user)) then some (s, "bad-iter")
      else
        let s' := (step f cur s (.add w ord)).1
        some (s', fd f s'.user)
    | _, _ => none
  | [["addf"], [n], w, ord] =>
    match n.toNat?, charsOf w, parseList ord with
    | some n, some w, some ord =>
      if !cov (w :: ord) then none
      else if !ord.isPerm (insert f w (loadOrEmpty f (fileDisk s.files n))) then some (s, "bad-iter")
      else
        let s' := (step f cur s (.addFile fileUrl n w ord)).1
        some (s', fd f (fileDisk s'.files n))
    | _, _, _ => none
  | [["addfk"], [k], [n], w, ord] =>
    match parseKind k, n.toNat?, charsOf w, parseList ord with
    | some u, some n, some w, some ord =>
      if !cov (w :: ord) then none
      else
        -- what `save_dict` is handed, if anything is saved at all (nothing for a URL without a path,
        -- nothing for the `untitled` scheme: `save_file_dictionary` returns first, repo commit 861d597)
        let saved : Option (List Word) :=
          if u.path && !u.untitled then (loadFileDict f u (fileDisk s.files n)).map (insert f w) else none
        let okOrd := match saved with
          | some d => ord.isPerm d
          | none => ord.isEmpty
        if !okOrd then some (s, "bad-iter")
        else
          let s' := (step f cur s (.addFile u n w ord)).1
          some (s', fd f (fileDisk s'.files n) ++ s!" N {fileCount s'}")
    | _, _, _, _ => none
  | [["crash"], w, ord, [b]] =>
    match charsOf w, parseList ord with
    | some w, some ord =>
      if !cov (w :: ord) then none
      else if !ord.isPerm (insert f w (loadOrEmpty f s.user)) then some (s, "bad-iter")
      else
        let tr := saveTrace (savedWords f s.user w ord)
        let kj : Option (Nat × Nat) :=
          if b == "pre" then some (0, 0) else b.toNat?.map (locate tr)
        match kj with
        | some (k, j) =>
          let s' := (step f cur s (.crashAdd w ord k j)).1
          some (s', fd f s'.user)
        | none => none
    | _, _ => none
  | [["restart"]] => some ((step f cur s .restart).1, "r")
  | [["lint"], [n], qs] =>
    match n.toNat?, parseList qs with
    | some n, some qs =>
      if !cov qs then none
      else
        let r := step f cur s (.lint fileUrl n qs)
        some (r.1, ("A " ++ bits r.2).trimAscii.toString)
    | _, _ => none
  | [["lintk"], [k], [n], qs] =>
    match parseKind k, n.toNat?, parseList qs with
    | some u, some n, some qs =>
      if !cov qs then none
      else
        let r := step f cur s (.lint u n qs)
        some (r.1, ("A " ++ bits r.2).trimAscii.toString)
    | _, _, _ => none
  | [["jimp"], l] =>
    match parseList l with
    | some l =>
      if !cov l then none
      else
        let s' := (step f cur s (.jsImport l)).1
        some (s', s!"N {s'.js.user.length}")
    | none => none
  | [["jlint"], qs] =>
    match parseList qs with
    | some qs =>
      if !cov qs then none
      else some (s, ("A " ++ bits (step f cur s (.jsLint qs)).2).trimAscii.toString)
    | none => none
  | [["jrst"], ord] =>
    match parseList ord with
    | some ord =>
      if !cov ord then none
      else if !ord.isPerm s.js.user then some (s, "bad-iter")
      else
        some ((step f cur s (.jsRestart ord)).1, ("E " ++ showList (sortW s.js.user)).trimAscii.toString)
    | none => none
  | _ => none

def runHistory (tab : List Row) (f : Fns) (cur : List Entry) :
    State → List (List String) → Option (List String)
  | _, [] => some []
  | s, op :: ops =>
    match doOp tab f cur s op with
    | none => none
    | some (s', r) =>
      match runHistory tab f cur s' ops with
      | none => none
      | some rs => some (r :: rs)

def diskCovered (tab : List Row) : Disk → Bool
  | .absent => true
  | .file cs _ => covered tab cs

end DictDrv
open DictDrv

def handleDio (args : List String) : String :=
  match splitAt "|" args with
  | [tab, cur, disk, ops] =>
    match parseTab tab, parseCur cur, parseDisk disk with
    | some tab, some cur, some disk =>
      if !(diskCovered tab disk && cur.all fun e => covered tab e.canon) then "bad-op"
      else
        let ops := if ops.isEmpty then [] else splitAt ";" ops
        match runHistory tab (fnsOf tab) cur { user := disk } ops with
        | some rs => ("ok " ++ " ; ".intercalate rs).trimAscii.toString
        | none => "bad-op"
    | _, _, _ => "bad-op"
  | _ => "bad-op"

def handleDload (args : List String) : String :=
  match splitAt "|" args with
  | [tab, disk] =>
    match parseTab tab, parseDisk disk with
    | some tab, some disk =>
      if !diskCovered tab disk then "bad-op"
      else ("ok " ++ showReload (fnsOf tab) disk).trimAscii.toString
    | _, _ => "bad-op"
  | _ => "bad-op"

def handleDsave (args : List String) : String :=
  match parseList args with
  | some ws =>
    match run (saveTrace ws) .absent with
    | .file cs false =>
      let sizes := (chunks ws).map fun c => toString (byteLen c)
      (joinSp ("ok" :: "F" :: cs.map fun c => toString c.toNat) ++ " C " ++ joinSp sizes).trimAscii.toString
    | _ => "bad-op"
  | none => "bad-op"

def handleDchunk (args : List String) : String :=
  match args with
  | cap :: rest =>
    match cap.toNat?, parseList rest with
    | some cap, some ps =>
      if cap == 0 then "bad-op"
      else joinSp ("ok" :: (chunkGo cap [] ps).map fun c => toString (byteLen c))
    | _, _ => "bad-op"
  | [] => "bad-op"

def parseSide (ws : List String) : Option (List Child) :=
  match splitAt "," ws with
  | [u, f] =>
    match parseList u, parseList f with
    | some u, some f => some [.curated, .words u, .words f]
    | _, _ => none
  | _ => none

def handleDfp (args : List String) : String :=
  match splitAt "|" args with
  | [a, b] =>
    match parseSide a, parseSide b with
    | some a, some b => if mergedEq hashInj a b then "ok 1" else "ok 0"
    | _, _ => "bad-op"
  | _ => "bad-op"

end Harper.Driver.DictIO