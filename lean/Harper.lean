import Harper.Basic.Span
import Harper.Basic.Proto
import Harper.Model.Overlaps
import Harper.Lemmas.Overlaps
import Harper.Props.C13
