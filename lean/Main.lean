import Harper.Driver.Overlaps
open Harper Harper.Driver Harper.Proto

def handle (line : String) : String :=
  match splitWs line.trimAscii.toString with
  | "ro" :: args => handleRo args
  | "ri" :: args => handleRi args
  | _ => "bad-op"

partial def loop (h : IO.FS.Stream) (out : IO.FS.Stream) : IO Unit := do
  let line ← h.getLine
  if line.isEmpty then return ()
  out.putStrLn (handle line)
  loop h out

def main : IO Unit := do
  let out ← IO.getStdout
  loop (← IO.getStdin) out
  out.flush
