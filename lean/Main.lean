import Harper.Driver.All
open Harper.Driver

partial def loop (h : IO.FS.Stream) (out : IO.FS.Stream) : IO Unit := do
  let line ← h.getLine
  if line.isEmpty then return ()
  out.putStrLn (handle line)
  loop h out

def main : IO Unit := do
  let out ← IO.getStdout
  loop (← IO.getStdin) out
  out.flush
