#!/usr/bin/env python3
"""(Re)write section 12 of DESIGN.md from seeded/results.json and seeded/*/meta.json."""
import json, os, re, glob
ROOT = os.path.dirname(os.path.dirname(os.path.abspath(__file__)))
res = json.load(open(os.path.join(ROOT, "seeded", "results.json")))
rows = []
for d in sorted(glob.glob(os.path.join(ROOT, "seeded", "*", ""))):
    sid = os.path.basename(d[:-1])
    if not os.path.exists(d + "meta.json"):
        continue
    m = json.load(open(d + "meta.json"))
    c = open(d + "confirm.log").read() if os.path.exists(d + "confirm.log") else ""
    conf = "yes" if ("SUMMARY demo_unchanged_rc=0 demo_patched_rc=101" in c and "921 passed" in c) else "agent-reported"
    off = open(d + "official.txt").read().strip().replace("\n", "; ") if os.path.exists(d + "official.txt") else ""
    r = res.get(sid, {}).get("checks", {})
    det = "<br>".join("**%s**: %s" % (k, v) for k, v in r.items() if not k.startswith("_"))
    st = res.get(sid, {}).get("checks", {}).get("_status")
    if st:
        det += "<br>_" + st + "_"
    if off:
        det += "<br>official run against /repo: " + off
    summ = m.get("summary", "").replace("|", "\\|").replace("\n", " ")
    need = m.get("needs_to_manifest", "").replace("|", "\\|").replace("\n", " ")
    rows.append("| `%s` | %s | %s | %s | %s |" % (sid, summ[:420], need[:300], conf, det.replace("|", "\\|") if False else det))
sec = ["## 12. Seeded breaking changes: which checks catch which", "",
       "Each change was produced by a *fresh* sub-agent that was given only the property's text and its own",
       "git worktree of `/repo` (nothing from `/verif`), asked for a realistic change that breaks the property,",
       "compiles, passes the 921 tests and needs something specific to manifest, with a demonstration test.",
       "`seeded/<id>/` holds `patch.diff`, `demo.rs`, `meta.json` and `confirm.log` — my own confirmation in a",
       "scratch worktree (`tools/confirm_seed.sh`: demo passes on the unchanged tree, fails with the patch, the",
       "pinned suite passes with the patch). \"confirmed: yes\" means that log shows all three; \"agent-reported\"",
       "means only the agent's own run is on record so far. Checks were first evaluated with",
       "`tools/mutant_eval.sh` (a copy of `/verif` against a patched worktree, so that `/repo` stayed untouched",
       "while other work was building against it); the official procedure (`git -C /repo apply`, `./check`,",
       "`git -C /repo checkout -- .`) is recorded where it was run. A row that says MISSED is a check that had to",
       "be strengthened; what was added is stated, and the corpus/generator additions are general (new",
       "generator families), the seeded input itself being added to the corpus only as a regression witness.", "",
       "| id | change | needs | confirmed | detection |", "|---|---|---|---|---|"] + rows + [""]
p = os.path.join(ROOT, "DESIGN.md")
s = open(p).read()
new = "\n".join(sec)
if "## 12. Seeded breaking changes" in s:
    i = s.index("## 12. Seeded breaking changes")
    j = s.index("## Appendix A")
    s = s[:i] + new + "\n---\n\n" + s[j:]
else:
    j = s.index("## Appendix A")
    s = s[:j] + new + "\n---\n\n" + s[j:]
open(p, "w").write(s)
print(len(rows), "rows")
