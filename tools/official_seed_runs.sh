#!/bin/bash
# The official procedure for every seeded change: git -C /repo apply; ./check <props>; git -C /repo checkout -- .
# Writes seeded/<id>/official.txt. Run when nothing else builds against /repo.
cd /verif
[ -n "$(git -C /repo status --porcelain)" ] && { echo "/repo not clean"; exit 2; }
for d in seeded/*/; do
  id=$(basename $d)
  [ -f $d/patch.diff ] || continue
  [ -f $d/official.txt ] && [ -z "${FORCE:-}" ] && continue
  props=$(python3 -c "
import json
r=json.load(open('seeded/results.json')).get('$id',{}).get('checks',{})
print(' '.join(k for k in r if not k.startswith('_')))")
  [ -z "$props" ] && continue
  if ! git -C /repo apply --check /verif/$d/patch.diff 2>/dev/null; then echo "patch does not apply to current /repo HEAD" > $d/official.txt; continue; fi
  git -C /repo apply /verif/$d/patch.diff
  : > $d/official.tmp
  for p in $props; do
    out=$(./check $p --tier quick 2>&1 | grep -v "^KNOWN-FINDING"); rc=$?
    v=$(echo "$out" | grep "^VIOLATION" | sed 's#replay=/verif/replays/[^/]*/##' | head -1)
    s=$(echo "$out" | grep "tier=quick" | sed 's/ known {.*//' | head -1)
    echo "$p: ${v:-exit 0 (no violation)} [$s]" >> $d/official.tmp
  done
  git -C /repo checkout -- .
  mv $d/official.tmp $d/official.txt
done
git -C /repo status --porcelain | head -3
echo DONE
