#!/usr/bin/env python3
"""Tables regenerated from /repo source (DESIGN.md §3.3).

`regenerate(name, lean_dir) -> status` extracts one table-shaped piece of Rust code with
deliberately dumb regular expressions and rewrites `lean_dir/Harper/Tables/<name>.lean`.
The theorems are then rebuilt against what the code says *now*.

If the extractor cannot parse its target it raises `TableError`; `check` then falls back to the
committed table and says so in the evidence (the run relies on the correspondence step alone).

Every generator is registered in `GENERATORS`; other slices add theirs next to `NumberSuffix`.
"""
import os
import re

REPO = os.environ.get("VERIF_REPO", "/repo")


class TableError(Exception):
    pass


def _read(rel):
    p = os.path.join(REPO, rel)
    try:
        with open(p, encoding="utf8") as f:
            return f.read()
    except OSError as e:
        raise TableError("cannot read %s: %s" % (p, e))


def _strip_rust_comments(src):
    """remove // line comments and /* */ block comments; char literals like '/' are kept intact
    well enough for the files handled here (no `'/'` followed by `/`)."""
    src = re.sub(r"/\*.*?\*/", " ", src, flags=re.S)
    return re.sub(r"//[^\n]*", "", src)


def _fn_body(src, name):
    """text between the braces of `fn <name>(…) … { … }` (brace matching; char literals skipped)."""
    m = re.search(r"\bfn\s+%s\s*(?:<[^>]*>)?\s*\(" % re.escape(name), src)
    if not m:
        raise TableError("fn %s not found" % name)
    i = src.find("{", m.end())
    if i < 0:
        raise TableError("fn %s has no body" % name)
    depth, j, n = 0, i, len(src)
    while j < n:
        c = src[j]
        if c == "'" and j + 2 < n and src[j + 2] == "'":  # 'x'
            j += 3
            continue
        if c == "'" and j + 3 < n and src[j + 1] == "\\" and src[j + 3] == "'":  # '\n'
            j += 4
            continue
        if c == "{":
            depth += 1
        elif c == "}":
            depth -= 1
            if depth == 0:
                return src[i + 1:j]
        j += 1
    raise TableError("fn %s: unbalanced braces" % name)


def _lean_char(c):
    if c in ("'", "\\"):
        return "'\\%s'" % c
    if not (32 < ord(c) < 127):
        return "(Char.ofNat %d)" % ord(c)
    return "'%s'" % c


# ---------------------------------------------------------------------------------------------
# NumberSuffix  (harper-core/src/number.rs)
# ---------------------------------------------------------------------------------------------

_SUFFIX_VARIANTS = {"Th": "th", "St": "st", "Nd": "nd", "Rd": "rd"}


def _suffix(name, where):
    if name not in _SUFFIX_VARIANTS:
        raise TableError("%s: unknown NumberSuffix variant %r" % (where, name))
    return "Suffix." + _SUFFIX_VARIANTS[name]


def _opt_suffix(expr, where):
    """`Some(Self::Th)` / `Some(NumberSuffix::Th)` / `None` → Lean `Option Suffix` term"""
    expr = expr.strip()
    if expr == "None":
        return "none"
    m = re.fullmatch(r"Some\(\s*(?:Self|NumberSuffix)::(\w+)\s*\)", expr)
    if not m:
        raise TableError("%s: cannot read result %r" % (where, expr))
    return "some " + _suffix(m.group(1), where)


def _int_patterns(pat, where):
    """`3`, `0 | 4`, `4..=9`, `4..10` → list of naturals"""
    out = []
    for alt in pat.split("|"):
        alt = alt.strip()
        m = re.fullmatch(r"(\d+)", alt)
        if m:
            out.append(int(m.group(1)))
            continue
        m = re.fullmatch(r"(\d+)\s*\.\.=\s*(\d+)", alt)
        if m:
            out += list(range(int(m.group(1)), int(m.group(2)) + 1))
            continue
        m = re.fullmatch(r"(\d+)\s*\.\.\s*(\d+)", alt)
        if m:
            out += list(range(int(m.group(1)), int(m.group(2))))
            continue
        raise TableError("%s: cannot read pattern %r" % (where, alt))
    return out


def extract_number_suffix():
    src = _strip_rust_comments(_read("harper-core/src/number.rs"))
    # enum NumberSuffix { Th, St, Nd, Rd } (attributes such as #[default] ignored)
    m = re.search(r"\benum\s+NumberSuffix\s*\{(.*?)\}", src, re.S)
    if not m:
        raise TableError("enum NumberSuffix not found")
    variants = re.findall(r"\b([A-Z]\w*)\b\s*(?:,|$)", re.sub(r"#\[[^\]]*\]", "", m.group(1)).strip())
    if sorted(variants) != sorted(_SUFFIX_VARIANTS):
        raise TableError("enum NumberSuffix has variants %r, expected Th/St/Nd/Rd" % variants)

    # --- correct_suffix_for ---
    body = _fn_body(src, "correct_suffix_for")
    # the integer conversion the model assumes: `let integer = number as u64;`
    m = re.search(r"let\s+integer\s*=\s*number\s+as\s+(\w+)\s*;", body)
    if not m:
        raise TableError("correct_suffix_for: `let integer = number as <ty>;` not found")
    int_ty = m.group(1)
    # the teens arm: `if let 11..=13 = integer % 100 { return Some(Self::Th); }`
    m = re.search(
        r"if\s+let\s+(\d+)\s*\.\.=\s*(\d+)\s*=\s*integer\s*%\s*(\d+)\s*\{\s*return\s+([^;]+);\s*\}", body)
    if not m:
        raise TableError("correct_suffix_for: teens arm `if let a..=b = integer % 100 {return …;}` not found")
    teens_lo, teens_hi, teens_mod = int(m.group(1)), int(m.group(2)), int(m.group(3))
    teens_res = _opt_suffix(m.group(4), "teens arm")
    after = body[m.end():]
    m = re.search(r"match\s+integer\s*%\s*(\d+)\s*\{(.*?)\}", after, re.S)
    if not m:
        raise TableError("correct_suffix_for: `match integer % 10 { … }` not found")
    digit_mod = int(m.group(1))
    arms, default = [], None
    for arm in m.group(2).split(","):
        arm = arm.strip()
        if not arm:
            continue
        am = re.fullmatch(r"(.+?)=>\s*(.+)", arm, re.S)
        if not am:
            raise TableError("correct_suffix_for: cannot read arm %r" % arm)
        pat, res = am.group(1).strip(), am.group(2).strip()
        if pat == "_":
            if default is not None:
                raise TableError("correct_suffix_for: two default arms")
            default = _opt_suffix(res, "default arm")
            continue
        if default is not None:
            continue  # arms after `_` are unreachable
        r = _opt_suffix(res, "arm " + pat)
        for k in _int_patterns(pat, "arm " + pat):
            arms.append((k, r))
    if default is None:
        raise TableError("correct_suffix_for: no default arm")
    if not arms:
        raise TableError("correct_suffix_for: no arms")

    # --- to_chars ---
    body = _fn_body(src, "to_chars")
    to_rows = []
    for m in re.finditer(r"(?:NumberSuffix|Self)::(\w+)\s*=>\s*vec!\[([^\]]*)\]", body):
        chars = re.findall(r"'(\\?.)'", m.group(2))
        if not chars or len(chars) != len([x for x in m.group(2).split(",") if x.strip()]):
            raise TableError("to_chars: cannot read row %r" % m.group(0))
        to_rows.append((_suffix(m.group(1), "to_chars"), [c[-1] for c in chars]))
    if len(to_rows) != body.count("=>") or not to_rows:
        raise TableError("to_chars: %d rows read, %d arms present" % (len(to_rows), body.count("=>")))
    if sorted(s for s, _ in to_rows) != sorted("Suffix." + v for v in _SUFFIX_VARIANTS.values()):
        raise TableError("to_chars: rows do not cover each variant exactly once")

    # --- from_chars ---
    body = _fn_body(src, "from_chars")
    m = re.search(r"if\s+chars\.len\(\)\s*<\s*(\d+)\s*\{\s*return\s+None\s*;\s*\}", body)
    if not m:
        raise TableError("from_chars: length guard not found")
    min_len = int(m.group(1))
    m = re.search(r"match\s*\(\s*chars\[0\]\s*,\s*chars\[1\]\s*\)\s*\{(.*)\}", body, re.S)
    if not m:
        raise TableError("from_chars: `match (chars[0], chars[1])` not found")
    mbody = m.group(1)
    from_rows = []
    for m in re.finditer(r"\(\s*'(\\?.)'\s*,\s*'(\\?.)'\s*\)\s*=>\s*([^,]+),", mbody):
        r = _opt_suffix(m.group(3), "from_chars row")
        if r == "none":
            raise TableError("from_chars: explicit None row")
        from_rows.append((m.group(1)[-1], m.group(2)[-1], r[len("some "):]))
    dm = re.search(r"\b_\s*=>\s*([^,}]+)", mbody)
    if not dm or _opt_suffix(dm.group(1), "from_chars default") != "none":
        raise TableError("from_chars: default arm is not `_ => None`")
    if len(from_rows) + 1 != mbody.count("=>"):
        raise TableError("from_chars: %d rows read, %d arms present" % (len(from_rows), mbody.count("=>")))

    return {
        "int_ty": int_ty, "teens_lo": teens_lo, "teens_hi": teens_hi, "teens_mod": teens_mod,
        "teens_res": teens_res, "digit_mod": digit_mod, "arms": arms, "default": default,
        "to_rows": to_rows, "min_len": min_len, "from_rows": from_rows,
    }


def render_number_suffix(t):
    L = []
    L.append("import Harper.Basic.Suffix")
    L.append("/-!")
    L.append("# Table: `NumberSuffix` (harper-core/src/number.rs)")
    L.append("")
    L.append("GENERATED by `tools/tables.py` (`regenerate \"NumberSuffix\"`) from the Rust source on every")
    L.append("`./check` run — do not edit. Imports only `Harper.Basic.Suffix` (the `Suffix` type, checked against")
    L.append("`enum NumberSuffix { Th, St, Nd, Rd }` by the extractor). The committed copy is what the extractor produces on")
    L.append("the unchanged tree; it is used as a fallback when the extractor cannot parse its target.")
    L.append("-/")
    L.append("namespace Harper.Tables.NumberSuffix")
    L.append("open Harper")
    L.append("")
    L.append("/-- `let integer = number as %s;` -/" % t["int_ty"])
    L.append("def integerType : String := \"%s\"" % t["int_ty"])
    L.append("")
    L.append("/-- `if let %d..=%d = integer %% %d { return … }` -/" % (t["teens_lo"], t["teens_hi"], t["teens_mod"]))
    L.append("def teensMod : Nat := %d" % t["teens_mod"])
    L.append("def teensLo : Nat := %d" % t["teens_lo"])
    L.append("def teensHi : Nat := %d" % t["teens_hi"])
    L.append("def teensResult : Option Suffix := %s" % t["teens_res"])
    L.append("")
    L.append("/-- `match integer %% %d { k => … }`, in source order (or-patterns and ranges expanded) -/" % t["digit_mod"])
    L.append("def lastDigitMod : Nat := %d" % t["digit_mod"])
    L.append("def lastDigitArms : List (Nat × Option Suffix) := [")
    L.append(",\n".join("  (%d, %s)" % (k, r) for k, r in t["arms"]))
    L.append("]")
    L.append("/-- the `_ =>` arm -/")
    L.append("def lastDigitDefault : Option Suffix := %s" % t["default"])
    L.append("")
    L.append("/-- `to_chars` -/")
    L.append("def toCharsRows : List (Suffix × List Char) := [")
    L.append(",\n".join("  (%s, [%s])" % (s, ", ".join(_lean_char(c) for c in cs)) for s, cs in t["to_rows"]))
    L.append("]")
    L.append("")
    L.append("/-- `from_chars`: `if chars.len() < %d { return None }`, then the rows in source order; `_ => None` -/" % t["min_len"])
    L.append("def fromCharsMinLen : Nat := %d" % t["min_len"])
    L.append("def fromCharsRows : List (Char × Char × Suffix) := [")
    L.append(",\n".join("  (%s, %s, %s)" % (_lean_char(a), _lean_char(b), s) for a, b, s in t["from_rows"]))
    L.append("]")
    L.append("")
    L.append("end Harper.Tables.NumberSuffix")
    return "\n".join(L) + "\n"


def _gen_number_suffix():
    return render_number_suffix(extract_number_suffix())


# ---------------------------------------------------------------------------------------------
# Punct, LexerOrder  (harper-core/src/punctuation.rs, currency.rs, lexing/mod.rs)
# ---------------------------------------------------------------------------------------------

def _char_literal(s):
    """Rust char literal body -> code point"""
    esc = {"\\\\": "\\", "\\'": "'", '\\"': '"', "\\n": "\n", "\\t": "\t", "\\r": "\r"}
    if s in esc:
        return ord(esc[s])
    m = re.fullmatch(r"\\u\{([0-9a-fA-F]+)\}", s)
    if m:
        return int(m.group(1), 16)
    if len(s) != 1:
        raise TableError("char literal %r" % s)
    return ord(s)


def _gen_punct():
    src = open(os.path.join(REPO, "harper-core/src/punctuation.rs")).read()
    m = re.search(r"pub fn from_char\(c: char\) -> Option<Punctuation> \{\s*let punct = match c \{(.*?)\n\s*_ =>", src, re.S)
    if not m:
        raise TableError("Punctuation::from_char not found")
    rows = re.findall(r"'((?:\\.|[^'\\])+?)' => Punctuation::(\w+),", m.group(1))
    if len(rows) < 20:
        raise TableError("too few punctuation rows")
    cur = open(os.path.join(REPO, "harper-core/src/currency.rs")).read()
    m2 = re.search(r"pub fn from_char\(c: char\) -> Option<Self> \{\s*let cur = match c \{(.*?)_ => return None", cur, re.S)
    if not m2:
        raise TableError("Currency::from_char not found")
    crow = re.findall(r"'((?:\\.|[^'\\])+?)' => Self::(\w+),", m2.group(1))
    lex = open(os.path.join(REPO, "harper-core/src/lexing/mod.rs")).read()
    m3 = re.search(r"fn lex_quote.*?if (c == .*?) \{", lex, re.S)
    if not m3:
        raise TableError("lex_quote not found")
    quotes = re.findall(r"c == '((?:\\.|[^'\\])+?)'", m3.group(1))
    out = ["import Harper.Basic.Token",
           "/-! GENERATED by tools/tables.py from harper-core/src/{punctuation,currency}.rs and lexing/mod.rs:lex_quote — do not edit. -/",
           "namespace Harper.Tables", "",
           "/-- `Punctuation::from_char` (without the currency fallback): code point ↦ punctuation -/",
           "def punctRows : List (Nat × Punct) := ["]
    out.append(",\n".join("  (%d, .%s)" % (_char_literal(c), n) for c, n in rows))
    out += ["]", "", "/-- `Currency::from_char`: code points of currency symbols -/",
            "def currencyChars : List Nat := [" + ", ".join(str(_char_literal(c)) for c, _ in crow) + "]", "",
            "/-- characters `lex_quote` accepts -/",
            "def quoteChars : List Nat := [" + ", ".join(str(_char_literal(c)) for c in quotes) + "]", "",
            "end Harper.Tables", ""]
    return "\n".join(out)


def _gen_lexer_order():
    lex = open(os.path.join(REPO, "harper-core/src/lexing/mod.rs")).read()
    m = re.search(r"let lexers = \[(.*?)\];", lex, re.S)
    if not m:
        raise TableError("lexers array not found")
    body = re.sub(r"//[^\n]*", "", m.group(1))
    names = [n.strip() for n in body.split(",") if n.strip()]
    out = ["import Harper.Basic.LexerName",
           "/-! GENERATED by tools/tables.py from harper-core/src/lexing/mod.rs:lex_token — do not edit. -/",
           "namespace Harper.Tables", "",
           "/-- the order in which `lex_token` tries its lexers -/",
           "def lexerOrder : List LexerName := [" + ", ".join('.%s' % n for n in names) + "]", "",
           "end Harper.Tables", ""]
    return "\n".join(out)



GENERATORS = {
    "NumberSuffix": _gen_number_suffix,
    "Punct": _gen_punct,
    "LexerOrder": _gen_lexer_order,
}


def _committed_path(name):
    return os.path.join(os.path.dirname(os.path.abspath(__file__)), "committed_tables", name + ".lean")


def _write(path, text):
    os.makedirs(os.path.dirname(path), exist_ok=True)
    tmp = path + ".tmp"
    with open(tmp, "w", encoding="utf8") as f:
        f.write(text)
    os.replace(tmp, path)


def _slurp(path):
    if not os.path.exists(path):
        return None
    with open(path, encoding="utf8") as f:
        return f.read()


def regenerate(name, lean_dir):
    """Rewrite `lean_dir/Harper/Tables/<name>.lean` from the source; return a status string
    ("regenerated (unchanged)" / "regenerated (CHANGED)": compared with the committed table
    `tools/committed_tables/<name>.lean`, i.e. with what the unchanged tree produces).
    Raises (TableError or other) when the target cannot be parsed; the committed table is then
    put back in place so that a table from an earlier, different tree is not silently reused."""
    if name not in GENERATORS:
        raise TableError("no generator for table %r" % name)
    path = os.path.join(lean_dir, "Harper", "Tables", name + ".lean")
    committed = _slurp(_committed_path(name))
    try:
        text = GENERATORS[name]()
    except Exception:
        if committed is not None and _slurp(path) != committed:
            _write(path, committed)
        raise
    if _slurp(path) != text:  # do not touch the file (and lake's cache) when nothing changed
        _write(path, text)
    if committed is None:
        return "regenerated (no committed copy to compare with)"
    return "regenerated (unchanged)" if text == committed else "regenerated (CHANGED)"


if __name__ == "__main__":
    import sys
    root = os.path.dirname(os.path.dirname(os.path.abspath(__file__)))
    args = [a for a in sys.argv[1:] if a != "--commit"]
    for n in args or list(GENERATORS):
        print(n, regenerate(n, os.path.join(root, "lean")))
        if "--commit" in sys.argv:  # maintainers only: record the current output as the committed table
            _write(_committed_path(n), _slurp(os.path.join(root, "lean", "Harper", "Tables", n + ".lean")))
            print(n, "committed copy updated")
