#!/usr/bin/env python3
"""Give every lean/Harper/Driver/<X>.lean its own namespace Harper.Driver.<X> and qualify the
handler names in All.lean (idempotent). Avoids helper-name clashes between slices."""
import re, os, glob
D = os.path.join(os.path.dirname(os.path.dirname(os.path.abspath(__file__))), "lean", "Harper", "Driver")
owner = {}
for f in sorted(glob.glob(D + "/*.lean")):
    name = os.path.basename(f)[:-5]
    if name == "All":
        continue
    s = open(f).read()
    ns = "Harper.Driver." + name
    if "namespace " + ns not in s:
        s = re.sub(r"(?m)^namespace Harper\.Driver\s*$", "namespace " + ns, s)
        s = re.sub(r"(?m)^end Harper\.Driver\s*$", "end " + ns, s)
        open(f, "w").write(s)
    for m in re.finditer(r"(?m)^(?:partial\s+)?def (handle\w+)", s):
        owner.setdefault(m.group(1), []).append(name)
dups = {k: v for k, v in owner.items() if len(v) > 1}
if dups:
    print("DUPLICATE handler names:", dups)
a = open(D + "/All.lean").read()
a = re.sub(r'\("(\w+)", (handle\w+)\)', lambda m: '("%s", %s.%s)' % (m.group(1), owner[m.group(2)][0], m.group(2)) if m.group(2) in owner else m.group(0), a)
ops = re.findall(r'\("(\w+)",', a)
d = {o for o in ops if ops.count(o) > 1}
if d:
    print("DUPLICATE ops:", d)
open(D + "/All.lean", "w").write(a)
