#!/usr/bin/env python3
"""Regenerate /verif/MANIFEST.json from tools/props.json (claimed checks) and
tools/not_applicable.json (everything not claimed yet, with a reason)."""
import json, os
ROOT = os.path.dirname(os.path.dirname(os.path.abspath(__file__)))
props = json.load(open(os.path.join(ROOT, "tools", "props.json")))
na = json.load(open(os.path.join(ROOT, "tools", "not_applicable.json")))
ids = [json.loads(l)["id"] for l in open(os.path.join(ROOT, "properties.jsonl"))]
checks = []
for pid in ids:
    if pid not in props:
        continue
    c = props[pid]
    checks.append({
        "property_id": pid,
        "quick_cmd": "./check %s --tier quick" % pid,
        "thorough_cmd": "./check %s --tier thorough" % pid,
        "evidence_file": "/verif/evidence/%s.json" % pid,
        "replay_cmd_template": "./check %s --replay {path}" % pid,
        "engine": "lean-model+harness",
        "level_claimed": {"category": c.get("level", "proof"), "text": c["level_text"], "design_ref": c.get("design_ref", "DESIGN.md §6")},
        "level_note": c["level_note"],
        "technique": c["technique"],
    })
man = {
    "version": 1,
    "setup_cmd": "cd /verif/lean && lake build Harper hmodel && cd /verif/harness && CARGO_NET_OFFLINE=true RUSTUP_TOOLCHAIN=stable-x86_64-unknown-linux-gnu cargo build --offline",
    "hooks": {
        "guard": "harper_verif",
        "enable": "no hooks are needed: the harness links /repo's crates by path and includes harper-ls's modules with #[path]; `--cfg harper_verif` is reserved and currently guards nothing",
        "baseline_off_cmd": "cd /repo && RUSTUP_TOOLCHAIN=stable-x86_64-unknown-linux-gnu cargo nextest run --workspace --no-fail-fast --offline --test-threads 8",
        "source_commits": [],
        "add_only": True,
    },
    "engines": [
        {"name": "lean-model+harness", "path": "/verif/check",
         "serves_properties": [c["property_id"] for c in checks],
         "kind_free_text": "Lean 4 model + theorems (/verif/lean), Rust differential harness against /repo (/verif/harness), python verdict driver (/verif/check)"},
    ],
    "checks": checks,
    "notes": "Technique family: machine-checked proof in Lean 4 with a hand-written model tied to /repo by a correspondence (differential) check on every run. See DESIGN.md.",
    "not_applicable": [{"property_id": pid, "reason": na.get(pid, "not claimed yet: check under construction (see DESIGN.md §9 staging)")} for pid in ids if pid not in props],
}
json.dump(man, open(os.path.join(ROOT, "MANIFEST.json"), "w"), indent=1, ensure_ascii=False)
print("claimed:", [c["property_id"] for c in checks])
