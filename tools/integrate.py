#!/usr/bin/env python3
"""Merge a worker copy (/tmp/wN/verif) into /verif: new files are copied; for shared list-like
files the lines/entries the worker ADDED relative to the base revision are appended."""
import json, os, shutil, subprocess, sys, difflib
w = sys.argv[1]; base = sys.argv[2]
W = "/tmp/%s/verif" % w; V = "/verif"
skip_dirs = {"target", ".lake", "work", ".git", "evidence", "replays", "__pycache__"}
def base_text(rel):
    r = subprocess.run(["git", "-C", V, "show", "%s:%s" % (base, rel)], capture_output=True, text=True)
    return r.stdout if r.returncode == 0 else None
def added_lines(rel):
    b = base_text(rel) or ""
    wl = open(os.path.join(W, rel)).read().split("\n")
    bl = b.split("\n")
    out = []
    for tag, i1, i2, j1, j2 in difflib.SequenceMatcher(None, bl, wl, autojunk=False).get_opcodes():
        if tag in ("insert", "replace"):
            out += wl[j1:j2]
    return out
new = []
for dp, dns, fns in os.walk(W):
    dns[:] = [d for d in dns if d not in skip_dirs]
    for fn in fns:
        rel = os.path.relpath(os.path.join(dp, fn), W)
        if base_text(rel) is None and not os.path.exists(os.path.join(V, rel)):
            os.makedirs(os.path.dirname(os.path.join(V, rel)), exist_ok=True)
            shutil.copy2(os.path.join(W, rel), os.path.join(V, rel))
            new.append(rel)
print("new files:", new)
# All.lean
rel = "lean/Harper/Driver/All.lean"
add = [l for l in added_lines(rel) if l.strip()]
s = open(os.path.join(V, rel)).read()
imps = [l for l in add if l.startswith("import ") and l not in s]
import re as _re
hands = []
for l in add:
    if l.strip().startswith('("'):
        for m in _re.finditer(r'\("(\w+)", ([\w.]+)\)', l):
            if '("%s",' % m.group(1) not in s:
                hands.append(m.group(0))
if imps:
    first = s.index("import ")
    s = s[:first] + "\n".join(imps) + "\n" + s[first:]
if hands:
    i = s.index("def handlers"); j = s.index("\n]", i)
    body = s[i:j].rstrip()
    if not body.endswith(",") and not body.endswith("["):
        body += ","
    s = s[:i] + body + "\n  " + ",\n  ".join(hands) + s[j:]
open(os.path.join(V, rel), "w").write(s)
print("All.lean: +imports", imps, "+handlers", hands)
# main.rs
rel = "harness/src/main.rs"
add = added_lines(rel)
s = open(os.path.join(V, rel)).read()
mods = [l for l in add if l.startswith("mod ") and l not in s]
arms = [l for l in add if "::run(&ctx)" in l and l.strip() not in s]
for m in mods:
    s = s.replace("mod common;\n", "mod common;\n" + m + "\n", 1)
for a in arms:
    s = s.replace("        _ => {\n            eprintln!(\"unknown property", a + "\n        _ => {\n            eprintln!(\"unknown property", 1)
open(os.path.join(V, rel), "w").write(s)
print("main.rs: +", mods, arms)
other = [l for l in add if l.strip() and l not in mods and l not in arms]
if other:
    print("main.rs OTHER added lines (merge by hand):"); print("\n".join(other))
# Harper.lean
rel = "lean/Harper.lean"
if os.path.exists(os.path.join(W, rel)):
    s = open(os.path.join(V, rel)).read()
    for l in open(os.path.join(W, rel)).read().split("\n"):
        if l.startswith("import ") and l not in s:
            s = s.rstrip("\n") + "\n" + l + "\n"
    open(os.path.join(V, rel), "w").write(s)
# props.json
pv = json.load(open(os.path.join(V, "tools/props.json"))); pw = json.load(open(os.path.join(W, "tools/props.json")))
for k, v in pw.items():
    if k not in pv:
        pv[k] = v; print("props +", k)
json.dump(pv, open(os.path.join(V, "tools/props.json"), "w"), indent=1, ensure_ascii=False)
# known findings
kv = json.load(open(os.path.join(V, "known_findings.json"))); kw = json.load(open(os.path.join(W, "known_findings.json")))
have = {(r["property"], r["class"]) for r in kv["recorded"]}
for r in kw.get("recorded", []):
    if (r["property"], r["class"]) not in have and not any(r["class"] in f for f in kv.get("retired", [])):
        kv["recorded"].append(r); print("known +", r["property"], r["class"])
json.dump(kv, open(os.path.join(V, "known_findings.json"), "w"), indent=1, ensure_ascii=False)
# DESIGN notes
b = base_text("DESIGN.md"); wd = open(os.path.join(W, "DESIGN.md")).read()
if b != wd:
    os.makedirs(os.path.join(V, "notes"), exist_ok=True)
    add = added_lines("DESIGN.md")
    open(os.path.join(V, "notes", "asbuilt_%s.md" % w), "w").write("\n".join(add))
    print("DESIGN additions saved to notes/asbuilt_%s.md (%d lines)" % (w, len(add)))
