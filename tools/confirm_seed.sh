#!/bin/bash
# Confirm a seeded change independently in a scratch worktree:
#   tools/confirm_seed.sh <dir with patch.diff demo.rs meta.json> <crate-dir-for-demo e.g. harper-core>
# 1. demo passes on the unchanged tree; 2. patch applies, workspace builds, demo FAILS;
# 3. the pinned suite (921 tests) passes with the patch. Writes <dir>/confirm.log.
set -u
D=$(readlink -f "$1"); CRATE=${2:-harper-core}
W=/tmp/confirm_$$
export RUSTUP_TOOLCHAIN=stable-x86_64-unknown-linux-gnu CARGO_NET_OFFLINE=true
LOG=$D/confirm.log; : > $LOG
git -C /repo worktree add -q --detach $W HEAD || exit 2
trap 'git -C /repo worktree remove --force $W; rm -rf $W' EXIT
mkdir -p $W/$CRATE/tests && cp $D/demo.rs $W/$CRATE/tests/seeded_demo.rs
cd $W
echo "== demo on unchanged tree" >> $LOG
cargo test -p $CRATE --test seeded_demo --offline >> $LOG.full 2>&1; rc0=$?
tail -5 $LOG.full >> $LOG; echo "rc=$rc0" >> $LOG
git apply $D/patch.diff || { echo "PATCH DOES NOT APPLY" >> $LOG; exit 2; }
echo "== demo with patch" >> $LOG
cargo test -p $CRATE --test seeded_demo --offline > $LOG.full2 2>&1; rc1=$?
tail -8 $LOG.full2 >> $LOG; echo "rc=$rc1" >> $LOG
rm $W/$CRATE/tests/seeded_demo.rs
echo "== pinned suite with patch" >> $LOG
cargo nextest run --workspace --no-fail-fast --offline --test-threads ${THREADS:-6} 2>&1 | tail -3 >> $LOG
echo "SUMMARY demo_unchanged_rc=$rc0 demo_patched_rc=$rc1" >> $LOG
rm -f $LOG.full $LOG.full2
