#!/bin/bash
# confirm every seeded/<id>/ that has no SUMMARY yet, one after the other
cd /verif
MOD=${1:-1}; REM=${2:-0}; n=0
for d in seeded/*/; do
  n=$((n+1)); [ $((n % MOD)) -ne $REM ] && continue
  if ! grep -q "^SUMMARY" $d/confirm.log 2>/dev/null; then
    crate=$(python3 -c "import json,sys; m=json.load(open('$d/meta.json')); print(m.get('demo_crate') or m['files_changed'][0].split('/')[0])")
    grep -q "harper-ls/tests" $d/demo.rs && crate=harper-ls
    grep -q "harper-stats/tests" $d/demo.rs && crate=harper-stats
    grep -q "harper-wasm/tests" $d/demo.rs && crate=harper-wasm
    grep -q "harper-comments/tests" $d/demo.rs && crate=harper-comments
    grep -q "harper-core/tests" $d/demo.rs && crate=harper-core
    THREADS=8 tools/confirm_seed.sh $d $crate > /dev/null 2>&1
  fi
done
