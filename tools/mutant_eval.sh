#!/bin/bash
# Evaluate checks against a seeded change WITHOUT touching /repo (used while other work is going on):
#   tools/mutant_eval.sh <patch.diff> <Cxx> [<Cyy> ...]
# makes /tmp/mut/repo (worktree of /repo HEAD + patch) and /tmp/mut/verif (copy of /verif with every
# "/repo" path rewritten to "/tmp/mut/repo"), runs ./check there. The official run against /repo
# itself is: git -C /repo apply <patch>; ./check Cxx; git -C /repo checkout -- .
set -u
PATCH=$(readlink -f "$1"); shift
M=/tmp/mut
mkdir -p $M
if [ -d $M/repo ]; then git -C /repo worktree remove --force $M/repo 2>/dev/null; rm -rf $M/repo; fi
git -C /repo worktree prune
git -C /repo worktree add -q --detach $M/repo HEAD || exit 2
if ! git -C $M/repo apply "$PATCH"; then echo "PATCH DOES NOT APPLY"; exit 2; fi
rsync -a --delete --exclude .git --exclude work --exclude replays --exclude evidence /verif/ $M/verif/
cd $M/verif
grep -rl '/repo' harness/src harness/Cargo.toml tools check | xargs sed -i 's#/repo#/tmp/mut/repo#g'
rc=0
for p in "$@"; do
  ./check $p --tier ${TIER:-quick} 2>&1 | grep -v "^KNOWN-FINDING" | tail -3
  [ ${PIPESTATUS[0]} -ne 0 ] && rc=1
done
exit $rc
