//! C15 — dictionary back-ends agree; fuzzy search returns true near matches.
//!
//! K: the real `edit_distance_min_alloc` (the source file itself is compiled into this crate with
//! `#[path]`, because `harper_core::edit_distance` is a private module; the copy inside
//! harper-core is observed through `MutableDictionary::fuzzy_match` and monitored against it),
//! the real `MutableDictionary` / `FstDictionary` / `MergedDictionary` against the Lean model.
//! O: the property's clauses on the real results, small scope and curated dictionaries.
//!
//! Canonicalisation of fuzzy results (both sides, identically): the order of equal-distance
//! results in the real code depends on hash-map iteration order and on an unstable sort, so
//! results are sorted by (distance, word); when the final `take` cut through the last distance
//! group, which members of that group survive is arbitrary and they are printed as `?` (O still
//! checks that each of them is a genuine dictionary word with that distance).
use crate::common::*;
use harper_core::spell::FuzzyMatchResult;
use harper_core::{
    CharString, CharStringExt, Dictionary, FstDictionary, MergedDictionary, MutableDictionary, WordId,
    WordMetadata,
};
use serde_json::{Value, json};
use std::collections::{HashMap, HashSet};
use std::sync::Arc;

#[allow(dead_code)]
#[path = "/repo/harper-core/src/edit_distance.rs"]
mod real_edit_distance;
use real_edit_distance::edit_distance_min_alloc;

type W = Vec<char>;

// ---------------------------------------------------------------------------------------------
// independent reference + helpers
// ---------------------------------------------------------------------------------------------

/// Levenshtein distance, full table over *suffixes*, `usize` cells (independent of the code
/// under test: different direction, no row reuse, no narrow cells).
fn lev(a: &[char], b: &[char]) -> usize {
    let (n, m) = (a.len(), b.len());
    let mut d = vec![vec![0usize; m + 1]; n + 1];
    for i in (0..=n).rev() {
        for j in (0..=m).rev() {
            d[i][j] = if i == n {
                m - j
            } else if j == m {
                n - i
            } else {
                let sub = d[i + 1][j + 1] + if a[i] == b[j] { 0 } else { 1 };
                sub.min(d[i + 1][j] + 1).min(d[i][j + 1] + 1)
            };
        }
    }
    d[0][0]
}

fn norm(w: &[char]) -> W {
    w.normalized().to_vec()
}
fn lower(w: &[char]) -> W {
    w.to_lower().to_vec()
}
/// what `WordId::from_word_chars` hashes
fn key(w: &[char]) -> W {
    lower(&norm(w))
}
fn s2w(s: &str) -> W {
    s.chars().collect()
}
fn w2s(w: &[char]) -> String {
    w.iter().collect()
}
fn cps(w: &[char]) -> String {
    chars_field(w)
}
fn show_word(w: &[char]) -> String {
    if w.is_empty() { "_".into() } else { w.iter().map(|c| (*c as u32).to_string()).collect::<Vec<_>>().join(".") }
}
fn w2json(w: &[char]) -> Value {
    json!(w.iter().map(|c| *c as u32).collect::<Vec<_>>())
}
fn json2w(v: &Value) -> W {
    v.as_array().map(|a| a.iter().filter_map(|x| x.as_u64().and_then(|u| char::from_u32(u as u32))).collect()).unwrap_or_default()
}

/// distinguishable metadata standing for payload `i`
fn meta(i: usize) -> WordMetadata {
    WordMetadata { derived_from: Some(WordId::from_word_str(format!("#meta{}", i))), ..Default::default() }
}
fn meta_index(m: Option<&WordMetadata>, n: usize) -> String {
    match m {
        None => "-".into(),
        Some(m) => (0..n).find(|i| meta(*i) == *m).map(|i| i.to_string()).unwrap_or_else(|| "?".into()),
    }
}

fn mk_mut(words: &[W], base: usize) -> MutableDictionary {
    let mut d = MutableDictionary::new();
    for (i, w) in words.iter().enumerate() {
        d.append_word(w.as_slice(), meta(base + i));
    }
    d
}
fn mk_fst(words: &[W], base: usize) -> FstDictionary {
    FstDictionary::new(words.iter().enumerate().map(|(i, w)| (w.iter().copied().collect::<CharString>(), meta(base + i))).collect())
}

/// `<word> ; <key> , <word> ; <key> …`
fn dict_field(words: &[W]) -> String {
    words.iter().map(|w| format!("{} ; {}", cps(w), cps(&key(w))).replace("  ", " ")).collect::<Vec<_>>().join(" , ")
}

fn tidy(s: String) -> String {
    // single spaces, no trailing space (the driver splits on single spaces)
    s.split(' ').filter(|x| !x.is_empty()).collect::<Vec<_>>().join(" ")
}

type Res = Vec<(W, u8)>;

fn run_fuzzy(d: &dyn Dictionary, q: &[char], bound: u8, cap: usize) -> Result<Res, String> {
    guarded(|| d.fuzzy_match(q, bound, cap).iter().map(|r: &FuzzyMatchResult| (r.word.to_vec(), r.edit_distance)).collect())
}

/// the distance of the last group of `res` if the `take` cut through it
fn cut_dist(pool: &Res, res: &Res) -> Vec<u8> {
    match res.iter().map(|r| r.1).max() {
        Some(dl) if pool.iter().filter(|r| r.1 == dl).count() > res.iter().filter(|r| r.1 == dl).count() => vec![dl],
        _ => vec![],
    }
}

/// canonical form of a fuzzy result (see module doc): `n` = size of the pool the final `take`
/// worked on, results sorted by (distance, word), words of the distance groups in `cuts` masked
fn canon_fuzzy_with(n: usize, cuts: &[u8], res: &Res) -> String {
    let mut sorted: Vec<(u8, Vec<u32>)> = res.iter().map(|(w, d)| (*d, w.iter().map(|c| *c as u32).collect())).collect();
    sorted.sort();
    let mut out = format!("ok n={}", n);
    for (d, w) in &sorted {
        if cuts.contains(d) {
            out.push_str(&format!(" {}:?", d));
        } else {
            let cs: W = w.iter().map(|u| char::from_u32(*u).unwrap()).collect();
            out.push_str(&format!(" {}:{}", d, show_word(&cs)));
        }
    }
    out
}

fn canon_fuzzy(pool: &Res, res: &Res) -> String {
    canon_fuzzy_with(pool.len(), &cut_dist(pool, res), res)
}

// ---------------------------------------------------------------------------------------------
// recording: the evaluators write to a `Rec`, which is the session itself or a per-job log that
// is replayed into the session in job order (so parallel evaluation stays deterministic)
// ---------------------------------------------------------------------------------------------

trait Rec {
    fn k(&mut self, op: &str, imp: &str) -> usize;
    fn o(&mut self);
    fn count(&mut self, key: &str);
    fn nontrivial(&mut self, key: &str);
    fn fail(&mut self, class: &str, desc: String, input: Value, case: Option<usize>);
}

impl Rec for Session {
    fn k(&mut self, op: &str, imp: &str) -> usize {
        Session::k(self, op, imp)
    }
    fn o(&mut self) {
        Session::o(self)
    }
    fn count(&mut self, key: &str) {
        Session::count(self, key)
    }
    fn nontrivial(&mut self, key: &str) {
        Session::nontrivial(self, key)
    }
    fn fail(&mut self, class: &str, desc: String, input: Value, case: Option<usize>) {
        Session::fail(self, class, desc, input, case)
    }
}

enum Ev {
    K(String, String),
    O,
    Count(String),
    Nontrivial(String),
    Fail(String, String, Value, Option<usize>),
}

#[derive(Default)]
struct Log {
    evs: Vec<Ev>,
    nk: usize,
}

impl Rec for Log {
    fn k(&mut self, op: &str, imp: &str) -> usize {
        self.evs.push(Ev::K(op.to_string(), imp.to_string()));
        self.nk += 1;
        self.nk - 1
    }
    fn o(&mut self) {
        self.evs.push(Ev::O)
    }
    fn count(&mut self, key: &str) {
        self.evs.push(Ev::Count(key.to_string()))
    }
    fn nontrivial(&mut self, key: &str) {
        self.evs.push(Ev::Nontrivial(key.to_string()))
    }
    fn fail(&mut self, class: &str, desc: String, input: Value, case: Option<usize>) {
        self.evs.push(Ev::Fail(class.to_string(), desc, input, case))
    }
}

impl Log {
    fn flush(self, sess: &mut Session) {
        let base = sess.k_cases;
        for e in self.evs {
            match e {
                Ev::K(op, imp) => {
                    Session::k(sess, &op, &imp);
                }
                Ev::O => Session::o(sess),
                Ev::Count(k) => Session::count(sess, &k),
                Ev::Nontrivial(k) => Session::nontrivial(sess, &k),
                Ev::Fail(c, d, i, case) => Session::fail(sess, &c, d, i, case.map(|x| base + x)),
            }
        }
    }
}

/// evaluate `n` jobs on all cores in chunks, replaying their logs in job order
fn par_jobs<F: Fn(usize, &mut Log) + Sync>(sess: &mut Session, n: usize, f: F) {
    let threads = std::thread::available_parallelism().map(|n| n.get()).unwrap_or(4).min(16);
    let chunk = 512;
    let mut start = 0;
    while start < n {
        let len = chunk.min(n - start);
        let logs = par_map(len, threads, |i| {
            let mut log = Log::default();
            f(start + i, &mut log);
            log
        });
        for l in logs {
            l.flush(sess);
        }
        start += len;
    }
}

// ---------------------------------------------------------------------------------------------
// the distance
// ---------------------------------------------------------------------------------------------

fn real_ed(a: &[char], b: &[char]) -> Result<u8, String> {
    guarded(|| edit_distance_min_alloc(a, b, &mut Vec::new(), &mut Vec::new()))
}

/// one `ed` case: K line + oracle (value = independent Levenshtein; a panic only where a string
/// has ≥ 255 characters)
fn eval_ed(sess: &mut Session, a: &[char], b: &[char], origin: &str, also_nat: bool) {
    let r = real_ed(a, b);
    let imp = match &r {
        Ok(n) => format!("ok {}", n),
        Err(_) => "panic".to_string(),
    };
    let op = tidy(format!("ed {} | {}", cps(a), cps(b)));
    let case = sess.k(&op, &imp);
    sess.count(&format!("ed:{}", origin));
    let input = json!({"kind": "ed", "a": w2json(a), "b": w2json(b)});
    let truth = lev(a, b);
    match r {
        Ok(n) => {
            if n as usize != truth {
                sess.fail("distance-wrong", format!("edit_distance_min_alloc = {} but the Levenshtein distance is {}", n, truth), input, Some(case));
            } else if truth > 0 && truth < a.len().max(b.len()) {
                sess.nontrivial(&op);
            }
            if also_nat {
                let op2 = tidy(format!("edn {} | {}", cps(a), cps(b)));
                sess.k(&op2, &format!("ok {}", n));
            }
        }
        Err(msg) => {
            sess.count("ed:panic");
            if a.len() <= 254 && b.len() <= 254 {
                sess.fail("distance-panic", format!("edit_distance_min_alloc panicked on lengths {} / {}: {}", a.len(), b.len(), trunc(&msg, 80)), input, Some(case));
            } else {
                sess.nontrivial(&op);
            }
        }
    }
}

fn all_strings(alpha: &[char], maxlen: usize) -> Vec<W> {
    let mut out = vec![vec![]];
    let mut last: Vec<W> = vec![vec![]];
    for _ in 0..maxlen {
        let mut next = vec![];
        for w in &last {
            for c in alpha {
                let mut v = w.clone();
                v.push(*c);
                next.push(v);
            }
        }
        out.extend(next.iter().cloned());
        last = next;
    }
    out
}

const EXOTIC: &[char] = &['é', 'É', 'ß', 'İ', 'ı', 'Σ', 'σ', 'ς', 'ǅ', '’', '‘', '＇', '\'', '-', '😀', 'ǆ', 'Ω', 'ö', 'Ö', '1', ' ', 'ﬁ', 'K'];

fn random_word(rng: &mut Rng, maxlen: usize) -> W {
    let len = rng.below(maxlen + 1);
    let style = rng.below(4);
    (0..len)
        .map(|_| match style {
            0 => *rng.pick(&['a', 'b', 'c']),
            1 => (b'a' + rng.below(26) as u8) as char,
            2 => {
                if rng.chance(1, 4) {
                    *rng.pick(EXOTIC)
                } else if rng.chance(1, 3) {
                    (b'A' + rng.below(26) as u8) as char
                } else {
                    (b'a' + rng.below(26) as u8) as char
                }
            }
            _ => *rng.pick(EXOTIC),
        })
        .collect()
}

fn mutate(rng: &mut Rng, w: &[char]) -> W {
    let mut v = w.to_vec();
    let edits = rng.range(1, 3);
    for _ in 0..edits {
        let letter = if rng.chance(1, 8) { *rng.pick(EXOTIC) } else { (b'a' + rng.below(26) as u8) as char };
        match rng.below(4) {
            0 if !v.is_empty() => {
                let i = rng.below(v.len());
                v.remove(i);
            }
            1 => {
                let i = rng.below(v.len() + 1);
                v.insert(i, letter);
            }
            2 if !v.is_empty() => {
                let i = rng.below(v.len());
                v[i] = letter;
            }
            _ if v.len() >= 2 => {
                let i = rng.below(v.len() - 1);
                v.swap(i, i + 1);
            }
            _ => v.push(letter),
        }
    }
    v
}

fn stream_ed(sess: &mut Session, ctx: &Ctx, rng: &mut Rng) {
    // corpus: the repository's own vectors, empties, the u8 boundary
    for (a, b) in [("kitten", "sitting"), ("saturday", "sunday"), ("hello", "hellos"), ("hello", "Hello"), ("", ""), ("", "abc"), ("abc", ""), ("we’ve", "we've")] {
        eval_ed(sess, &s2w(a), &s2w(b), "corpus", true);
    }
    for (la, lb) in [(254, 254), (254, 1), (255, 0), (0, 255), (255, 1), (1, 255), (254, 255), (255, 255), (256, 0), (0, 256), (256, 256), (300, 3)] {
        let a: W = (0..la).map(|i| if i % 3 == 0 { 'a' } else { 'b' }).collect();
        let b: W = (0..lb).map(|i| if i % 2 == 0 { 'a' } else { 'c' }).collect();
        eval_ed(sess, &a, &b, "corpus-boundary", false);
    }
    // exhaustive small scope
    let maxlen = if ctx.tier == Tier::Thorough { 5 } else { 4 };
    let all = all_strings(&['a', 'b', 'c'], maxlen);
    for a in &all {
        for b in &all {
            eval_ed(sess, a, b, "exhaustive", false);
        }
    }
    // monitor: the copy of the routine inside harper-core (reached through fuzzy_match on a
    // one-word dictionary; lower-case query, bound 255 so the window is open) gives the same numbers
    let small = all_strings(&['a', 'b', 'c'], 3);
    for w in small.iter().filter(|w| !w.is_empty()) {
        let d = mk_mut(&[w.clone()], 0);
        for q in &small {
            let r = run_fuzzy(&d, q, 255, 1);
            let here = real_ed(q, w);
            let same = match (&r, &here) {
                (Ok(v), Ok(n)) => v.len() == 1 && v[0].1 == *n,
                (Err(_), Err(_)) => true,
                _ => false,
            };
            sess.monitor("in-crate edit_distance_min_alloc (via fuzzy_match) == the compiled-in source file", same);
        }
    }
    // random: longer, non-ASCII, related pairs
    let n = if ctx.tier == Tier::Thorough { 30000 } else { 6000 };
    for _ in 0..n {
        let a = random_word(rng, 24);
        let b = if rng.chance(2, 3) { mutate(rng, &a) } else { random_word(rng, 24) };
        eval_ed(sess, &a, &b, "random", true);
    }
    // the u8 edge: lengths 250..=260 against short and equally long strings
    let nedge = if ctx.tier == Tier::Thorough { 400 } else { 60 };
    for i in 0..nedge {
        let la = 250 + (i % 11);
        let lb = match rng.below(4) {
            0 => rng.below(3),
            1 => 250 + rng.below(11),
            2 => la,
            _ => rng.below(40),
        };
        let a: W = (0..la).map(|_| *rng.pick(&['a', 'b', 'c', 'é'])).collect();
        let b: W = if lb == la && rng.chance(1, 2) { mutate(rng, &a) } else { (0..lb).map(|_| *rng.pick(&['a', 'b', 'c', 'é'])).collect() };
        let (a, b) = if rng.chance(1, 2) { (a, b) } else { (b, a) };
        eval_ed(sess, &a, &b, "edge-250-260", a.len() <= 254 && b.len() <= 254);
    }
}

// ---------------------------------------------------------------------------------------------
// exact queries
// ---------------------------------------------------------------------------------------------

fn query_line(d: &dyn Dictionary, q: &[char], nmeta: usize) -> Result<String, String> {
    guarded(|| {
        format!(
            "ok mem={} exact={} canon={} meta={}",
            d.contains_word(q) as u8,
            d.contains_exact_word(q) as u8,
            d.get_correct_capitalization_of(q).map(show_word).unwrap_or_else(|| "-".into()),
            meta_index(d.get_word_metadata(q), nmeta)
        )
    })
}

/// the `_str` variants answer as the char-slice variants (part of "answer identically")
fn str_variants_agree(d: &dyn Dictionary, q: &[char]) -> Option<String> {
    let s = w2s(q);
    if d.contains_word(q) != d.contains_word_str(&s) {
        return Some("contains_word_str".into());
    }
    if d.contains_exact_word(q) != d.contains_exact_word_str(&s) {
        return Some("contains_exact_word_str".into());
    }
    if d.get_word_metadata(q) != d.get_word_metadata_str(&s) {
        return Some("get_word_metadata_str".into());
    }
    None
}

fn distinct_keys(words: &[W]) -> bool {
    let ks: HashSet<W> = words.iter().map(|w| key(w)).collect();
    ks.len() == words.len()
}

/// one small dictionary × one query: K for the mutable back-end (insert order as given) and for
/// the FST back-end (which sorts and dedups its word list before inserting: the model is handed
/// that list), O: `_str` variants, FST == mutable when no two words share a key.
fn eval_dq(sess: &mut impl Rec, words: &[W], dm: &MutableDictionary, df: &FstDictionary, fst_words: &[W], q: &[char], origin: &str) {
    let input = json!({"kind": "dq", "words": words.iter().map(|w| w2json(w)).collect::<Vec<_>>(), "q": w2json(q)});
    let head = tidy(format!("dq | {} | {}", cps(&norm(q)), cps(&key(q))));
    let op = tidy(format!("{} | {}", head, dict_field(words)));
    let rm = query_line(dm, q, words.len());
    let imp = rm.clone().unwrap_or_else(|_| "panic".into());
    let case = sess.k(&op, &imp);
    sess.count(&format!("dq:{}", origin));
    if imp.contains("mem=1") {
        sess.nontrivial(&op);
    }
    if rm.is_err() {
        sess.fail("query-panic", "exact query panicked".into(), input.clone(), Some(case));
        return;
    }
    let opf = tidy(format!("{} | {}", head, dict_field(fst_words)));
    // metadata payload index refers to the *sorted* list for the FST model run
    let rf = guarded(|| {
        format!(
            "ok mem={} exact={} canon={} meta={}",
            df.contains_word(q) as u8,
            df.contains_exact_word(q) as u8,
            df.get_correct_capitalization_of(q).map(show_word).unwrap_or_else(|| "-".into()),
            match df.get_word_metadata(q) {
                None => "-".to_string(),
                Some(m) => {
                    // payload of the word in the caller's list → its position in the sorted list
                    let orig = (0..words.len()).find(|i| meta(*i) == *m);
                    orig.and_then(|i| fst_words.iter().position(|w| *w == words[i])).map(|i| i.to_string()).unwrap_or_else(|| "?".into())
                }
            }
        )
    });
    let impf = rf.clone().unwrap_or_else(|_| "panic".into());
    let casef = sess.k(&opf, &impf);
    for (name, d) in [("mutable", dm as &dyn Dictionary), ("fst", df as &dyn Dictionary)] {
        if let Ok(Some(which)) = guarded(|| str_variants_agree(d, q)) {
            sess.fail("str-variant-differs", format!("{}: {} answers differently from the char-slice variant", name, which), input.clone(), Some(case));
        }
    }
    if distinct_keys(words) {
        // same content → same answers (metadata compared through the original payload)
        let a = guarded(|| (dm.contains_word(q), dm.contains_exact_word(q), dm.get_correct_capitalization_of(q).map(|w| w.to_vec()), dm.get_word_metadata(q).cloned()));
        let b = guarded(|| (df.contains_word(q), df.contains_exact_word(q), df.get_correct_capitalization_of(q).map(|w| w.to_vec()), df.get_word_metadata(q).cloned()));
        if a != b {
            sess.fail("backends-differ", format!("mutable {:?} vs fst {:?}", a.map(|x| (x.0, x.1, x.2)), b.map(|x| (x.0, x.1, x.2))), input, Some(casef));
        }
    }
}

/// FstDictionary::new's own preprocessing of the word list (sort by chars, drop equal words)
fn fst_order(words: &[W]) -> Vec<W> {
    let mut v = words.to_vec();
    v.sort();
    v.dedup();
    v
}

// ---------------------------------------------------------------------------------------------
// fuzzy search, small scope
// ---------------------------------------------------------------------------------------------

/// the property's clauses on one real result list of a dictionary whose `words_iter()` is `words`
/// (`mutable`: reported distance must be the smaller of the two; otherwise either of the two).
/// `constructed` = the word lists FST back-ends involved were constructed from: a result that
/// `words_iter()` does not list but that was in such a list and lost a key collision there is
/// the recorded finding `FST_CASE_VARIANT`, anything else is `fuzzy-not-a-word`.
fn fuzzy_oracle(words: &[W], constructed: &[W], q: &[char], ql: &[char], bound: u8, cap: usize, res: &Res, mutable: bool, lower_case_query: bool, allow_dups: bool) -> Vec<(&'static str, String)> {
    let mut out = vec![];
    if res.len() > cap {
        out.push(("fuzzy-cap", format!("{} results, cap {}", res.len(), cap)));
    }
    if !res.windows(2).all(|p| p[0].1 <= p[1].1) {
        out.push(("fuzzy-unsorted", "results not ordered by distance".into()));
    }
    let set: HashSet<&W> = words.iter().collect();
    let mut seen = HashSet::new();
    for (w, d) in res {
        if !set.contains(w) {
            let collided = constructed.contains(w) && constructed.iter().any(|o| o != w && key(o) == key(w));
            if collided {
                out.push((FST_CASE_VARIANT, format!("result {:?} was given to FstDictionary::new next to another spelling with the same lower-case form; the fuzzy index kept it, the word map (words_iter, contains_exact_word) did not", w2s(w))));
            } else {
                out.push(("fuzzy-not-a-word", format!("result {:?} is not a dictionary word", w2s(w))));
            }
        }
        let (d1, d2) = (lev(q, w), lev(ql, w));
        let ok = if mutable { *d as usize == d1.min(d2) } else { *d as usize == d1 || *d as usize == d2 };
        if !ok {
            out.push(("fuzzy-distance", format!("{:?} reported at distance {}, true distances {} (query) / {} (lower-cased query)", w2s(w), d, d1, d2)));
        }
        if *d > bound {
            out.push(("fuzzy-bound", format!("{:?} at distance {} > bound {}", w2s(w), d, bound)));
        }
        if !seen.insert(w.clone()) && !allow_dups {
            out.push(("fuzzy-duplicate", format!("{:?} returned twice", w2s(w))));
        }
    }
    if lower_case_query {
        // no word within the bound is missed: a missing word means the cap was reached with
        // results that are no farther than it
        let last = res.last().map(|r| r.1 as usize).unwrap_or(0);
        for w in words {
            if w.is_empty() && mutable {
                continue; // the length window of the mutable back-end starts at 1 (see Props/C15.lean)
            }
            let d = lev(q, w);
            if d <= bound as usize && !seen.contains(w) && !(res.len() == cap && d >= last) {
                out.push(("fuzzy-missed", format!("{:?} is at distance {} ≤ {} but was not returned ({} results, cap {})", w2s(w), d, bound, res.len(), cap)));
                break;
            }
        }
    }
    out
}

/// class of the recorded finding (known_findings.json): `FstDictionary::new` given two spellings
/// with the same key keeps both in the fuzzy index but only one in the word map
const FST_CASE_VARIANT: &str = "fst-case-variant-kept-in-index";

const MAXB: u8 = 3;
const MAXC: usize = 3;

/// one small dictionary × one query, every bound 0..=3 × cap 1..=3: K (`fzall`) for the mutable
/// back-end, K (`fz`) for the FST back-end where its behaviour is determined (lower-case query,
/// no empty word), O on both.
fn eval_fz(sess: &mut impl Rec, words: &[W], dm: &MutableDictionary, df: &FstDictionary, fst_words: &[W], q: &[char], origin: &str) {
    let nq = norm(q);
    let ql = lower(&nq);
    let input = |b: u8, c: usize| json!({"kind": "fz", "words": words.iter().map(|w| w2json(w)).collect::<Vec<_>>(), "q": w2json(q), "bound": b, "cap": c});
    let survivors: Vec<W> = dm.words_iter().map(|w| w.to_vec()).collect();
    let mut parts = vec![];
    let mut any = false;
    for b in 0..=MAXB {
        let pool = run_fuzzy(dm, q, b, usize::MAX);
        for c in 1..=MAXC {
            let res = run_fuzzy(dm, q, b, c);
            match (&pool, &res) {
                (Ok(pool), Ok(res)) => {
                    parts.push(canon_fuzzy(pool, res));
                    any |= !res.is_empty();
                    sess.o();
                    for (class, desc) in fuzzy_oracle(&survivors, &[], &nq, &ql, b, c, res, true, ql == nq, false) {
                        sess.fail(class, format!("mutable: {}", desc), input(b, c), None);
                    }
                    // informative only: does the real tie order equal the stable order of words_iter?
                    let mut stable: Vec<(W, u8)> = pool.clone();
                    stable.sort_by_key(|r| r.1);
                    sess.count(if *pool == stable { "fz:pool-order-is-stable-order" } else { "fz:pool-order-differs-from-stable" });
                }
                _ => {
                    parts.push("panic".into());
                    sess.fail("fuzzy-panic", "mutable fuzzy_match panicked".into(), input(b, c), None);
                }
            }
        }
    }
    let op = tidy(format!("fzall {} {} | {} | {} | {}", MAXB, MAXC, cps(&nq), cps(&ql), dict_field(words)));
    sess.k(&op, &parts.join(" ; "));
    sess.count(&format!("fz:{}", origin));
    if any {
        sess.nontrivial(&op);
    }
    // FST back-end: K against the model of the positional merge (the model is handed the FST's own
    // sorted word list and the String-lower-cased query; the streams are the model's specification)
    let sql = s2w(&w2s(&nq).to_lowercase()); // what the FST path lower-cases with
    let fst_listed: Vec<W> = df.words_iter().map(|w| w.to_vec()).collect();
    let mut parts = vec![];
    for b in 0..=MAXB {
        let pool = run_fuzzy(df, q, b, usize::MAX);
        for c in 1..=MAXC {
            let res = run_fuzzy(df, q, b, c);
            match (&pool, &res) {
                (Ok(pool), Ok(res)) => {
                    parts.push(canon_fuzzy(pool, res));
                    sess.o();
                    for (class, desc) in fuzzy_oracle(&fst_listed, fst_words, &nq, &sql, b, c, res, false, sql == nq, false) {
                        sess.fail(class, format!("fst: {}", desc), input(b, c), None);
                    }
                }
                _ => {
                    parts.push("panic".into());
                    sess.fail("fuzzy-panic", "fst fuzzy_match panicked".into(), input(b, c), None);
                }
            }
        }
    }
    let d = fst_words.iter().map(|w| if w.is_empty() { "_".to_string() } else { cps(w) }).collect::<Vec<_>>().join(" , ");
    let op = tidy(format!("fzfall {} {} | {} | {} | {}", MAXB, MAXC, cps(&nq), cps(&sql), d));
    sess.k(&op, &parts.join(" ; "));
    sess.count(if sql == nq { "fzf:lower-case-query" } else { "fzf:mixed-case-query" });
}

// ---------------------------------------------------------------------------------------------
// merged dictionaries, small scope
// ---------------------------------------------------------------------------------------------

fn merged_field(children: &[Vec<W>]) -> String {
    children.iter().map(|c| dict_field(c)).collect::<Vec<_>>().join(" / ")
}

fn eval_merged(sess: &mut impl Rec, children: &[Vec<W>], fst_child: Option<usize>, queries: &[W], fuzzy: bool, origin: &str) {
    let total: usize = children.iter().map(|c| c.len()).sum();
    let mut kids: Vec<Arc<dyn Dictionary>> = vec![];
    let mut base = 0;
    for (i, c) in children.iter().enumerate() {
        if fst_child == Some(i) {
            kids.push(Arc::new(mk_fst(c, base)));
        } else {
            kids.push(Arc::new(mk_mut(c, base)));
        }
        base += c.len();
    }
    let mut merged = MergedDictionary::new();
    for k in &kids {
        merged.add_dictionary(k.clone());
    }
    let field = merged_field(children);
    for q in queries {
        let input = json!({"kind": "mq", "children": children.iter().map(|c| c.iter().map(|w| w2json(w)).collect::<Vec<_>>()).collect::<Vec<_>>(), "fst_child": fst_child, "q": w2json(q)});
        let r = query_line(&merged, q, total);
        let imp = r.clone().unwrap_or_else(|_| "panic".into());
        // an FST child re-orders its word list; the model is only handed mutable children
        let case = if fst_child.is_none() {
            let op = tidy(format!("mq | {} | {} | {}", cps(&norm(q)), cps(&key(q)), field));
            let c = sess.k(&op, &imp);
            if imp.contains("mem=1") {
                sess.nontrivial(&op);
            }
            Some(c)
        } else {
            sess.o();
            None
        };
        sess.count(&format!("mq:{}", origin));
        if r.is_err() {
            sess.fail("query-panic", "merged exact query panicked".into(), input.clone(), case);
            continue;
        }
        // O: union of the parts, on the real children
        let u_mem = kids.iter().any(|k| k.contains_word(q));
        let u_exact = kids.iter().any(|k| k.contains_exact_word(q));
        let u_canon = kids.iter().find_map(|k| k.get_correct_capitalization_of(q));
        let u_meta = kids.iter().find_map(|k| k.get_word_metadata(q));
        if merged.contains_word(q) != u_mem || merged.contains_exact_word(q) != u_exact || merged.get_correct_capitalization_of(q) != u_canon || merged.get_word_metadata(q) != u_meta {
            sess.fail("merged-not-union", "merged dictionary differs from the first-child-wins union of its parts".into(), input.clone(), case);
        }
        if let Ok(Some(which)) = guarded(|| str_variants_agree(&merged, q)) {
            sess.fail("str-variant-differs", format!("merged: {} answers differently from the char-slice variant", which), input.clone(), case);
        }
        if fuzzy {
            let nq = norm(q);
            let ql = lower(&nq);
            let all_words: Vec<W> = merged.words_iter().map(|w| w.to_vec()).collect();
            for b in 0..=2u8 {
                for c in 1..=2usize {
                    let res = run_fuzzy(&merged, q, b, c);
                    // the pool of the final sort: what the real children return under the same cap
                    let per_child: Result<Vec<Res>, String> = kids.iter().map(|k| run_fuzzy(k.as_ref(), q, b, c)).collect();
                    // a child's own `take` may already have cut a distance group
                    let mut cuts: Vec<u8> = vec![];
                    if let Ok(pc) = &per_child {
                        for (k, capped) in kids.iter().zip(pc) {
                            if let Ok(full) = run_fuzzy(k.as_ref(), q, b, usize::MAX) {
                                cuts.extend(cut_dist(&full, capped));
                            }
                        }
                    }
                    let pool: Result<Res, String> = per_child.map(|v| v.concat());
                    let finput = json!({"kind": "mfz", "children": children.iter().map(|c| c.iter().map(|w| w2json(w)).collect::<Vec<_>>()).collect::<Vec<_>>(), "fst_child": fst_child, "q": w2json(q), "bound": b, "cap": c});
                    match (&pool, &res) {
                        (Ok(pool), Ok(res)) => {
                            if fst_child.is_none() {
                                let op = tidy(format!("mfz {} {} | {} | {} | {}", b, c, cps(&nq), cps(&ql), field));
                                cuts.extend(cut_dist(pool, res));
                                sess.k(&op, &canon_fuzzy_with(pool.len(), &cuts, res));
                            } else {
                                sess.o();
                            }
                            sess.count("mfz");
                            let dup = res.iter().map(|r| &r.0).collect::<HashSet<_>>().len() < res.len();
                            if dup {
                                sess.count("mfz:result-lists-a-word-twice");
                            }
                            let constructed: Vec<W> = fst_child.map(|i| children[i].clone()).unwrap_or_default();
                            for (class, desc) in fuzzy_oracle(&all_words, &constructed, &nq, &ql, b, c, res, fst_child.is_none(), ql == nq && s2w(&w2s(&nq).to_lowercase()) == nq, true) {
                                sess.fail(class, format!("merged: {}", desc), finput.clone(), None);
                            }
                        }
                        _ => sess.fail("fuzzy-panic", "merged fuzzy_match panicked".into(), finput, None),
                    }
                }
            }
        }
    }
}

// ---------------------------------------------------------------------------------------------
// small-scope driver
// ---------------------------------------------------------------------------------------------

fn seqs<T: Clone>(items: &[T], maxlen: usize) -> Vec<Vec<T>> {
    let mut out = vec![vec![]];
    let mut last: Vec<Vec<T>> = vec![vec![]];
    for _ in 0..maxlen {
        let mut next = vec![];
        for s in &last {
            for x in items {
                let mut v = s.clone();
                v.push(x.clone());
                next.push(v);
            }
        }
        out.extend(next.iter().cloned());
        last = next;
    }
    out
}

fn combos(items: &[W], k: usize) -> Vec<Vec<W>> {
    fn go(items: &[W], k: usize, start: usize, cur: &mut Vec<W>, out: &mut Vec<Vec<W>>) {
        if cur.len() == k {
            out.push(cur.clone());
            return;
        }
        for i in start..items.len() {
            cur.push(items[i].clone());
            go(items, k, i + 1, cur, out);
            cur.pop();
        }
    }
    let mut out = vec![];
    go(items, k, 0, &mut vec![], &mut out);
    out
}

fn stream_small(sess: &mut Session, ctx: &Ctx) {
    let alpha = ['a', 'b', 'A'];
    let thorough = ctx.tier == Tier::Thorough;
    // corpus
    let corpus: Vec<(Vec<&str>, Vec<&str>)> = vec![
        (vec!["a", "A"], vec!["a", "A"]),
        (vec!["A", "a"], vec!["a", "A"]),
        (vec!["we've", "hello", "Hello"], vec!["we’ve", "WE'VE", "hello", "HELLO", "Hello", "hell"]),
        (vec!["we’ve"], vec!["we’ve", "we've"]),
        (vec!["", "a"], vec!["", "a", "b"]),
        (vec!["İ", "i̇", "i"], vec!["İ", "i̇", "i", "I"]),
        (vec!["ΣΑΣ", "σας"], vec!["ΣΑΣ", "σας", "σασ"]),
    ];
    for (ws, qs) in &corpus {
        let words: Vec<W> = ws.iter().map(|s| s2w(s)).collect();
        let fw = fst_order(&words);
        let (dm, df) = (mk_mut(&words, 0), mk_fst(&words, 0));
        for q in qs {
            eval_dq(sess, &words, &dm, &df, &fw, &s2w(q), "corpus");
            eval_fz(sess, &words, &dm, &df, &fw, &s2w(q), "corpus");
        }
    }
    // exhaustive: word sequences over {a,b,A} (insert order matters when two words share a key)
    let vocab2: Vec<W> = all_strings(&alpha, 2).into_iter().filter(|w| !w.is_empty()).collect(); // 12 words
    let vocab3: Vec<W> = all_strings(&alpha, 3); // 40 words incl. the empty word
    let q3 = all_strings(&alpha, 3);
    let q4 = all_strings(&alpha, 4);
    // (dictionary, use the ≤4-letter queries?)
    let mut dicts: Vec<(Vec<W>, bool)> = vec![];
    // A: every ordered sequence of ≤2 (quick) / ≤3 (thorough) words of 1–2 letters
    for d in seqs(&vocab2, if thorough { 3 } else { 2 }) {
        dicts.push((d, true));
    }
    if !thorough {
        // quick: three-word dictionaries of 1–2-letter words as combinations, both orders
        for c in combos(&vocab2, 3) {
            let mut r = c.clone();
            r.reverse();
            dicts.push((c, false));
            dicts.push((r, false));
        }
    }
    // B: every ordered sequence of ≤2 words of ≤3 letters (and the empty word) not covered by A
    for d in seqs(&vocab3, 2) {
        if d.iter().any(|w| w.len() == 3 || w.is_empty()) {
            dicts.push((d, thorough));
        }
    }
    // C (thorough): every 3-word set of words of ≤3 letters not covered by A; in both insert
    // orders when two of the words share a key (only then does the order matter)
    if thorough {
        for c in combos(&vocab3, 3) {
            if c.iter().any(|w| w.len() == 3 || w.is_empty()) {
                if !distinct_keys(&c) {
                    let mut r = c.clone();
                    r.reverse();
                    dicts.push((r, false));
                }
                dicts.push((c, false));
            }
        }
    }
    sess.add("small:dictionaries", dicts.len() as u64);
    par_jobs(sess, dicts.len(), |i, log| {
        let (words, long_queries) = &dicts[i];
        let fw = fst_order(words);
        let (dm, df) = (mk_mut(words, 0), mk_fst(words, 0));
        for q in if *long_queries { &q4 } else { &q3 } {
            if q.len() <= 3 {
                eval_dq(log, words, &dm, &df, &fw, q, "exhaustive");
            }
            eval_fz(log, words, &dm, &df, &fw, q, "exhaustive");
        }
    });
    // merged: children over a small vocabulary, every ordered pair of dictionaries of ≤ 2 words
    // (also with an FST first child), every ordered triple of dictionaries of ≤1 (quick) / ≤2
    // (thorough) words; every query of a fixed list
    let mv: Vec<W> = ["a", "A", "b", "ab", "Ab"].iter().map(|s| s2w(s)).collect();
    let mq: Vec<W> = ["a", "A", "b", "B", "ab", "AB", "Ab", "", "c", "aB"].iter().map(|s| s2w(s)).collect();
    let kids = seqs(&mv, 2);
    let _ = FstDictionary::curated(); // MergedDictionary::add_dictionary compares against it: build once, up front
    par_jobs(sess, kids.len() * kids.len(), |i, log| {
        let (c1, c2) = (&kids[i / kids.len()], &kids[i % kids.len()]);
        eval_merged(log, &[c1.clone(), c2.clone()], None, &mq, true, "exhaustive-2");
        if thorough || (c1.len() + c2.len()) % 2 == 1 {
            eval_merged(log, &[c1.clone(), c2.clone()], Some(0), &mq, thorough, "exhaustive-2-fst");
        }
    });
    let kids1 = seqs(&mv, if thorough { 2 } else { 1 });
    let n1 = kids1.len();
    par_jobs(sess, n1 * n1 * n1, |i, log| {
        let (c1, c2, c3) = (&kids1[i / (n1 * n1)], &kids1[(i / n1) % n1], &kids1[i % n1]);
        eval_merged(log, &[c1.clone(), c2.clone(), c3.clone()], None, &mq, false, "exhaustive-3");
    });
}

fn stream_random_dicts(sess: &mut Session, ctx: &Ctx, rng: &mut Rng) {
    let n = if ctx.tier == Tier::Thorough { 2000 } else { 400 };
    for _ in 0..n {
        let nw = rng.range(1, 12);
        let mut words: Vec<W> = vec![];
        for _ in 0..nw {
            let w = if !words.is_empty() && rng.chance(1, 3) {
                // a re-cased or edited sibling of an earlier word
                let base = words[rng.below(words.len())].clone();
                match rng.below(3) {
                    0 => base.iter().flat_map(|c| c.to_uppercase()).collect(),
                    1 => lower(&base),
                    _ => mutate(rng, &base),
                }
            } else {
                random_word(rng, 7)
            };
            words.push(w);
        }
        let fw = fst_order(&words);
        let (dm, df) = (mk_mut(&words, 0), mk_fst(&words, 0));
        for _ in 0..4 {
            let q = match rng.below(4) {
                0 => words[rng.below(words.len())].clone(),
                1 => {
                    let i = rng.below(words.len());
                    mutate(rng, &words[i])
                }
                2 => words[rng.below(words.len())].iter().flat_map(|c| c.to_uppercase()).collect(),
                _ => random_word(rng, 7),
            };
            eval_dq(sess, &words, &dm, &df, &fw, &q, "random");
            eval_fz(sess, &words, &dm, &df, &fw, &q, "random");
        }
        if rng.chance(1, 3) {
            let cut = rng.below(words.len() + 1);
            let children = vec![words[..cut].to_vec(), words[cut..].to_vec(), vec![words[0].clone()]];
            let qs: Vec<W> = (0..3).map(|_| if rng.chance(1, 2) { words[rng.below(words.len())].clone() } else { mutate(rng, &words[0]) }).collect();
            eval_merged(sess, &children, None, &qs, true, "random");
        }
    }
    // monitors on everything the generators can produce: to_lower / normalized idempotent,
    // WordId injective on keys
    let mut ids: HashMap<WordId, W> = HashMap::new();
    let mut inj = true;
    for _ in 0..2000 {
        let w = random_word(rng, 8);
        let k = key(&w);
        sess.monitor("key (lower∘normalized) is idempotent", key(&k) == k);
        let id = WordId::from_word_chars(&w);
        if let Some(prev) = ids.insert(id, k.clone()) {
            if prev != k {
                inj = false;
            }
        }
    }
    sess.monitor("WordId injective on the keys seen", inj);
}

// ---------------------------------------------------------------------------------------------
// curated dictionaries (O only)
// ---------------------------------------------------------------------------------------------

struct Curated {
    fst: Arc<FstDictionary>,
    mutable: Arc<MutableDictionary>,
    merged1: MergedDictionary,
    merged2: MergedDictionary,
    user: Arc<MutableDictionary>,
    user_words: Vec<W>,
    words: Vec<W>,
    by_len: HashMap<usize, Vec<usize>>,
    set: HashSet<W>,
}

fn curated() -> Curated {
    let fst = FstDictionary::curated();
    let mutable = MutableDictionary::curated();
    let mut words: Vec<W> = mutable.words_iter().map(|w| w.to_vec()).collect();
    words.sort();
    let user_words: Vec<W> = ["zqxv", "Harperish", "hello", "HELLO", "naïveté", "we’ll", "blorked", "Zürich"].iter().map(|s| s2w(s)).collect();
    let user = Arc::new(mk_mut(&user_words, 0));
    let mut merged1 = MergedDictionary::new();
    merged1.add_dictionary(fst.clone());
    let mut merged2 = MergedDictionary::new();
    merged2.add_dictionary(fst.clone());
    merged2.add_dictionary(user.clone());
    let mut by_len: HashMap<usize, Vec<usize>> = HashMap::new();
    for (i, w) in words.iter().enumerate() {
        by_len.entry(w.len()).or_default().push(i);
    }
    let set = words.iter().cloned().collect();
    Curated { fst, mutable, merged1, merged2, user, user_words, words, by_len, set }
}

fn curated_queries(cur: &Curated, rng: &mut Rng, n: usize) -> Vec<W> {
    let mut qs: Vec<W> = vec![];
    for s in ["", "hello", "Hello", "HELLO", "hEllo", "we've", "we’ve", "We’ve", "I'm", "Im", "youre", "hvllo", "punctation", "Semantical", "naïve", "café", "Zürich", "İstanbul", "ΣΑΣ", "a", "I", "x", "zqxv", "Harperish", "blorked", "HARPERISH", "o'clock", "O’Clock", "tl;dr", "et al", "'", "’", "-", "123", "😀", "ﬁne"] {
        qs.push(s2w(s));
    }
    qs.push(vec!['a'; 300]);
    qs.push((0..300).map(|i| (b'a' + (i % 26) as u8) as char).collect());
    qs.push(vec!['A'; 255]);
    qs.push(vec!['a'; 254]);
    while qs.len() < n {
        let w = cur.words[rng.below(cur.words.len())].clone();
        let q = match rng.below(10) {
            0 | 1 => w,
            2 => w.iter().flat_map(|c| c.to_uppercase()).collect(),
            3 => {
                let mut v = w.clone();
                if !v.is_empty() {
                    let up: Vec<char> = v[0].to_uppercase().collect();
                    v.splice(0..1, up);
                }
                v
            }
            4 => w.iter().map(|c| if rng.chance(1, 2) { c.to_uppercase().next().unwrap() } else { *c }).collect(),
            5 => w.iter().map(|c| if *c == '\'' { *rng.pick(&['’', '‘', '＇']) } else { *c }).collect(),
            6 | 7 => mutate(rng, &w),
            8 => {
                let m = mutate(rng, &w);
                m.iter().flat_map(|c| if rng.chance(1, 3) { c.to_uppercase().collect::<Vec<_>>() } else { vec![*c] }).collect()
            }
            _ => random_word(rng, 10),
        };
        qs.push(q);
    }
    qs
}

/// agreement of the back-ends on one query; returns failures as (class, desc)
fn curated_agree(cur: &Curated, q: &[char]) -> Vec<(&'static str, String)> {
    let mut out = vec![];
    let f: &dyn Dictionary = cur.fst.as_ref();
    let m: &dyn Dictionary = cur.mutable.as_ref();
    let g1: &dyn Dictionary = &cur.merged1;
    let g2: &dyn Dictionary = &cur.merged2;
    let u: &dyn Dictionary = cur.user.as_ref();
    let ans = |d: &dyn Dictionary| (d.contains_word(q), d.contains_exact_word(q), d.get_word_metadata(q).cloned(), d.get_correct_capitalization_of(q).map(|w| w.to_vec()));
    let (af, am, a1, a2, au) = (ans(f), ans(m), ans(g1), ans(g2), ans(u));
    if af != am {
        out.push(("backends-differ", format!("fst ({}, {}, canon {:?}) vs mutable ({}, {}, canon {:?})", af.0, af.1, af.3.as_deref().map(w2s), am.0, am.1, am.3.as_deref().map(w2s))));
    }
    if a1 != af {
        out.push(("merged-not-union", "merged[curated] differs from the curated dictionary".to_string()));
    }
    let union = (af.0 || au.0, af.1 || au.1, af.2.clone().or(au.2.clone()), af.3.clone().or(au.3.clone()));
    if a2 != union {
        out.push(("merged-not-union", format!("merged[curated, user] ({}, {}, canon {:?}) differs from the union ({}, {}, canon {:?})", a2.0, a2.1, a2.3.as_deref().map(w2s), union.0, union.1, union.3.as_deref().map(w2s))));
    }
    for (name, d) in [("fst", f), ("mutable", m), ("merged", g1), ("merged+user", g2)] {
        if let Some(which) = str_variants_agree(d, q) {
            out.push(("str-variant-differs", format!("{}: {} answers differently from the char-slice variant", name, which)));
        }
    }
    // a word that is found has a canonical spelling whose key is the query's key, and an exact
    // hit means the canonical spelling is the normalised query
    if af.0 != af.3.is_some() || af.0 != af.2.is_some() {
        out.push(("backends-differ", "contains_word disagrees with metadata / canonical spelling being present".into()));
    }
    if let Some(c) = &af.3 {
        if key(c) != key(q) {
            out.push(("canonical-wrong-word", format!("canonical spelling {:?} is not a re-casing of the query", w2s(c))));
        }
        if af.1 != (*c == norm(q)) {
            out.push(("exact-inconsistent", format!("contains_exact_word = {} but canonical spelling is {:?}", af.1, w2s(c))));
        }
    }
    out
}

/// brute-force: every curated word (plus extra words) within `bound` of `q` or of `ql`
fn near(cur: &Curated, extra: &[W], q: &[char], ql: &[char], bound: usize) -> Vec<(W, usize, usize)> {
    let mut out = vec![];
    let lo = q.len().min(ql.len()).saturating_sub(bound);
    let hi = q.len().max(ql.len()) + bound;
    for l in lo..=hi {
        if let Some(ix) = cur.by_len.get(&l) {
            for i in ix {
                let w = &cur.words[*i];
                let (d1, d2) = (lev(q, w), lev(ql, w));
                if d1.min(d2) <= bound {
                    out.push((w.clone(), d1, d2));
                }
            }
        }
    }
    for w in extra {
        let (d1, d2) = (lev(q, w), lev(ql, w));
        if d1.min(d2) <= bound {
            out.push((w.clone(), d1, d2));
        }
    }
    out
}

fn curated_fuzzy(cur: &Curated, q: &[char], bound: u8, cap: usize) -> Vec<(&'static str, String)> {
    let mut out = vec![];
    let nq = norm(q);
    let ql = lower(&nq);
    let sql = s2w(&w2s(&nq).to_lowercase());
    let lower_case = ql == nq && sql == nq;
    let truth = near(cur, &[], &nq, &ql, bound as usize);
    let truth_s = if sql == ql { truth.clone() } else { near(cur, &[], &nq, &sql, bound as usize) };
    let truth_u = near(cur, &cur.user_words, &nq, &ql, bound as usize);
    let check = |name: &str, d: &dyn Dictionary, truth: &Vec<(W, usize, usize)>, mutable: bool, allow_dups: bool, out: &mut Vec<(&'static str, String)>| {
        let res = match run_fuzzy(d, q, bound, cap) {
            Ok(r) => r,
            Err(e) => {
                out.push(("fuzzy-panic", format!("{}: fuzzy_match panicked: {}", name, trunc(&e, 80))));
                return;
            }
        };
        if res.len() > cap {
            out.push(("fuzzy-cap", format!("{}: {} results, cap {}", name, res.len(), cap)));
        }
        if !res.windows(2).all(|p| p[0].1 <= p[1].1) {
            out.push(("fuzzy-unsorted", format!("{}: results not ordered by distance", name)));
        }
        let tmap: HashMap<&W, (usize, usize)> = truth.iter().map(|t| (&t.0, (t.1, t.2))).collect();
        let mut seen: HashSet<W> = HashSet::new();
        for (w, d) in &res {
            if !(cur.set.contains(w) || cur.user_words.contains(w)) {
                out.push(("fuzzy-not-a-word", format!("{}: result {:?} is not a dictionary word", name, w2s(w))));
                continue;
            }
            match tmap.get(w) {
                None => out.push(("fuzzy-bound", format!("{}: {:?} (reported {}) is not within {} of the query", name, w2s(w), d, bound))),
                Some((d1, d2)) => {
                    let ok = if mutable { *d as usize == *d1.min(d2) } else { *d as usize == *d1 || *d as usize == *d2 };
                    if !ok || *d > bound {
                        out.push(("fuzzy-distance", format!("{}: {:?} reported at {}, true distances {} / {}", name, w2s(w), d, d1, d2)));
                    }
                }
            }
            if !seen.insert(w.clone()) && !allow_dups {
                out.push(("fuzzy-duplicate", format!("{}: {:?} returned twice", name, w2s(w))));
            }
        }
        if lower_case || mutable {
            // mutable: complete for every query w.r.t. the smaller distance as long as lower-casing
            // kept the length (Props/C15.lean fuzzy_complete); others: lower-case queries
            if mutable && ql.len() != nq.len() && !lower_case {
                return;
            }
            let last = res.last().map(|r| r.1 as usize).unwrap_or(0);
            for (w, d1, d2) in truth {
                let d = *d1.min(d2);
                if !seen.contains(w) && !(res.len() == cap && d >= last) {
                    out.push(("fuzzy-missed", format!("{}: {:?} at distance {} ≤ {} was not returned ({} results, cap {})", name, w2s(w), d, bound, res.len(), cap)));
                    break;
                }
            }
        }
    };
    check("mutable", cur.mutable.as_ref(), &truth, true, false, &mut out);
    check("fst", cur.fst.as_ref(), &truth_s, false, false, &mut out);
    check("merged[curated]", &cur.merged1, &truth_s, false, false, &mut out);
    // merged with a user dictionary: mixed back-ends, a word may be listed by two children
    let truth_us: Vec<(W, usize, usize)> = if sql == ql { truth_u } else { near(cur, &cur.user_words, &nq, &sql, bound as usize) };
    check("merged[curated,user]", &cur.merged2, &truth_us, false, true, &mut out);
    out
}

fn stream_curated(sess: &mut Session, ctx: &Ctx, rng: &mut Rng) {
    let cur = curated();
    sess.add("curated:words", cur.words.len() as u64);
    sess.monitor("curated dictionary has no empty word", !cur.words.iter().any(|w| w.is_empty()));
    sess.monitor("curated dictionary has no two words with the same lower-case form", {
        let ks: HashSet<W> = cur.words.iter().map(|w| key(w)).collect();
        ks.len() == cur.words.len()
    });
    sess.monitor("curated dictionary: FST and mutable list the same words", {
        let mut a: Vec<W> = cur.fst.words_iter().map(|w| w.to_vec()).collect();
        a.sort();
        a == cur.words
    });
    let thorough = ctx.tier == Tier::Thorough;
    let nq = if thorough { 8000 } else { 3000 };
    let queries = curated_queries(&cur, rng, nq);
    let threads = std::thread::available_parallelism().map(|n| n.get()).unwrap_or(4).min(16);
    // exact queries
    let res = par_map(queries.len(), threads, |i| guarded(|| curated_agree(&cur, &queries[i])));
    for (i, r) in res.into_iter().enumerate() {
        sess.o();
        sess.count("curated:exact-query");
        let input = json!({"kind": "curated-exact", "q": w2json(&queries[i])});
        match r {
            Ok(fails) => {
                if cur.fst.contains_word(&queries[i]) {
                    sess.nontrivial(&format!("cq{}", w2s(&queries[i])));
                }
                for (class, desc) in fails {
                    sess.fail(class, format!("query {:?}: {}", trunc(&w2s(&queries[i]), 40), desc), input.clone(), None);
                }
            }
            Err(e) => sess.fail("query-panic", format!("query {:?} panicked: {}", trunc(&w2s(&queries[i]), 40), trunc(&e, 80)), input, None),
        }
    }
    // fuzzy queries
    let nf = if thorough { 1600 } else { 260 };
    let settings: Vec<(u8, usize)> = vec![(1, 3), (2, 1), (2, 100), (3, 10), (0, 5), (2, 1000), (1, 100), (3, 200)];
    let jobs: Vec<(usize, u8, usize)> = (0..nf.min(queries.len())).map(|i| (i, settings[i % settings.len()].0, settings[i % settings.len()].1)).collect();
    let res = par_map(jobs.len(), threads, |j| {
        let (i, b, c) = jobs[j];
        guarded(|| curated_fuzzy(&cur, &queries[i], b, c))
    });
    for (j, r) in res.into_iter().enumerate() {
        let (i, b, c) = jobs[j];
        sess.o();
        sess.count("curated:fuzzy-query");
        let input = json!({"kind": "curated-fuzzy", "q": w2json(&queries[i]), "bound": b, "cap": c});
        match r {
            Ok(fails) => {
                sess.nontrivial(&format!("cf{}:{}:{}", w2s(&queries[i]), b, c));
                for (class, desc) in fails {
                    sess.fail(class, format!("query {:?} bound {} cap {}: {}", trunc(&w2s(&queries[i]), 40), b, c, desc), input.clone(), None);
                }
            }
            Err(e) => sess.fail("fuzzy-panic", format!("query {:?}: {}", trunc(&w2s(&queries[i]), 40), trunc(&e, 80)), input, None),
        }
    }
}

// ---------------------------------------------------------------------------------------------
// w25: the entry points of the Dictionary trait and of spell/mod.rs that no stream above calls
// (`fuzzy_match_str`, `get_word_from_id`, `suggest_correct_spelling(_str)`, `words_iter` of a
// merged dictionary, the blanket impl for `Arc<D>`, `From<MutableDictionary> for FstDictionary`,
// `Clone`), dictionaries that are queried WHILE they grow, and merged dictionaries shaped as the
// front-ends build them: harper-ls / harper-cli `[curated, user, file]`, harper-wasm
// `[curated, user]`, harper-core's collapse_identifiers a merged dictionary inside a merged one.
// O only, except where an existing op (`dq`, `fzall`, `fzfall`, `mq`, `mfz`) is reused.
// ---------------------------------------------------------------------------------------------

/// a clause class of `fuzzy_oracle` observed at another entry point
fn via(class: &str, entry: &str) -> String {
    if class == FST_CASE_VARIANT { class.to_string() } else { format!("{}-via-{}", class, entry) }
}

fn run_fuzzy_str(d: &dyn Dictionary, q: &[char], bound: u8, cap: usize) -> Result<Res, String> {
    let s = w2s(q);
    guarded(|| d.fuzzy_match_str(&s, bound, cap).iter().map(|r: &FuzzyMatchResult| (r.word.to_vec(), r.edit_distance)).collect())
}

/// `suggest_correct_spelling` (chars) and `suggest_correct_spelling_str`, through the blanket impl for `Arc<dyn Dictionary>`
fn run_suggest(d: &Arc<dyn Dictionary>, q: &[char], bound: u8, cap: usize) -> Result<(Vec<W>, Vec<W>), String> {
    let s = w2s(q);
    guarded(|| {
        let a: Vec<W> = harper_core::spell::suggest_correct_spelling(q, cap, bound, d).into_iter().map(|w| w.to_vec()).collect();
        let b: Vec<W> = harper_core::spell::suggest_correct_spelling_str(s.clone(), cap, bound, d).iter().map(|w| s2w(w)).collect();
        (a, b)
    })
}

/// the three lower-case forms a back-end may measure against
fn query_forms(q: &[char]) -> (W, W, W) {
    let nq = norm(q);
    let ql = lower(&nq);
    let sql = s2w(&w2s(&nq).to_lowercase());
    (nq, ql, sql)
}

/// the clauses that apply to a list of suggested words (no distances reported): every one is a
/// dictionary word, is within the bound of the query or of its lower-case form, at most `cap`
fn suggest_oracle(listed: &HashSet<W>, constructed: &[W], q: &[char], bound: u8, cap: usize, sug: &[W]) -> Vec<(String, String)> {
    let (nq, ql, sql) = query_forms(q);
    let mut out = vec![];
    if sug.len() > cap {
        out.push(("suggest-cap".to_string(), format!("{} suggestions, cap {}", sug.len(), cap)));
    }
    for w in sug {
        if !listed.contains(w) {
            let collided = constructed.contains(w) && constructed.iter().any(|o| o != w && key(o) == key(w));
            out.push((if collided { FST_CASE_VARIANT.to_string() } else { "suggest-not-a-word".to_string() }, format!("suggestion {:?} is not a dictionary word", w2s(w))));
        }
        let d = lev(&nq, w).min(lev(&ql, w)).min(lev(&sql, w));
        if d > bound as usize {
            out.push(("suggest-bound".to_string(), format!("suggestion {:?} is at distance {} > bound {}", w2s(w), d, bound)));
        }
    }
    out
}

const API_CAPS: [usize; 4] = [0, 1, 2, 5];

/// one dictionary (behind `Arc<dyn Dictionary>`) × one query: canonical spelling by id, `fuzzy_match_str` and
/// `suggest_correct_spelling(_str)` for every bound 0..=3 × cap 0, 1, 2, 5
fn eval_entry_points(sess: &mut impl Rec, name: &str, d: &Arc<dyn Dictionary>, constructed: &[W], mutable: bool, allow_dups: bool, q: &[char], input: &Value) {
    let listed: Vec<W> = d.words_iter().map(|w| w.to_vec()).collect();
    let listed_set: HashSet<W> = listed.iter().cloned().collect();
    let (nq, ql, sql) = query_forms(q);
    if !mutable && ql != sql {
        // the FST back-end lower-cases with String::to_lowercase (final sigma): the distance clause
        // would need a third form; the curated stream below handles it
        sess.count("api:skipped(char-wise and String lower-casing differ)");
        return;
    }
    let lower_case = ql == nq && sql == nq;
    sess.o();
    sess.count(&format!("api:{}", name));
    let by_id = guarded(|| d.get_word_from_id(&WordId::from_word_chars(q)).map(|w| w.to_vec()));
    let by_q = guarded(|| d.get_correct_capitalization_of(q).map(|w| w.to_vec()));
    if by_id != by_q {
        sess.fail("word-from-id-differs", format!("{}: get_word_from_id(id of the query) = {:?} but get_correct_capitalization_of = {:?}", name, by_id.map(|o| o.map(|w| w2s(&w))), by_q.map(|o| o.map(|w| w2s(&w)))), input.clone(), None);
    }
    if let Ok(Some(which)) = guarded(|| str_variants_agree(d, q)) {
        sess.fail("str-variant-differs-via-arc", format!("{}: {} answers differently from the char-slice variant", name, which), input.clone(), None);
    }
    for b in 0..=MAXB {
        for c in API_CAPS {
            sess.o();
            let mut inp = input.clone();
            inp["bound"] = json!(b);
            inp["cap"] = json!(c);
            match run_fuzzy_str(d.as_ref(), q, b, c) {
                Ok(res) => {
                    if !res.is_empty() {
                        sess.nontrivial(&format!("api|{}|{}|{}|{}|{:?}", name, w2s(q), b, c, listed));
                    }
                    // a mutable child never returns the empty word (its length window starts at 1, see Props/C15.lean)
                    let complete = lower_case && !(allow_dups && !mutable && listed.iter().any(|w| w.is_empty()));
                    for (class, desc) in fuzzy_oracle(&listed, constructed, &nq, &ql, b, c, &res, mutable, complete, allow_dups) {
                        sess.fail(&via(class, "fuzzy_match_str"), format!("{} fuzzy_match_str: {}", name, desc), inp.clone(), None);
                    }
                }
                Err(e) => sess.fail("fuzzy-panic-via-fuzzy_match_str", format!("{}: fuzzy_match_str panicked: {}", name, trunc(&e, 80)), inp.clone(), None),
            }
            match run_suggest(d, q, b, c) {
                Ok((a, s)) => {
                    for (fname, sug) in [("suggest_correct_spelling", &a), ("suggest_correct_spelling_str", &s)] {
                        for (class, desc) in suggest_oracle(&listed_set, constructed, q, b, c, sug) {
                            sess.fail(&class, format!("{} {}: {}", name, fname, desc), inp.clone(), None);
                        }
                    }
                }
                Err(e) => sess.fail("suggest-panic", format!("{}: suggest_correct_spelling panicked: {}", name, trunc(&e, 80)), inp.clone(), None),
            }
        }
    }
}

/// "a merged dictionary behaves as the union of its parts" for every query kind of the trait, the parts given as
/// `kids` (first child wins), and for the word list
fn union_oracle(sess: &mut impl Rec, name: &str, merged: &Arc<dyn Dictionary>, kids: &[Arc<dyn Dictionary>], q: &[char], input: &Value) {
    sess.o();
    let r = guarded(|| {
        let mut bad: Vec<&'static str> = vec![];
        if merged.contains_word(q) != kids.iter().any(|k| k.contains_word(q)) {
            bad.push("contains_word");
        }
        if merged.contains_exact_word(q) != kids.iter().any(|k| k.contains_exact_word(q)) {
            bad.push("contains_exact_word");
        }
        if merged.get_correct_capitalization_of(q) != kids.iter().find_map(|k| k.get_correct_capitalization_of(q)) {
            bad.push("get_correct_capitalization_of");
        }
        if merged.get_word_metadata(q) != kids.iter().find_map(|k| k.get_word_metadata(q)) {
            bad.push("get_word_metadata");
        }
        let id = WordId::from_word_chars(q);
        if merged.get_word_from_id(&id) != kids.iter().find_map(|k| k.get_word_from_id(&id)) {
            bad.push("get_word_from_id");
        }
        bad
    });
    match r {
        Ok(bad) => {
            if !bad.is_empty() {
                sess.fail("merged-not-union-frontend-shape", format!("{}: {} differ(s) from the first-child-wins union of the parts", name, bad.join(", ")), input.clone(), None);
            }
        }
        Err(e) => sess.fail("query-panic", format!("{}: {}", name, trunc(&e, 80)), input.clone(), None),
    }
}

/// the word list of a merged dictionary is the union of its parts' word lists
fn union_words_oracle(sess: &mut impl Rec, name: &str, merged: &Arc<dyn Dictionary>, kids: &[Arc<dyn Dictionary>], input: &Value) {
    sess.o();
    let a: HashSet<W> = merged.words_iter().map(|w| w.to_vec()).collect();
    let b: HashSet<W> = kids.iter().flat_map(|k| k.words_iter()).map(|w| w.to_vec()).collect();
    if a != b {
        sess.fail("merged-words-not-union", format!("{}: words_iter lists {} distinct words, the parts list {}", name, a.len(), b.len()), input.clone(), None);
    }
    sess.count(if merged.word_count() == a.len() { "api:merged-word_count-counts-distinct-words" } else { "api:merged-word_count-counts-a-shared-word-twice" });
}

/// children `[c0, c1, c2]` (c0 as an FST back-end when `fst_first`): flat `[k0, k1, k2]`, its clone, nested `[[k0, k1], k2]`;
/// the single back-ends over all the words: mutable, FST built with `new`, FST built with `into()` from the mutable one
fn eval_api_small(sess: &mut impl Rec, children: &[Vec<W>], fst_first: bool, queries: &[W], origin: &str) {
    let mut kids: Vec<Arc<dyn Dictionary>> = vec![];
    let mut base = 0;
    for (i, c) in children.iter().enumerate() {
        if fst_first && i == 0 {
            kids.push(Arc::new(mk_fst(c, base)));
        } else {
            kids.push(Arc::new(mk_mut(c, base)));
        }
        base += c.len();
    }
    let mut flat = MergedDictionary::new();
    for k in &kids {
        flat.add_dictionary(k.clone());
    }
    let flat_clone: Arc<dyn Dictionary> = Arc::new(flat.clone());
    let flat: Arc<dyn Dictionary> = Arc::new(flat);
    let mut inner = MergedDictionary::new();
    for k in kids.iter().take(2) {
        inner.add_dictionary(k.clone());
    }
    let inner: Arc<dyn Dictionary> = Arc::new(inner);
    let mut nested = MergedDictionary::new();
    nested.add_dictionary(inner.clone());
    for k in kids.iter().skip(2) {
        nested.add_dictionary(k.clone());
    }
    let nested: Arc<dyn Dictionary> = Arc::new(nested);
    let nested_parts: Vec<Arc<dyn Dictionary>> = std::iter::once(inner.clone()).chain(kids.iter().skip(2).cloned()).collect();
    let all: Vec<W> = children.concat();
    let dm = mk_mut(&all, 0);
    let via_into: FstDictionary = dm.clone().into();
    let survivors: Vec<W> = dm.words_iter().map(|w| w.to_vec()).collect();
    let single: Vec<(&str, Arc<dyn Dictionary>, Vec<W>, bool)> = vec![
        ("mutable", Arc::new(dm), vec![], true),
        ("fst-new", Arc::new(mk_fst(&all, 0)), all.clone(), false),
        ("fst-from-mutable", Arc::new(via_into), survivors, false),
    ];
    let constructed: Vec<W> = if fst_first { children[0].clone() } else { vec![] };
    let cj = json!(children.iter().map(|c| c.iter().map(|w| w2json(w)).collect::<Vec<_>>()).collect::<Vec<_>>());
    let dinput = json!({"kind": "api-small", "children": cj, "fst_first": fst_first});
    union_words_oracle(sess, "merged[k0,k1,k2]", &flat, &kids, &dinput);
    union_words_oracle(sess, "merged[merged[k0,k1],k2]", &nested, &kids, &dinput);
    for q in queries {
        let mut input = dinput.clone();
        input["q"] = w2json(q);
        sess.count(&format!("api-small:{}", origin));
        union_oracle(sess, "merged[k0,k1,k2]", &flat, &kids, q, &input);
        union_oracle(sess, "clone of merged[k0,k1,k2]", &flat_clone, &kids, q, &input);
        union_oracle(sess, "merged[merged[k0,k1],k2] vs its two parts", &nested, &nested_parts, q, &input);
        union_oracle(sess, "merged[merged[k0,k1],k2] vs k0,k1,k2", &nested, &kids, q, &input);
        for (name, d, cons, mutable) in &single {
            eval_entry_points(sess, name, d, cons, *mutable, false, q, &input);
        }
        eval_entry_points(sess, if fst_first { "merged[fst,mut,mut]" } else { "merged[mut,mut,mut]" }, &flat, &constructed, !fst_first, true, q, &input);
        eval_entry_points(sess, "nested-merged", &nested, &constructed, !fst_first, true, q, &input);
    }
}

fn sibling_words(rng: &mut Rng, n: usize, maxlen: usize) -> Vec<W> {
    let mut words: Vec<W> = vec![];
    for _ in 0..n {
        let w = if !words.is_empty() && rng.chance(1, 3) {
            let base = words[rng.below(words.len())].clone();
            match rng.below(3) {
                0 => base.iter().flat_map(|c| c.to_uppercase()).collect(),
                1 => lower(&base),
                _ => mutate(rng, &base),
            }
        } else {
            random_word(rng, maxlen)
        };
        words.push(w);
    }
    words
}

fn stream_api_small(sess: &mut Session, ctx: &Ctx, rng: &mut Rng) {
    let thorough = ctx.tier == Tier::Thorough;
    // exhaustive: every ordered triple of dictionaries of ≤1 word over {a, A, b, ab, Ab}, first child mutable / FST, 10 queries
    let mv: Vec<W> = ["a", "A", "b", "ab", "Ab"].iter().map(|s| s2w(s)).collect();
    let mq: Vec<W> = ["a", "A", "b", "B", "ab", "AB", "Ab", "", "c", "aB"].iter().map(|s| s2w(s)).collect();
    let kids1 = seqs(&mv, 1);
    let n1 = kids1.len();
    let _ = FstDictionary::curated();
    par_jobs(sess, n1 * n1 * n1 * 2, |j, log| {
        let (i, fst_first) = (j / 2, j % 2 == 1);
        let cs = [kids1[i / (n1 * n1)].clone(), kids1[(i / n1) % n1].clone(), kids1[i % n1].clone()];
        eval_api_small(log, &cs, fst_first, &mq, "exhaustive-3");
    });
    // random: three children cut from one list with re-cased / edited siblings and non-ASCII letters (a word may be in two children)
    let n = if thorough { 1200 } else { 160 };
    let mut jobs: Vec<(Vec<Vec<W>>, bool, Vec<W>)> = vec![];
    for _ in 0..n {
        let nw = rng.range(2, 10);
        let words = sibling_words(rng, nw, 7);
        let (a, b) = (rng.below(words.len() + 1), rng.below(words.len() + 1));
        let (a, b) = (a.min(b), a.max(b));
        let mut c2 = words[b..].to_vec();
        if rng.chance(1, 2) {
            c2.push(words[0].clone()); // listed by two children
        }
        let children = vec![words[..a].to_vec(), words[a..b].to_vec(), c2];
        let qs: Vec<W> = (0..3)
            .map(|_| match rng.below(4) {
                0 => words[rng.below(words.len())].clone(),
                1 => words[rng.below(words.len())].iter().flat_map(|c| c.to_uppercase()).collect(),
                2 => {
                    let i = rng.below(words.len());
                    mutate(rng, &words[i])
                }
                _ => random_word(rng, 7),
            })
            .collect();
        jobs.push((children, rng.chance(1, 2), qs));
    }
    par_jobs(sess, jobs.len(), |j, log| {
        let (children, fst_first, qs) = &jobs[j];
        eval_api_small(log, children, *fst_first, qs, "random-3");
        // the same shape through the existing evaluators: K `mq` / `mfz` when every child is mutable, O with an FST first child
        // (with an FST child `eval_merged` demands every near word, and a mutable child never returns the empty word)
        if !*fst_first || !children.iter().flatten().any(|w| w.is_empty()) {
            eval_merged(log, children, if *fst_first { Some(0) } else { None }, qs, true, "w25-random-3");
        }
    });
}

/// a dictionary that is queried while it grows (`append_word`, `append_word_str`, `extend_words` with one or two words),
/// and its clone: after every step K `dq` / `fzall` with the words added so far
fn stream_incremental(sess: &mut Session, ctx: &Ctx, rng: &mut Rng) {
    let n = if ctx.tier == Tier::Thorough { 600 } else { 120 };
    for _ in 0..n {
        let nw = rng.range(2, 8);
        let words = sibling_words(rng, nw, 6);
        let mut dm = MutableDictionary::new();
        let mut i = 0;
        while i < words.len() {
            let how = rng.below(4);
            match how {
                0 => dm.append_word(words[i].as_slice(), meta(i)),
                1 => dm.append_word_str(&w2s(&words[i]), meta(i)),
                2 => dm.extend_words(std::iter::once((words[i].clone(), meta(i)))),
                _ => {
                    let upto = (i + 2).min(words.len());
                    dm.extend_words((i..upto).map(|j| (words[j].clone(), meta(j))));
                    i = upto - 1;
                }
            }
            i += 1;
            sess.count(["incremental:append_word", "incremental:append_word_str", "incremental:extend_words(1)", "incremental:extend_words(2)"][how]);
            let prefix = &words[..i];
            let fw = fst_order(prefix);
            let df = mk_fst(prefix, 0);
            let q = match rng.below(3) {
                0 => prefix[rng.below(prefix.len())].clone(),
                1 => prefix[rng.below(prefix.len())].iter().flat_map(|c| c.to_uppercase()).collect(),
                _ => {
                    let j = rng.below(prefix.len());
                    mutate(rng, &prefix[j])
                }
            };
            if rng.chance(1, 3) {
                let copy = dm.clone();
                eval_dq(sess, prefix, &copy, &df, &fw, &q, "incremental-clone");
                eval_fz(sess, prefix, &copy, &df, &fw, &q, "incremental-clone");
            } else {
                eval_dq(sess, prefix, &dm, &df, &fw, &q, "incremental");
                eval_fz(sess, prefix, &dm, &df, &fw, &q, "incremental");
            }
            sess.o();
            if dm != mk_mut(prefix, 0) {
                sess.fail("incremental-differs", "a dictionary grown step by step (append_word / append_word_str / extend_words) is not equal to one built from the same words in the same order".into(), json!({"kind": "dq", "words": prefix.iter().map(|w| w2json(w)).collect::<Vec<_>>(), "q": w2json(&q)}), None);
            }
        }
    }
}

// ---- front-end shaped merged dictionaries over the curated one ----------------------------------

struct Frontend {
    fst: Arc<dyn Dictionary>,
    mutable: Arc<dyn Dictionary>,
    user: Arc<dyn Dictionary>,
    file: Arc<dyn Dictionary>,
    /// harper-ls / harper-cli: curated, user, file
    ls: Arc<dyn Dictionary>,
    /// a merged dictionary as a child of a merged dictionary
    nested: Arc<dyn Dictionary>,
    inner: Arc<dyn Dictionary>,
    /// the user's dictionary consulted first
    user_first: Arc<dyn Dictionary>,
    extra: Vec<W>,
}

const FE_USER: [&str; 12] = ["markdown", "github", "Harperish", "zqxv", "HELLO", "naïveté", "we’ll", "o'clockish", "Zürich", "iphone", "ΣΑΣ", "blorked"];
const FE_FILE: [&str; 8] = ["Harperish", "harperish", "Markdown", "fileonlyword", "FILEONLY", "zqxw", "GitHub", "blorkedly"];

fn frontend(cur: &Curated) -> Frontend {
    let uw: Vec<W> = FE_USER.iter().map(|s| s2w(s)).collect();
    let fw: Vec<W> = FE_FILE.iter().map(|s| s2w(s)).collect();
    let fst: Arc<dyn Dictionary> = cur.fst.clone();
    let mutable: Arc<dyn Dictionary> = cur.mutable.clone();
    // the way harper-ls / harper-cli `load_dict` and harper-wasm `import_words` fill a user dictionary: extend_words, default metadata
    let mut u = MutableDictionary::new();
    u.extend_words(uw.iter().map(|w| (w.clone(), WordMetadata::default())));
    let mut f = MutableDictionary::new();
    f.extend_words(fw.iter().enumerate().map(|(i, w)| (w.clone(), meta(i))));
    let (user, file): (Arc<dyn Dictionary>, Arc<dyn Dictionary>) = (Arc::new(u), Arc::new(f));
    let mk = |kids: &[&Arc<dyn Dictionary>]| -> Arc<dyn Dictionary> {
        let mut m = MergedDictionary::new();
        for k in kids {
            m.add_dictionary((*k).clone());
        }
        Arc::new(m)
    };
    let ls = mk(&[&fst, &user, &file]);
    let inner = mk(&[&fst, &user]);
    let nested = mk(&[&inner, &file]);
    let user_first = mk(&[&user, &fst]);
    // what the two small dictionaries really list (a later word with the same key replaces an earlier one)
    let extra: Vec<W> = user.words_iter().chain(file.words_iter()).map(|w| w.to_vec()).collect();
    Frontend { fst, mutable, user, file, ls, nested, inner, user_first, extra }
}

fn frontend_queries(cur: &Curated, rng: &mut Rng, n: usize) -> Vec<W> {
    let mut qs: Vec<W> = vec![];
    for s in FE_USER.iter().chain(FE_FILE.iter()) {
        let w = s2w(s);
        qs.push(w.iter().flat_map(|c| c.to_uppercase()).collect());
        qs.push(lower(&w));
        qs.push(w.iter().map(|c| if *c == '’' { '\'' } else if *c == '\'' { '’' } else { *c }).collect());
        qs.push(w);
    }
    for s in ["markdwn", "githb", "harperis", "fileonlywor", "zqx", "blorke", "helo", "iphon", "Ｆｕｌｌ", "e\u{301}lan", "𝐛𝐨𝐥𝐝", "a\u{200b}b"] {
        qs.push(s2w(s));
    }
    let rest = curated_queries(cur, rng, n);
    qs.extend(rest);
    qs
}

/// exact queries: union of the parts for every merged shape; canonical spelling by id on every back-end
fn frontend_exact(fe: &Frontend, q: &[char]) -> Vec<(String, String)> {
    let mut log = Log::default();
    let input = json!({});
    union_oracle(&mut log, "merged[curated,user,file]", &fe.ls, &[fe.fst.clone(), fe.user.clone(), fe.file.clone()], q, &input);
    union_oracle(&mut log, "merged[merged[curated,user],file] vs its two parts", &fe.nested, &[fe.inner.clone(), fe.file.clone()], q, &input);
    union_oracle(&mut log, "merged[merged[curated,user],file] vs curated,user,file", &fe.nested, &[fe.fst.clone(), fe.user.clone(), fe.file.clone()], q, &input);
    union_oracle(&mut log, "merged[user,curated]", &fe.user_first, &[fe.user.clone(), fe.fst.clone()], q, &input);
    let mut out: Vec<(String, String)> = log.evs.into_iter().filter_map(|e| if let Ev::Fail(c, d, _, _) = e { Some((c, d)) } else { None }).collect();
    let id = WordId::from_word_chars(q);
    let canon = |d: &Arc<dyn Dictionary>| d.get_correct_capitalization_of(q).map(|w| w.to_vec());
    let by_id = |d: &Arc<dyn Dictionary>| d.get_word_from_id(&id).map(|w| w.to_vec());
    for (name, d) in [("fst", &fe.fst), ("mutable", &fe.mutable), ("merged[curated,user,file]", &fe.ls), ("user", &fe.user)] {
        if by_id(d) != canon(d) {
            out.push(("word-from-id-differs".into(), format!("{}: get_word_from_id(id of the query) = {:?} but get_correct_capitalization_of = {:?}", name, by_id(d).map(|w| w2s(&w)), canon(d).map(|w| w2s(&w)))));
        }
        if let Some(which) = str_variants_agree(d, q) {
            out.push(("str-variant-differs-via-arc".into(), format!("{}: {} answers differently from the char-slice variant", name, which)));
        }
    }
    if by_id(&fe.fst) != by_id(&fe.mutable) {
        out.push(("backends-differ-word-from-id".into(), format!("get_word_from_id: fst {:?} vs mutable {:?}", by_id(&fe.fst).map(|w| w2s(&w)), by_id(&fe.mutable).map(|w| w2s(&w)))));
    }
    out
}

/// the fuzzy clauses on one result list over curated + `extra` words; `truth` (every word within the bound of the
/// lower-case query) only where completeness is demanded
fn frontend_clauses(cur: &Curated, extra: &[W], q: &[char], bound: u8, cap: usize, res: &Res, mutable: bool, allow_dups: bool, truth: Option<&Vec<(W, usize, usize)>>) -> Vec<(&'static str, String)> {
    let (nq, ql, sql) = query_forms(q);
    let mut out = vec![];
    if res.len() > cap {
        out.push(("fuzzy-cap", format!("{} results, cap {}", res.len(), cap)));
    }
    if !res.windows(2).all(|p| p[0].1 <= p[1].1) {
        out.push(("fuzzy-unsorted", "results not ordered by distance".into()));
    }
    let mut seen: HashSet<W> = HashSet::new();
    for (w, d) in res {
        if !(cur.set.contains(w) || extra.contains(w)) {
            out.push(("fuzzy-not-a-word", format!("result {:?} is not a dictionary word", w2s(w))));
            continue;
        }
        let ds = [lev(&nq, w), lev(&ql, w), lev(&sql, w)];
        let ok = if mutable { *d as usize == ds[0].min(ds[1]) } else { ds.contains(&(*d as usize)) };
        if !ok {
            out.push(("fuzzy-distance", format!("{:?} reported at {}, true distances {:?}", w2s(w), d, ds)));
        }
        if *d > bound {
            out.push(("fuzzy-bound", format!("{:?} at distance {} > bound {}", w2s(w), d, bound)));
        }
        if !seen.insert(w.clone()) && !allow_dups {
            out.push(("fuzzy-duplicate", format!("{:?} returned twice", w2s(w))));
        }
    }
    if let Some(truth) = truth {
        let last = res.last().map(|r| r.1 as usize).unwrap_or(0);
        for (w, d1, d2) in truth {
            let d = *d1.min(d2);
            if !seen.contains(w) && !(res.len() == cap && d >= last) {
                out.push(("fuzzy-missed", format!("{:?} at distance {} ≤ {} was not returned ({} results, cap {})", w2s(w), d, bound, res.len(), cap)));
                break;
            }
        }
    }
    out
}

fn frontend_fuzzy(cur: &Curated, fe: &Frontend, q: &[char], bound: u8, cap: usize) -> Vec<(String, String)> {
    let mut out: Vec<(String, String)> = vec![];
    let (nq, ql, sql) = query_forms(q);
    let lower_case = ql == nq && sql == nq;
    let truth_all = if lower_case { Some(near(cur, &fe.extra, &nq, &ql, bound as usize)) } else { None };
    let truth_cur = if lower_case { Some(near(cur, &[], &nq, &ql, bound as usize)) } else { None };
    let none: Vec<W> = vec![];
    // (name, dictionary, extra words, mutable, duplicates allowed, ground truth for completeness)
    let shapes: Vec<(&str, &Arc<dyn Dictionary>, &Vec<W>, bool, bool, &Option<Vec<(W, usize, usize)>>)> = vec![
        ("merged[curated,user,file]", &fe.ls, &fe.extra, false, true, &truth_all),
        ("merged[merged[curated,user],file]", &fe.nested, &fe.extra, false, true, &truth_all),
        ("fst", &fe.fst, &none, false, false, &truth_cur),
        ("mutable", &fe.mutable, &none, true, false, &truth_cur),
    ];
    for (name, d, extra, mutable, dups, truth) in shapes {
        // fuzzy_match on the merged shapes (the single back-ends are in stream_curated), fuzzy_match_str on all
        if !mutable && name != "fst" {
            match run_fuzzy(d.as_ref(), q, bound, cap) {
                Ok(res) => {
                    for (class, desc) in frontend_clauses(cur, extra, q, bound, cap, &res, mutable, dups, truth.as_ref()) {
                        out.push((format!("{}-frontend-shape", class), format!("{} fuzzy_match: {}", name, desc)));
                    }
                }
                Err(e) => out.push(("fuzzy-panic".into(), format!("{}: fuzzy_match panicked: {}", name, trunc(&e, 80)))),
            }
        }
        match run_fuzzy_str(d.as_ref(), q, bound, cap) {
            Ok(res) => {
                for (class, desc) in frontend_clauses(cur, extra, q, bound, cap, &res, mutable, dups, truth.as_ref()) {
                    out.push((via(class, "fuzzy_match_str"), format!("{} fuzzy_match_str: {}", name, desc)));
                }
            }
            Err(e) => out.push(("fuzzy-panic-via-fuzzy_match_str".into(), format!("{}: fuzzy_match_str panicked: {}", name, trunc(&e, 80)))),
        }
        if mutable || name == "merged[merged[curated,user],file]" {
            continue; // the suggestion functions: on the FST back-end and the harper-ls shape
        }
        match run_suggest(d, q, bound, cap) {
            Ok((a, s)) => {
                for (fname, sug) in [("suggest_correct_spelling", &a), ("suggest_correct_spelling_str", &s)] {
                    if sug.len() > cap {
                        out.push(("suggest-cap".into(), format!("{} {}: {} suggestions, cap {}", name, fname, sug.len(), cap)));
                    }
                    for w in sug.iter() {
                        if !(cur.set.contains(w) || extra.contains(w)) {
                            out.push(("suggest-not-a-word".into(), format!("{} {}: suggestion {:?} is not a dictionary word", name, fname, w2s(w))));
                        }
                        let dist = lev(&nq, w).min(lev(&ql, w)).min(lev(&sql, w));
                        if dist > bound as usize {
                            out.push(("suggest-bound".into(), format!("{} {}: suggestion {:?} is at distance {} > bound {}", name, fname, w2s(w), dist, bound)));
                        }
                    }
                }
            }
            Err(e) => out.push(("suggest-panic".into(), format!("{}: suggest_correct_spelling panicked: {}", name, trunc(&e, 80)))),
        }
    }
    out
}

const FE_SETTINGS: [(u8, usize); 10] = [(1, 3), (2, 1), (2, 100), (3, 10), (0, 5), (2, 0), (1, 100), (3, 200), (0, 0), (2, 1000)];

fn stream_frontend(sess: &mut Session, ctx: &Ctx, rng: &mut Rng) {
    let cur = curated();
    let fe = frontend(&cur);
    let thorough = ctx.tier == Tier::Thorough;
    let input = json!({"kind": "frontend-words"});
    union_words_oracle(sess, "merged[curated,user,file]", &fe.ls, &[fe.fst.clone(), fe.user.clone(), fe.file.clone()], &input);
    union_words_oracle(sess, "merged[merged[curated,user],file]", &fe.nested, &[fe.fst.clone(), fe.user.clone(), fe.file.clone()], &input);
    let queries = frontend_queries(&cur, rng, if thorough { 6000 } else { 1000 });
    let threads = std::thread::available_parallelism().map(|n| n.get()).unwrap_or(4).min(16);
    let res = par_map(queries.len(), threads, |i| guarded(|| frontend_exact(&fe, &queries[i])));
    for (i, r) in res.into_iter().enumerate() {
        sess.o();
        sess.count("frontend:exact-query");
        let input = json!({"kind": "frontend-exact", "q": w2json(&queries[i])});
        match r {
            Ok(fails) => {
                if fe.ls.contains_word(&queries[i]) {
                    sess.nontrivial(&format!("fq{}", w2s(&queries[i])));
                    sess.count(if fe.fst.contains_word(&queries[i]) { "frontend:found-in-curated" } else { "frontend:found-in-user-or-file-only" });
                }
                for (class, desc) in fails {
                    sess.fail(&class, format!("query {:?}: {}", trunc(&w2s(&queries[i]), 40), desc), input.clone(), None);
                }
            }
            Err(e) => sess.fail("query-panic", format!("query {:?} panicked: {}", trunc(&w2s(&queries[i]), 40), trunc(&e, 80)), input, None),
        }
    }
    let nf = if thorough { 900 } else { 110 };
    let jobs: Vec<(usize, u8, usize)> = (0..nf.min(queries.len())).map(|i| (i, FE_SETTINGS[i % FE_SETTINGS.len()].0, FE_SETTINGS[i % FE_SETTINGS.len()].1)).collect();
    let res = par_map(jobs.len(), threads, |j| {
        let (i, b, c) = jobs[j];
        guarded(|| frontend_fuzzy(&cur, &fe, &queries[i], b, c))
    });
    for (j, r) in res.into_iter().enumerate() {
        let (i, b, c) = jobs[j];
        sess.o();
        sess.count("frontend:fuzzy-query");
        if c == 0 {
            sess.count("frontend:cap-0");
        }
        let input = json!({"kind": "frontend-fuzzy", "q": w2json(&queries[i]), "bound": b, "cap": c});
        match r {
            Ok(fails) => {
                sess.nontrivial(&format!("ff{}:{}:{}", w2s(&queries[i]), b, c));
                for (class, desc) in fails {
                    sess.fail(&class, format!("query {:?} bound {} cap {}: {}", trunc(&w2s(&queries[i]), 40), b, c, desc), input.clone(), None);
                }
            }
            Err(e) => sess.fail("fuzzy-panic", format!("query {:?}: {}", trunc(&w2s(&queries[i]), 40), trunc(&e, 80)), input, None),
        }
    }
}

fn replay_w25(sess: &mut Session, v: &Value) -> bool {
    match v["kind"].as_str().unwrap_or("") {
        "api-small" => {
            let children: Vec<Vec<W>> = v["children"].as_array().map(|a| a.iter().map(|c| c.as_array().map(|x| x.iter().map(json2w).collect()).unwrap_or_default()).collect()).unwrap_or_default();
            let fst_first = v["fst_first"].as_bool().unwrap_or(false);
            eval_api_small(sess, &children, fst_first, &[json2w(&v["q"])], "replay");
            true
        }
        "frontend-exact" | "frontend-fuzzy" | "frontend-words" => {
            let cur = curated();
            let fe = frontend(&cur);
            let q = json2w(&v["q"]);
            let mut fails = frontend_exact(&fe, &q);
            if v["kind"] == "frontend-fuzzy" {
                fails.extend(frontend_fuzzy(&cur, &fe, &q, v["bound"].as_u64().unwrap_or(2) as u8, v["cap"].as_u64().unwrap_or(100) as usize));
            }
            union_words_oracle(sess, "merged[curated,user,file]", &fe.ls, &[fe.fst.clone(), fe.user.clone(), fe.file.clone()], v);
            sess.o();
            for (class, desc) in fails {
                sess.fail(&class, desc, v.clone(), None);
            }
            true
        }
        _ => false,
    }
}

// ---------------------------------------------------------------------------------------------

fn replay(sess: &mut Session, v: &Value) {
    let kind = v["kind"].as_str().unwrap_or("");
    let words = |key: &str| -> Vec<W> { v[key].as_array().map(|a| a.iter().map(json2w).collect()).unwrap_or_default() };
    let children = || -> Vec<Vec<W>> { v["children"].as_array().map(|a| a.iter().map(|c| c.as_array().map(|x| x.iter().map(json2w).collect()).unwrap_or_default()).collect()).unwrap_or_default() };
    if replay_w25(sess, v) {
        return;
    }
    match kind {
        "ed" => eval_ed(sess, &json2w(&v["a"]), &json2w(&v["b"]), "replay", false),
        "dq" | "fz" => {
            let ws = words("words");
            let fw = fst_order(&ws);
            let (dm, df) = (mk_mut(&ws, 0), mk_fst(&ws, 0));
            let q = json2w(&v["q"]);
            eval_dq(sess, &ws, &dm, &df, &fw, &q, "replay");
            eval_fz(sess, &ws, &dm, &df, &fw, &q, "replay");
        }
        "mq" | "mfz" => {
            let fst_child = v["fst_child"].as_u64().map(|x| x as usize);
            eval_merged(sess, &children(), fst_child, &[json2w(&v["q"])], true, "replay");
        }
        "curated-exact" | "curated-fuzzy" => {
            let cur = curated();
            let q = json2w(&v["q"]);
            let mut fails = curated_agree(&cur, &q);
            if kind == "curated-fuzzy" {
                fails.extend(curated_fuzzy(&cur, &q, v["bound"].as_u64().unwrap_or(2) as u8, v["cap"].as_u64().unwrap_or(100) as usize));
            }
            sess.o();
            for (class, desc) in fails {
                sess.fail(class, desc, v.clone(), None);
            }
        }
        _ => {}
    }
}

pub fn run(ctx: &Ctx) {
    let mut sess = Session::new(ctx);
    let mut rng = Rng::new(ctx.seed);
    if let Some(v) = replay_input(ctx) {
        replay(&mut sess, &v);
        sess.nontrivial("replay-a");
        sess.nontrivial("replay-b");
        sess.finish("replay of one recorded input", false, json!({}));
        return;
    }
    let t0 = std::time::Instant::now();
    stream_ed(&mut sess, ctx, &mut rng);
    let t1 = std::time::Instant::now();
    stream_small(&mut sess, ctx);
    let t2 = std::time::Instant::now();
    stream_random_dicts(&mut sess, ctx, &mut rng);
    let t3 = std::time::Instant::now();
    stream_curated(&mut sess, ctx, &mut rng);
    let t4 = std::time::Instant::now();
    // w25
    stream_api_small(&mut sess, ctx, &mut rng);
    let t5 = std::time::Instant::now();
    stream_incremental(&mut sess, ctx, &mut rng);
    let t6 = std::time::Instant::now();
    stream_frontend(&mut sess, ctx, &mut rng);
    let t7 = std::time::Instant::now();
    let stream_ms = json!({"distance": (t1 - t0).as_millis() as u64, "small-scope": (t2 - t1).as_millis() as u64, "random-dictionaries": (t3 - t2).as_millis() as u64, "curated": (t4 - t3).as_millis() as u64, "w25-entry-points-small": (t5 - t4).as_millis() as u64, "w25-incremental": (t6 - t5).as_millis() as u64, "w25-frontend-shapes": (t7 - t6).as_millis() as u64});
    let thorough = ctx.tier == Tier::Thorough;
    sess.finish(
        "distance: corpus + u8 boundary; ALL pairs of strings of length ≤4 (quick) / ≤5 (thorough) over {a,b,c}; random pairs (related/unrelated, non-ASCII, ≤24 chars); lengths 250–260. dictionaries: corpus; all ordered word sequences over {a,b,A} as described in extra.exhaustive_scope × all queries × bounds 0..3 × caps 1..3 for the mutable and FST back-ends; merged dictionaries of 2–3 children; random dictionaries with re-cased/edited siblings and non-ASCII. curated: agreement of FST/mutable/merged on exact queries and the fuzzy clauses against a brute-force search. Non-trivial = distance strictly between 0 and max length / a panic in the ≥255 domain / an exact query that finds a word / a fuzzy query with ≥1 result; distinct by op line or query. w25 (O; K where an existing op applies): fuzzy_match_str, get_word_from_id, suggest_correct_spelling(_str), words_iter of merged dictionaries — every clause again at these entry points, through Arc<dyn Dictionary>, caps 0/1/2/5 × bounds 0..3, on mutable / FST (new and from a mutable) / merged [k0,k1,k2] (FST or mutable first child, a word in two children) / nested merged / clones: all triples of dictionaries of ≤1 word over {a,A,b,ab,Ab} × 10 queries + random triples; dictionaries queried while they grow (append_word / append_word_str / extend_words, clone; K dq / fzall / fzfall after every step); over the curated dictionary the front-end shapes merged[curated,user,file], merged[merged[curated,user],file], merged[user,curated] with user / file words that are case variants of curated entries and of each other (union of the parts for every query kind incl. by id; the fuzzy clauses against the brute-force search; cap 0).",
        true,
        json!({
            "stream_ms": stream_ms,
            "exhaustive_scope": if thorough {
                "distance: all pairs of strings ≤5 over {a,b,c}; dictionaries: all ordered sequences of ≤3 words of 1–2 letters over {a,b,A} and all ordered sequences of ≤2 words of ≤3 letters (incl. the empty word) × all queries ≤4 letters; all 3-word sets of words of ≤3 letters (both insert orders when two words share a key) × all queries ≤3 letters; bounds 0..3 × caps 1..3; mutable and FST back-ends; merged: all ordered pairs/triples of dictionaries of ≤2 words over {a,A,b,ab,Ab} × 10 queries"
            } else {
                "distance: all pairs of strings ≤4 over {a,b,c}; dictionaries: all ordered sequences of ≤2 words and all 3-word combinations (both orders) of words of 1–2 letters over {a,b,A}, all ordered pairs of words ≤3 letters (incl. the empty word); queries: all strings ≤3 (≤4 for the smallest dictionaries) over {a,b,A}; bounds 0..3 × caps 1..3"
            },
            "tie_canonicalisation": "fuzzy results are compared sorted by (distance, word); a last distance group cut by the cap is compared by size only (hash-map iteration order + unstable sort decide its members)",
            "fst_k_scope": "FST fuzzy results are compared with the model of the positional merge fed with specified streams (every word within the bound, in key order, exact distance); stable sorts in the model, which the real unstable sorts are for ≤ 20 elements",
        }),
    );
}
