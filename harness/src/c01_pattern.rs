//! C01 (pattern-framework part) — `Pattern::matches`, `find_all_matches`, the blanket
//! `Linter::lint` of a `PatternLinter` (`run_on_chunk` over `iter_chunks`) and the chunk iterators,
//! against the Lean model `Harper/Model/Pattern.lean`.
//!
//! K: a generated pattern AST is built from the REAL combinators and run on real `Token`s; the
//!    model gets the same AST (s-expression) and the tokens' kind codes.
//! O: with contract-keeping leaves no combinator tree may panic, hang, or report more tokens than
//!    it was given; chunk iterators partition the token list.
use crate::common::*;
use harper_core::linting::{Lint, Linter, PatternLinter};
use harper_core::parsers::{Parser, PlainEnglish};
use harper_core::patterns::{
    All, AnyPattern, ConsumesRemainingPattern, EitherPattern, Invert, Pattern, PatternExt, RepeatingPattern,
    SequencePattern, WhitespacePattern,
};
use harper_core::{Document, FstDictionary, Punctuation, Span, Token, TokenKind, TokenStringExt};
use serde_json::{Value, json};
use std::sync::Arc;

// ---------------------------------------------------------------------------------------------
// kind codes (must match the table in Harper/Model/Pattern.lean)

pub fn code(k: &TokenKind) -> usize {
    match k {
        TokenKind::Word(_) => 0,
        TokenKind::Space(_) => 1,
        TokenKind::Punctuation(Punctuation::Period) => 2,
        TokenKind::Punctuation(Punctuation::Comma) => 3,
        TokenKind::Newline(_) => 4,
        TokenKind::ParagraphBreak => 5,
        TokenKind::Punctuation(Punctuation::Bang) | TokenKind::Punctuation(Punctuation::Question) => 7,
        TokenKind::Punctuation(Punctuation::Colon) | TokenKind::Punctuation(Punctuation::Quote(_)) => 8,
        _ => 6,
    }
}

fn kind_of(code: usize) -> TokenKind {
    match code {
        0 => TokenKind::Word(None),
        1 => TokenKind::Space(1),
        2 => TokenKind::Punctuation(Punctuation::Period),
        3 => TokenKind::Punctuation(Punctuation::Comma),
        4 => TokenKind::Newline(1),
        5 => TokenKind::ParagraphBreak,
        7 => TokenKind::Punctuation(Punctuation::Bang),
        8 => TokenKind::Punctuation(Punctuation::Colon),
        _ => TokenKind::Unlintable,
    }
}

fn char_of(code: usize) -> char {
    match code {
        0 => 'a',
        1 => ' ',
        2 => '.',
        3 => ',',
        4 | 5 => '\n',
        7 => '!',
        8 => ':',
        _ => '#',
    }
}

/// real tokens of the given kinds over a dummy source (one character per token)
fn mk_tokens(codes: &[usize]) -> (Vec<Token>, Vec<char>) {
    let toks = codes.iter().enumerate().map(|(i, c)| Token::new(Span::new(i, i + 1), kind_of(*c))).collect();
    let src = codes.iter().map(|c| char_of(*c)).collect();
    (toks, src)
}

fn codes_field(codes: &[usize]) -> String {
    codes.iter().map(|c| c.to_string()).collect::<Vec<_>>().join(" ")
}

// ---------------------------------------------------------------------------------------------
// pattern ASTs

#[derive(Clone, Debug, PartialEq)]
pub enum Ast {
    Leaf(usize),
    /// arbitrary leaf: always `n` (breaks the contract for n ≥ 1)
    Const(usize),
    /// arbitrary leaf: `min(n, len)` (keeps the contract)
    Upto(usize),
    /// arbitrary leaf: `n` on the empty slice, else 0 (`z1` = the unfixed `Invert(any)`)
    Zed(usize),
    Any,
    Ws,
    Seq(Vec<Ast>),
    Rep(usize, Box<Ast>),
    Or(Vec<Ast>),
    All(Vec<Ast>),
    Inv(Box<Ast>),
    Rem(Box<Ast>),
}

impl Ast {
    pub fn show(&self) -> String {
        fn list(tag: &str, cs: &[Ast]) -> String {
            let mut s = format!("( {}", tag);
            for c in cs {
                s.push(' ');
                s.push_str(&c.show());
            }
            s.push_str(" )");
            s
        }
        match self {
            Ast::Leaf(k) => format!("k{}", k),
            Ast::Const(n) => format!("c{}", n),
            Ast::Upto(n) => format!("u{}", n),
            Ast::Zed(n) => format!("z{}", n),
            Ast::Any => "any".into(),
            Ast::Ws => "ws".into(),
            Ast::Seq(cs) => list("seq", cs),
            Ast::Or(cs) => list("or", cs),
            Ast::All(cs) => list("all", cs),
            Ast::Rep(n, p) => format!("( rep {} {} )", n, p.show()),
            Ast::Inv(p) => format!("( inv {} )", p.show()),
            Ast::Rem(p) => format!("( rem {} )", p.show()),
        }
    }

    /// every arbitrary leaf returns at most the length of its slice
    pub fn keeps_contract(&self) -> bool {
        match self {
            Ast::Const(n) | Ast::Zed(n) => *n == 0,
            Ast::Leaf(_) | Ast::Upto(_) | Ast::Any | Ast::Ws => true,
            Ast::Seq(cs) | Ast::Or(cs) | Ast::All(cs) => cs.iter().all(|c| c.keeps_contract()),
            Ast::Rep(_, p) | Ast::Inv(p) | Ast::Rem(p) => p.keeps_contract(),
        }
    }

    pub fn depth(&self) -> usize {
        match self {
            Ast::Seq(cs) | Ast::Or(cs) | Ast::All(cs) => 1 + cs.iter().map(|c| c.depth()).max().unwrap_or(0),
            Ast::Rep(_, p) | Ast::Inv(p) | Ast::Rem(p) => 1 + p.depth(),
            _ => 0,
        }
    }

    fn tags(&self, out: &mut Vec<&'static str>) {
        match self {
            Ast::Leaf(_) => out.push("leaf"),
            Ast::Const(_) | Ast::Upto(_) | Ast::Zed(_) => out.push("fn"),
            Ast::Any => out.push("any"),
            Ast::Ws => out.push("ws"),
            Ast::Seq(cs) => {
                out.push("seq");
                cs.iter().for_each(|c| c.tags(out))
            }
            Ast::Or(cs) => {
                out.push("or");
                cs.iter().for_each(|c| c.tags(out))
            }
            Ast::All(cs) => {
                out.push("all");
                cs.iter().for_each(|c| c.tags(out))
            }
            Ast::Rep(_, p) => {
                out.push("rep");
                p.tags(out)
            }
            Ast::Inv(p) => {
                out.push("inv");
                p.tags(out)
            }
            Ast::Rem(p) => {
                out.push("rem");
                p.tags(out)
            }
        }
    }
}

fn parse_words<'a>(ws: &'a [&'a str]) -> Option<(Ast, &'a [&'a str])> {
    let (w, rest) = ws.split_first()?;
    if *w == "(" {
        let (tag, mut rest) = rest.split_first()?;
        match *tag {
            "seq" | "or" | "all" => {
                let mut cs = vec![];
                loop {
                    if *rest.first()? == ")" {
                        rest = &rest[1..];
                        break;
                    }
                    let (c, r) = parse_words(rest)?;
                    cs.push(c);
                    rest = r;
                }
                Some((
                    match *tag {
                        "seq" => Ast::Seq(cs),
                        "or" => Ast::Or(cs),
                        _ => Ast::All(cs),
                    },
                    rest,
                ))
            }
            "rep" => {
                let (n, rest) = rest.split_first()?;
                let n: usize = n.parse().ok()?;
                let (p, rest) = parse_words(rest)?;
                let (close, rest) = rest.split_first()?;
                (*close == ")").then_some((Ast::Rep(n, Box::new(p)), rest))
            }
            "inv" | "rem" => {
                let (p, rest) = parse_words(rest)?;
                let (close, rest) = rest.split_first()?;
                let a = if *tag == "inv" { Ast::Inv(Box::new(p)) } else { Ast::Rem(Box::new(p)) };
                (*close == ")").then_some((a, rest))
            }
            _ => None,
        }
    } else {
        let a = match *w {
            "any" => Ast::Any,
            "ws" => Ast::Ws,
            _ => {
                let (h, t) = w.split_at(1);
                let n: usize = t.parse().ok()?;
                match h {
                    "k" => Ast::Leaf(n),
                    "c" => Ast::Const(n),
                    "u" => Ast::Upto(n),
                    "z" => Ast::Zed(n),
                    _ => return None,
                }
            }
        };
        Some((a, rest))
    }
}

pub fn parse_ast(s: &str) -> Option<Ast> {
    let ws: Vec<&str> = s.split_whitespace().collect();
    match parse_words(&ws)? {
        (a, []) => Some(a),
        _ => None,
    }
}

/// an arbitrary `impl Pattern` leaf: the returned length is a function of the slice length
struct FnLeaf(Box<dyn Fn(usize) -> usize + Send + Sync>);
impl Pattern for FnLeaf {
    fn matches(&self, tokens: &[Token], _source: &[char]) -> usize {
        (self.0)(tokens.len())
    }
}

/// The SAME pattern from the real combinators. `Arc<dyn Pattern>` is a `Pattern` (blanket impl of
/// the crate) — that is how a boxed child goes into `SequencePattern::then` / `Invert::new`.
fn build(a: &Ast) -> Box<dyn Pattern> {
    fn arc(a: &Ast) -> Arc<dyn Pattern> {
        Arc::from(build(a))
    }
    match a {
        Ast::Leaf(0) => Box::new(|t: &Token, _: &[char]| t.kind.is_word()),
        Ast::Leaf(1) => Box::new(|t: &Token, _: &[char]| t.kind.is_space()),
        Ast::Leaf(2) => Box::new(|t: &Token, _: &[char]| t.kind.is_period()),
        Ast::Leaf(3) => Box::new(|t: &Token, _: &[char]| t.kind.is_comma()),
        Ast::Leaf(k) => {
            let k = *k;
            Box::new(move |t: &Token, _: &[char]| code(&t.kind) == k)
        }
        Ast::Const(n) => {
            let n = *n;
            Box::new(FnLeaf(Box::new(move |_| n)))
        }
        Ast::Upto(n) => {
            let n = *n;
            Box::new(FnLeaf(Box::new(move |len| n.min(len))))
        }
        Ast::Zed(n) => {
            let n = *n;
            Box::new(FnLeaf(Box::new(move |len| if len == 0 { n } else { 0 })))
        }
        Ast::Any => Box::new(AnyPattern),
        Ast::Ws => Box::new(WhitespacePattern),
        Ast::Seq(cs) => {
            let mut s = SequencePattern::default();
            for c in cs {
                s = s.then(arc(c));
            }
            Box::new(s)
        }
        Ast::Rep(n, p) => Box::new(RepeatingPattern::new(build(p), *n)),
        Ast::Or(cs) => Box::new(EitherPattern::new(cs.iter().map(build).collect())),
        Ast::All(cs) => Box::new(All::new(cs.iter().map(build).collect())),
        Ast::Inv(p) => Box::new(Invert::new(arc(p))),
        Ast::Rem(p) => Box::new(ConsumesRemainingPattern::new(build(p))),
    }
}

// ---------------------------------------------------------------------------------------------
// the tiny `PatternLinter` through which `run_on_chunk` (private) is reached

struct PL {
    pat: Box<dyn Pattern>,
}
impl PatternLinter for PL {
    fn pattern(&self) -> &dyn Pattern {
        self.pat.as_ref()
    }
    fn match_to_lint(&self, matched: &[Token], _source: &[char]) -> Option<Lint> {
        // where in the document's token vector the matched slice lies
        Some(Lint { message: format!("{}:{}", matched.as_ptr() as usize, matched.len()), ..Default::default() })
    }
    fn description(&self) -> &str {
        "harness"
    }
}

struct FixedParser(Vec<Token>);
impl Parser for FixedParser {
    fn parse(&self, _source: &[char]) -> Vec<Token> {
        self.0.clone()
    }
}

fn slice_pos(base: &[Token], sub_ptr: usize) -> usize {
    (sub_ptr - base.as_ptr() as usize) / std::mem::size_of::<Token>()
}

// ---------------------------------------------------------------------------------------------
// jobs

#[derive(Clone, Debug)]
pub enum Job {
    /// `matches` on every kind string of length ≤ L over 0..3
    PatA(usize, Ast),
    /// `find_all_matches` on every such string
    FamA(usize, Ast),
    Pat(Ast, Vec<usize>),
    Fam(Ast, Vec<usize>),
    /// blanket `Linter::lint` on a document whose parser returns exactly these tokens
    LintSynth(Ast, Vec<usize>),
    /// … on a plain-English document
    LintText(Ast, String),
    /// chunk iterator (`c`/`s`/`p`) on a bare token slice
    Chunks(char, Vec<usize>),
    /// … on the tokens of a plain-English document
    ChunksText(char, String),
}

#[derive(Default)]
pub struct JobOut {
    op: String,
    imp: String,
    fails: Vec<(String, String, Value)>,
    counts: Vec<String>,
    nontrivial: bool,
    evals: u64,
    skipped: bool,
}

pub fn strings_upto(l: usize) -> Vec<Vec<usize>> {
    let mut out = vec![];
    for n in 0..=l {
        let total = 4usize.pow(n as u32);
        for c in 0..total {
            let mut v = vec![0; n];
            let mut x = c;
            for i in (0..n).rev() {
                v[i] = x % 4;
                x /= 4;
            }
            out.push(v);
        }
    }
    out
}

fn pairs_field(ms: &[(usize, usize)]) -> String {
    ms.iter().map(|(s, l)| format!("{}:{}", s, l)).collect::<Vec<_>>().join(" ")
}

/// O on one `matches` result
fn judge_len(a: &Ast, r: &Result<usize, String>, codes: &[usize], out: &mut JobOut) {
    if !a.keeps_contract() {
        if r.is_err() {
            out.counts.push("expected-panic(contract-breaking-leaf)".into());
        }
        return;
    }
    let inp = || json!({"op": "pat", "pat": a.show(), "kinds": codes});
    match r {
        Err(m) => out.fails.push(("pattern-panic".into(), format!("matches panicked: {}", trunc(m, 120)), inp())),
        Ok(n) if *n > codes.len() => out.fails.push((
            "pattern-overrun".into(),
            format!("matches returned {} for {} tokens", n, codes.len()),
            inp(),
        )),
        _ => {}
    }
}

/// O on one `find_all_matches` / `lint` result
fn judge_spans(op: &str, a: &Ast, r: &Result<Vec<(usize, usize)>, String>, ntoks: usize, input: Value, out: &mut JobOut) {
    if !a.keeps_contract() {
        if r.is_err() {
            out.counts.push("expected-panic(contract-breaking-leaf)".into());
        }
        return;
    }
    match r {
        Err(m) => out.fails.push(("pattern-panic".into(), format!("{} panicked: {}", op, trunc(m, 120)), input)),
        Ok(ms) => {
            if ms.iter().any(|(s, l)| *l == 0 || s + l > ntoks) {
                out.fails.push(("pattern-overrun".into(), format!("{} reported a span outside the {} tokens: {:?}", op, ntoks, ms), input));
            } else if op == "lint" && ms.windows(2).any(|w| w[0].0 + w[0].1 > w[1].0) {
                out.fails.push(("lint-overlap".into(), format!("lint matches overlap or are unordered: {:?}", ms), input));
            } else if op == "fam" && ms.windows(2).any(|w| w[0].0 + w[0].1 > w[1].0) {
                // documented as "non-overlapping"; the model shows it is not (not a crash: counted)
                out.counts.push("fam:result-has-overlap".into());
            }
        }
    }
}

fn run_fam(p: &Arc<dyn Pattern>, toks: &[Token], src: &[char]) -> Result<Vec<(usize, usize)>, String> {
    guarded(|| p.find_all_matches(toks, src)).and_then(|spans| {
        // Span::len underflows on a reversed span; keep it a value
        spans.iter().map(|s| if s.end >= s.start { Ok((s.start, s.end - s.start)) } else { Err("reversed span".to_string()) }).collect()
    })
}

fn run_lint(a: &Ast, doc: &Document) -> Result<Vec<(usize, usize)>, String> {
    let mut pl = PL { pat: build(a) };
    let lints = guarded(|| pl.lint(doc))?;
    let base = doc.get_tokens();
    Ok(lints
        .iter()
        .map(|l| {
            let (p, n) = l.message.split_once(':').unwrap();
            (slice_pos(base, p.parse().unwrap()), n.parse().unwrap())
        })
        .collect())
}

fn show_spans(r: &Result<Vec<(usize, usize)>, String>) -> String {
    match r {
        Ok(ms) => format!("ok {}", pairs_field(ms)).trim_end().to_string(),
        Err(_) => "panic".into(),
    }
}

fn chunk_iter<'a>(which: char, toks: &'a [Token]) -> Vec<&'a [Token]> {
    match which {
        'c' => toks.iter_chunks().collect(),
        's' => toks.iter_sentences().collect(),
        _ => toks.iter_paragraphs().collect(),
    }
}

fn run_chunks(which: char, toks: &[Token], input: Value, out: &mut JobOut) {
    let codes: Vec<usize> = toks.iter().map(|t| code(&t.kind)).collect();
    out.op = format!("chunks {} | {}", which, codes_field(&codes)).trim_end().to_string();
    let r = guarded(|| {
        chunk_iter(which, toks).into_iter().map(|c| (slice_pos(toks, c.as_ptr() as usize), c.len())).collect::<Vec<_>>()
    });
    out.imp = show_spans(&r);
    out.counts.push(format!("chunks:{}", which));
    match &r {
        Err(m) => out.fails.push(("chunks-panic".into(), format!("chunk iterator panicked: {}", trunc(m, 120)), input)),
        Ok(cs) => {
            // partition: contiguous from 0 to len, non-empty unless the slice is empty
            let mut at = 0;
            let mut ok = true;
            for (s, l) in cs {
                ok &= *s == at && (*l > 0 || toks.is_empty());
                at = s + l;
            }
            ok &= at == toks.len() && cs.len() <= toks.len().max(1);
            if !ok {
                out.fails.push(("chunks-not-partition".into(), format!("chunks {:?} do not partition {} tokens", cs, toks.len()), input));
            }
            if cs.len() > 1 {
                out.nontrivial = true;
            }
        }
    }
}

fn dict() -> Arc<FstDictionary> {
    FstDictionary::curated()
}

pub fn run_job(job: &Job) -> JobOut {
    let mut out = JobOut::default();
    match job {
        Job::PatA(l, a) | Job::FamA(l, a) => {
            let is_pat = matches!(job, Job::PatA(..));
            let p: Arc<dyn Pattern> = Arc::from(build(a));
            let mut cells = Vec::new();
            for codes in strings_upto(*l) {
                let (toks, src) = mk_tokens(&codes);
                out.evals += 1;
                if is_pat {
                    let r = guarded(|| p.matches(&toks, &src));
                    judge_len(a, &r, &codes, &mut out);
                    match r {
                        Ok(n) => {
                            out.nontrivial |= n > 0;
                            cells.push(n.to_string())
                        }
                        Err(_) => {
                            out.nontrivial = true;
                            cells.push("P".into())
                        }
                    }
                } else {
                    let r = run_fam(&p, &toks, &src);
                    judge_spans("fam", a, &r, codes.len(), json!({"op": "fam", "pat": a.show(), "kinds": codes}), &mut out);
                    match r {
                        Ok(ms) if ms.is_empty() => cells.push("-".into()),
                        Ok(ms) => {
                            out.nontrivial = true;
                            cells.push(ms.iter().map(|(s, l)| format!("{}:{}", s, l)).collect::<Vec<_>>().join(","))
                        }
                        Err(_) => {
                            out.nontrivial = true;
                            cells.push("P".into())
                        }
                    }
                }
            }
            out.op = format!("{} {} {}", if is_pat { "pata" } else { "fama" }, l, a.show());
            out.imp = format!("ok {}", cells.join(" "));
            out.counts.push(format!("{}:depth{}", if is_pat { "pata" } else { "fama" }, a.depth()));
            // keep at most one failure per line (the first failing string)
            out.fails.truncate(1);
            out.counts.sort();
            out.counts.dedup();
        }
        Job::Pat(a, codes) => {
            let (toks, src) = mk_tokens(codes);
            let p = build(a);
            let r = guarded(|| p.matches(&toks, &src));
            out.evals = 1;
            judge_len(a, &r, codes, &mut out);
            out.op = format!("pat {} | {}", a.show(), codes_field(codes)).trim_end().to_string();
            out.imp = match &r {
                Ok(n) => format!("ok {}", n),
                Err(_) => "panic".into(),
            };
            out.nontrivial = !matches!(r, Ok(0));
            out.counts.push(format!("pat:depth{}", a.depth().min(6)));
        }
        Job::Fam(a, codes) => {
            let (toks, src) = mk_tokens(codes);
            let p: Arc<dyn Pattern> = Arc::from(build(a));
            let r = run_fam(&p, &toks, &src);
            out.evals = 1;
            judge_spans("fam", a, &r, codes.len(), json!({"op": "fam", "pat": a.show(), "kinds": codes}), &mut out);
            out.op = format!("fam {} | {}", a.show(), codes_field(codes)).trim_end().to_string();
            out.imp = show_spans(&r);
            out.nontrivial = !matches!(&r, Ok(ms) if ms.is_empty());
            out.counts.push(format!("fam:depth{}", a.depth().min(6)));
        }
        Job::LintSynth(a, codes) => {
            let (toks, src) = mk_tokens(codes);
            let text: String = src.iter().collect();
            // Document::new runs its condense passes over the synthetic tokens; whatever comes
            // out is what the linter sees and what the model is given
            let doc = match guarded(|| Document::new(&text, &FixedParser(toks), &dict())) {
                Ok(d) => d,
                Err(_) => {
                    out.skipped = true;
                    out.counts.push("lint-synth:document-build-panicked(skipped)".into());
                    return out;
                }
            };
            lint_on(a, &doc, json!({"op": "lint-synth", "pat": a.show(), "kinds": codes}), "lint-synth", &mut out);
        }
        Job::LintText(a, text) => {
            let doc = match guarded(|| Document::new(text, &PlainEnglish, &dict())) {
                Ok(d) => d,
                Err(_) => {
                    out.skipped = true;
                    out.counts.push("lint-text:document-build-panicked(skipped)".into());
                    return out;
                }
            };
            lint_on(a, &doc, json!({"op": "lint-text", "pat": a.show(), "text": text}), "lint-text", &mut out);
        }
        Job::Chunks(which, codes) => {
            let (toks, _src) = mk_tokens(codes);
            run_chunks(*which, &toks, json!({"op": "chunks", "which": which.to_string(), "kinds": codes}), &mut out);
            out.evals = 1;
        }
        Job::ChunksText(which, text) => {
            let doc = match guarded(|| Document::new(text, &PlainEnglish, &dict())) {
                Ok(d) => d,
                Err(_) => {
                    out.skipped = true;
                    out.counts.push("chunks-text:document-build-panicked(skipped)".into());
                    return out;
                }
            };
            run_chunks(*which, doc.get_tokens(), json!({"op": "chunks-text", "which": which.to_string(), "text": text}), &mut out);
            out.evals = 1;
        }
    }
    out
}

fn lint_on(a: &Ast, doc: &Document, input: Value, label: &str, out: &mut JobOut) {
    let codes: Vec<usize> = doc.get_tokens().iter().map(|t| code(&t.kind)).collect();
    let r = run_lint(a, doc);
    out.evals = 1;
    judge_spans("lint", a, &r, codes.len(), input, out);
    out.op = format!("lint {} | {}", a.show(), codes_field(&codes)).trim_end().to_string();
    out.imp = show_spans(&r);
    out.nontrivial = !matches!(&r, Ok(ms) if ms.is_empty());
    out.counts.push(format!("{}:depth{}", label, a.depth().min(6)));
    let nchunks = doc.get_tokens().iter_chunks().count();
    out.counts.push(format!("{}:chunks{}", label, nchunks.min(4)));
}

/// Run jobs on all cores, in batches under a watchdog (a hang is `timeout`), record in order.
pub fn run_jobs(sess: &mut Session, jobs: Vec<Job>) {
    const BATCH: usize = 128;
    let jobs = Arc::new(jobs);
    let nb = jobs.len().div_ceil(BATCH);
    let threads = std::thread::available_parallelism().map(|n| n.get()).unwrap_or(4).min(16);
    let results: Vec<Vec<JobOut>> = par_map(nb, threads, |b| {
        let lo = b * BATCH;
        let hi = (lo + BATCH).min(jobs.len());
        let js = jobs.clone();
        match with_timeout(60_000, move || (lo..hi).map(|i| run_job(&js[i])).collect::<Vec<_>>()) {
            Some(Ok(v)) => v,
            _ => {
                // one of them hangs (or the batch died): run each under its own watchdog
                (lo..hi)
                    .map(|i| {
                        let js = jobs.clone();
                        match with_timeout(5_000, move || run_job(&js[i])) {
                            Some(Ok(o)) => o,
                            _ => {
                                let mut o = JobOut::default();
                                let (op, input) = describe(&jobs[i]);
                                o.op = op;
                                o.imp = "timeout".into();
                                o.fails.push(("pattern-hang".into(), "no result within 5 s".into(), input));
                                o
                            }
                        }
                    })
                    .collect()
            }
        }
    });
    for o in results.into_iter().flatten() {
        for c in &o.counts {
            sess.count(c);
        }
        if o.skipped {
            continue;
        }
        let case = sess.k(&o.op, &o.imp);
        sess.add("evaluations(real-code-calls)", o.evals);
        if o.nontrivial {
            sess.nontrivial(&o.op);
        }
        for (class, desc, input) in o.fails {
            sess.fail(&class, desc, input, Some(case));
        }
    }
}

/// op line and replay input of a job that did not come back
fn describe(job: &Job) -> (String, Value) {
    match job {
        Job::PatA(l, a) => (format!("pata {} {}", l, a.show()), json!({"op": "pata", "pat": a.show(), "L": l})),
        Job::FamA(l, a) => (format!("fama {} {}", l, a.show()), json!({"op": "fama", "pat": a.show(), "L": l})),
        Job::Pat(a, c) => (format!("pat {} | {}", a.show(), codes_field(c)), json!({"op": "pat", "pat": a.show(), "kinds": c})),
        Job::Fam(a, c) => (format!("fam {} | {}", a.show(), codes_field(c)), json!({"op": "fam", "pat": a.show(), "kinds": c})),
        Job::LintSynth(a, c) => (format!("lint {} | {}", a.show(), codes_field(c)), json!({"op": "lint-synth", "pat": a.show(), "kinds": c})),
        Job::LintText(a, t) => (format!("lint {} | ?", a.show()), json!({"op": "lint-text", "pat": a.show(), "text": t})),
        Job::Chunks(w, c) => (format!("chunks {} | {}", w, codes_field(c)), json!({"op": "chunks", "which": w.to_string(), "kinds": c})),
        Job::ChunksText(w, t) => (format!("chunks {} | ?", w), json!({"op": "chunks-text", "which": w.to_string(), "text": t})),
    }
}

fn job_of_input(v: &Value) -> Option<Job> {
    let op = v["op"].as_str()?;
    let ast = || parse_ast(v["pat"].as_str()?);
    let kinds = || -> Option<Vec<usize>> { serde_json::from_value(v["kinds"].clone()).ok() };
    let which = || v["which"].as_str().and_then(|s| s.chars().next());
    Some(match op {
        "pat" => Job::Pat(ast()?, kinds()?),
        "fam" => Job::Fam(ast()?, kinds()?),
        "pata" => Job::PatA(v["L"].as_u64()? as usize, ast()?),
        "fama" => Job::FamA(v["L"].as_u64()? as usize, ast()?),
        "lint-synth" => Job::LintSynth(ast()?, kinds()?),
        "lint-text" => Job::LintText(ast()?, v["text"].as_str()?.to_string()),
        "chunks" => Job::Chunks(which()?, kinds()?),
        "chunks-text" => Job::ChunksText(which()?, v["text"].as_str()?.to_string()),
        _ => return None,
    })
}

// ---------------------------------------------------------------------------------------------
// generators

/// one more level of every constructor over `base` (small child lists)
fn grow(base: &[Ast]) -> Vec<Ast> {
    let mut out: Vec<Ast> = base.to_vec();
    out.push(Ast::Seq(vec![]));
    for x in base {
        out.push(Ast::Seq(vec![x.clone()]));
    }
    for x in base {
        for y in base {
            out.push(Ast::Seq(vec![x.clone(), y.clone()]));
        }
    }
    for x in base {
        for n in 0..3 {
            out.push(Ast::Rep(n, Box::new(x.clone())));
        }
    }
    for x in base {
        for y in base {
            out.push(Ast::Or(vec![x.clone(), y.clone()]));
        }
    }
    for x in base {
        for y in base {
            out.push(Ast::All(vec![x.clone(), y.clone()]));
        }
    }
    for x in base {
        out.push(Ast::Inv(Box::new(x.clone())));
    }
    for x in base {
        out.push(Ast::Rem(Box::new(x.clone())));
    }
    let mut seen = std::collections::HashSet::new();
    out.retain(|a| seen.insert(a.show()));
    out
}

fn random_leaf(rng: &mut Rng, breaking: bool) -> Ast {
    match rng.below(if breaking { 12 } else { 9 }) {
        0 | 1 => Ast::Leaf(0),
        2 => Ast::Leaf(1),
        3 => Ast::Leaf(rng.range(2, 8)),
        4 | 5 => Ast::Any,
        6 | 7 => Ast::Ws,
        8 => Ast::Upto(rng.below(4)),
        9 => Ast::Const(rng.range(1, 3)),
        10 => Ast::Zed(rng.range(1, 2)),
        _ => Ast::Const(0),
    }
}

pub fn random_ast(rng: &mut Rng, depth: usize, breaking: bool) -> Ast {
    if depth == 0 || rng.chance(1, 5) {
        return random_leaf(rng, breaking);
    }
    let kids = |rng: &mut Rng| -> Vec<Ast> {
        let n = match rng.below(8) {
            0 => 0,
            1 | 2 => 1,
            3 | 4 | 5 => 2,
            6 => 3,
            _ => 4,
        };
        (0..n).map(|_| random_ast(rng, depth - 1, breaking)).collect()
    };
    match rng.below(9) {
        0 | 1 | 2 => Ast::Seq(kids(rng)),
        3 | 4 => Ast::Rep(rng.below(4), Box::new(random_ast(rng, depth - 1, breaking))),
        5 => Ast::Or(kids(rng)),
        6 => Ast::All(kids(rng)),
        7 => Ast::Inv(Box::new(random_ast(rng, depth - 1, breaking))),
        _ => Ast::Rem(Box::new(random_ast(rng, depth - 1, breaking))),
    }
}

fn random_codes(rng: &mut Rng, max_len: usize) -> Vec<usize> {
    let n = rng.below(max_len + 1);
    (0..n)
        .map(|_| match rng.below(12) {
            0..=3 => 0,
            4..=6 => 1,
            7 => 2,
            8 => 3,
            9 => 4,
            _ => rng.range(5, 8),
        })
        .collect()
}

fn all_texts(alpha: &[char], max_len: usize) -> Vec<String> {
    let mut out = vec![String::new()];
    let mut layer = vec![String::new()];
    for _ in 0..max_len {
        let mut next = vec![];
        for s in &layer {
            for c in alpha {
                let mut t = s.clone();
                t.push(*c);
                next.push(t);
            }
        }
        out.extend(next.iter().cloned());
        layer = next;
    }
    out
}

fn all_codes(alpha: &[usize], max_len: usize) -> Vec<Vec<usize>> {
    let mut out = vec![vec![]];
    let mut layer: Vec<Vec<usize>> = vec![vec![]];
    for _ in 0..max_len {
        let mut next = vec![];
        for s in &layer {
            for c in alpha {
                let mut t = s.clone();
                t.push(*c);
                next.push(t);
            }
        }
        out.extend(next.iter().cloned());
        layer = next;
    }
    out
}

fn p(s: &str) -> Ast {
    parse_ast(s).unwrap_or_else(|| panic!("bad corpus pattern {}", s))
}

/// patterns every text/chunk stream is run with (shapes of real rules + witnesses)
fn curated_patterns() -> Vec<Ast> {
    [
        "( seq k0 ws k0 )",
        "( rep 1 k0 )",
        "( seq any ( inv any ) )",
        "( seq k0 ( inv k1 ) )",
        "( seq k0 ws ( inv k0 ) )",
        "( or ( seq k0 any any any any ) ( seq k3 k2 ) ( seq k3 k1 any ) )",
        "( seq ( rep 0 ( seq k0 ws ) ) k0 )",
        "( rem ( seq k0 ( rep 0 any ) ) )",
        "( all ( rep 1 any ) ( seq k0 ws ) )",
        "( seq any z1 )",
        "( seq k0 c1 c1 )",
        "any",
        "ws",
        "( seq )",
    ]
    .iter()
    .map(|s| p(s))
    .collect()
}

pub fn run_into(sess: &mut Session, ctx: &Ctx, rng: &mut Rng) {
    let thorough = ctx.tier == Tier::Thorough;
    let mut jobs: Vec<Job> = vec![];

    // 1. corpus: witnesses of the Lean examples and of the historical `Invert` panic
    for (pat, kinds) in [
        ("( seq any c1 )", vec![0]),
        ("( seq any c1 any )", vec![0]),
        ("( rep 0 c1 )", vec![0, 1, 2]),
        ("( seq any z1 )", vec![0, 1]),
        ("( seq any ( inv any ) )", vec![0, 1]),
        ("( seq k0 ws k0 )", vec![0, 1, 0, 1, 0, 1, 0]),
        ("( or ( seq k0 any any any any ) ( seq k3 k2 ) ( seq k3 k1 any ) )", vec![0, 3, 2, 3, 1, 0]),
        ("( or )", vec![0]),
        ("( all )", vec![0]),
        ("( all k0 )", vec![0]),
        ("( or k0 ws any )", vec![1, 1, 0]),
        ("( rep 3 any )", vec![0, 0]),
        ("( rep 0 ( seq ) )", vec![0]),
        ("( rep 0 ( rep 0 any ) )", vec![0, 0]),
        ("( rem ws )", vec![1, 4, 1]),
        ("( seq k0 ws ( rep 1 ( or k0 u2 ) ) ( all ( inv k0 ) any ) ( rem ( rep 0 any ) ) )", vec![0, 1, 0, 3, 3, 0, 2, 7]),
    ] {
        let a = p(pat);
        jobs.push(Job::Pat(a.clone(), kinds.clone()));
        jobs.push(Job::Fam(a.clone(), kinds.clone()));
        jobs.push(Job::LintSynth(a.clone(), kinds.clone()));
    }
    for t in ["the how", "better then ", "a,., b", "a b c d", "", " ", "a.", "a, b. c: d! e\n\nf"] {
        for a in curated_patterns() {
            jobs.push(Job::LintText(a, t.to_string()));
        }
        for w in ['c', 's', 'p'] {
            jobs.push(Job::ChunksText(w, t.to_string()));
        }
    }
    run_jobs(sess, std::mem::take(&mut jobs));

    // 2. exhaustive small scope
    //    patterns: two levels of every constructor (child lists ≤ 2, repetitions 0..2) over the
    //    atoms, × all kind strings of length ≤ 4 over {word, space, period, comma}
    let atoms5 = vec![Ast::Leaf(0), Ast::Leaf(1), Ast::Any, Ast::Ws, Ast::Const(1)];
    let atoms7 = vec![Ast::Leaf(0), Ast::Leaf(1), Ast::Leaf(2), Ast::Any, Ast::Ws, Ast::Upto(2), Ast::Const(1)];
    let d1 = grow(if thorough { &atoms7 } else { &atoms5 });
    let d2 = grow(&d1);
    sess.add("exhaustive:patterns-of-two-levels", d2.len() as u64);
    for a in &d2 {
        jobs.push(Job::PatA(4, a.clone()));
    }
    for a in &d2 {
        jobs.push(Job::FamA(3, a.clone()));
    }
    if thorough {
        // find_all_matches on strings of length 4 as well (long lines: the smaller atom set)
        for a in &grow(&grow(&atoms5)) {
            jobs.push(Job::FamA(4, a.clone()));
        }
    }
    run_jobs(sess, std::mem::take(&mut jobs));
    //    `run_on_chunk` through the blanket `Linter::lint`: depth ≤ 1 patterns × all kind strings ≤ 4
    //    (explicit lines: `Document::new` may condense the synthetic tokens)
    for codes in strings_upto(4) {
        for a in &d1 {
            jobs.push(Job::LintSynth(a.clone(), codes.clone()));
        }
    }
    //    … and curated patterns × all texts of length ≤ 5 over {a, ' ', '.', ','}
    let texts = all_texts(&['a', ' ', '.', ','], if thorough { 6 } else { 5 });
    let cur = curated_patterns();
    for t in &texts {
        for a in &cur {
            jobs.push(Job::LintText(a.clone(), t.clone()));
        }
    }
    //    chunk iterators: all kind strings of length ≤ 5 over {word, space, period, comma, parbreak}
    for codes in all_codes(&[0, 1, 2, 3, 5], if thorough { 6 } else { 5 }) {
        for w in ['c', 's', 'p'] {
            jobs.push(Job::Chunks(w, codes.clone()));
        }
    }
    for t in all_texts(&['a', ' ', '.', ',', '\n'], 4) {
        for w in ['c', 's', 'p'] {
            jobs.push(Job::ChunksText(w, t.clone()));
        }
    }
    run_jobs(sess, std::mem::take(&mut jobs));

    // 3. structured random: deeper trees, longer token strings, all nine kind codes;
    //    contract-keeping trees (O applies) and trees with contract-breaking leaves (K only)
    let nrand = if thorough { 400_000 } else { 40_000 };
    let sents = crate::corpus::sentences();
    for i in 0..nrand {
        let breaking = i % 3 == 0;
        let depth = rng.range(1, 5);
        let a = random_ast(rng, depth, breaking);
        let codes = random_codes(rng, 12);
        let mut tags = vec![];
        a.tags(&mut tags);
        tags.sort();
        tags.dedup();
        for t in tags {
            sess.count(&format!("random:uses-{}", t));
        }
        sess.count(if a.keeps_contract() { "random:contract-keeping" } else { "random:contract-breaking" });
        match i % 5 {
            0 | 1 => jobs.push(Job::Pat(a, codes)),
            2 => jobs.push(Job::Fam(a, codes)),
            3 => jobs.push(Job::LintSynth(a, codes)),
            _ => {
                let mut text = if sents.is_empty() { crate::textgen::sentence(rng) } else { sents[rng.below(sents.len())].clone() };
                if rng.chance(1, 3) {
                    text = crate::textgen::mutate(rng, &text);
                }
                if i % 10 == 4 {
                    jobs.push(Job::ChunksText(*rng.pick(&['c', 's', 'p']), text));
                } else {
                    jobs.push(Job::LintText(a, text));
                }
            }
        }
    }
    run_jobs(sess, std::mem::take(&mut jobs));
}

pub const RULE: &str = "corpus (Lean witnesses, the historical Invert panic); EXHAUSTIVE: every pattern of two constructor levels (seq/or/all with ≤2 children, rep 0..2, inv, rem) over the atoms {word, space, any, whitespace, a contract-breaking leaf} (thorough: + period, a contract-keeping arbitrary leaf) × every kind string of length ≤4 over {word, space, period, comma} for matches (find_all_matches: ≤3; thorough also ≤4 over the smaller atom set); one-level patterns × all such strings and curated patterns × all texts ≤5 over {a, space, '.', ','} through the blanket Linter::lint (run_on_chunk over iter_chunks); the three chunk iterators on all kind strings ≤5 over 5 kinds and all texts ≤4 over 5 characters; RANDOM: trees of depth ≤5 with ≤4 children over nine kind codes and four arbitrary-leaf families on token strings ≤12 and on rule-test sentences (mutated). Non-trivial = some match found or a panic; distinct by op line.";

pub fn run(ctx: &Ctx) {
    let mut sess = Session::new(ctx);
    let mut rng = Rng::new(ctx.seed);
    if let Some(v) = replay_input(ctx) {
        match job_of_input(&v) {
            Some(j) => run_jobs(&mut sess, vec![j]),
            None => eprintln!("replay input not understood: {}", v),
        }
        sess.nontrivial("replay-a");
        sess.nontrivial("replay-b");
        sess.finish("replay of one recorded input", false, json!({}));
        return;
    }
    run_into(&mut sess, ctx, &mut rng);
    sess.finish(RULE, true, json!({"exhaustive_scope": "patterns of ≤2 constructor levels × kind strings ≤4 over 4 kinds; see rule"}));
}
