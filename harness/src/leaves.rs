//! The REAL leaf patterns and the generic rule constructions against `lean/Harper/Model/Leaves.lean`
//! (called from c01.rs, c03.rs and c12.rs).
//!
//! K (`leafm`): a pattern tree is built twice from one description (`PS`): with the public constructors
//!   of `harper_core::patterns` and as prefix text for the model; `matches(&tokens[i..], source)` for every
//!   suffix of a real document's tokens is compared with the model (`ok n₀ … n_len`, `p` = panic).
//! K (`mphrase`, `pnoun`): the tables of `phrase_corrections.rs`, `closed_compounds.rs` and
//!   `proper_noun_rules.json` are harvested at run time; for every row the shipped rule (`LintGroup` with
//!   only that rule on) is compared lint for lint with the model's generic construction instantiated with
//!   the row, on the row's own trigger phrases in sentences, case variants, multi-token whitespace, chunk
//!   ends, Markdown, and both paragraphs of (P, D) pairs.
//! O: spans in range, no panic, `lint(P+D) = lint(P) ++ shift(lint(D))` per rule; `merge_linters!` outputs
//!   are overlap-free.
use crate::common::*;
use crate::corpus;
use crate::tokfmt::*;
use harper_core::linting::{CompoundNouns, HopHope, LetsConfusion, Lint, LintGroup, LintKind, Linter, MapPhraseLinter, PronounContraction, Suggestion};
use harper_core::parsers::{Markdown, PlainEnglish};
use harper_core::patterns::{
    All, AnyCapitalization, AnyPattern, ConsumesRemainingPattern, EitherPattern, ExactPhrase, ImpliesQuantity, IndefiniteArticle, Invert, IsNotTitleCase, NaivePatternGroup, NominalPhrase, Pattern,
    PatternMap, RepeatingPattern, SequencePattern, SimilarToPhrase, SplitCompoundWord, WhitespacePattern, WordPatternGroup, WordSet,
};
use harper_core::{CharStringExt, Dialect, Dictionary, Document, FstDictionary, Punctuation, Token, TokenKind};
use serde_json::{Value, json};
use std::cell::RefCell;
use std::collections::{BTreeMap, BTreeSet};
use std::sync::Arc;

fn dict() -> Arc<FstDictionary> {
    FstDictionary::curated()
}

fn leak(s: &str) -> &'static str {
    Box::leak(s.to_string().into_boxed_str())
}

fn cps_str(s: &str) -> String {
    cps(&s.chars().collect::<Vec<_>>())
}

fn cps(cs: &[char]) -> String {
    if cs.is_empty() { "-".to_string() } else { cs.iter().map(|c| (*c as u32).to_string()).collect::<Vec<_>>().join(".") }
}

/// a pattern description: builds the REAL pattern and prints the model's prefix syntax
#[derive(Clone, Debug)]
pub enum PS {
    /// `SequencePattern::default().then_<q>()` (mode 0) / `then_anything_but_<q>()` (1) / `then_one_or_more_<q>s()` (2)
    Kp(&'static str, u8),
    AnyWord,
    Strict(TokenKind),
    Xw(String),
    Ac(String),
    Wset(Vec<String>),
    Ed(String, u8),
    Sp,
    Any,
    Np,
    Iq,
    Ia,
    ThenIa,
    Scw(u32),
    Seq(Vec<PS>),
    Rep(Box<PS>, usize),
    Either(Vec<PS>),
    AllOf(Vec<PS>),
    Inv(Box<PS>),
    Cons(Box<PS>),
    Naive(Vec<PS>),
    PMap(Vec<PS>),
    Ntc(Box<PS>),
    /// `WordPatternGroup`: `add(word, pat)` (Some) / `add_word(word)` (None) in order
    Wg(Vec<(String, Option<PS>)>),
    /// `ExactPhrase::from_phrase(text)`
    Xp(String),
    /// `ExactPhrase::from_document(Document::new(text, &PlainEnglish, curated))` (what the proper-noun linter does)
    XpPlain(String),
    /// `SimilarToPhrase::from_phrase(text, d)`
    Stp(String, u8),
}

macro_rules! q3 {
    ($s:ident, $mode:expr, $a:ident, $b:ident, $c:ident) => {
        match $mode {
            0 => $s.$a(),
            1 => $s.$b(),
            _ => $s.$c(),
        }
    };
}

pub const QUALITIES: [&str; 21] = [
    "nominal", "noun", "possessive_nominal", "plural_nominal", "verb", "linking_verb", "pronoun", "punctuation", "conjunction", "comma", "period", "number", "case_separator", "adverb", "adjective",
    "apostrophe", "hyphen", "determiner", "proper_noun", "preposition", "not_plural_nominal",
];

fn kp_seq(q: &str, mode: u8) -> SequencePattern {
    let s = SequencePattern::default();
    match q {
        "nominal" => q3!(s, mode, then_nominal, then_anything_but_nominal, then_one_or_more_nominals),
        "noun" => q3!(s, mode, then_noun, then_anything_but_noun, then_one_or_more_nouns),
        "possessive_nominal" => q3!(s, mode, then_possessive_nominal, then_anything_but_possessive_nominal, then_one_or_more_possessive_nominals),
        "plural_nominal" => q3!(s, mode, then_plural_nominal, then_anything_but_plural_nominal, then_one_or_more_plural_nominals),
        "verb" => q3!(s, mode, then_verb, then_anything_but_verb, then_one_or_more_verbs),
        "linking_verb" => q3!(s, mode, then_linking_verb, then_anything_but_linking_verb, then_one_or_more_linking_verbs),
        "pronoun" => q3!(s, mode, then_pronoun, then_anything_but_pronoun, then_one_or_more_pronouns),
        "punctuation" => q3!(s, mode, then_punctuation, then_anything_but_punctuation, then_one_or_more_punctuations),
        "conjunction" => q3!(s, mode, then_conjunction, then_anything_but_conjunction, then_one_or_more_conjunctions),
        "comma" => q3!(s, mode, then_comma, then_anything_but_comma, then_one_or_more_commas),
        "period" => q3!(s, mode, then_period, then_anything_but_period, then_one_or_more_periods),
        "number" => q3!(s, mode, then_number, then_anything_but_number, then_one_or_more_numbers),
        "case_separator" => q3!(s, mode, then_case_separator, then_anything_but_case_separator, then_one_or_more_case_separators),
        "adverb" => q3!(s, mode, then_adverb, then_anything_but_adverb, then_one_or_more_adverbs),
        "adjective" => q3!(s, mode, then_adjective, then_anything_but_adjective, then_one_or_more_adjectives),
        "apostrophe" => q3!(s, mode, then_apostrophe, then_anything_but_apostrophe, then_one_or_more_apostrophes),
        "hyphen" => q3!(s, mode, then_hyphen, then_anything_but_hyphen, then_one_or_more_hyphens),
        "determiner" => q3!(s, mode, then_determiner, then_anything_but_determiner, then_one_or_more_determiners),
        "proper_noun" => q3!(s, mode, then_proper_noun, then_anything_but_proper_noun, then_one_or_more_proper_nouns),
        "preposition" => q3!(s, mode, then_preposition, then_anything_but_preposition, then_one_or_more_prepositions),
        "not_plural_nominal" => q3!(s, mode, then_not_plural_nominal, then_anything_but_not_plural_nominal, then_one_or_more_not_plural_nominals),
        _ => panic!("unknown quality {}", q),
    }
}

impl PS {
    pub fn build(&self) -> Arc<dyn Pattern> {
        let boxed = |p: &PS| -> Box<dyn Pattern> { Box::new(p.build()) };
        match self {
            PS::Kp(q, mode) => Arc::new(kp_seq(q, *mode)),
            PS::AnyWord => Arc::new(SequencePattern::default().then_any_word()),
            PS::Strict(k) => Arc::new(SequencePattern::default().then_strict(k.clone())),
            PS::Xw(w) => Arc::new(SequencePattern::default().then_exact_word(leak(w))),
            PS::Ac(w) => Arc::new(AnyCapitalization::of(w)),
            PS::Wset(ws) => {
                let v: Vec<&'static str> = ws.iter().map(|w| leak(w)).collect();
                Arc::new(WordSet::new(&v))
            }
            // `WithinEditDistance` is not exported: it is reachable through `SimilarToPhrase` only
            PS::Ed(w, d) => Arc::new(SimilarToPhrase::from_phrase(w, *d)),
            PS::Sp => Arc::new(WhitespacePattern),
            PS::Any => Arc::new(AnyPattern),
            PS::Np => Arc::new(NominalPhrase),
            PS::Iq => Arc::new(ImpliesQuantity),
            PS::Ia => Arc::new(IndefiniteArticle::default()),
            PS::ThenIa => Arc::new(SequencePattern::default().then_indefinite_article()),
            PS::Scw(bit) => match bit {
                8 => Arc::new(SplitCompoundWord::new(|m| m.is_noun())),
                3 => Arc::new(SplitCompoundWord::new(|m| m.is_adjective())),
                7 => Arc::new(SplitCompoundWord::new(|m| m.is_verb())),
                _ => Arc::new(SplitCompoundWord::new(|_| true)),
            },
            PS::Seq(v) => {
                let mut s = SequencePattern::default();
                for p in v {
                    s = s.then(p.build());
                }
                Arc::new(s)
            }
            PS::Rep(p, n) => Arc::new(RepeatingPattern::new(boxed(p), *n)),
            PS::Either(v) => Arc::new(EitherPattern::new(v.iter().map(|p| boxed(p)).collect())),
            PS::AllOf(v) => Arc::new(All::new(v.iter().map(|p| boxed(p)).collect())),
            PS::Inv(p) => Arc::new(Invert::new(p.build())),
            PS::Cons(p) => Arc::new(ConsumesRemainingPattern::new(boxed(p))),
            PS::Naive(v) => {
                let mut g = NaivePatternGroup::default();
                for p in v {
                    g.push(boxed(p));
                }
                Arc::new(g)
            }
            PS::PMap(v) => {
                let mut m: PatternMap<u8> = PatternMap::default();
                for p in v {
                    m.insert(p.build(), 0u8);
                }
                Arc::new(m)
            }
            PS::Ntc(p) => Arc::new(IsNotTitleCase::new(boxed(p), dict())),
            PS::Wg(rows) => {
                let mut g = WordPatternGroup::default();
                for (w, p) in rows {
                    match p {
                        Some(p) => g.add(w, boxed(p)),
                        None => g.add_word(leak(w)),
                    }
                }
                Arc::new(g)
            }
            PS::Xp(t) => Arc::new(ExactPhrase::from_phrase(t)),
            PS::XpPlain(t) => Arc::new(ExactPhrase::from_document(&Document::new(t, &PlainEnglish, &dict()))),
            PS::Stp(t, d) => Arc::new(SimilarToPhrase::from_phrase(t, *d)),
        }
    }

    fn list(tag: &str, v: &[PS], out: &mut Vec<String>) {
        out.push(tag.to_string());
        out.push(v.len().to_string());
        for p in v {
            p.show_into(out);
        }
    }

    fn doc_words(doc: &Document, out: &mut Vec<String>) {
        out.push(cps(doc.get_source()));
        out.push(doc.get_tokens().len().to_string());
        for t in doc.get_tokens() {
            out.push(tok_show(t));
        }
    }

    pub fn show_into(&self, out: &mut Vec<String>) {
        match self {
            PS::Kp(q, mode) => {
                out.extend(["seq".to_string(), "1".to_string()]);
                if *mode == 2 {
                    out.extend(["rep".to_string(), "0".to_string()]);
                }
                out.extend(["kp".to_string(), q.to_string(), if *mode == 1 { "1".to_string() } else { "0".to_string() }]);
            }
            PS::AnyWord => out.extend(["seq", "1", "kp", "word", "0"].map(String::from)),
            PS::Strict(k) => out.extend(["seq".to_string(), "1".to_string(), "strict".to_string(), kind_tag(k)]),
            PS::Xw(w) => out.extend(["seq".to_string(), "1".to_string(), "xw".to_string(), cps_str(w)]),
            PS::Ac(w) => out.extend(["ac".to_string(), cps_str(w)]),
            PS::Wset(ws) => {
                out.push("wset".into());
                out.push(ws.len().to_string());
                for w in ws {
                    out.push(cps_str(w));
                }
            }
            PS::Ed(w, d) => {
                out.push("stp".into());
                out.push(d.to_string());
                Self::doc_words(&Document::new_plain_english_curated(w), out);
            }
            PS::Sp => out.push("sp".into()),
            PS::Any => out.push("any".into()),
            PS::Np => out.push("np".into()),
            PS::Iq => out.push("iq".into()),
            PS::Ia => out.push("ia".into()),
            PS::ThenIa => out.extend(["seq", "1", "ia"].map(String::from)),
            PS::Scw(bit) => out.extend(["scw".to_string(), bit.to_string()]),
            PS::Seq(v) => Self::list("seq", v, out),
            PS::Rep(p, n) => {
                out.extend(["rep".to_string(), n.to_string()]);
                p.show_into(out);
            }
            PS::Either(v) => Self::list("either", v, out),
            PS::AllOf(v) => Self::list("all", v, out),
            PS::Inv(p) => {
                out.push("inv".into());
                p.show_into(out);
            }
            PS::Cons(p) => {
                out.push("cons".into());
                p.show_into(out);
            }
            PS::Naive(v) | PS::PMap(v) => Self::list("first", v, out),
            PS::Ntc(p) => {
                out.push("ntc".into());
                p.show_into(out);
            }
            PS::Wg(rows) => {
                out.push("wg".into());
                out.push(rows.len().to_string());
                for (w, p) in rows {
                    out.push(cps_str(w));
                    match p {
                        Some(p) => p.show_into(out),
                        None => out.extend(["seq".to_string(), "1".to_string(), "xw".to_string(), cps_str(w)]),
                    }
                }
            }
            PS::Xp(t) => {
                out.push("xp".into());
                Self::doc_words(&Document::new_markdown_default_curated(t), out);
            }
            PS::XpPlain(t) => {
                out.push("xp".into());
                Self::doc_words(&Document::new(t, &PlainEnglish, &dict()), out);
            }
            PS::Stp(t, d) => {
                out.push("stp".into());
                out.push(d.to_string());
                Self::doc_words(&Document::new_plain_english_curated(t), out);
            }
        }
    }

    pub fn show(&self) -> String {
        let mut v = vec![];
        self.show_into(&mut v);
        v.join(" ")
    }

    /// the phrase documents and literal words inside the description (their numbers and characters
    /// belong to the model's `Env`)
    fn collect_texts(&self, docs: &mut Vec<Document>, words: &mut Vec<String>) {
        match self {
            PS::Xw(w) | PS::Ac(w) => words.push(w.clone()),
            PS::Ed(w, _) => docs.push(Document::new_plain_english_curated(w)),
            PS::Wset(ws) => words.extend(ws.iter().cloned()),
            PS::Seq(v) | PS::Either(v) | PS::AllOf(v) | PS::Naive(v) | PS::PMap(v) => v.iter().for_each(|p| p.collect_texts(docs, words)),
            PS::Rep(p, _) | PS::Inv(p) | PS::Cons(p) | PS::Ntc(p) => p.collect_texts(docs, words),
            PS::Wg(rows) => rows.iter().for_each(|(w, p)| {
                words.push(w.clone());
                if let Some(p) = p {
                    p.collect_texts(docs, words)
                }
            }),
            PS::Xp(t) => docs.push(Document::new_markdown_default_curated(t)),
            PS::XpPlain(t) => docs.push(Document::new(t, &PlainEnglish, &dict())),
            PS::Stp(t, _) => docs.push(Document::new_plain_english_curated(t)),
            _ => {}
        }
    }
}

/// the 18 metadata bits of `Model/Leaves.lean`
fn kind_flags(k: &TokenKind, text: &[char], d: &FstDictionary) -> u32 {
    let b = |x: bool, i: u32| (x as u32) << i;
    let mut f = b(k.is_preposition(), 0)
        | b(k.is_conjunction(), 1)
        | b(k.is_likely_homograph(), 2)
        | b(k.is_adjective(), 3)
        | b(k.is_determiner(), 4)
        | b(k.is_proper_noun(), 5)
        | b(k.is_nominal(), 6)
        | b(k.is_verb(), 7)
        | b(k.is_noun(), 8)
        | b(k.is_possessive_nominal(), 9)
        | b(k.is_plural_nominal(), 10)
        | b(k.is_linking_verb(), 11)
        | b(k.is_pronoun(), 12)
        | b(k.is_adverb(), 13)
        | b(k.is_not_plural_nominal(), 14)
        | b(matches!(k, TokenKind::Word(Some(_))), 15);
    if let TokenKind::Word(Some(md)) = k {
        let lower = text.to_lower();
        let merged = match d.get_word_metadata(&lower) {
            Some(ml) => md.clone().or(ml),
            None => md.clone(),
        };
        f |= b(merged.preposition, 16) | b(merged.determiner, 17);
    }
    f
}

/// the model's `Env` tables (same format as rules.rs) over several documents, with the extended flags;
/// `concat` adds the dictionary data of every `word ␣ word` concatenation (what `SplitCompoundWord` looks up)
pub struct EnvB {
    nums: BTreeMap<Vec<char>, String>,
    words: BTreeMap<Vec<char>, (u32, Option<Vec<char>>)>,
    chars: BTreeSet<char>,
    pub functional: bool,
}

impl EnvB {
    pub fn new() -> Self {
        EnvB { nums: BTreeMap::new(), words: BTreeMap::new(), chars: BTreeSet::new(), functional: true }
    }
    fn add_word_text(&mut self, text: Vec<char>, kind: &TokenKind) {
        let d = dict();
        let f = kind_flags(kind, &text, &d);
        if let Some(old) = self.words.get(&text) {
            if old.0 != f {
                self.functional = false;
            }
        } else {
            let canon = d.get_correct_capitalization_of(&text).map(|c| c.to_vec());
            if let Some(c) = &canon {
                self.chars.extend(c.iter().copied());
            }
            self.words.insert(text, (f, canon));
        }
    }
    pub fn add_doc(&mut self, doc: &Document, concat: bool) {
        let src = doc.get_source();
        self.chars.extend(src.iter().copied());
        let toks = doc.get_tokens();
        for (i, t) in toks.iter().enumerate() {
            let (s, e) = (t.span.start.min(src.len()), t.span.end.min(src.len()));
            if s > e {
                continue;
            }
            let text: Vec<char> = src[s..e].to_vec();
            match &t.kind {
                TokenKind::Number(n) => {
                    let disp: Vec<char> = n.to_string().chars().collect();
                    let v: f64 = n.value.into();
                    let val = if v < 0.0 || v - v.floor() > f64::EPSILON || v > u64::MAX as f64 || v.is_nan() { "x".to_string() } else { format!("i{}", v as u64) };
                    let entry = format!("{}/{}/{}", cps(&text), cps(&disp), val);
                    if let Some(old) = self.nums.get(&text) {
                        if *old != entry {
                            self.functional = false;
                        }
                    } else {
                        self.nums.insert(text, entry);
                    }
                }
                TokenKind::Word(_) => {
                    self.add_word_text(text.clone(), &t.kind);
                    if concat {
                        // the next word after a run of whitespace tokens
                        let mut j = i + 1;
                        while j < toks.len() && toks[j].kind.is_whitespace() {
                            j += 1;
                        }
                        if j > i + 1 && j < toks.len() && toks[j].kind.is_word() {
                            let (s2, e2) = (toks[j].span.start.min(src.len()), toks[j].span.end.min(src.len()));
                            if s2 <= e2 {
                                let mut both = text.clone();
                                both.extend_from_slice(&src[s2..e2]);
                                if !self.words.contains_key(&both) {
                                    let md = dict().get_word_metadata(&both).cloned();
                                    self.add_word_text(both, &TokenKind::Word(md));
                                }
                            }
                        }
                    }
                }
                _ => {}
            }
        }
    }
    pub fn add_chars(&mut self, s: &str) {
        self.chars.extend(s.chars());
    }
    pub fn fields(&self) -> String {
        let cf = self
            .chars
            .iter()
            .filter(|c| c.is_whitespace() || c.is_lowercase() || c.is_uppercase() || c.is_alphabetic() || c.is_alphanumeric() || c.to_lowercase().ne([**c]))
            .map(|c| {
                let mut f = String::new();
                if c.is_lowercase() {
                    f.push('l');
                }
                if c.is_uppercase() {
                    f.push('u');
                }
                if c.is_alphabetic() {
                    f.push('a');
                }
                if c.is_alphanumeric() {
                    f.push('n');
                }
                if c.is_whitespace() {
                    f.push('w');
                }
                if f.is_empty() {
                    f.push('-');
                }
                format!("{}/{}/{}", *c as u32, f, cps(&c.to_lowercase().collect::<Vec<_>>()))
            })
            .collect::<Vec<_>>()
            .join(" ");
        let wf = self
            .words
            .iter()
            .filter(|(_, f)| f.0 != 0 || f.1.is_some())
            .map(|(t, f)| match &f.1 {
                Some(c) => format!("{}/{}/{}", cps(t), f.0, cps(c)),
                None => format!("{}/{}", cps(t), f.0),
            })
            .collect::<Vec<_>>()
            .join(" ");
        format!("{} | {} | {}", self.nums.values().cloned().collect::<Vec<_>>().join(" "), wf, cf)
    }
}

pub struct Out {
    k: Vec<(String, String)>,
    fails: Vec<(String, String, Value)>,
    counts: Vec<String>,
    monitors: Vec<(String, bool)>,
    nontrivial: bool,
}

impl Out {
    fn new() -> Self {
        Out { k: vec![], fails: vec![], counts: vec![], monitors: vec![], nontrivial: false }
    }
}

fn merge(sess: &mut Session, o: Out, key: &str) {
    let mut case = None;
    for (op, imp) in &o.k {
        case = Some(sess.k(op, imp));
    }
    sess.o();
    for c in &o.counts {
        sess.count(c);
    }
    for (m, held) in &o.monitors {
        sess.monitor(m, *held);
    }
    if o.nontrivial {
        sess.nontrivial(key);
    }
    for (class, desc, input) in o.fails {
        sess.fail(&class, desc, input, case);
    }
}

const FUNCTIONAL: &str = "leaves: number display/value and word metadata are functions of the token's text (same text, same data within a document)";

/// the contract `matches(tokens[i..]) ≤ tokens.len() - i`, and no panic, for one built pattern on one document
fn eval_leaf(ps: &PS, real: &dyn Pattern, shown: &str, texts: (&[Document], &[String]), doc: &Document, input: Value, out: &mut Out) {
    let src = doc.get_source();
    let toks = doc.get_tokens();
    let mut env = EnvB::new();
    env.add_doc(doc, true);
    for d in texts.0 {
        env.add_doc(d, false);
    }
    for w in texts.1 {
        env.add_chars(w);
    }
    out.monitors.push((FUNCTIONAL.into(), env.functional));
    let mut res = String::from("ok");
    for i in 0..=toks.len() {
        match guarded(|| real.matches(&toks[i..], src)) {
            Ok(n) => {
                res.push_str(&format!(" {}", n));
                if n > 0 {
                    out.nontrivial = true;
                }
                if n > toks.len() - i {
                    out.fails.push((
                        "leaf-contract".into(),
                        format!("{:?} returns {} on a slice of {} tokens", ps, n, toks.len() - i),
                        input.clone(),
                    ));
                }
            }
            Err(e) => {
                res.push_str(" p");
                out.nontrivial = true;
                let long = toks[i..].iter().any(|t| matches!(t.kind, TokenKind::Word(_)) && t.span.len() >= 255) && e.contains("edit_distance.rs");
                let class = if long { "leaf-panic-edit-distance-u8-long-word".to_string() } else { format!("leaf-panic-{}", e.split(" @ ").last().unwrap_or("?")) };
                out.fails.push((class, format!("{:?} panics on the suffix at token {}: {}", ps, i, e), input.clone()));
            }
        }
    }
    out.k.push((format!("leafm | {} | {} | {} | {}", shown, chars_field(src), toks_show(toks), env.fields()), res));
}

// ------------------------------------------------------------------------------------------------
// harvested tables
// ------------------------------------------------------------------------------------------------

#[derive(Clone, Debug)]
pub struct Row {
    pub name: String,
    pub phrases: Vec<String>,
    pub forms: Vec<String>,
    pub message: String,
    /// 0 phrase correction (EitherPattern of ExactPhrases), 1 closed compound (one ExactPhrase), 2 proper noun
    pub table: u8,
    /// the name is a key of two tables (the group then runs two rules under one switch)
    pub shared: bool,
}

#[derive(Debug, Clone, PartialEq)]
enum T {
    S(String),
    P(char),
    Arrow,
    Id(String),
}

/// a deliberately dumb tokenizer for the table macros: string literals, punctuation, `=>`, identifiers; comments skipped
fn rust_tokens(src: &str) -> Vec<T> {
    let cs: Vec<char> = src.chars().collect();
    let mut out = vec![];
    let mut i = 0;
    while i < cs.len() {
        let c = cs[i];
        if c == '/' && i + 1 < cs.len() && cs[i + 1] == '/' {
            while i < cs.len() && cs[i] != '\n' {
                i += 1;
            }
        } else if c == '"' {
            let mut s = String::new();
            i += 1;
            while i < cs.len() && cs[i] != '"' {
                if cs[i] == '\\' && i + 1 < cs.len() {
                    match cs[i + 1] {
                        'n' => s.push('\n'),
                        't' => s.push('\t'),
                        'r' => s.push('\r'),
                        '\n' => {
                            i += 2;
                            while i < cs.len() && cs[i].is_whitespace() {
                                i += 1;
                            }
                            continue;
                        }
                        o => s.push(o),
                    }
                    i += 2;
                } else {
                    s.push(cs[i]);
                    i += 1;
                }
            }
            i += 1;
            out.push(T::S(s));
        } else if c == '=' && i + 1 < cs.len() && cs[i + 1] == '>' {
            out.push(T::Arrow);
            i += 2;
        } else if c.is_alphanumeric() || c == '_' {
            let mut s = String::new();
            while i < cs.len() && (cs[i].is_alphanumeric() || cs[i] == '_') {
                s.push(cs[i]);
                i += 1;
            }
            out.push(T::Id(s));
        } else if c.is_whitespace() {
            i += 1;
        } else {
            out.push(T::P(c));
            i += 1;
        }
    }
    out
}

fn str_list(ts: &[T], i: &mut usize) -> Option<Vec<String>> {
    if ts.get(*i) != Some(&T::P('[')) {
        return None;
    }
    *i += 1;
    let mut v = vec![];
    loop {
        match ts.get(*i)? {
            T::S(s) => {
                v.push(s.clone());
                *i += 1;
            }
            T::P(',') => *i += 1,
            T::P(']') => {
                *i += 1;
                return Some(v);
            }
            _ => return None,
        }
    }
}

/// rows `"Name" => ( [..], [..], "..", ".." )` of `add_exact_mappings!` and `"Name" => ("bad", "good")` of
/// `add_compound_mappings!`; returns (rows, rows that start like one but could not be parsed)
pub fn harvest_tables() -> (Vec<Row>, usize) {
    let mut rows = vec![];
    let mut skipped = 0;
    if let Ok(src) = std::fs::read_to_string("/repo/harper-core/src/linting/phrase_corrections.rs") {
        let ts = rust_tokens(&src);
        let mut i = 0;
        while i + 2 < ts.len() {
            if let (T::S(name), T::Arrow, T::P('(')) = (&ts[i], &ts[i + 1], &ts[i + 2]) {
                let mut j = i + 3;
                let parsed = (|| {
                    let phrases = str_list(&ts, &mut j)?;
                    if ts.get(j) != Some(&T::P(',')) {
                        return None;
                    }
                    j += 1;
                    let forms = str_list(&ts, &mut j)?;
                    if ts.get(j) != Some(&T::P(',')) {
                        return None;
                    }
                    j += 1;
                    let T::S(msg) = ts.get(j)? else { return None };
                    j += 1;
                    if ts.get(j) != Some(&T::P(',')) {
                        return None;
                    }
                    j += 1;
                    let T::S(_desc) = ts.get(j)? else { return None };
                    j += 1;
                    while ts.get(j) == Some(&T::P(',')) {
                        j += 1;
                    }
                    if ts.get(j) != Some(&T::P(')')) {
                        return None;
                    }
                    Some(Row { name: name.clone(), phrases, forms, message: msg.clone(), table: 0, shared: false })
                })();
                match parsed {
                    Some(r) => {
                        rows.push(r);
                        i = j;
                    }
                    None => {
                        skipped += 1;
                        i += 3;
                    }
                }
            } else {
                i += 1;
            }
        }
    }
    if let Ok(src) = std::fs::read_to_string("/repo/harper-core/src/linting/closed_compounds.rs") {
        let ts = rust_tokens(&src);
        let mut i = 0;
        while i + 2 < ts.len() {
            if let (T::S(name), T::Arrow, T::P('(')) = (&ts[i], &ts[i + 1], &ts[i + 2]) {
                if let (Some(T::S(bad)), Some(T::P(',')), Some(T::S(good)), Some(T::P(')'))) = (ts.get(i + 3), ts.get(i + 4), ts.get(i + 5), ts.get(i + 6)) {
                    rows.push(Row {
                        name: name.clone(),
                        phrases: vec![bad.clone()],
                        forms: vec![good.clone()],
                        message: format!("Did you mean the closed compound `{}`?", good),
                        table: 1,
                        shared: false,
                    });
                    i += 7;
                    continue;
                }
                skipped += 1;
            }
            i += 1;
        }
    }
    if let Ok(src) = std::fs::read_to_string("/repo/harper-core/proper_noun_rules.json") {
        if let Ok(Value::Object(m)) = serde_json::from_str::<Value>(&src) {
            for (name, v) in m {
                let canon: Option<Vec<String>> = v["canonical"].as_array().map(|a| a.iter().filter_map(|s| s.as_str().map(String::from)).collect());
                match (canon, v["description"].as_str()) {
                    (Some(c), Some(d)) if !c.is_empty() => rows.push(Row { name, phrases: c, forms: vec![], message: d.to_string(), table: 2, shared: false }),
                    _ => skipped += 1,
                }
            }
        } else {
            skipped += 1;
        }
    }
    // `add_pattern_linter` / `add` refuse a name that is already present in the SAME group: the first row wins
    let mut seen: BTreeSet<(u8, String)> = BTreeSet::new();
    rows.retain(|r| seen.insert((r.table, r.name.clone())));
    let names: Vec<(u8, String)> = rows.iter().map(|r| (r.table, r.name.clone())).collect();
    for r in rows.iter_mut() {
        r.shared = names.iter().any(|(t, n)| *t != r.table && *n == r.name);
    }
    (rows, skipped)
}

thread_local! { static GROUP: RefCell<Option<LintGroup>> = RefCell::new(None); }

/// the shipped rule: `LintGroup::new_curated` with only `name` switched on
fn lint_only(name: &str, doc: &Document) -> Vec<Lint> {
    GROUP.with(|g| {
        let mut g = g.borrow_mut();
        if g.is_none() {
            *g = Some(LintGroup::new_curated(dict(), Dialect::American));
        }
        let g = g.as_mut().unwrap();
        g.set_all_rules_to(Some(false));
        g.config.set_rule_enabled(name, true);
        g.lint(doc)
    })
}

fn show_lint(l: &Lint, row: &Row) -> String {
    let code = if row.table < 2 {
        if l.lint_kind == LintKind::Miscellaneous && l.priority == 31 && l.message == row.message { 13 } else { 0 }
    } else if l.lint_kind == LintKind::Capitalization && l.priority == 31 && l.message == row.message {
        14
    } else {
        0
    };
    let sg = if l.suggestions.is_empty() {
        "-".to_string()
    } else {
        l.suggestions
            .iter()
            .map(|s| match s {
                Suggestion::ReplaceWith(cs) => format!("R{}", cps(cs)),
                Suggestion::Remove => "X".to_string(),
                Suggestion::InsertAfter(cs) => format!("I{}", cps(cs)),
            })
            .collect::<Vec<_>>()
            .join(",")
    };
    format!("{}:{}:{}:0:{}", l.span.start, l.span.end, code, sg)
}

fn show_lints(ls: &[Lint], row: &Row) -> String {
    let mut s = String::from("ok");
    for l in ls {
        s.push(' ');
        s.push_str(&show_lint(l, row));
    }
    s
}

fn row_spec(row: &Row) -> PS {
    match row.table {
        0 => PS::Either(row.phrases.iter().map(|p| PS::Xp(p.clone())).collect()),
        1 => PS::Xp(row.phrases[0].clone()),
        _ => PS::PMap(row.phrases.iter().map(|p| PS::XpPlain(p.clone())).collect()),
    }
}

fn make_doc(text: &str, md: bool) -> Result<Document, String> {
    guarded(|| if md { Document::new(text, &Markdown::default(), &dict()) } else { Document::new(text, &PlainEnglish, &dict()) })
}

/// one text × one harvested rule: K line, in-range oracle, and "the harvested row IS the shipped rule"
fn eval_row(row: &Row, text: &str, md: bool, out: &mut Out) {
    let Ok(doc) = make_doc(text, md) else {
        out.counts.push("leaves:document-panicked(C01's business)".into());
        return;
    };
    let src = doc.get_source();
    let input = json!({"kind": "mphrase", "rule": row.name, "text": text, "md": md});
    let spec = row_spec(row);
    let mut env = EnvB::new();
    env.add_doc(&doc, false);
    let (mut docs, mut words) = (vec![], vec![]);
    spec.collect_texts(&mut docs, &mut words);
    for d in &docs {
        env.add_doc(d, false);
    }
    for f in &row.forms {
        env.add_chars(f);
    }
    out.monitors.push((FUNCTIONAL.into(), env.functional));
    let op = if row.table < 2 {
        format!(
            "mphrase | {} | {} | {} | {} | {}",
            spec.show(),
            row.forms.iter().map(|f| cps_str(f)).collect::<Vec<_>>().join(" "),
            chars_field(src),
            toks_show(doc.get_tokens()),
            env.fields()
        )
    } else {
        let mut dw = vec![row.phrases.len().to_string()];
        for p in &row.phrases {
            PS::doc_words(&Document::new(p, &PlainEnglish, &dict()), &mut dw);
        }
        format!("pnoun | {} | {} | {} | {}", dw.join(" "), chars_field(src), toks_show(doc.get_tokens()), env.fields())
    };
    let real = if row.shared {
        // under this name the shipped group runs TWO rules; the row is compared through the public constructor
        out.counts.push("leaves:row-name-shared-by-two-tables(compared through MapPhraseLinter's constructor)".into());
        guarded(|| {
            let mut r = if row.table == 0 {
                MapPhraseLinter::new_exact_phrases(row.phrases.clone(), row.forms.clone(), row.message.clone(), "")
            } else {
                MapPhraseLinter::new_closed_compound(&row.phrases[0], row.forms[0].clone())
            };
            r.lint(&doc)
        })
    } else {
        guarded(|| lint_only(&row.name, &doc))
    };
    match real {
        Ok(ls) => {
            out.k.push((op, show_lints(&ls, row)));
            if !ls.is_empty() {
                out.nontrivial = true;
                out.counts.push(format!("leaves:lints:table{}", row.table));
            }
            for l in &ls {
                if !(l.span.start <= l.span.end && l.span.end <= src.len()) {
                    out.fails.push((
                        format!("rule-span-out-of-range-{}", row.name),
                        format!("{} alone reports span {}..{} on a text of {} characters", row.name, l.span.start, l.span.end, src.len()),
                        input.clone(),
                    ));
                }
            }
            // the harvested row, instantiated with the public constructor, is the shipped rule
            if row.table < 2 && !row.shared {
                let direct = guarded(|| {
                    let mut r = if row.table == 0 {
                        MapPhraseLinter::new_exact_phrases(row.phrases.clone(), row.forms.clone(), row.message.clone(), "")
                    } else {
                        MapPhraseLinter::new_closed_compound(&row.phrases[0], row.forms[0].clone())
                    };
                    r.lint(&doc)
                });
                let same = match &direct {
                    Ok(d) => d.len() == ls.len() && d.iter().zip(ls.iter()).all(|(a, b)| a.span == b.span && a.suggestions == b.suggestions && a.message == b.message && a.priority == b.priority),
                    Err(_) => false,
                };
                out.monitors.push(("leaves: the harvested table row, instantiated with MapPhraseLinter's public constructor, reports exactly what the shipped rule reports".into(), same));
            }
        }
        Err(e) => {
            out.k.push((op, "panic".to_string()));
            out.nontrivial = true;
            out.fails.push((format!("rule-panic-{}", row.name), format!("{} alone panics: {}", row.name, e), input));
        }
    }
}

type LKey = (usize, usize, String);

fn lkey(l: &Lint, by: usize) -> LKey {
    (l.span.start + by, l.span.end + by, format!("{:?}|{}|{:?}|{}", l.lint_kind, l.message, l.suggestions, l.priority))
}

/// paragraph locality of one harvested rule on (P, D), exactly and in order
fn eval_row_pair(row: &Row, p: &str, d: &str, out: &mut Out) {
    let whole = format!("{}{}", p, d);
    let plen = p.chars().count();
    let (Ok(dp), Ok(dd), Ok(dw)) = (make_doc(p, false), make_doc(d, false), make_doc(&whole, false)) else { return };
    let (Ok(lp), Ok(ld), Ok(lw)) = (guarded(|| lint_only(&row.name, &dp)), guarded(|| lint_only(&row.name, &dd)), guarded(|| lint_only(&row.name, &dw))) else {
        return; // reported by eval_row
    };
    let mut want: Vec<LKey> = lp.iter().map(|l| lkey(l, 0)).chain(ld.iter().map(|l| lkey(l, plen))).collect();
    let mut got: Vec<LKey> = lw.iter().map(|l| lkey(l, 0)).collect();
    if row.shared {
        // one switch, two rules (a `Linter` and a `PatternLinter` under the same name): the group reports rule by rule
        want.sort();
        got.sort();
    }
    if !lp.is_empty() && !ld.is_empty() {
        out.counts.push(format!("leaves:pair-with-lints-in-both:table{}", row.table));
        out.nontrivial = true;
    }
    if want != got {
        out.fails.push((
            format!("c12-rule-{}", row.name),
            format!(
                "{} alone: lint(P+D) ≠ lint(P) ++ shift(lint(D)): got {:?}, want {:?}",
                row.name,
                got.iter().filter(|k| !want.contains(k)).take(3).collect::<Vec<_>>(),
                want.iter().filter(|k| !got.contains(k)).take(3).collect::<Vec<_>>()
            ),
            json!({"kind": "mphrase-pair", "rule": row.name, "P": p, "D": d}),
        ));
    }
}

fn cap_first(s: &str) -> String {
    let mut cs = s.chars();
    match cs.next() {
        Some(c) => c.to_uppercase().collect::<String>() + cs.as_str(),
        None => String::new(),
    }
}

fn title(s: &str) -> String {
    s.split(' ').map(cap_first).collect::<Vec<_>>().join(" ")
}

fn swap_case(s: &str) -> String {
    s.chars().map(|c| if c.is_uppercase() { c.to_lowercase().next().unwrap_or(c) } else { c.to_uppercase().next().unwrap_or(c) }).collect()
}

fn replace_first_space(s: &str, with: &str) -> String {
    match s.find(' ') {
        Some(i) => format!("{}{}{}", &s[..i], with, &s[i + 1..]),
        None => s.to_string(),
    }
}

/// the texts one trigger phrase is embedded in (`full` = every template)
fn phrase_texts(ph: &str, full: bool) -> Vec<String> {
    let mut v = vec![ph.to_string(), format!("We {} now.", ph), format!("{}.", cap_first(ph)), format!("so, {}, yes", ph)];
    if full {
        v.extend([
            ph.to_uppercase(),
            format!("It is {} here", title(ph)),
            format!("x {}", swap_case(ph)),
            format!("I {} it", replace_first_space(ph, " \n")),
            format!("{} ok", replace_first_space(ph, "  ")),
            format!("and {}", replace_first_space(ph, "\n")),
            format!("no {} match", replace_first_space(ph, ", ")),
            format!("{} {}", ph, ph),
            format!("({})", ph),
            format!("\"{}\"", ph),
            format!("{}x", ph),
            format!("pre{}", ph),
            format!("Ünï {} İ", ph),
        ]);
    }
    v
}

enum Job {
    Leaf(usize, usize, String, bool),
    Row(usize, String, bool),
    Pair(usize, String, String),
    Merged(usize, String),
}

pub struct Suite {
    pub specs: Vec<PS>,
    built: Vec<Arc<dyn Pattern>>,
    shown: Vec<String>,
    texts: Vec<(Vec<Document>, Vec<String>)>,
}

impl Suite {
    pub fn new(specs: Vec<PS>) -> Self {
        let built = specs.iter().map(|s| s.build()).collect();
        let shown = specs.iter().map(|s| s.show()).collect();
        let texts = specs
            .iter()
            .map(|s| {
                let (mut d, mut w) = (vec![], vec![]);
                s.collect_texts(&mut d, &mut w);
                (d, w)
            })
            .collect();
        Suite { specs, built, shown, texts }
    }
}

fn run_merged(which: usize, doc: &Document) -> Vec<Lint> {
    match which {
        0 => HopHope::default().lint(doc),
        1 => PronounContraction::default().lint(doc),
        2 => CompoundNouns::default().lint(doc),
        _ => LetsConfusion::default().lint(doc),
    }
}

const MERGED: [(&str, &str); 4] = [("HopHope", "hop_hope"), ("PronounContraction", "pronoun_contraction"), ("CompoundNouns", "compound_nouns"), ("LetsConfusion", "lets_confusion")];

/// a `merge_linters!` rule: its output is what `remove_overlaps` leaves (sorted by start, pairwise disjoint)
fn eval_merged(which: usize, text: &str, out: &mut Out) {
    let Ok(doc) = make_doc(text, false) else { return };
    let name = MERGED[which].0;
    match guarded(|| run_merged(which, &doc)) {
        Ok(ls) => {
            let spans = ls.iter().map(|l| format!("{}:{}", l.span.start, l.span.end)).collect::<Vec<_>>();
            out.k.push((
                format!("mergel {}", spans.join(" ")),
                format!("ok{}", ls.iter().enumerate().map(|(i, l)| format!(" {}:{}:{}", l.span.start, l.span.end, i)).collect::<String>()),
            ));
            if ls.len() > 1 {
                out.nontrivial = true;
            }
            for w in ls.windows(2) {
                if w[0].span.end > w[1].span.start {
                    out.fails.push((format!("merged-overlap-{}", name), format!("{} reports overlapping lints {:?} and {:?}", name, w[0].span, w[1].span), json!({"kind": "merged", "which": which, "text": text})));
                }
            }
            for l in &ls {
                if !(l.span.start <= l.span.end && l.span.end <= doc.get_source().len()) {
                    out.fails.push((format!("rule-span-out-of-range-{}", name), format!("{} reports span {:?}", name, l.span), json!({"kind": "merged", "which": which, "text": text})));
                }
            }
        }
        Err(e) => out.fails.push((format!("rule-panic-{}", name), format!("{} panics: {}", name, e), json!({"kind": "merged", "which": which, "text": text}))),
    }
}

fn run_jobs(sess: &mut Session, suites: &[Suite], rows: &[Row], jobs: Vec<Job>, origin: &str) {
    let outs = par_map(jobs.len(), 16, |i| {
        let mut o = Out::new();
        match &jobs[i] {
            Job::Leaf(s, j, text, md) => {
                if let Ok(doc) = make_doc(text, *md) {
                    let su = &suites[*s];
                    let js: Vec<usize> = if *j == usize::MAX { (0..su.specs.len()).collect() } else { vec![*j] };
                    for j in js {
                        eval_leaf(
                            &su.specs[j],
                            su.built[j].as_ref(),
                            &su.shown[j],
                            (&su.texts[j].0, &su.texts[j].1),
                            &doc,
                            json!({"kind": "leaf", "suite": s, "spec": j, "text": text, "md": md}),
                            &mut o,
                        );
                    }
                }
            }
            Job::Row(r, text, md) => eval_row(&rows[*r], text, *md, &mut o),
            Job::Pair(r, p, d) => {
                eval_row_pair(&rows[*r], p, d, &mut o);
                eval_row(&rows[*r], &format!("{}{}", p, d), false, &mut o);
            }
            Job::Merged(w, text) => eval_merged(*w, text, &mut o),
        }
        o
    });
    for (i, o) in outs.into_iter().enumerate() {
        sess.count(&format!("leaves:origin:{}", origin));
        let key = match &jobs[i] {
            Job::Leaf(s, j, t, md) => format!("leaf\u{0}{}\u{0}{}\u{0}{}\u{0}{}", s, j, t, md),
            Job::Row(r, t, md) => format!("row\u{0}{}\u{0}{}\u{0}{}", r, t, md),
            Job::Pair(r, p, d) => format!("rowpair\u{0}{}\u{0}{}\u{0}{}", r, p, d),
            Job::Merged(w, t) => format!("merged\u{0}{}\u{0}{}", w, t),
        };
        merge(sess, o, &key);
    }
}

fn concats(pieces: &[&str], n: usize) -> Vec<String> {
    let mut out = vec![String::new()];
    let mut layer = vec![String::new()];
    for _ in 0..n {
        let mut next = Vec::with_capacity(layer.len() * pieces.len());
        for s in &layer {
            for p in pieces {
                next.push(format!("{}{}", s, p));
            }
        }
        out.extend(next.iter().cloned());
        layer = next;
    }
    out.sort();
    out.dedup();
    out
}

fn s(x: &str) -> String {
    x.to_string()
}

/// the suites: (patterns, leaf-specific vocabulary, ≤ n pieces in the quick tier)
pub fn suites() -> Vec<(Suite, Vec<(Vec<&'static str>, usize)>)> {
    let mut v = vec![];
    // 0: leaves that compare a word's text
    v.push((
        Suite::new(vec![
            PS::Ac(s("ab")),
            PS::Ac(s("éa")),
            PS::Wset(vec![s("ab"), s("c"), s("abd")]),
            PS::Xw(s("ab")),
            PS::Xw(s("Ab")),
            PS::Ed(s("ab"), 1),
            PS::Ed(s("Abd"), 2),
            PS::Ed(s("c"), 0),
            PS::Ia,
            PS::ThenIa,
            PS::AnyWord,
            PS::Wg(vec![(s("ab"), None), (s("c"), Some(PS::Seq(vec![PS::Ac(s("c")), PS::Sp, PS::AnyWord]))), (s("c"), None), (s("Ab"), Some(PS::Any))]),
            PS::Xp(s("ab c")),
            PS::Xp(s("ab, c!")),
            PS::Xp(s("a")),
            PS::Stp(s("ab c"), 1),
            PS::Stp(s("abd"), 2),
            PS::Either(vec![PS::Xp(s("ab c")), PS::Xp(s("c")), PS::Xp(s("c ab abd"))]),
        ]),
        vec![(vec!["ab", "Ab", "c", "abd", "a", " ", ","], 4), (vec!["ab", "Ab", "c", "abd", "a", "an", " ", "\n", ",", "."], 3)],
    ));
    // 1: the `then_<quality>` closures (every quality × then / anything_but / one_or_more), single tokens and pairs
    let mut kp = vec![];
    for q in QUALITIES {
        for mode in 0..3u8 {
            kp.push(PS::Kp(q, mode));
        }
    }
    v.push((
        Suite::new(kp),
        vec![(vec!["the", "red", "cats", "cat's", "runs", "is", "quickly", "he", "and", "of", "Paris", "zqxv", " ", ",", ".", "-", "_", "'", "2", "\"", "\n\n"], 2)],
    ));
    // 2: metadata leaves and the dictionary
    v.push((
        Suite::new(vec![
            PS::Np,
            PS::Iq,
            PS::Scw(8),
            PS::Scw(15),
            PS::Scw(3),
            PS::Ntc(Box::new(PS::Rep(Box::new(PS::Any), 0))),
            PS::Ntc(Box::new(PS::Seq(vec![PS::AnyWord, PS::Sp, PS::AnyWord]))),
            PS::Seq(vec![PS::Iq, PS::Sp, PS::Np]),
        ]),
        vec![(vec!["the", "red", "cat", "my", "self", "many", "a", "2", "of", "Paris", " ", ","], 3), (vec!["the", "red", "cat", "my", "self", " ", ","], 4)],
    ));
    // 3: strict kinds and combinators over real leaves
    v.push((
        Suite::new(vec![
            PS::Strict(TokenKind::Space(1)),
            PS::Strict(TokenKind::Newline(1)),
            PS::Strict(TokenKind::Punctuation(Punctuation::Comma)),
            PS::Strict(TokenKind::ParagraphBreak),
            PS::Sp,
            PS::Any,
            PS::Rep(Box::new(PS::Either(vec![PS::Wset(vec![s("ab"), s("c")]), PS::Sp])), 2),
            PS::Rep(Box::new(PS::Seq(vec![PS::Ac(s("ab")), PS::Sp])), 1),
            PS::AllOf(vec![PS::AnyWord, PS::Inv(Box::new(PS::Ac(s("ab"))))]),
            PS::AllOf(vec![PS::Xp(s("ab c")), PS::Rep(Box::new(PS::Any), 2)]),
            PS::Cons(Box::new(PS::Rep(Box::new(PS::Either(vec![PS::AnyWord, PS::Sp])), 0))),
            PS::Naive(vec![PS::Xp(s("c ab")), PS::Ac(s("ab")), PS::Seq(vec![PS::Ac(s("ab")), PS::Sp, PS::Ac(s("c"))])]),
            PS::PMap(vec![PS::XpPlain(s("Ab C")), PS::XpPlain(s("ab")), PS::XpPlain(s("C. ab"))]),
            PS::Inv(Box::new(PS::Seq(vec![PS::Ac(s("ab")), PS::Sp, PS::Ac(s("c"))]))),
            PS::Seq(vec![PS::Inv(Box::new(PS::Sp)), PS::Any, PS::Inv(Box::new(PS::Ac(s("c"))))]),
        ]),
        vec![(vec!["ab", "Ab", "c", " ", "\n", ",", "."], 4)],
    ));
    // 4: quotation marks: `ExactPhrase`'s punctuation closure and `then_strict` compare `twin_loc`, a token INDEX of the
    // document the pattern was built from — such a pattern matches only where the indices happen to coincide
    v.push((
        Suite::new(vec![
            PS::Xp(s("\"ab\"")),
            PS::Xp(s("ab \"c\"")),
            PS::XpPlain(s("\"")),
            PS::Strict(TokenKind::Punctuation(Punctuation::Quote(harper_core::Quote { twin_loc: Some(2) }))),
            PS::Strict(TokenKind::Punctuation(Punctuation::Quote(harper_core::Quote { twin_loc: None }))),
            PS::Kp("punctuation", 0),
        ]),
        vec![(vec!["\"", "ab", "c", " "], 5)],
    ));
    v
}

pub const RULE: &str = "LEAVES AND GENERIC CONSTRUCTIONS (model: Harper.Leaves): every pattern is built twice from one description — with the public constructors of harper_core::patterns and as prefix text for the model — and matches(&tokens[i..], source) is compared for EVERY suffix of real documents' tokens. EXHAUSTIVE: all concatenations of ≤4 pieces of {ab,Ab,c,abd,a,an,space,newline,comma} × 18 patterns (AnyCapitalization, WordSet, then_exact_word, WithinEditDistance ×3 (not exported: as one-word SimilarToPhrase), IndefiniteArticle, then_any_word, WordPatternGroup, ExactPhrase ×3, SimilarToPhrase ×2, EitherPattern of ExactPhrases); all ≤2 pieces of 21 tokens × the 63 then_<q> / then_anything_but_<q> / then_one_or_more_<q>s closures; all ≤4 pieces of {the,red,cat,my,self,many,a,2,of,Paris,space,comma} × NominalPhrase, ImpliesQuantity, SplitCompoundWord ×3 predicates, IsNotTitleCase ×2; all ≤4 pieces of {ab,Ab,c,space,newline,comma,period} × then_strict ×4, WhitespacePattern, AnyPattern and nine combinator trees over real leaves (Repeating, All, Invert, ConsumesRemaining, NaivePatternGroup, PatternMap); all ≤5 pieces of {\",ab,c,space} × ExactPhrase of quoted phrases and then_strict(Quote) (twin_loc is compared: position dependent); corpus: rule-test sentences × a selection; words of 250–260 letters for WithinEditDistance / SimilarToPhrase (u8 rows). TABLES harvested at run time: every row of phrase_corrections.rs (add_exact_mappings!), closed_compounds.rs and proper_noun_rules.json; per row the shipped rule (LintGroup, only that rule on) vs the model's construction instantiated with the row on: each trigger phrase alone, in sentences, capitalised / upper / title / swapped case, with two-token whitespace (space+newline, two spaces, newline), split by a comma, doubled, in brackets and quotes, glued to letters, next to non-ASCII, in two Markdown templates, and in BOTH paragraphs of (P, D) pairs. O: spans in range, no panic, contract n ≤ slice length, per-rule paragraph locality, the harvested row instantiated through MapPhraseLinter's public constructor = the shipped rule, merge_linters! outputs sorted and disjoint.";

pub fn replay(sess: &mut Session, v: &Value) -> bool {
    let kind = v["kind"].as_str().unwrap_or("");
    match kind {
        "leaf" => {
            let su = suites();
            let (si, j) = (v["suite"].as_u64().unwrap_or(0) as usize, v["spec"].as_u64().unwrap_or(0) as usize);
            let text = v["text"].as_str().unwrap_or("").to_string();
            let md = v["md"].as_bool().unwrap_or(false);
            if si >= su.len() || j >= su[si].0.specs.len() {
                return false;
            }
            let ss: Vec<Suite> = su.into_iter().map(|x| x.0).collect();
            run_jobs(sess, &ss, &[], vec![Job::Leaf(si, j, text, md)], "replay");
            true
        }
        "mphrase" | "mphrase-pair" => {
            let (rows, _) = harvest_tables();
            let name = v["rule"].as_str().unwrap_or("");
            let Some(r) = rows.iter().position(|r| r.name == name) else { return false };
            let job = if kind == "mphrase" {
                Job::Row(r, v["text"].as_str().unwrap_or("").to_string(), v["md"].as_bool().unwrap_or(false))
            } else {
                Job::Pair(r, v["P"].as_str().unwrap_or("").to_string(), v["D"].as_str().unwrap_or("").to_string())
            };
            run_jobs(sess, &[], &rows, vec![job], "replay");
            true
        }
        "merged" => {
            run_jobs(sess, &[], &[], vec![Job::Merged(v["which"].as_u64().unwrap_or(0) as usize, v["text"].as_str().unwrap_or("").to_string())], "replay");
            true
        }
        _ => false,
    }
}

pub fn run_into(sess: &mut Session, ctx: &Ctx, rng: &mut Rng) {
    let thorough = ctx.tier == Tier::Thorough;
    // the three properties share the module: C01 carries the exhaustive leaf scopes, C03 / C12 a
    // shallower leaf scope and the full table streams (C12 with more pairs)
    let deep = ctx.prop == "C01" || thorough;
    let su = suites();
    let scopes: Vec<Vec<(Vec<&'static str>, usize)>> = su.iter().map(|x| x.1.clone()).collect();
    let ss: Vec<Suite> = su.into_iter().map(|x| x.0).collect();
    // ---- 1. corpus ---------------------------------------------------------------------------
    let mut jobs = vec![];
    let sentences = corpus::sentences();
    let ncorp = if thorough { sentences.len() } else if deep { 160 } else { 50 };
    for (si, _) in ss.iter().enumerate() {
        for k in 0..ncorp.min(sentences.len()) {
            let t = &sentences[(k * 7919 + si * 31) % sentences.len()];
            jobs.push(Job::Leaf(si, usize::MAX, t.clone(), k % 5 == 4));
        }
    }
    for t in ["", " ", "a", "An", "ab c", "Ab  c", "ab \nc", "ab, c.", "abd", "AB C", "éa Éa", "İ i̇", "my self", "it self", "the red cat", "a red", "many cats", "2 cats", "the Paris of the north"] {
        for (si, _) in ss.iter().enumerate() {
            jobs.push(Job::Leaf(si, usize::MAX, t.to_string(), false));
        }
    }
    // words around the `u8` limits of `edit_distance_min_alloc` (suite 0: specs 5–7 are WithinEditDistance, 15–16 SimilarToPhrase)
    for n in if ctx.prop == "C01" { vec![200usize, 253, 254, 255, 256, 300] } else { vec![200usize, 253, 254] } {
        let w = "a".repeat(n);
        for j in [5usize, 6, 7, 15, 16] {
            jobs.push(Job::Leaf(0, j, format!("ab {} c", w), false));
            jobs.push(Job::Leaf(0, j, w.clone(), false));
        }
    }
    run_jobs(sess, &ss, &[], std::mem::take(&mut jobs), "leaf-corpus");
    // ---- 2. exhaustive small scope -------------------------------------------------------------
    for (si, sc) in scopes.iter().enumerate() {
        let mut texts: Vec<String> = vec![];
        for (pieces, n) in sc {
            let n = if thorough { n + (si != 0) as usize } else if deep { *n } else { n.saturating_sub(1).max(2) };
            texts.extend(concats(pieces, n));
        }
        texts.sort();
        texts.dedup();
        for t in texts {
            jobs.push(Job::Leaf(si, usize::MAX, t, false));
        }
    }
    run_jobs(sess, &ss, &[], std::mem::take(&mut jobs), "leaf-small-scope");
    // ---- 3. the harvested tables ----------------------------------------------------------------
    let (rows, skipped) = harvest_tables();
    sess.add("leaves:table-rows-harvested:phrase_corrections", rows.iter().filter(|r| r.table == 0).count() as u64);
    sess.add("leaves:table-rows-harvested:closed_compounds", rows.iter().filter(|r| r.table == 1).count() as u64);
    sess.add("leaves:table-rows-harvested:proper_noun_rules", rows.iter().filter(|r| r.table == 2).count() as u64);
    sess.add("leaves:table-rows-skipped(unparsed)", skipped as u64);
    {
        // every harvested name is a rule of the shipped group, and the other way round for the three tables
        let g = LintGroup::new_curated(dict(), Dialect::American);
        let keys: BTreeSet<String> = g.iter_keys().map(String::from).collect();
        sess.add("leaves:rules-in-shipped-LintGroup", keys.len() as u64);
        for r in &rows {
            sess.monitor("leaves: every harvested table row names a rule of the shipped LintGroup", keys.contains(&r.name));
        }
    }
    for (ri, row) in rows.iter().enumerate() {
        let nph = if row.table == 2 { if thorough { row.phrases.len() } else { 3 } } else { row.phrases.len() };
        for (pi, ph) in row.phrases.iter().take(nph).enumerate() {
            let ph = if row.table == 2 { ph.to_lowercase() } else { ph.clone() };
            for t in phrase_texts(&ph, pi == 0) {
                jobs.push(Job::Row(ri, t, false));
            }
            if row.table == 2 {
                // the canonical spelling itself (no lint), and a one-letter deviation
                jobs.push(Job::Row(ri, row.phrases[pi].clone(), false));
                jobs.push(Job::Row(ri, format!("in {} today", swap_case(&row.phrases[pi])), false));
            }
            if pi == 0 {
                jobs.push(Job::Row(ri, format!("# {}\n\n- **{}** and *{}*\n", cap_first(&ph), ph, ph), true));
                jobs.push(Job::Row(ri, format!("> so {}\n\n[{}](http://x.y) `{}` {}\n", ph, ph, ph, replace_first_space(&ph, "\n")), true));
            }
        }
        // the correct forms themselves, and the empty text
        for f in row.forms.iter().take(1) {
            jobs.push(Job::Row(ri, format!("We {} it.", f), false));
        }
    }
    run_jobs(sess, &ss, &rows, std::mem::take(&mut jobs), "tables");
    // (P, D) pairs: a trigger of the same rule in both paragraphs
    let seps = ["\n\n", "\n\n\n", " \n\n", "\t\n\n"];
    let reps = if thorough { 6 } else if ctx.prop == "C12" { 3 } else { 1 };
    for (ri, row) in rows.iter().enumerate() {
        for k in 0..reps {
            let a = rng.pick(&row.phrases).clone();
            let b = rng.pick(&row.phrases).clone();
            let (a, b) = if row.table == 2 { (a.to_lowercase(), swap_case(&b)) } else { (a, b) };
            let p = match k % 3 {
                0 => format!("We {} now.{}", a, seps[rng.below(seps.len())]),
                1 => format!("{}.{}", cap_first(&a), seps[rng.below(seps.len())]),
                _ => format!("Well, {}!{}", a, seps[rng.below(seps.len())]),
            };
            let d = match k % 4 {
                0 => format!("{} again, and {}.", cap_first(&b), a),
                1 => b.clone(),
                2 => format!("{} {}", replace_first_space(&b, " \n"), a),
                _ => format!("so {}", b),
            };
            jobs.push(Job::Pair(ri, p, d));
        }
    }
    run_jobs(sess, &ss, &rows, std::mem::take(&mut jobs), "table-pairs");
    // ---- 4. merge_linters! ------------------------------------------------------------------------
    for (w, (_, dir)) in MERGED.iter().enumerate() {
        let mut texts: Vec<String> = vec![];
        if let Ok(rd) = std::fs::read_dir(format!("/repo/harper-core/src/linting/{}", dir)) {
            for e in rd.flatten() {
                if let Ok(src) = std::fs::read_to_string(e.path()) {
                    texts.extend(corpus::string_literals(&src).into_iter().filter(|s| !s.is_empty() && s.len() < 300 && !s.contains('{')));
                }
            }
        }
        texts.sort();
        texts.dedup();
        let lim = if thorough { texts.len() } else { texts.len().min(60) };
        for i in 0..lim {
            jobs.push(Job::Merged(w, texts[i].clone()));
            if i + 1 < texts.len() {
                jobs.push(Job::Merged(w, format!("{} {}", texts[i], texts[i + 1])));
            }
        }
    }
    run_jobs(sess, &ss, &rows, std::mem::take(&mut jobs), "merged");
}

/// stand-alone entry (`hv LEAVES`): the streams of this module only, with the deep leaf scopes
pub fn run(ctx: &Ctx) {
    let mut sess = Session::new(ctx);
    let mut rng = Rng::new(ctx.seed);
    if let Some(v) = replay_input(ctx) {
        replay(&mut sess, &v);
        sess.nontrivial("replay-a");
        sess.nontrivial("replay-b");
        sess.finish("replay of one recorded leaf / generic-rule input", false, json!({}));
        return;
    }
    let c = Ctx { prop: "C01".to_string(), tier: ctx.tier, seed: ctx.seed, out: ctx.out.clone(), replay: None };
    run_into(&mut sess, &c, &mut rng);
    sess.finish(RULE, true, json!({}));
}
