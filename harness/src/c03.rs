//! C03 — every lint points into the text; every suggestion is a well-defined local edit.
//!
//! K: the real `Suggestion::apply` (all three kinds, valid AND invalid spans), `Span::pull_by` +
//!    `push_by` (the rebasing of the chunk cache), `TokenStringExt::span`, and the back-to-front
//!    "fix all" loop, against the Lean model, output for output (`ok <cps>` / `panic`).
//! O: on the real pipeline (all rules on, plain English and Markdown, long-lived `LintGroup`
//!    so cached chunks are replayed at other offsets): every lint has `start ≤ end ≤ len` and
//!    every suggestion applied by the real `apply` equals the splice computed here independently.
use crate::common::*;
use harper_core::linting::{Lint, LintGroup, Linter, Suggestion};
use harper_core::parsers::{Markdown, MarkdownOptions, PlainEnglish};
use harper_core::{Dialect, Document, FstDictionary, Span, Token, TokenKind, TokenStringExt};
use serde_json::{Value, json};

fn cps(cs: &[char]) -> Vec<u32> {
    cs.iter().map(|c| *c as u32).collect()
}

fn chars_of(v: &Value) -> Vec<char> {
    v.as_array()
        .map(|a| a.iter().filter_map(|x| x.as_u64()).filter_map(|x| char::from_u32(x as u32)).collect())
        .unwrap_or_default()
}

fn sug_json(s: &Suggestion) -> Value {
    match s {
        Suggestion::ReplaceWith(r) => json!({"k": "R", "r": cps(r)}),
        Suggestion::InsertAfter(r) => json!({"k": "I", "r": cps(r)}),
        Suggestion::Remove => json!({"k": "D"}),
    }
}

fn sug_of_json(v: &Value) -> Suggestion {
    match v["k"].as_str().unwrap_or("D") {
        "R" => Suggestion::ReplaceWith(chars_of(&v["r"])),
        "I" => Suggestion::InsertAfter(chars_of(&v["r"])),
        _ => Suggestion::Remove,
    }
}

fn sug_show(s: &Suggestion) -> String {
    match s {
        Suggestion::ReplaceWith(r) => format!("ReplaceWith({:?})", r.iter().collect::<String>()),
        Suggestion::InsertAfter(r) => format!("InsertAfter({:?})", r.iter().collect::<String>()),
        Suggestion::Remove => "Remove".to_string(),
    }
}

fn show_ok(cs: &[char]) -> String {
    format!("ok {}", chars_field(cs)).trim_end().to_string()
}

fn apply_op(text: &[char], s: usize, e: usize, sug: &Suggestion) -> String {
    match sug {
        Suggestion::ReplaceWith(r) => format!("apply R {} {} | {} | {}", s, e, chars_field(text), chars_field(r)),
        Suggestion::InsertAfter(r) => format!("apply I {} {} | {} | {}", s, e, chars_field(text), chars_field(r)),
        Suggestion::Remove => format!("apply D {} {} | {}", s, e, chars_field(text)),
    }
}

/// The local edit the property demands, computed without the code under test.
/// Only defined for `s ≤ e ≤ len`.
fn splice(text: &[char], s: usize, e: usize, sug: &Suggestion) -> Vec<char> {
    let mut out: Vec<char> = text[..s].to_vec();
    match sug {
        Suggestion::ReplaceWith(r) => out.extend_from_slice(r),
        Suggestion::InsertAfter(r) => {
            out.extend_from_slice(&text[s..e]);
            out.extend_from_slice(r);
        }
        Suggestion::Remove => {}
    }
    out.extend_from_slice(&text[e..]);
    out
}

fn real_apply(text: &[char], s: usize, e: usize, sug: &Suggestion) -> Result<Vec<char>, String> {
    let mut src = text.to_vec();
    // public fields: spans with start > end can be built (Span::new would panic)
    let span = Span { start: s, end: e };
    guarded(|| sug.apply(span, &mut src)).map(|_| src)
}

/// One (text, span, suggestion): K line (optional) + the property on the real result.
fn eval_apply(sess: &mut Session, text: &[char], s: usize, e: usize, sug: &Suggestion, origin: &str, k_line: bool, ctx: Value) {
    let r = real_apply(text, s, e, sug);
    let case = if k_line {
        let op = apply_op(text, s, e, sug);
        let imp = match &r {
            Ok(out) => show_ok(out),
            Err(_) => "panic".to_string(),
        };
        let c = sess.k(&op, &imp);
        if r.is_err() || r.as_ref().ok().map(|o| o.as_slice()) != Some(text) {
            sess.nontrivial(&op);
        }
        Some(c)
    } else {
        sess.o();
        None
    };
    let kind = match sug {
        Suggestion::ReplaceWith(r) => {
            if s <= e && r.len() == e - s { "replace-in-place" } else { "replace-split" }
        }
        Suggestion::InsertAfter(_) => "insert-after",
        Suggestion::Remove => "remove",
    };
    let valid = s <= e && e <= text.len();
    sess.count(&format!("origin:{}", origin));
    sess.count(&format!("{}:{}:{}", kind, if valid { "in-range" } else { "out-of-range" }, if r.is_ok() { "ok" } else { "panic" }));
    if !valid {
        return; // the property says nothing about spans that do not point into the text
    }
    let input = json!({"kind": "apply", "text": cps(text), "start": s, "end": e, "sug": sug_json(sug), "context": ctx});
    match r {
        Err(m) => sess.fail("apply-panic", format!("Suggestion::apply panicked on an in-range span {}..{} of a text of {} chars: {}", s, e, text.len(), trunc(&m, 120)), input, case),
        Ok(out) => {
            if out != splice(text, s, e, sug) {
                sess.fail(
                    "not-local",
                    format!("applying {} at {}..{} gave {:?}, not the splice {:?}", sug_show(sug), s, e, trunc(&out.iter().collect::<String>(), 80), trunc(&splice(text, s, e, sug).iter().collect::<String>(), 80)),
                    input,
                    case,
                );
            }
        }
    }
}

fn eval_rebase(sess: &mut Session, s: usize, e: usize, c: usize, c2: usize) {
    let r = guarded(|| {
        let mut sp = Span { start: s, end: e };
        sp.pull_by(c); // store relative to the chunk start
        sp.push_by(c2); // replay at a chunk start
        sp
    });
    let imp = match &r {
        Ok(sp) => format!("ok {} {}", sp.start, sp.end),
        Err(_) => "panic".to_string(),
    };
    let op = format!("rebase {} {} {} {}", s, e, c, c2);
    let case = sess.k(&op, &imp);
    sess.count(if r.is_ok() { "rebase:ok" } else { "rebase:panic" });
    if c <= s && s <= e {
        sess.nontrivial(&op);
        let want = Span { start: s - c + c2, end: e - c + c2 };
        if r != Ok(want) {
            sess.fail("rebase", format!("pull_by({}) then push_by({}) of {}..{} gave {}", c, c2, s, e, imp), json!({"kind": "rebase", "v": [s, e, c, c2]}), Some(case));
        }
    }
}

fn eval_tokspan(sess: &mut Session, spans: &[(usize, usize)]) {
    let toks: Vec<Token> = spans.iter().map(|(s, e)| Token::new(Span { start: *s, end: *e }, TokenKind::Space(1))).collect();
    let r = guarded(|| toks.span());
    let imp = match &r {
        Ok(Some(sp)) => format!("ok {} {}", sp.start, sp.end),
        Ok(None) => "ok none".to_string(),
        Err(_) => "panic".to_string(),
    };
    let op = format!("tokspan {}", spans.iter().map(|(s, e)| format!("{}:{}", s, e)).collect::<Vec<_>>().join(" "));
    let op = op.trim_end().to_string();
    let case = sess.k(&op, &imp);
    sess.count("tokspan");
    if spans.len() >= 2 {
        sess.nontrivial(&op);
    }
    // the enclosing-span property on the real output
    if let Ok(Some(sp)) = r {
        let ok = spans.iter().all(|(s, e)| sp.start <= *s.min(e) && *s.max(e) <= sp.end);
        if !ok {
            sess.fail("tokspan", format!("span() = {:?} does not enclose its tokens", sp), json!({"kind": "tokspan", "spans": spans}), Some(case));
        }
    } else if !spans.is_empty() {
        sess.fail("tokspan", "span() of a non-empty slice panicked or returned None".into(), json!({"kind": "tokspan", "spans": spans}), Some(case));
    }
}

type Edit = (usize, usize, Suggestion);

fn edit_field(ed: &Edit) -> String {
    let list = |r: &[char]| r.iter().map(|c| (*c as u32).to_string()).collect::<Vec<_>>().join(",");
    match &ed.2 {
        Suggestion::ReplaceWith(r) => format!("{}:{}:R:{}", ed.0, ed.1, list(r)),
        Suggestion::InsertAfter(r) => format!("{}:{}:I:{}", ed.0, ed.1, list(r)),
        Suggestion::Remove => format!("{}:{}:D:", ed.0, ed.1),
    }
}

/// "Fix all": one suggestion per span, applied by the real `apply` from the last to the first.
fn eval_fixall(sess: &mut Session, text: &[char], edits: &[Edit], origin: &str) {
    let mut src = text.to_vec();
    let r = guarded(|| {
        for (s, e, sug) in edits.iter().rev() {
            sug.apply(Span { start: *s, end: *e }, &mut src);
        }
    });
    let imp = match &r {
        Ok(()) => show_ok(&src),
        Err(_) => "panic".to_string(),
    };
    let fields = edits.iter().map(edit_field).collect::<Vec<_>>().join(" ");
    let op = format!("fixall | {} | {}", chars_field(text), fields);
    let case = sess.k(&op, &imp);
    sess.count(&format!("fixall:{}", origin));
    let sorted_disjoint = edits.iter().all(|(s, e, _)| s <= e && *e <= text.len()) && edits.windows(2).all(|w| w[0].1 <= w[1].0);
    if !sorted_disjoint {
        sess.count("fixall:hypotheses-violated");
        return;
    }
    if edits.len() >= 2 {
        sess.nontrivial(&op);
    }
    // the model's simultaneous substitution must be what the real loop produced
    sess.k(&format!("substall | {} | {}", chars_field(text), fields), &imp);
    // simultaneous substitution, computed here left to right
    let mut want: Vec<char> = vec![];
    let mut pos = 0;
    for (s, e, sug) in edits {
        want.extend_from_slice(&text[pos..*s]);
        match sug {
            Suggestion::ReplaceWith(r) => want.extend_from_slice(r),
            Suggestion::InsertAfter(r) => {
                want.extend_from_slice(&text[*s..*e]);
                want.extend_from_slice(r);
            }
            Suggestion::Remove => {}
        }
        pos = *e;
    }
    want.extend_from_slice(&text[pos..]);
    if r.is_err() || src != want {
        let input = json!({"kind": "fixall", "text": cps(text), "edits": edits.iter().map(|(s, e, g)| json!([s, e, sug_json(g)])).collect::<Vec<_>>()});
        sess.fail("fixall", format!("back-to-front application gave {}, simultaneous substitution is {}", trunc(&imp, 120), trunc(&show_ok(&want), 120)), input, Some(case));
    }
}

// ---------------------------------------------------------------------------------------------
// the real pipeline

#[derive(Clone, Copy, PartialEq, Eq, Debug)]
enum Mode {
    Plain,
    Markdown,
}

impl Mode {
    fn name(self) -> &'static str {
        match self {
            Mode::Plain => "plain",
            Mode::Markdown => "markdown",
        }
    }
}

/// configurations: 0 = every rule on (also those off by default), American; 1 = the curated
/// defaults, American; 2 = every rule on, British
const CONFIGS: [&str; 3] = ["all-rules-on/American", "curated-defaults/American", "all-rules-on/British"];

fn new_group(cfg: usize) -> LintGroup {
    let dialect = if cfg == 2 { Dialect::British } else { Dialect::American };
    let mut group = LintGroup::new_curated(FstDictionary::curated(), dialect);
    group.config.fill_with_curated();
    if cfg != 1 {
        group.set_all_rules_to(Some(true));
    }
    group
}

fn cfg_of_family(f: usize) -> usize {
    match f % 4 {
        2 => 1,
        3 => 2,
        _ => 0,
    }
}

fn make_doc(text: &str, mode: Mode) -> Document {
    let dict = FstDictionary::curated();
    match mode {
        Mode::Plain => Document::new(text, &PlainEnglish, &dict),
        Mode::Markdown => Document::new(text, &Markdown::new(MarkdownOptions::default()), &dict),
    }
}

struct DocRes {
    text: String,
    mode: Mode,
    cfg: usize,
    /// `None`: parsing or `lint()` itself panicked (C01's business)
    lints: Option<Vec<Lint>>,
    /// chunk monitors evaluated on the real token stream: (evaluated, ordered_failed, enclosed_failed)
    chunks: (u64, u64, u64),
    /// the first chunk on which a monitor failed (token spans), for the evidence
    note: Option<String>,
}

fn lint_one(group: &mut LintGroup, cfg: usize, text: &str, mode: Mode, rng: &mut Rng) -> DocRes {
    let mut chunks = (0, 0, 0);
    let mut note = None;
    let lints = guarded(|| {
        let doc = make_doc(text, mode);
        // monitors for the hypotheses of `tokenSpan_first_last` / `tokenSpan_in_chunk`
        for chunk in doc.iter_chunks() {
            if chunk.is_empty() {
                continue; // the empty document is one empty chunk; `span()` is `None` and `lint` skips it
            }
            chunks.0 += 1;
            let wf = chunk.iter().all(|t| t.span.start <= t.span.end);
            let ordered = chunk.windows(2).all(|w| w[0].span.end <= w[1].span.start);
            let cs = chunk.span();
            let first_last = match (chunk.first(), chunk.last(), cs) {
                (Some(f), Some(l), Some(cs)) => cs.start == f.span.start && cs.end == l.span.end,
                _ => false,
            };
            if !(wf && ordered && first_last) {
                chunks.1 += 1;
                if note.is_none() {
                    note = Some(format!("wf={} ordered={} first_last={} span={:?} tokens={:?}", wf, ordered, first_last, cs, chunk.iter().map(|t| (t.span.start, t.span.end)).collect::<Vec<_>>()));
                }
            }
            if let Some(cs) = cs {
                let a = rng.below(chunk.len());
                let b = rng.range(a + 1, chunk.len());
                match chunk[a..b].span() {
                    Some(ls) if cs.start <= ls.start && ls.start <= ls.end && ls.end <= cs.end => {}
                    _ => chunks.2 += 1,
                }
            }
        }
        group.lint(&doc)
    });
    let lints = match lints {
        Ok(l) => Some(l),
        Err(m) => {
            note = Some(format!("PANIC {}", m));
            None
        }
    };
    DocRes { text: text.to_string(), mode, cfg, lints, chunks, note }
}

/// Evaluate the property on the lints of one document.
fn eval_doc(sess: &mut Session, d: &DocRes, k_budget: &mut usize) {
    sess.count(&format!("doc:{}", d.mode.name()));
    sess.count(&format!("doc-config:{}", CONFIGS[d.cfg]));
    if d.mode == Mode::Plain {
        // hypothesis of `tokenSpan_first_last` (an auxiliary theorem; `tokenSpan_in_chunk` and
        // `cachedLint_inbounds` need no ordering)
        sess.monitor("plain English: chunk tokens are well formed, increasing, and span() = (first.start, last.end)", d.chunks.1 == 0);
    } else if d.chunks.1 > 0 {
        // Markdown puts zero-width ParagraphBreak tokens at the START of the last text event of a
        // paragraph, i.e. out of order (C02's business); span() is a min/max, so C03 is unaffected
        sess.count("observation:markdown-doc-with-out-of-order-tokens-in-a-chunk");
    }
    sess.monitor("span() of a sub-slice of a chunk lies within the chunk's span", d.chunks.2 == 0);
    if let (Some(n), Mode::Plain) = (&d.note, d.mode) {
        if sess.stats.get("monitor-notes").copied().unwrap_or(0) < 4 {
            sess.count("monitor-notes");
            sess.sample(json!({"monitor_failed_on": trunc(&d.text, 300), "mode": d.mode.name(), "chunk": trunc(n, 600)}));
        }
    }
    let Some(lints) = &d.lints else {
        sess.count("doc:lint-panicked(skipped, C01)");
        if sess.stats.get("doc:lint-panicked(skipped, C01)").copied().unwrap_or(0) <= 3 {
            sess.sample(json!({"lint_panicked_on": trunc(&d.text, 400), "mode": d.mode.name(), "config": CONFIGS[d.cfg], "panic": d.note.as_ref().map(|n| trunc(n, 300))}));
        }
        return;
    };
    let text: Vec<char> = d.text.chars().collect();
    for l in lints {
        sess.o();
        sess.count(&format!("lint:{:?}", l.lint_kind));
        let ctx = json!({"kind": "lint", "text": d.text, "mode": d.mode.name(), "config": d.cfg, "message": l.message, "lint_kind": format!("{:?}", l.lint_kind), "span": [l.span.start, l.span.end]});
        if !(l.span.start <= l.span.end && l.span.end <= text.len()) {
            sess.fail("span-out-of-range", format!("lint {:?} ({}) has span {}..{} in a text of {} chars", l.lint_kind, trunc(&l.message, 80), l.span.start, l.span.end, text.len()), ctx, None);
            continue;
        }
        if l.span.start == l.span.end {
            sess.count("lint:zero-width");
        }
        for sug in &l.suggestions {
            let k_line = *k_budget > 0;
            if k_line {
                *k_budget -= 1;
            }
            eval_apply(sess, &text, l.span.start, l.span.end, sug, "real-lint", k_line, ctx.clone());
        }
    }
}

const SPLICE: &[char] = &['é', 'ß', '😀', '漢', '\u{301}', '’', '“', '”', '\u{a0}', '—', 'ﬁ', '𝒜'];

/// A family of documents linted in this order by ONE long-lived group: the base text, the base
/// text again (full cache replay), and the base text embedded after different prefixes (cached
/// chunks replayed at another offset), each as plain English and as Markdown.
fn family(rng: &mut Rng, sents: &[String]) -> Vec<(String, Mode)> {
    let n = rng.range(1, 3);
    let mut base: Vec<char> = vec![];
    for i in 0..n {
        if i > 0 {
            base.extend(if rng.chance(1, 5) { "\n\n".chars() } else { " ".chars() });
        }
        base.extend(rng.pick(sents).chars());
    }
    // mutations
    match rng.below(6) {
        0 => {
            let at = rng.below(base.len() + 1);
            base.truncate(at);
        }
        1 | 2 => {
            for _ in 0..rng.range(1, 3) {
                let at = rng.below(base.len() + 1);
                base.insert(at, *rng.pick(SPLICE));
            }
        }
        3 => {
            // markup characters next to words
            let at = rng.below(base.len() + 1);
            let m = *rng.pick(&["**", "_", "`", "[", "](x)", "# ", "> ", "1. ", "\t", "  \n"]);
            for (i, c) in m.chars().enumerate() {
                base.insert((at + i).min(base.len()), c);
            }
        }
        _ => {}
    }
    let base: String = base.into_iter().collect();
    let other = rng.pick(sents).clone();
    let prefixes = [
        format!("{} ", other),
        "Ünïcode 😀 first. ".to_string(),
        "Intro.\n\n".to_string(),
        format!("{}\n\n", other),
    ];
    let mut fam = vec![];
    let first = if rng.chance(1, 2) { Mode::Plain } else { Mode::Markdown };
    let second = if first == Mode::Plain { Mode::Markdown } else { Mode::Plain };
    fam.push((base.clone(), first));
    fam.push((base.clone(), second));
    let p1 = rng.pick(&prefixes).clone();
    fam.push((format!("{}{}", p1, base), Mode::Plain));
    let p2 = rng.pick(&prefixes).clone();
    fam.push((format!("{}{}", p2, base), Mode::Markdown));
    if rng.chance(1, 3) {
        fam.push((base.clone(), first));
    }
    fam
}

fn replay(ctx: &Ctx, v: Value) {
    let mut sess = Session::new(ctx);
    if crate::rules::replay(&mut sess, &v) || crate::leaves::replay(&mut sess, &v) || crate::prules::replay(&mut sess, &v) || crate::rules2::replay(&mut sess, &v) || crate::mrules::replay(&mut sess, &v) {
        sess.nontrivial("replay-a");
        sess.nontrivial("replay-b");
        sess.finish("replay of one recorded rule input", false, json!({}));
        return;
    }
    if w25_replay(&mut sess, ctx, &v) || (v["kind"] == "apply" && w25_replay(&mut sess, ctx, &v["context"])) {
        sess.nontrivial("replay-a");
        sess.nontrivial("replay-b");
        sess.finish("replay of one recorded w25 input (front-end / JS API / language server)", false, json!({}));
        return;
    }
    // an `apply` failure found on a real lint carries its document in `context`
    let v = if v["kind"] == "apply" && v["context"]["kind"] == "lint" { v["context"].clone() } else { v };
    match v["kind"].as_str().unwrap_or("") {
        "apply" => {
            let text = chars_of(&v["text"]);
            let s = v["start"].as_u64().unwrap_or(0) as usize;
            let e = v["end"].as_u64().unwrap_or(0) as usize;
            eval_apply(&mut sess, &text, s, e, &sug_of_json(&v["sug"]), "replay", true, Value::Null);
        }
        "lint" => {
            let text = v["text"].as_str().unwrap_or("").to_string();
            let mode = if v["mode"] == "markdown" { Mode::Markdown } else { Mode::Plain };
            let cfg = (v["config"].as_u64().unwrap_or(0) as usize).min(2);
            let mut group = new_group(cfg);
            let mut rng = Rng::new(ctx.seed);
            let mut budget = 1000;
            // twice: fresh, then from the warm cache
            for _ in 0..2 {
                let d = lint_one(&mut group, cfg, &text, mode, &mut rng);
                eval_doc(&mut sess, &d, &mut budget);
            }
        }
        "fixall" => {
            let text = chars_of(&v["text"]);
            let edits: Vec<Edit> = v["edits"]
                .as_array()
                .map(|a| a.iter().map(|x| (x[0].as_u64().unwrap_or(0) as usize, x[1].as_u64().unwrap_or(0) as usize, sug_of_json(&x[2]))).collect())
                .unwrap_or_default();
            eval_fixall(&mut sess, &text, &edits, "replay");
        }
        "rebase" => {
            let a: Vec<usize> = serde_json::from_value(v["v"].clone()).unwrap_or_default();
            if a.len() == 4 {
                eval_rebase(&mut sess, a[0], a[1], a[2], a[3]);
            }
        }
        "tokspan" => {
            let spans: Vec<(usize, usize)> = serde_json::from_value(v["spans"].clone()).unwrap_or_default();
            eval_tokspan(&mut sess, &spans);
        }
        _ => {}
    }
    sess.nontrivial("replay-a");
    sess.nontrivial("replay-b");
    sess.finish("replay of one recorded input", false, json!({}));
}

fn replacements(alpha: &[char], maxlen: usize) -> Vec<Vec<char>> {
    let mut out: Vec<Vec<char>> = vec![vec![]];
    let mut layer: Vec<Vec<char>> = vec![vec![]];
    for _ in 0..maxlen {
        let mut next = vec![];
        for w in &layer {
            for c in alpha {
                let mut w2 = w.clone();
                w2.push(*c);
                next.push(w2);
            }
        }
        out.extend(next.iter().cloned());
        layer = next;
    }
    out
}

fn all_sugs(alpha: &[char], maxlen: usize) -> Vec<Suggestion> {
    let mut v = vec![Suggestion::Remove];
    for r in replacements(alpha, maxlen) {
        v.push(Suggestion::ReplaceWith(r.clone()));
        v.push(Suggestion::InsertAfter(r));
    }
    v
}

fn random_text(rng: &mut Rng, len: usize) -> Vec<char> {
    let pool: Vec<char> = "abcdefghijklmnopqrstuvwxyz  .,'ABC019\n".chars().chain(SPLICE.iter().copied()).collect();
    (0..len).map(|_| *rng.pick(&pool)).collect()
}

pub fn run(ctx: &Ctx) {
    if let Some(v) = replay_input(ctx) {
        replay(ctx, v);
        return;
    }
    let mut sess = Session::new(ctx);
    let mut rng = Rng::new(ctx.seed);
    let thorough = ctx.tier == Tier::Thorough;

    // ---- 1. corpus: the witnesses of Props/C03.lean and the repository's own unit test
    let abc: Vec<char> = "abc".chars().collect();
    let abcde: Vec<char> = "abcde".chars().collect();
    let x = |s: &str| s.chars().collect::<Vec<char>>();
    for (t, s, e, g) in [
        (&abcde, 1, 3, Suggestion::ReplaceWith(x("xy"))),
        (&abcde, 1, 3, Suggestion::ReplaceWith(x("x"))),
        (&abcde, 1, 3, Suggestion::InsertAfter(x(","))),
        (&abcde, 1, 3, Suggestion::Remove),
        (&abc, 2, 1, Suggestion::ReplaceWith(x("x"))),
        (&abc, 2, 1, Suggestion::Remove),
        (&abc, 2, 1, Suggestion::InsertAfter(x(","))),
        (&abc, 3, 4, Suggestion::ReplaceWith(x("x"))),
        (&abc, 3, 4, Suggestion::ReplaceWith(x("xy"))),
        (&abc, 4, 4, Suggestion::ReplaceWith(x("x"))),
        (&abc, 4, 4, Suggestion::ReplaceWith(x(""))),
        (&abc, 3, 4, Suggestion::InsertAfter(x(","))),
        (&abc, 2, 4, Suggestion::Remove),
        (&abc, 0, 4, Suggestion::Remove),
        (&x("This is a test"), 0, 4, Suggestion::InsertAfter(x(","))),
    ] {
        eval_apply(&mut sess, t, s, e, &g, "corpus", true, Value::Null);
    }
    eval_rebase(&mut sess, 3, 5, 4, 4);
    eval_rebase(&mut sess, 5, 3, 4, 4);
    eval_rebase(&mut sess, 7, 9, 5, 20);
    eval_tokspan(&mut sess, &[(5, 7), (1, 2)]);
    eval_tokspan(&mut sess, &[]);
    eval_fixall(&mut sess, &x("abcdefgh"), &[(1, 3, Suggestion::ReplaceWith(x("XYZ"))), (3, 4, Suggestion::Remove), (6, 7, Suggestion::InsertAfter(x(",")))], "corpus");
    eval_fixall(&mut sess, &x("abcd"), &[(0, 2, Suggestion::Remove), (1, 3, Suggestion::Remove)], "corpus");

    // ---- 2. exhaustive small scope
    // (a) every text of length ≤ L over the alphabet × every span 0 ≤ s,e ≤ len+1 (invalid ones
    //     included) × every suggestion with a replacement of length 0..3 over {b, x}
    let (alpha, maxlen): (Vec<char>, usize) = if thorough { (vec!['a', 'b', 'c'], 6) } else { (vec!['a', 'b'], 5) };
    let sugs = all_sugs(&['b', 'x'], 3);
    for len in 0..=maxlen {
        let total = alpha.len().pow(len as u32);
        for code in 0..total {
            let mut c = code;
            let text: Vec<char> = (0..len)
                .map(|_| {
                    let ch = alpha[c % alpha.len()];
                    c /= alpha.len();
                    ch
                })
                .collect();
            for s in 0..=len + 1 {
                for e in 0..=len + 1 {
                    for g in &sugs {
                        eval_apply(&mut sess, &text, s, e, g, "exhaustive", true, Value::Null);
                    }
                }
            }
        }
    }
    // (b) texts of pairwise distinct characters (the most discriminating for positions)
    let dsugs = all_sugs(&['X'], 3);
    for len in 0..=(if thorough { 10 } else { 8 }) {
        let text: Vec<char> = (0..len).map(|i| (b'a' + i as u8) as char).collect();
        for s in 0..=len + 2 {
            for e in 0..=len + 2 {
                for g in &dsugs {
                    eval_apply(&mut sess, &text, s, e, g, "exhaustive-distinct", true, Value::Null);
                }
            }
        }
    }
    // (c) rebasing: all (s, e, c, c') up to 4 / 5
    let m = if thorough { 5 } else { 4 };
    for s in 0..=m {
        for e in 0..=m {
            for c in 0..=m {
                for c2 in 0..=m {
                    eval_rebase(&mut sess, s, e, c, c2);
                }
            }
        }
    }
    // (d) span() of every list of ≤ 3 tokens with endpoints ≤ 3 (start > end included)
    let mut grid = vec![];
    for s in 0..=3usize {
        for e in 0..=3usize {
            grid.push((s, e));
        }
    }
    for len in 0..=3usize {
        let total = grid.len().pow(len as u32);
        for code in 0..total {
            let mut c = code;
            let l: Vec<(usize, usize)> = (0..len)
                .map(|_| {
                    let v = grid[c % grid.len()];
                    c /= grid.len();
                    v
                })
                .collect();
            eval_tokspan(&mut sess, &l);
        }
    }
    // (e) fix-all: every pair of spans (any order, overlapping, out of range) on "abcd", 3 kinds each
    let fl = if thorough { 4 } else { 3 };
    for len in 0..=fl {
        let text: Vec<char> = (0..len).map(|i| (b'a' + i as u8) as char).collect();
        let kinds = [Suggestion::ReplaceWith(x("X")), Suggestion::InsertAfter(x("YZ")), Suggestion::Remove];
        let mut spans = vec![];
        for s in 0..=len + 1 {
            for e in 0..=len + 1 {
                spans.push((s, e));
            }
        }
        for a in &spans {
            for b in &spans {
                for ka in &kinds {
                    for kb in &kinds {
                        eval_fixall(&mut sess, &text, &[(a.0, a.1, ka.clone()), (b.0, b.1, kb.clone())], "exhaustive");
                    }
                }
            }
        }
    }

    // ---- 3. structured random: long texts incl. non-ASCII
    let nrand = if thorough { 60000 } else { 6000 };
    for _ in 0..nrand {
        let len = if rng.chance(1, 10) { rng.below(4) } else { rng.range(4, 160) };
        let text = random_text(&mut rng, len);
        let (s, e) = match rng.below(10) {
            0 => (rng.below(len + 3), rng.below(len + 3)),           // anything
            1 => (rng.below(len + 1), len + rng.range(1, 3)),        // ends past the text
            2 => {
                let s = rng.below(len + 1);
                (s, s)                                               // zero-width
            }
            _ => {
                let s = rng.below(len + 1);
                (s, s + rng.below((len - s).min(12) + 1))            // in range
            }
        };
        let rlen = if rng.chance(1, 3) { e.saturating_sub(s) } else { rng.below(13) };
        let r = random_text(&mut rng, rlen);
        let g = match rng.below(5) {
            0 => Suggestion::Remove,
            1 => Suggestion::InsertAfter(r),
            _ => Suggestion::ReplaceWith(r),
        };
        eval_apply(&mut sess, &text, s, e, &g, "random", true, Value::Null);
    }
    for _ in 0..(nrand / 3) {
        let big = rng.chance(1, 4);
        let top = if big { 1usize << rng.range(3, 40) } else { 60 };
        let s = rng.below(top);
        let e = if rng.chance(1, 6) { rng.below(top) } else { s + rng.below(top) };
        let c = if rng.chance(1, 5) { rng.below(top) } else { rng.below(s + 1) };
        eval_rebase(&mut sess, s, e, c, rng.below(top));
    }
    for _ in 0..(nrand / 6) {
        let n = rng.range(1, 9);
        let mut l = vec![];
        let mut pos = rng.below(50);
        for _ in 0..n {
            let e = pos + rng.below(9);
            l.push(if rng.chance(1, 12) { (e, pos) } else { (pos, e) });
            pos = if rng.chance(1, 10) { rng.below(60) } else { e + rng.below(3) };
        }
        eval_tokspan(&mut sess, &l);
    }
    for _ in 0..(nrand / 3) {
        // sorted disjoint edits on a random text (the shape remove_overlaps leaves), sometimes broken
        let len = rng.range(0, 80);
        let text = random_text(&mut rng, len);
        let mut edits: Vec<Edit> = vec![];
        let mut pos = 0;
        for _ in 0..rng.range(0, 6) {
            if pos > len {
                break;
            }
            let s = pos + rng.below((len - pos).min(10) + 1);
            let e = s + rng.below((len - s).min(8) + 1);
            let rl = rng.below(6);
            let r = random_text(&mut rng, rl);
            let g = match rng.below(4) {
                0 => Suggestion::Remove,
                1 => Suggestion::InsertAfter(r),
                _ => Suggestion::ReplaceWith(r),
            };
            edits.push((s, e, g));
            pos = e;
        }
        if rng.chance(1, 8) && edits.len() >= 2 {
            edits.swap(0, 1);
        }
        if rng.chance(1, 12) {
            if let Some(last) = edits.last_mut() {
                last.1 += rng.range(1, 3);
            }
        }
        eval_fixall(&mut sess, &text, &edits, "random");
    }

    // ---- 4. O: the real pipeline, all rules on, plain + Markdown, warm caches
    let sents = crate::corpus::sentences();
    let nfam = if thorough { 50000 } else { 4000 };
    let mut frng = rng.fork();
    let families: Vec<Vec<(String, Mode)>> = (0..nfam).map(|_| family(&mut frng, sents)).collect();
    let threads = std::thread::available_parallelism().map(|n| n.get()).unwrap_or(4).clamp(1, 12);
    let seeds: Vec<u64> = (0..threads).map(|_| frng.next()).collect();
    let per_thread: Vec<Vec<DocRes>> = par_map(threads, threads, |t| {
        // one long-lived group per worker; families t, t+T, … in order (deterministic)
        let mut groups: Vec<LintGroup> = (0..CONFIGS.len()).map(new_group).collect();
        let mut r = Rng(seeds[t]);
        let mut out = vec![];
        let mut f = t;
        while f < families.len() {
            let cfg = cfg_of_family(f);
            for (text, mode) in &families[f] {
                out.push(lint_one(&mut groups[cfg], cfg, text, *mode, &mut r));
            }
            f += threads;
        }
        out
    });
    let mut k_budget = if thorough { 40000 } else { 8000 };
    let mut ndocs = 0u64;
    let mut nlints = 0u64;
    for docs in &per_thread {
        for d in docs {
            ndocs += 1;
            nlints += d.lints.as_ref().map(|l| l.len() as u64).unwrap_or(0);
            if ndocs <= 3 {
                sess.sample(json!({"text": trunc(&d.text, 200), "mode": d.mode.name(), "lints": d.lints.as_ref().map(|l| l.iter().map(|x| json!([x.span.start, x.span.end, x.suggestions.len()])).collect::<Vec<_>>())}));
            }
            eval_doc(&mut sess, d, &mut k_budget);
        }
    }
    // real fix-all: per document, remove_overlaps then one suggestion per kept lint, back to front
    let mut nfix = 0;
    for docs in &per_thread {
        for d in docs {
            if let (Some(n), Mode::Plain) = (&d.note, d.mode) {
        if sess.stats.get("monitor-notes").copied().unwrap_or(0) < 4 {
            sess.count("monitor-notes");
            sess.sample(json!({"monitor_failed_on": trunc(&d.text, 300), "mode": d.mode.name(), "chunk": trunc(n, 600)}));
        }
    }
    let Some(lints) = &d.lints else { continue };
            if nfix >= (if thorough { 6000 } else { 1200 }) {
                break;
            }
            let text: Vec<char> = d.text.chars().collect();
            let mut ls: Vec<Lint> = lints.iter().filter(|l| !l.suggestions.is_empty() && l.span.start <= l.span.end && l.span.end <= text.len()).cloned().collect();
            if ls.len() < 2 {
                continue;
            }
            harper_core::remove_overlaps(&mut ls);
            let edits: Vec<Edit> = ls.iter().map(|l| (l.span.start, l.span.end, l.suggestions[0].clone())).collect();
            eval_fixall(&mut sess, &text, &edits, "real-lints");
            nfix += 1;
        }
    }

    // w25: every front-end, more configurations and input families, the JS API, the language server
    w25_run(&mut sess, ctx, &mut rng);

    // concrete rules against Model/Rules.lean: K, in-range and per-rule locality
    crate::rules::run_into(&mut sess, ctx, &mut rng);
    crate::leaves::run_into(&mut sess, ctx, &mut rng);
    crate::prules::run_into(&mut sess, ctx, &mut rng);
    crate::rules2::run_into(&mut sess, ctx, &mut rng);
    crate::mrules::run_into(&mut sess, ctx, &mut rng);
    sess.finish(
        &format!("{} {} {} {} {} {}", crate::rules::RULE, crate::leaves::RULE, crate::prules::RULE, crate::rules2::RULE, crate::mrules::RULE, "corpus (the witnesses of Props/C03.lean); EXHAUSTIVE: every text of length ≤5 over {a,b} (quick) / ≤6 over {a,b,c} (thorough) × every span 0 ≤ s,e ≤ len+1 incl. start > end and end > len × Remove, ReplaceWith and InsertAfter with every replacement of length 0..3 over {b,x}; texts of distinct characters up to length 8/10 × spans up to len+2; all pull_by/push_by with values ≤ 4/5; span() of all lists of ≤3 tokens with endpoints ≤3; all pairs of edits on texts of ≤3/4 distinct characters back to front; RANDOM: texts up to 160 chars incl. non-ASCII with in-range, zero-width, past-the-end and reversed spans; sorted disjoint edit lists. O: documents built from the rule tests' sentences (1–3 concatenated, truncated, multi-byte and markup characters spliced in), each linted with every rule on (American, British) or the curated defaults, as plain English and as Markdown, by long-lived LintGroups, also embedded after prefixes so cached chunks are replayed at another offset: every lint start ≤ end ≤ len, every suggestion applied by the real apply = independent splice; remove_overlaps + back-to-front fix-all = simultaneous substitution; w25: the same two clauses on Document::new + LintGroup::lint for every language id of the server (comment parsers, HTML, Typst, literate Haskell, git commit; also under CollapseIdentifiers / IsolateEnglish) under six configurations (four dialects, merged dictionary with user words, three rules explicitly on, a JSON configuration with false / null / unknown keys), on extra input families (empty and whitespace-only, tabs and space runs, CRLF, lone CR, lints across line breaks, astral / combining / fullwidth, very long words and documents, the same construct many times); harper_wasm::Linter::lint + apply_suggestion (4 dialects, import_words, JSON configuration, plain and Markdown, long-lived linters): span in range and apply_suggestion = splice; harper-ls in process (3 configurations; plaintext, mail, Markdown, HTML, Typst, git commit): every published range lies in the text the client sent and designates one of the lints of harper-core, every quick-fix TextEdit applied by a client = splice of one of their suggestions. Non-trivial = result differs from the input text or panics; distinct by op line."),
        true,
        json!({
            "exhaustive_scope": format!("texts ≤{} over {:?}; spans 0..len+1 (invalid included); replacements of length 0..3 over [b,x]", maxlen, alpha),
            "real_documents": ndocs, "real_lints": nlints, "threads": threads, "families": nfam, "real_fixall_documents": nfix,
        }),
    );
}

// =============================================================================================
// w25 additions — the property at the call sites and in the configurations the streams above
// never reach: every front-end of `frontends::language_ids()` (comment parsers, HTML, Typst,
// literate Haskell, git commit; also wrapped in CollapseIdentifiers / IsolateEnglish), all four
// dialects, a merged dictionary with user words, explicit / null / unknown configuration keys,
// the JS API (`harper_wasm::Linter::lint` + `apply_suggestion`) and the language server
// (published diagnostic ranges + quick-fix `TextEdit`s read the way an LSP client reads them).
// All of it is O-only (no Lean op is involved).
// =============================================================================================
use harper_core::linting::LintGroupConfig;
use harper_core::{CharString, MergedDictionary, MutableDictionary, WordMetadata};
use std::sync::Arc;

const W25_CONFIGS: [&str; 6] = [
    "curated-defaults/American/merged[curated]",
    "all-rules-on/Canadian/merged[curated]",
    "all-rules-on/Australian/merged[curated]",
    "all-rules-on/British/merged[curated,user-words]",
    "three-rules-explicitly-on/American/merged[curated]",
    "json-config(false,null,unknown-key,true)/American/merged[curated,user-words]",
];

/// user words: a misspelling, case variants, apostrophes (straight and curly), non-ASCII, a ligature
const W25_USER_WORDS: &[&str] = &["gardn", "Mornng", "TEH", "o'clockish", "naïve", "don’t-ish", "ﬁx", "recieve"];

const W25_JSON_CONFIG: &str = r#"{"SpellCheck":false,"LongSentences":null,"NoSuchRule":true,"BoringWords":true,"AnA":true}"#;

fn w25_dict(user_words: bool) -> Arc<MergedDictionary> {
    let mut d = MergedDictionary::new();
    d.add_dictionary(FstDictionary::curated());
    if user_words {
        let mut user = MutableDictionary::new();
        user.extend_words(W25_USER_WORDS.iter().map(|w| (w.chars().collect::<CharString>(), WordMetadata::default())));
        d.add_dictionary(Arc::new(user));
    }
    Arc::new(d)
}

fn w25_group(cfg: usize) -> (LintGroup, Arc<MergedDictionary>) {
    let dict = w25_dict(cfg == 3 || cfg == 5);
    let dialect = match cfg {
        1 => Dialect::Canadian,
        2 => Dialect::Australian,
        3 => Dialect::British,
        _ => Dialect::American,
    };
    let mut g = LintGroup::new_curated(dict.clone(), dialect);
    g.config.fill_with_curated();
    match cfg {
        1 | 2 | 3 => g.set_all_rules_to(Some(true)),
        4 => {
            g.set_all_rules_to(Some(false));
            for r in ["SpellCheck", "RepeatedWords", "Spaces"] {
                g.config.set_rule_enabled(r, true);
            }
        }
        5 => {
            if let Ok(mut c) = serde_json::from_str::<LintGroupConfig>(W25_JSON_CONFIG) {
                g.config.merge_from(&mut c);
                g.config.fill_with_curated();
            }
        }
        _ => {}
    }
    (g, dict)
}

/// The property on a list of lints that some entry point reported for `text`: `start ≤ end ≤ len`
/// (class `<prefix>-span-out-of-range`), and every suggestion applied by the real `apply` is the
/// splice (classes `apply-panic` / `not-local` of `eval_apply`). Returns the number of suggestions.
fn w25_eval_lints(sess: &mut Session, text: &str, lints: &[Lint], origin: &str, prefix: &str, ctx: &Value) -> usize {
    let chars: Vec<char> = text.chars().collect();
    let mut nsug = 0;
    for l in lints {
        sess.o();
        sess.count(&format!("{}:lints", origin));
        if !(l.span.start <= l.span.end && l.span.end <= chars.len()) {
            sess.fail(
                &format!("{}-span-out-of-range", prefix),
                format!("{}: lint {:?} ({}) has span {}..{} in a text of {} chars", origin, l.lint_kind, trunc(&l.message, 80), l.span.start, l.span.end, chars.len()),
                ctx.clone(),
                None,
            );
            continue;
        }
        if l.span.start == l.span.end {
            sess.count(&format!("{}:zero-width-lint", origin));
        }
        for sug in &l.suggestions {
            nsug += 1;
            eval_apply(sess, &chars, l.span.start, l.span.end, sug, origin, false, Value::Null);
        }
    }
    nsug
}

/// Input families the sentence-based generator above does not write.
fn w25_texts(rng: &mut Rng, sents: &[String], nrandom: usize, long_doc: usize) -> Vec<(String, &'static str)> {
    let mut v: Vec<(String, &'static str)> = vec![];
    for t in ["", " ", "\n", "\t\t", " \n \n", "\r\n", "\r", "\u{3000}\u{a0}", "\n\n\n"] {
        v.push((t.to_string(), "empty-or-whitespace-only"));
    }
    for t in [
        "Indented with a trailing tab.\t",
        "A space and then a tab. \t",
        "Two  spaces and\ttabs\t\t here  .\t\t",
        "\t\tLeading tabs and the the word.\t \t",
        "Tabs\t\tin the middle and an  apple.",
    ] {
        v.push((t.to_string(), "tabs-and-space-runs"));
    }
    for t in ["This is an test.\r\nThe the cat sat.\r\n", "It is the\r\nthe best.\r\n\r\nAn other  paragraph teh end.\r\n", "It is the\nthe best.\nAnd an\napple a day.\n"] {
        v.push((t.to_string(), "crlf-or-lint-across-a-line-break"));
    }
    for t in ["This is an test.\rThe the cat sat.\r", "It is the\rthe best.\rteh end"] {
        v.push((t.to_string(), "lone-cr"));
    }
    for t in [
        "𝒜 the the 😀😀 teh é\u{301}e\u{301} ｆｕｌｌｗｉｄｔｈ　ｔｅｘｔ ＄５ an apple an apple.",
        "😀😀😀 Ths is an test 𝒜𝒜. It costs 5 $ 3 times a year 😀. Pay me $ 25$ now.",
        "e\u{301}\u{301}\u{301} teh ﬁx ﬁx naïve naïve cafe\u{301} the  the ． ｔｅｈ ｔｈｅ ｔｈｅ",
        "“Teh the the”—an ’apple’… an an\u{a0}an 12th 1th 2st.",
    ] {
        v.push((t.to_string(), "astral-combining-fullwidth"));
    }
    v.push((format!("{} teh {} the the {}", "a".repeat(3000), "Z".repeat(600), "né".repeat(400)), "very-long-words"));
    v.push((format!("{}.", "x".repeat(300)), "very-long-words"));
    v.push(("teh teh teh the the the an apple an apple. ".repeat(20), "same-construct-many-times"));
    v.push(("This is an test. ".repeat(30), "same-construct-many-times"));
    {
        let mut t = String::new();
        for i in 0..long_doc {
            t.push_str(&sents[rng.below(sents.len())]);
            t.push_str(if i % 7 == 6 { "\n\n" } else { " " });
        }
        v.push((t, "very-long-document"));
    }
    const JOIN: &[&str] = &["\r\n", "\r", "\n", "\n\n", "\t", "  ", " 😀 ", "\u{3000}", " "];
    const TAIL: &[&str] = &["", "\t", " \t", "\r\n", "\r", "  ", "\n", " teh", " It is recieve", " an apple an apple"];
    for _ in 0..nrandom {
        let mut t = String::new();
        let k = rng.range(1, 4);
        let first = rng.pick(sents).clone();
        for j in 0..k {
            if j > 0 {
                t.push_str(*rng.pick(JOIN));
            }
            // the same sentence several times, or different ones
            if rng.chance(1, 3) { t.push_str(&first) } else { t.push_str(rng.pick(sents).as_str()) }
        }
        t.push_str(*rng.pick(TAIL));
        if rng.chance(1, 3) {
            let mut cs: Vec<char> = t.chars().collect();
            for _ in 0..rng.range(1, 3) {
                let at = rng.below(cs.len() + 1);
                cs.insert(at, *rng.pick(SPLICE));
            }
            t = cs.into_iter().collect();
        }
        v.push((t, "random-joined-sentences"));
    }
    v
}

fn w25_wrap_name(w: crate::frontends::Wrap) -> &'static str {
    match w {
        crate::frontends::Wrap::None => "none",
        crate::frontends::Wrap::Collapse => "collapse-identifiers",
        crate::frontends::Wrap::Isolate => "isolate-english",
    }
}

fn w25_wrap_of(s: &str) -> crate::frontends::Wrap {
    match s {
        "collapse-identifiers" => crate::frontends::Wrap::Collapse,
        "isolate-english" => crate::frontends::Wrap::Isolate,
        _ => crate::frontends::Wrap::None,
    }
}

/// One document of language `id` through `Document::new` + a long-lived `LintGroup` of configuration `cfg`.
fn w25_eval_frontend_doc(sess: &mut Session, group: &mut LintGroup, dict: &Arc<MergedDictionary>, cfg: usize, id: &str, ilt: bool, wrap: crate::frontends::Wrap, text: &str, fam: &str) {
    let Some(parser) = crate::frontends::wrapped(id, ilt, wrap) else {
        sess.count("frontend:no-parser-for-id");
        return;
    };
    sess.count(&format!("frontend:{}", id));
    sess.count(&format!("frontend-wrap:{}", w25_wrap_name(wrap)));
    sess.count(&format!("frontend-config:{}", W25_CONFIGS[cfg]));
    sess.count(&format!("frontend-family:{}", fam));
    let lints = guarded(|| {
        let doc = Document::new(text, &parser, dict);
        group.lint(&doc)
    });
    let Ok(lints) = lints else {
        sess.count("frontend:lint-panicked(skipped, C01)");
        return;
    };
    let ctx = json!({"kind": "w25-frontend", "lang": id, "ignore_link_title": ilt, "wrap": w25_wrap_name(wrap), "config": cfg, "text": text});
    let n = w25_eval_lints(sess, text, &lints, "frontend-lint", "frontend", &ctx);
    if n > 0 {
        sess.nontrivial(&format!("frontend|{}|{}|{}", id, cfg, text));
    }
}

fn w25_frontends_stream(sess: &mut Session, rng: &mut Rng, sents: &[String], texts: &[(String, &'static str)], styles: usize) {
    use crate::frontends::Wrap;
    let mut groups: Vec<(LintGroup, Arc<MergedDictionary>)> = (0..W25_CONFIGS.len()).map(w25_group).collect();
    // (a) the new input families as plain English and as Markdown (both link-title options), configurations in rotation
    for (i, (text, fam)) in texts.iter().enumerate() {
        for (j, (id, ilt)) in [("plaintext", false), ("markdown", false), ("markdown", true)].iter().enumerate() {
            let cfg = (i + j) % W25_CONFIGS.len();
            let (g, d) = &mut groups[cfg];
            w25_eval_frontend_doc(sess, g, d, cfg, id, *ilt, Wrap::None, text, fam);
        }
    }
    // (b) every language id of the server's table, prose embedded in the language's syntax
    let typos = ["teh", "the the", "an apple an apple", "recieve", "gardn", "5 $ 3", "Ths is an test", "naïve  😀 teh"];
    let ids = crate::frontends::language_ids();
    let mut n = 0usize;
    for id in &ids {
        for style in 0..styles {
            let pre = if rng.chance(1, 2) { "Ünïcode 😀 𝒜 first. " } else { "" };
            let tail = if rng.chance(1, 2) { " It is teh" } else { "" };
            let mut prose = format!("{}{} {} {}{}", pre, rng.pick(sents), rng.pick(&typos), rng.pick(sents), tail);
            if rng.chance(1, 3) {
                prose.push('\n');
                prose.push_str(rng.pick(sents).as_str());
            }
            let mut text = crate::frontends::embed(id, &prose, style);
            if rng.chance(1, 3) {
                let mut cs: Vec<char> = text.chars().collect();
                let at = rng.below(cs.len() + 1);
                cs.insert(at, *rng.pick(SPLICE));
                text = cs.into_iter().collect();
            }
            if rng.chance(1, 4) {
                text = text.replace('\n', "\r\n");
            }
            let wrap = [Wrap::None, Wrap::None, Wrap::Collapse, Wrap::Isolate][(n + n / styles.max(1)) % 4];
            let cfg = n % W25_CONFIGS.len();
            let (g, d) = &mut groups[cfg];
            w25_eval_frontend_doc(sess, g, d, cfg, id, n % 2 == 1, wrap, &text, "embedded-in-language-syntax");
            // the same document again by the same group (cache replay), then behind a first line
            if style == 0 {
                w25_eval_frontend_doc(sess, g, d, cfg, id, n % 2 == 1, wrap, &text, "embedded-in-language-syntax");
            }
            n += 1;
        }
    }
}

// ---- the JS API

fn w25_js_linter(di: usize) -> harper_wasm::Linter {
    use harper_wasm::{Dialect as WDialect, Linter as WLinter};
    let dialect = [WDialect::American, WDialect::British, WDialect::Australian, WDialect::Canadian][di % 4];
    let mut js = WLinter::new(dialect);
    match di % 4 {
        1 => js.import_words(W25_USER_WORDS.iter().map(|w| w.to_string()).collect()),
        2 => {
            let _ = js.set_lint_config_from_json(W25_JSON_CONFIG.to_string());
        }
        3 => {
            // every rule explicitly on
            if let Ok(Value::Object(m)) = serde_json::from_str::<Value>(&js.get_lint_descriptions_as_json()) {
                let all: serde_json::Map<String, Value> = m.keys().map(|k| (k.clone(), Value::Bool(true))).collect();
                let _ = js.set_lint_config_from_json(Value::Object(all).to_string());
            }
        }
        _ => {}
    }
    js
}

const W25_JS_SETUPS: [&str; 4] = ["American/default", "British/import_words", "Australian/json-config(false,null,unknown-key,true)", "Canadian/every-rule-true"];

/// One text through `harper_wasm::Linter::lint` and every suggestion through `apply_suggestion`.
fn w25_eval_js_doc(sess: &mut Session, js: &mut harper_wasm::Linter, di: usize, text: &str, markdown: bool) {
    use harper_wasm::{Language, SuggestionKind};
    let lang = if markdown { Language::Markdown } else { Language::Plain };
    let chars: Vec<char> = text.chars().collect();
    sess.count(&format!("js:{}:{}", if markdown { "markdown" } else { "plain" }, W25_JS_SETUPS[di % 4]));
    let Ok(out) = guarded(|| js.lint(text.to_string(), lang)) else {
        sess.count("js:lint-panicked(skipped, C01)");
        return;
    };
    let ctx = json!({"kind": "w25-js", "setup": di % 4, "markdown": markdown, "text": text});
    let mut nsug = 0;
    for l in &out {
        sess.o();
        sess.count("js:lints");
        let sp = l.span();
        if !(sp.start <= sp.end && sp.end <= chars.len()) {
            sess.fail("js-span-out-of-range", format!("harper_wasm::Linter::lint: lint ({}) has span {}..{} in a text of {} chars", trunc(&l.message(), 80), sp.start, sp.end, chars.len()), ctx.clone(), None);
            continue;
        }
        for s in l.suggestions() {
            let repl: Vec<char> = s.get_replacement_text().chars().collect();
            let sug = match s.kind() {
                SuggestionKind::Replace => Suggestion::ReplaceWith(repl),
                SuggestionKind::InsertAfter => Suggestion::InsertAfter(repl),
                SuggestionKind::Remove => Suggestion::Remove,
            };
            let want: String = splice(&chars, sp.start, sp.end, &sug).into_iter().collect();
            sess.o();
            nsug += 1;
            sess.count("js:suggestions-applied");
            match guarded(|| js.apply_suggestion(text.to_string(), l, &s)) {
                Ok(Ok(got)) if got == want => {}
                Ok(Ok(got)) => sess.fail(
                    "js-fix-not-local",
                    format!("harper_wasm apply_suggestion of {} at {}..{} gave {:?}, not the splice {:?}", sug_show(&sug), sp.start, sp.end, trunc(&got, 100), trunc(&want, 100)),
                    ctx.clone(),
                    None,
                ),
                Ok(Err(m)) => sess.fail("js-apply-failed", format!("harper_wasm apply_suggestion of {} at {}..{} failed: {}", sug_show(&sug), sp.start, sp.end, trunc(&m, 100)), ctx.clone(), None),
                Err(m) => sess.fail("js-apply-failed", format!("harper_wasm apply_suggestion of {} at {}..{} panicked: {}", sug_show(&sug), sp.start, sp.end, trunc(&m, 100)), ctx.clone(), None),
            }
        }
    }
    if nsug > 0 {
        sess.nontrivial(&format!("js|{}|{}|{}", di % 4, markdown, text));
    }
}

fn w25_wasm_stream(sess: &mut Session, texts: &[(String, &'static str)]) {
    let mut linters: Vec<harper_wasm::Linter> = (0..4).map(w25_js_linter).collect();
    for (i, (text, fam)) in texts.iter().enumerate() {
        if text.chars().count() > 6000 {
            continue; // `apply_suggestion` re-parses the text for every suggestion
        }
        let di = i % 4;
        sess.count(&format!("js-family:{}", fam));
        for markdown in [false, true] {
            w25_eval_js_doc(sess, &mut linters[di], di, text, markdown);
        }
        // the same long-lived linter on the text behind a first paragraph (cached chunks at another offset)
        if i % 3 == 0 {
            w25_eval_js_doc(sess, &mut linters[di], di, &format!("Ünïcode 😀 first.\n\n{}", text), i % 2 == 0);
        }
    }
}

// ---- the language server

/// `(start, end)` of every line the way an LSP client counts them (terminators `\n`, `\r\n`, `\r`)
fn w25_client_lines(src: &[char]) -> Vec<(usize, usize)> {
    let mut out = vec![];
    let mut start = 0;
    let mut i = 0;
    while i < src.len() {
        if src[i] == '\r' && i + 1 < src.len() && src[i + 1] == '\n' {
            out.push((start, i));
            i += 2;
            start = i;
        } else if src[i] == '\n' || src[i] == '\r' {
            out.push((start, i));
            i += 1;
            start = i;
        } else {
            i += 1;
        }
    }
    out.push((start, src.len()));
    out
}

/// The character offset of an LSP position, `None` if the position is not in the text (line past
/// the last one, column past the end of the line, or column inside a surrogate pair).
fn w25_client_offset(src: &[char], line: u32, character: u32) -> Option<usize> {
    let lines = w25_client_lines(src);
    let &(s, e) = lines.get(line as usize)?;
    let mut units = 0usize;
    let mut k = s;
    while units < character as usize {
        if k >= e {
            return None;
        }
        units += src[k].len_utf16();
        k += 1;
    }
    if units == character as usize { Some(k) } else { None }
}

struct W25Server {
    name: &'static str,
    cfg: Value,
    dialect: Dialect,
    linters: &'static str,
    ilt: bool,
}

fn w25_server_scenarios() -> Vec<W25Server> {
    vec![
        W25Server { name: "default", cfg: json!({"harper-ls": {}}), dialect: Dialect::American, linters: "{}", ilt: false },
        W25Server {
            name: "British+linters(false,null,true)",
            cfg: json!({"harper-ls": {"dialect": "British", "linters": {"SentenceCapitalization": false, "LongSentences": null, "BoringWords": true}}}),
            dialect: Dialect::British,
            linters: r#"{"SentenceCapitalization":false,"LongSentences":null,"BoringWords":true}"#,
            ilt: false,
        },
        W25Server {
            name: "Australian+IgnoreLinkTitle",
            cfg: json!({"harper-ls": {"dialect": "Australian", "markdown": {"IgnoreLinkTitle": true}}}),
            dialect: Dialect::Australian,
            linters: "{}",
            ilt: true,
        },
    ]
}

/// harper-core's lints for `text` under the server's configuration (empty user and file dictionaries)
fn w25_core_lints(sc: &W25Server, lang: &str, text: &str) -> Option<Vec<Lint>> {
    let dict = w25_dict(false);
    let parser = crate::frontends::parser_for(lang, sc.ilt)?;
    let cfg: LintGroupConfig = serde_json::from_str(sc.linters).ok()?;
    guarded(|| {
        let doc = Document::new(text, &parser, &dict);
        let mut g = LintGroup::new_curated(dict.clone(), sc.dialect).with_lint_config(cfg);
        g.config.fill_with_curated();
        g.lint(&doc)
    })
    .ok()
}

/// One document through the real `Backend`: every published diagnostic must be a range IN the
/// client's text with start ≤ end, must designate the characters (and carry the message) of one of
/// harper-core's lints for that text, and every quick fix offered at its start, applied by a client
/// to ITS text, must be the splice of one of those lints' suggestions.
fn w25_eval_server_doc(sess: &mut Session, ls: &mut crate::lsclient::LsSession, sc: &W25Server, si: usize, n: usize, lang: &str, text: &str, close: bool) -> Result<(), crate::lsclient::LsError> {
    use crate::lsclient::{did_close, did_open};
    use tower_lsp::lsp_types::{CodeActionOrCommand, Diagnostic, Url};
    let ext = match lang {
        "markdown" => "md",
        "html" => "html",
        "typst" => "typ",
        _ => "txt",
    };
    let uri = format!("file:///c03-server/s{}/doc{}.{}", si, n, ext);
    let url = Url::parse(&uri).unwrap();
    let src: Vec<char> = text.chars().collect();
    let ctx = json!({"kind": "w25-server", "scenario": si, "lang": lang, "text": text});
    sess.count(&format!("server:{}:{}", sc.name, lang));
    let Some(lints) = w25_core_lints(sc, lang, text) else {
        sess.count("server:core-lint-panicked(skipped, C01)");
        return Ok(());
    };
    ls.notify("textDocument/didOpen", did_open(&uri, lang, text))?;
    ls.quiesce(&sc.cfg)?;
    let Some(publ) = ls.last_publication(&uri).cloned() else {
        sess.o();
        sess.fail("server-no-publication", "didOpen was not answered by a publishDiagnostics".into(), ctx, None);
        return Ok(());
    };
    let diags: Vec<Diagnostic> = serde_json::from_value(publ).unwrap_or_default();
    let want: Vec<(usize, usize, &str)> = lints.iter().filter(|l| l.span.start <= l.span.end && l.span.end <= src.len()).map(|l| (l.span.start, l.span.end, l.message.as_str())).collect();
    let mut fixes: std::collections::HashSet<Vec<char>> = std::collections::HashSet::new();
    for l in &lints {
        if l.span.start <= l.span.end && l.span.end <= src.len() {
            for sg in &l.suggestions {
                fixes.insert(splice(&src, l.span.start, l.span.end, sg));
            }
        }
    }
    if lints.iter().any(|l| src[l.span.start.min(src.len())..l.span.end.min(src.len())].contains(&'\n')) {
        sess.count("server:doc-with-a-lint-across-a-line-break");
    }
    let mut nfix = 0;
    for d in &diags {
        sess.o();
        sess.count("server:diagnostics");
        let a = w25_client_offset(&src, d.range.start.line, d.range.start.character);
        let b = w25_client_offset(&src, d.range.end.line, d.range.end.character);
        let (Some(a), Some(b)) = (a, b) else {
            sess.fail(
                "server-range-outside-text",
                format!("harper-ls ({}) published {}:{}-{}:{} ({}), which is not a range of the text the client sent", sc.name, d.range.start.line, d.range.start.character, d.range.end.line, d.range.end.character, trunc(&d.message, 60)),
                ctx.clone(),
                None,
            );
            continue;
        };
        if a > b {
            sess.fail("server-range-outside-text", format!("harper-ls ({}) published a range whose start {} is behind its end {}", sc.name, a, b), ctx.clone(), None);
            continue;
        }
        if !want.contains(&(a, b, d.message.as_str())) {
            sess.fail(
                "server-lint-misplaced",
                format!("harper-ls ({}) published [{},{}) {:?}; harper-core's lints for that text are {:?}", sc.name, a, b, trunc(&d.message, 60), want.iter().take(6).map(|w| (w.0, w.1)).collect::<Vec<_>>()),
                ctx.clone(),
                None,
            );
            continue;
        }
        if a == b {
            sess.count("server:zero-width-diagnostic(no code-action request)");
            continue;
        }
        let params = json!({"textDocument": {"uri": uri}, "range": {"start": {"line": d.range.start.line, "character": d.range.start.character}, "end": {"line": d.range.start.line, "character": d.range.start.character}}, "context": {"diagnostics": []}});
        let resp = ls.request_sync("textDocument/codeAction", params, &sc.cfg)?;
        let acts: Vec<CodeActionOrCommand> = serde_json::from_value(resp["result"].clone()).unwrap_or_default();
        for act in &acts {
            let CodeActionOrCommand::CodeAction(ca) = act else { continue };
            let Some(edits) = ca.edit.as_ref().and_then(|we| we.changes.as_ref()).and_then(|ch| ch.get(&url)) else { continue };
            for te in edits {
                sess.o();
                nfix += 1;
                sess.count("server:quick-fixes-applied");
                let ea = w25_client_offset(&src, te.range.start.line, te.range.start.character);
                let eb = w25_client_offset(&src, te.range.end.line, te.range.end.character);
                let applied = match (ea, eb) {
                    (Some(ea), Some(eb)) if ea <= eb => {
                        let mut out: Vec<char> = src[..ea].to_vec();
                        out.extend(te.new_text.chars());
                        out.extend_from_slice(&src[eb..]);
                        Some(out)
                    }
                    _ => None,
                };
                match applied {
                    None => sess.fail(
                        "server-range-outside-text",
                        format!("harper-ls ({}) quick fix {:?} edits {}:{}-{}:{}, which is not a range of the text the client sent", sc.name, ca.title, te.range.start.line, te.range.start.character, te.range.end.line, te.range.end.character),
                        ctx.clone(),
                        None,
                    ),
                    Some(out) if !fixes.contains(&out) => sess.fail(
                        "server-fix-not-local",
                        format!("harper-ls ({}) quick fix {:?} at [{},{}) applied by a client gives {:?}, which is not the splice of any suggestion of harper-core's lints", sc.name, ca.title, a, b, trunc(&out.iter().collect::<String>(), 100)),
                        ctx.clone(),
                        None,
                    ),
                    _ => {}
                }
            }
        }
    }
    if nfix > 0 {
        sess.nontrivial(&format!("server|{}|{}|{}", si, lang, text));
    }
    if close {
        ls.notify("textDocument/didClose", did_close(&uri))?;
    } else {
        sess.count("server:document-left-open(others are opened and re-opened next to it)");
    }
    Ok(())
}

fn w25_server_texts(rng: &mut Rng, sents: &[String], n: usize) -> Vec<(String, String)> {
    let mut v: Vec<(String, String)> = vec![];
    for (lang, t) in [
        ("plaintext", "It is the\nthe best.\n"),
        ("plaintext", "😀 𝒜 Ths is an test.\nIt is the\nthe best of the\nthe lot.\n"),
        ("markdown", "# Ths is a tset\n\nIt is the\nthe best, é\u{301} and an\napple.\n"),
        ("plaintext", "It is the\r\nthe best.\r\nAn other  paragraph teh end.\r\n"),
        ("mail", "Two  spaces and an apple an apple.\n\nteh end\n"),
        ("git-commit", "Fix teh bug\n\nThis is an test of the\nthe parser.\n# Please enter the commit message\n"),
        ("html", "<html><body><p>Ths is an test of the\nthe parser 😀.</p>\n<p title=\"é\">An other teh.</p></body></html>\n"),
        ("typst", "= Heading\nThs is an test of the\nthe parser 😀.\n#let x = 1\nAn other teh.\n"),
        ("markdown", "A [link teh](http://x.y \"titel text\") and the\nthe end.\n\n- item teh\n- 😀 an apple an apple\n"),
    ] {
        v.push((lang.to_string(), t.to_string()));
    }
    for i in 0..n {
        let lang = ["plaintext", "markdown", "plaintext", "html", "typst", "git-commit"][i % 6];
        let mut words: Vec<String> = vec![];
        for _ in 0..rng.range(1, 3) {
            words.extend(rng.pick(sents).split(' ').map(|w| w.to_string()));
        }
        // a repeated word, so that one lint probably crosses the line break put between the two
        let at = rng.below(words.len());
        let w = words[at].clone();
        words.insert(at, w);
        let mut t = String::new();
        if i % 4 == 1 {
            t.push_str("😀 𝒜 ");
        }
        for (k, w) in words.iter().enumerate() {
            if k > 0 {
                t.push_str(if k == at + 1 || rng.chance(1, 6) { if i % 5 == 2 { "\r\n" } else { "\n" } } else { " " });
            }
            t.push_str(w);
        }
        t.push('\n');
        let text = match lang {
            "html" => format!("<p>{}</p>\n", t),
            "typst" => format!("= Heading\n{}#let x = 1\n", t),
            "git-commit" => format!("Subject teh line\n\n{}# comment\n", t),
            _ => t,
        };
        v.push((lang.to_string(), text));
    }
    v
}

fn w25_server_stream(sess: &mut Session, ctx: &Ctx, rng: &mut Rng, sents: &[String], n: usize) {
    use crate::lsclient::{LsError, LsSession, set_home};
    set_home(&ctx.out.join("c03-home"));
    let texts = w25_server_texts(rng, sents, n);
    for (si, sc) in w25_server_scenarios().iter().enumerate() {
        let r: Result<(), LsError> = (|| {
            let mut ls = LsSession::start()?;
            ls.initialize(&sc.cfg)?;
            for (k, (lang, t)) in texts.iter().enumerate() {
                // every scenario sees the fixed texts; the random ones are dealt round robin
                if k >= 9 && k % 3 != si {
                    continue;
                }
                // harper-ls ends lines only at '\n' (recorded for C08 as c08-lone-cr): not this stream's business
                let cs: Vec<char> = t.chars().collect();
                if (0..cs.len()).any(|j| cs[j] == '\r' && (j + 1 >= cs.len() || cs[j + 1] != '\n')) {
                    sess.count("server:text-with-lone-CR(skipped, C08)");
                    continue;
                }
                // two of three documents stay open while the next ones are handled; every fourth is sent a second
                // time under the same URI behind a first paragraph (the document's long-lived LintGroup replays its cache)
                w25_eval_server_doc(sess, &mut ls, sc, si, k, lang, t, k % 3 == 0)?;
                if k % 4 == 1 && matches!(lang.as_str(), "plaintext" | "markdown" | "mail") {
                    sess.count("server:same-uri-sent-again-behind-a-first-paragraph");
                    w25_eval_server_doc(sess, &mut ls, sc, si, k, lang, &format!("Ünïcode 😀 first.\n\n{}", t), true)?;
                }
            }
            ls.shutdown(&sc.cfg)?;
            Ok(())
        })();
        sess.monitor("the in-process language server completed the C03 session", r.is_ok());
        if let Err(e) = r {
            sess.count(&format!("server:session-error:{}", e.to_string().chars().take(60).collect::<String>()));
        }
    }
}

/// replay of the inputs recorded by the w25 streams; `true` if `v` was one of them
fn w25_replay(sess: &mut Session, ctx: &Ctx, v: &Value) -> bool {
    let text = v["text"].as_str().unwrap_or("").to_string();
    match v["kind"].as_str().unwrap_or("") {
        "w25-frontend" => {
            let cfg = (v["config"].as_u64().unwrap_or(0) as usize).min(W25_CONFIGS.len() - 1);
            let (mut g, d) = w25_group(cfg);
            for _ in 0..2 {
                w25_eval_frontend_doc(sess, &mut g, &d, cfg, v["lang"].as_str().unwrap_or("plaintext"), v["ignore_link_title"].as_bool().unwrap_or(false), w25_wrap_of(v["wrap"].as_str().unwrap_or("")), &text, "replay");
            }
            true
        }
        "w25-js" => {
            let di = v["setup"].as_u64().unwrap_or(0) as usize;
            let mut js = w25_js_linter(di);
            for _ in 0..2 {
                w25_eval_js_doc(sess, &mut js, di, &text, v["markdown"].as_bool().unwrap_or(false));
            }
            true
        }
        "w25-server" => {
            use crate::lsclient::{LsError, LsSession, set_home};
            set_home(&ctx.out.join("c03-home"));
            let scs = w25_server_scenarios();
            let si = (v["scenario"].as_u64().unwrap_or(0) as usize).min(scs.len() - 1);
            let sc = &scs[si];
            let r: Result<(), LsError> = (|| {
                let mut ls = LsSession::start()?;
                ls.initialize(&sc.cfg)?;
                w25_eval_server_doc(sess, &mut ls, sc, si, 0, v["lang"].as_str().unwrap_or("plaintext"), &text, true)?;
                ls.shutdown(&sc.cfg)?;
                Ok(())
            })();
            sess.monitor("the in-process language server completed the C03 session", r.is_ok());
            true
        }
        _ => false,
    }
}

/// all w25 streams, called from `run`
fn w25_run(sess: &mut Session, ctx: &Ctx, rng: &mut Rng) {
    let thorough = ctx.tier == Tier::Thorough;
    let sents = crate::corpus::sentences();
    let mut r = rng.fork();
    let texts = w25_texts(&mut r, sents, if thorough { 1500 } else { 120 }, if thorough { 400 } else { 60 });
    w25_frontends_stream(sess, &mut r, sents, &texts, if thorough { 12 } else { 4 });
    let js_texts: Vec<(String, &'static str)> = texts.iter().take(if thorough { 600 } else { 75 }).cloned().collect();
    w25_wasm_stream(sess, &js_texts);
    w25_server_stream(sess, ctx, &mut r, sents, if thorough { 240 } else { 24 });
}
